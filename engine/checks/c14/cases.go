package main

// Enumeration of the C14 input domain. Parent and child processes build the
// same deterministic case list; a case is addressed by its global id.

import (
	"encoding/binary"
	"fmt"
	"math"
	"strings"

	"github.com/golang/protobuf/proto"
	"github.com/uber/kraken/core"
	"github.com/uber/kraken/gen/go/proto/p2p"
)

// The blob every victim torrent is built from: 3 pieces, piece length 4, last
// piece 2 bytes.
var (
	blob     = []byte("ABCDEFGHIJ")
	pieceLen = int32(4)
	nPieces  = 3
)

func plen(i int) int32 {
	if i < 0 || i >= nPieces {
		return 0
	}
	if i == nPieces-1 {
		return int32(len(blob)) - pieceLen*int32(i)
	}
	return pieceLen
}

func pieceBytes(i int) []byte {
	s := int(pieceLen) * i
	return blob[s : s+int(plen(i))]
}

// wmsg is one framed message as the attacker writes it: length prefix (always
// correct unless Prefix is set), Body, then Payload raw bytes.
type wmsg struct {
	Body    []byte `json:"body"`
	Payload []byte `json:"payload,omitempty"`
	Prefix  *uint32 `json:"prefix,omitempty"` // overrides the length prefix (prefix family only)
	Desc    string `json:"desc"`
	Type    string `json:"type"` // message kind, for outcome classes and allocation fingerprints

	// Oracle annotations (what the statement allows the victim to do).
	ValidReq   int `json:"-"` // index of a well-formed full-piece request, else -1
	ValidWrite int `json:"-"` // index of a well-formed full-piece payload with the blob's bytes, else -1
}

// tcase is one enumerated input.
type tcase struct {
	ID     int64  `json:"id"`
	Family string `json:"family"`
	Victim string `json:"victim,omitempty"` // agent | origin | "" (conn only)
	Desc   string `json:"desc"`
	Kind   string `json:"kind"`
	HS     []byte `json:"handshake,omitempty"` // handshake body; nil = honest handshake
	HSDesc string `json:"handshake_desc,omitempty"`
	Msgs   []wmsg `json:"msgs,omitempty"`
	Policy string `json:"policy,omitempty"`
	// MustEnd: the handshake carries a bitfield of the wrong size (see hsCase).
	MustEnd bool `json:"must_end,omitempty"`

	// Scheduler-level families (sched, sched+msg) only.
	Dir        string `json:"direction,omitempty"`   // out: the victim dials the hostile peer; in: the hostile peer dials the victim
	Pieces     int    `json:"pieces,omitempty"`      // number of pieces of the victim's torrent
	PeerOrigin bool   `json:"peer_origin,omitempty"` // out: the tracker handed the hostile peer out as an origin
	Start      string `json:"start,omitempty"`       // piece0: the agent holds piece 0; empty: no piece
}

type family struct {
	name  string
	count int64
	chunk int64
	get   func(i int64) tcase
}

func pow256(l int) int64 { return int64(1) << (8 * uint(l)) }

func bodiesUpTo(l int) int64 {
	var n int64
	for k := 0; k <= l; k++ {
		n += pow256(k)
	}
	return n
}

func bodyAt(i int64) []byte {
	for l := 0; ; l++ {
		c := pow256(l)
		if i < c {
			b := make([]byte, l)
			for k := l - 1; k >= 0; k-- {
				b[k] = byte(i)
				i >>= 8
			}
			return b
		}
		i -= c
	}
}

func mustMarshal(m *p2p.Message) []byte {
	b, err := proto.Marshal(m)
	if err != nil {
		panic(err)
	}
	return b
}

func frame(m wmsg) []byte {
	l := uint32(len(m.Body))
	if m.Prefix != nil {
		l = *m.Prefix
	}
	out := make([]byte, 4, 4+len(m.Body)+len(m.Payload))
	binary.BigEndian.PutUint32(out, l)
	out = append(out, m.Body...)
	return append(out, m.Payload...)
}

// ---------------------------------------------------------------- grids

var (
	idxGrid = []int32{math.MinInt32, -1, 0, 1, int32(nPieces) - 1, int32(nPieces), int32(nPieces) + 1, math.MaxInt32}
	lenGrid = []int32{math.MinInt32, -1, 0, 1, 2, pieceLen - 1, pieceLen, pieceLen + 1, 1 << 26, math.MaxInt32}
)

func offGrid(thorough bool) []int32 {
	if thorough {
		return []int32{math.MinInt32, -1, 0, 1, pieceLen - 1, pieceLen, pieceLen + 1, math.MaxInt32}
	}
	return []int32{-1, 0, 1, math.MaxInt32}
}

func fullPiece(idx, off, ln int32) bool {
	return idx >= 0 && int(idx) < nPieces && off == 0 && ln == plen(int(idx))
}

func reqMsg(idx, off, ln int32) wmsg {
	m := wmsg{
		Body: mustMarshal(&p2p.Message{Type: p2p.Message_PIECE_REQUEST,
			PieceRequest: &p2p.PieceRequestMessage{Index: idx, Offset: off, Length: ln}}),
		Desc: fmt.Sprintf("PIECE_REQUEST{index:%d offset:%d length:%d}", idx, off, ln),
		Type: "PIECE_REQUEST", ValidReq: -1, ValidWrite: -1,
	}
	if fullPiece(idx, off, ln) {
		m.ValidReq = int(idx)
	}
	return m
}

// payloadMsg builds a PIECE_PAYLOAD header followed by raw bytes chosen by
// variant: good (declared length, blob bytes when the header names a real full
// piece), corrupt (same length, last byte flipped), short (one byte missing),
// long (one byte extra), none (no bytes at all).
func payloadMsg(idx, off, ln int32, variant string) (wmsg, bool) {
	m := wmsg{
		Body: mustMarshal(&p2p.Message{Type: p2p.Message_PIECE_PAYLOAD,
			PiecePayload: &p2p.PiecePayloadMessage{Index: idx, Offset: off, Length: ln}}),
		Desc: fmt.Sprintf("PIECE_PAYLOAD{index:%d offset:%d length:%d} bytes=%s", idx, off, ln, variant),
		Type: "PIECE_PAYLOAD", ValidReq: -1, ValidWrite: -1,
	}
	var good []byte
	sendable := ln >= 0 && ln <= 64
	if sendable {
		if fullPiece(idx, off, ln) {
			good = append([]byte{}, pieceBytes(int(idx))...)
		} else {
			good = []byte(strings.Repeat("x", int(ln)))
		}
	}
	switch variant {
	case "none":
		if sendable && ln == 0 || ln < 0 {
			return m, false // same as good / for a negative length any bytes are "long"
		}
	case "good":
		if !sendable {
			return m, false
		}
		m.Payload = good
		if fullPiece(idx, off, ln) {
			m.ValidWrite = int(idx)
		}
	case "corrupt":
		if !sendable || ln == 0 {
			return m, false
		}
		good[len(good)-1] ^= 0x55
		m.Payload = good
	case "short":
		if !sendable || ln == 0 {
			return m, false
		}
		m.Payload = good[:len(good)-1]
	case "long":
		if sendable {
			m.Payload = append(good, 'L')
			if fullPiece(idx, off, ln) {
				m.ValidWrite = int(idx)
			}
		} else if ln < 0 {
			m.Payload = []byte("LLLLLLLL")
		} else {
			return m, false // a huge declared length can only be followed by fewer bytes ("none")
		}
	}
	return m, true
}

func simpleMsg(typ p2p.Message_Type, name string, fill func(m *p2p.Message), desc string) wmsg {
	pm := &p2p.Message{Type: typ}
	if fill != nil {
		fill(pm)
	}
	return wmsg{Body: mustMarshal(pm), Desc: desc, Type: name, ValidReq: -1, ValidWrite: -1}
}

func announceMsg(idx int32) wmsg {
	return simpleMsg(p2p.Message_ANNOUCE_PIECE, "ANNOUNCE_PIECE", func(m *p2p.Message) {
		m.AnnouncePiece = &p2p.AnnouncePieceMessage{Index: idx}
	}, fmt.Sprintf("ANNOUNCE_PIECE{index:%d}", idx))
}

func errorMsg(idx int32, code int32, text string) wmsg {
	return simpleMsg(p2p.Message_ERROR, "ERROR", func(m *p2p.Message) {
		m.Error = &p2p.ErrorMessage{Index: idx, Code: p2p.ErrorMessage_ErrorCode(code), Error: text}
	}, fmt.Sprintf("ERROR{index:%d code:%d error:%q}", idx, code, text))
}

func cancelMsg(idx int32) wmsg {
	return simpleMsg(p2p.Message_CANCEL_PIECE, "CANCEL_PIECE", func(m *p2p.Message) {
		m.CancelPiece = &p2p.CancelPieceMessage{Index: idx}
	}, fmt.Sprintf("CANCEL_PIECE{index:%d}", idx))
}

var typeNames = map[p2p.Message_Type]string{
	p2p.Message_BITFIELD: "BITFIELD", p2p.Message_PIECE_REQUEST: "PIECE_REQUEST", p2p.Message_PIECE_PAYLOAD: "PIECE_PAYLOAD",
	p2p.Message_ANNOUCE_PIECE: "ANNOUNCE_PIECE", p2p.Message_CANCEL_PIECE: "CANCEL_PIECE", p2p.Message_ERROR: "ERROR", p2p.Message_COMPLETE: "COMPLETE",
}

func typeName(t p2p.Message_Type) string {
	if s, ok := typeNames[t]; ok {
		return s
	}
	return "UNKNOWN_TYPE"
}

// bodyless returns, for every message type, the message without its body and
// the message carrying only the body of a different type.
func bodyless() []wmsg {
	var out []wmsg
	for t := p2p.Message_BITFIELD; t <= p2p.Message_COMPLETE; t++ {
		out = append(out, simpleMsg(t, typeName(t), nil, typeName(t)+" without body"))
		tt := t
		out = append(out, simpleMsg(t, typeName(t), func(m *p2p.Message) {
			if tt == p2p.Message_ANNOUCE_PIECE {
				m.CancelPiece = &p2p.CancelPieceMessage{Index: 1}
			} else {
				m.AnnouncePiece = &p2p.AnnouncePieceMessage{Index: 1}
			}
		}, typeName(t)+" with the body of another type"))
	}
	for _, t := range []int32{7, 100, -1, math.MaxInt32} {
		tt := t
		out = append(out, simpleMsg(p2p.Message_Type(tt), "UNKNOWN_TYPE", func(m *p2p.Message) {
			m.PieceRequest = &p2p.PieceRequestMessage{Index: 0, Length: pieceLen}
			m.AnnouncePiece = &p2p.AnnouncePieceMessage{Index: 1}
		}, fmt.Sprintf("type %d with request+announce bodies", tt)))
	}
	out = append(out,
		simpleMsg(p2p.Message_COMPLETE, "COMPLETE", func(m *p2p.Message) { m.Complete = &p2p.CompleteMessage{} }, "COMPLETE with body"),
		simpleMsg(p2p.Message_BITFIELD, "BITFIELD", func(m *p2p.Message) {
			m.Bitfield = &p2p.BitfieldMessage{PeerID: attackerID, BitfieldBytes: bitfieldBytes(uint64(nPieces), 1, 0x7)}
		}, "BITFIELD (second handshake) on an established connection"),
		simpleMsg(p2p.Message_BITFIELD, "BITFIELD", func(m *p2p.Message) {
			m.Bitfield = &p2p.BitfieldMessage{PeerID: "zz", BitfieldBytes: bitfieldBytes(1<<36, 0, 0)}
		}, "BITFIELD with a 2^36-bit length header on an established connection"),
	)
	return out
}

// gridMessages is the index x offset x length cross product for the two
// message types that carry all three fields.
func gridMessages(thorough bool) []wmsg {
	var out []wmsg
	og := offGrid(thorough)
	for _, idx := range idxGrid {
		for _, off := range og {
			for _, ln := range lenGrid {
				out = append(out, reqMsg(idx, off, ln))
				for _, v := range []string{"good", "corrupt", "short", "long", "none"} {
					if m, ok := payloadMsg(idx, off, ln, v); ok {
						out = append(out, m)
					}
				}
			}
		}
	}
	return out
}

// simpleMessages: index grids of the one-field messages, every type without
// its body / with a foreign body, unknown types.
func simpleMessages() []wmsg {
	out := bodyless()
	for _, idx := range idxGrid {
		out = append(out, announceMsg(idx), cancelMsg(idx))
		for _, code := range []int32{0, 1, -1} {
			for _, text := range []string{"", "e"} {
				out = append(out, errorMsg(idx, code, text))
			}
		}
	}
	return out
}

// reducedMessages: the alphabet for ordered pairs / handshake follow-ups.
func reducedMessages() []wmsg {
	p := func(idx, off, ln int32, v string) wmsg { m, _ := payloadMsg(idx, off, ln, v); return m }
	return []wmsg{
		announceMsg(1), announceMsg(2), announceMsg(int32(nPieces)), announceMsg(-1),
		reqMsg(0, 0, pieceLen), reqMsg(1, 0, pieceLen), reqMsg(-1, 0, 0), reqMsg(int32(nPieces), 0, 0), reqMsg(0, 1, pieceLen),
		p(1, 0, pieceLen, "good"), p(1, 0, pieceLen, "corrupt"), p(2, 0, 2, "good"), p(1, 0, pieceLen-1, "good"), p(-1, 0, 0, "good"),
		p(int32(nPieces), 0, 0, "good"), p(1, 0, pieceLen, "short"), p(1, 0, -1, "none"),
		errorMsg(1, 0, "e"), errorMsg(-1, 0, "e"),
		simpleMsg(p2p.Message_ERROR, "ERROR", nil, "ERROR without body"),
		simpleMsg(p2p.Message_PIECE_PAYLOAD, "PIECE_PAYLOAD", nil, "PIECE_PAYLOAD without body"),
		simpleMsg(p2p.Message_COMPLETE, "COMPLETE", nil, "COMPLETE without body"),
		simpleMsg(p2p.Message_BITFIELD, "BITFIELD", nil, "BITFIELD without body"),
		cancelMsg(0),
		simpleMsg(p2p.Message_Type(7), "UNKNOWN_TYPE", nil, "type 7"),
	}
}

// ---------------------------------------------------------------- handshakes

const (
	attackerID = "a0a0a0a0a0a0a0a0a0a0a0a0a0a0a0a0a0a0a0a0"
	honestID   = "b1b1b1b1b1b1b1b1b1b1b1b1b1b1b1b1b1b1b1b1"
	victimID   = "c2c2c2c2c2c2c2c2c2c2c2c2c2c2c2c2c2c2c2c2"
	otherID    = "d3d3d3d3d3d3d3d3d3d3d3d3d3d3d3d3d3d3d3d3"
)

// bitfieldBytes is willf/bitset's binary form: uint64 bit length, then words.
func bitfieldBytes(length uint64, words int, word uint64) []byte {
	b := make([]byte, 8+8*words)
	binary.BigEndian.PutUint64(b, length)
	for i := 0; i < words; i++ {
		binary.BigEndian.PutUint64(b[8+8*i:], word)
	}
	return b
}

// bitfieldWords is bitfieldBytes with individually chosen words.
func bitfieldWords(length uint64, ws []uint64) []byte {
	b := make([]byte, 8+8*len(ws))
	binary.BigEndian.PutUint64(b, length)
	for i, w := range ws {
		binary.BigEndian.PutUint64(b[8+8*i:], w)
	}
	return b
}

// shape is one torrent the victims hold: shapes[0] is the default 3-piece blob
// of every conn/dispatcher-level family; the scheduler-level families also use
// torrents whose piece count is / is not a multiple of the bitset word size.
type shape struct {
	n        int
	pieceLen int32
	blob     []byte
	infoHash string
	name     string
	mi       *core.MetaInfo
}

var shapes []*shape

func (sh *shape) plen(i int) int32 {
	if i < 0 || i >= sh.n {
		return 0
	}
	if i == sh.n-1 {
		return int32(len(sh.blob)) - sh.pieceLen*int32(i)
	}
	return sh.pieceLen
}

func (sh *shape) piece(i int) []byte {
	s := int(sh.pieceLen) * i
	return sh.blob[s : s+int(sh.plen(i))]
}

func (sh *shape) words() int { return (sh.n + 63) / 64 }

// cleanBitfield is the bitfield of sh's size with exactly the given pieces set.
func (sh *shape) cleanBitfield(all bool) []byte {
	ws := make([]uint64, sh.words())
	if all {
		for i := 0; i < sh.n; i++ {
			ws[i/64] |= 1 << uint(i%64)
		}
	}
	return bitfieldWords(uint64(sh.n), ws)
}

type hsFields struct {
	typ       p2p.Message_Type
	nilBody   bool
	peerID    string
	infoHash  string
	name      string
	namespace string
	bitfield  []byte
	remote    map[string][]byte
	extra     func(m *p2p.Message)
}

// torrentIDs are filled by the child/parent at start (they depend on the blob only).
var torrentInfoHash, torrentName string

func honestHS(peer string) hsFields {
	return hsFields{typ: p2p.Message_BITFIELD, peerID: peer, infoHash: torrentInfoHash, name: torrentName,
		namespace: "ns", bitfield: bitfieldBytes(uint64(nPieces), 1, 0)}
}

// honestHSFor: a well-formed handshake for sh with an empty bitfield.
func honestHSFor(peer string, sh *shape) hsFields {
	return hsFields{typ: p2p.Message_BITFIELD, peerID: peer, infoHash: sh.infoHash, name: sh.name,
		namespace: "ns", bitfield: sh.cleanBitfield(false)}
}

func (h hsFields) body() []byte {
	m := &p2p.Message{Type: h.typ}
	if !h.nilBody {
		m.Bitfield = &p2p.BitfieldMessage{PeerID: h.peerID, InfoHash: h.infoHash, Name: h.name,
			Namespace: h.namespace, BitfieldBytes: h.bitfield, RemoteBitfieldBytes: h.remote}
	}
	if h.extra != nil {
		h.extra(m)
	}
	return mustMarshal(m)
}

type hsCase struct {
	body []byte
	desc string
	kind string
	// mustEnd: the handshake carries a "bitfield of the wrong size" in the
	// statement's sense (undecodable, declared size != number of pieces, or bits
	// set beyond the number of pieces): it must be rejected / end the connection.
	mustEnd bool
}

func hdrGridFor(n int) []uint64 {
	var out []uint64
	seen := map[uint64]bool{}
	for _, L := range []uint64{0, 1, uint64(n) - 1, uint64(n), uint64(n) + 1, 63, 64, 65, 128, 1 << 16, 1 << 26, 1 << 36, 1 << 63, math.MaxUint64} {
		if !seen[L] {
			seen[L] = true
			out = append(out, L)
		}
	}
	return out
}

// bitfieldPatterns: the word patterns of the handshake bitfield grid. The
// first three fill every word with the same value; the others place single
// bits at the boundary between the torrent's pieces and the unused tail of the
// last word.
var bitfieldPatterns = []string{"zero", "ones", "low-n-bits", "exactly-n-bits", "only-bit-n", "only-last-bit"}

func patternWords(p string, w, n int) ([]uint64, bool) {
	ws := make([]uint64, w)
	switch p {
	case "zero":
	case "ones":
		for i := range ws {
			ws[i] = math.MaxUint64
		}
	case "low-n-bits":
		k := uint(n % 64)
		if n < 64 {
			k = uint(n)
		}
		v := uint64(math.MaxUint64)
		if k != 0 {
			v = 1<<k - 1
		}
		for i := range ws {
			ws[i] = v
		}
	case "exactly-n-bits":
		for i := 0; i < n && i < 64*w; i++ {
			ws[i/64] |= 1 << uint(i%64)
		}
	case "only-bit-n":
		if n >= 64*w {
			return nil, false
		}
		ws[n/64] = 1 << uint(n%64)
	case "only-last-bit":
		ws[w-1] = 1 << 63
	}
	return ws, true
}

// wrongSize decides mustEnd for a bitfield with length header L and words ws
// against a torrent of n pieces (bitset decodes the first ceil(L/64) words and
// ignores the rest).
func wrongSize(L uint64, ws []uint64, n int) bool {
	if L != uint64(n) {
		return true
	}
	need := (n + 63) / 64
	if len(ws) < need {
		return true // undecodable: fewer words than declared bits
	}
	for i := n; i < 64*need; i++ {
		if ws[i/64]&(1<<uint(i%64)) != 0 {
			return true
		}
	}
	return false
}

func handshakes() []hsCase { return handshakesFor(shapes[0]) }

// handshakesFor is the hostile handshake alphabet for a torrent of shape sh.
func handshakesFor(sh *shape) []hsCase {
	var out []hsCase
	n := sh.n
	add := func(h hsFields, kind, desc string, mustEnd bool) {
		out = append(out, hsCase{h.body(), desc, kind, mustEnd})
	}
	// (a) bitfield: length header x number of words x word pattern
	seen := map[string]bool{}
	for _, L := range hdrGridFor(n) {
		for w := 0; w <= 3; w++ {
			for pi, p := range bitfieldPatterns {
				if w == 0 && pi > 0 {
					continue
				}
				ws, ok := patternWords(p, w, n)
				if !ok {
					continue
				}
				b := bitfieldWords(L, ws)
				if seen[string(b)] {
					continue // two patterns that coincide for this n, w
				}
				seen[string(b)] = true
				h := honestHSFor(attackerID, sh)
				h.bitfield = b
				add(h, "handshake bitfield", fmt.Sprintf("bitfieldBytes{length header:%d, %d words of %s}", L, w, p), wrongSize(L, ws, n))
			}
		}
	}
	clean := sh.cleanBitfield(false)
	for l := 0; l < 8; l++ {
		h := honestHSFor(attackerID, sh)
		h.bitfield = clean[:l]
		add(h, "handshake bitfield", fmt.Sprintf("bitfieldBytes truncated to %d bytes", l), true)
	}
	for l := 1; l < 8; l++ {
		h := honestHSFor(attackerID, sh)
		h.bitfield = append(append([]byte{}, clean...), make([]byte, l)...)
		add(h, "handshake bitfield", fmt.Sprintf("bitfieldBytes with %d trailing bytes", l), false)
	}
	// (b) remote bitfields
	keys := []string{"", "zz", otherID, victimID, otherID + "0"}
	one := make([]uint64, sh.words())
	one[0] = 1
	ones := make([]uint64, (n+1+63)/64)
	for i := range ones {
		ones[i] = math.MaxUint64
	}
	vals := []struct {
		name string
		b    []byte
	}{
		{"empty", nil}, {"honest", bitfieldWords(uint64(n), one)}, {"header 2^36 no words", bitfieldBytes(1<<36, 0, 0)},
		{"header 2^26 no words", bitfieldBytes(1<<26, 0, 0)}, {"n+1 bits all ones", bitfieldWords(uint64(n)+1, ones)},
		{"3 bytes", []byte{0, 0, 0}},
	}
	for _, k := range keys {
		for _, v := range vals {
			h := honestHSFor(attackerID, sh)
			h.remote = map[string][]byte{k: v.b}
			add(h, "handshake remote bitfield", fmt.Sprintf("remoteBitfieldBytes{%q: %s}", k, v.name), false)
		}
	}
	// (c) ids
	for _, id := range []string{"", "00", strings.Repeat("z", 40), otherID, otherID + "00", victimID, honestID} {
		h := honestHSFor(id, sh)
		add(h, "handshake ids", fmt.Sprintf("peerID %q", id), false)
	}
	for _, ih := range []string{"", strings.Repeat("z", 40), strings.Repeat("1", 40), strings.Repeat("1", 39)} {
		h := honestHSFor(attackerID, sh)
		h.infoHash = ih
		add(h, "handshake ids", fmt.Sprintf("infoHash %q", ih), false)
	}
	for _, nm := range []string{"", strings.Repeat("z", 64), strings.Repeat("1", 64), strings.Repeat("1", 63)} {
		h := honestHSFor(attackerID, sh)
		h.name = nm
		add(h, "handshake ids", fmt.Sprintf("name %q", nm), false)
	}
	for _, ns := range []string{"", strings.Repeat("n", 1000)} {
		h := honestHSFor(attackerID, sh)
		h.namespace = ns
		add(h, "handshake ids", fmt.Sprintf("namespace of %d chars", len(ns)), false)
	}
	// (d) message shape
	for t := int32(1); t <= 7; t++ {
		h := honestHSFor(attackerID, sh)
		h.typ = p2p.Message_Type(t)
		add(h, "handshake shape", fmt.Sprintf("bitfield body under type %d", t), false)
	}
	h := honestHSFor(attackerID, sh)
	h.nilBody = true
	add(h, "handshake shape", "BITFIELD type without body", false)
	h = honestHSFor(attackerID, sh)
	h.extra = func(m *p2p.Message) {
		m.PiecePayload = &p2p.PiecePayloadMessage{Index: -1, Length: -1}
		m.PieceRequest = &p2p.PieceRequestMessage{Index: -1}
	}
	add(h, "handshake shape", "honest bitfield plus payload/request bodies", false)
	return out
}

// acceptedShapes: handshakes with an odd but decodable bitfield, used with
// follow-up messages.
func acceptedShapes() []hsCase {
	var out []hsCase
	for _, s := range []struct {
		L    uint64
		w    int
		word uint64
	}{{0, 0, 0}, {uint64(nPieces) - 1, 1, 0}, {uint64(nPieces) - 1, 1, 1}, {uint64(nPieces), 1, 1<<uint(nPieces) - 1}, {uint64(nPieces) + 1, 1, 0}, {64, 1, 0}, {65, 2, 0}} {
		h := honestHS(attackerID)
		h.bitfield = bitfieldBytes(s.L, s.w, s.word)
		ws := make([]uint64, s.w)
		for i := range ws {
			ws[i] = s.word
		}
		out = append(out, hsCase{h.body(), fmt.Sprintf("bitfieldBytes{length header:%d, %d words of %#x}", s.L, s.w, s.word), "handshake bitfield", wrongSize(s.L, ws, nPieces)})
	}
	return out
}

// ---------------------------------------------------------------- families

var victims = []string{"agent", "origin"}

func families(thorough bool) []family {
	maxBody := 2
	if thorough {
		maxBody = 3
	}
	nb := bodiesUpTo(maxBody)
	var fs []family
	fs = append(fs, family{name: "wire", count: nb, chunk: 2048, get: func(i int64) tcase {
		b := bodyAt(i)
		return tcase{Family: "wire", Kind: "raw body", Desc: fmt.Sprintf("raw message body % x", b),
			Msgs: []wmsg{{Body: b, Desc: fmt.Sprintf("raw % x", b), Type: "RAW", ValidReq: -1, ValidWrite: -1}}}
	}})
	fs = append(fs, family{name: "hsraw", count: nb, chunk: 4096, get: func(i int64) tcase {
		b := bodyAt(i)
		return tcase{Family: "hsraw", Kind: "raw handshake body", Desc: fmt.Sprintf("raw handshake body % x", b), HS: b, HSDesc: fmt.Sprintf("raw % x", b)}
	}})
	// length prefixes around and above the message size cap, with no or little body
	prefixes := []uint32{32 << 10, 32<<10 + 1, 1 << 26, math.MaxUint32}
	fs = append(fs, family{name: "prefix", count: int64(len(prefixes) * 2 * 2), chunk: 4, get: func(i int64) tcase {
		p := prefixes[i/4]
		asHS := (i/2)%2 == 1
		nbytes := int(i%2) * 8
		m := wmsg{Body: make([]byte, nbytes), Prefix: &p, Desc: fmt.Sprintf("length prefix %d followed by %d bytes", p, nbytes), Type: "PREFIX", ValidReq: -1, ValidWrite: -1}
		c := tcase{Family: "prefix", Kind: "length prefix", Desc: m.Desc, Msgs: []wmsg{m}}
		if asHS {
			c.Desc = "handshake: " + c.Desc
			c.HSDesc = "prefix"
		}
		return c
	}})
	for _, fm := range []struct {
		name string
		msgs []wmsg
	}{{"msg", simpleMessages()}, {"grid", gridMessages(thorough)}} {
		sm, name := fm.msgs, fm.name
		fs = append(fs, family{name: name, count: int64(len(sm) * len(victims)), chunk: 16, get: func(i int64) tcase {
			m := sm[i/int64(len(victims))]
			v := victims[i%int64(len(victims))]
			return tcase{Family: name, Victim: v, Kind: m.Type, Desc: m.Desc, Msgs: []wmsg{m}}
		}})
	}
	hs := handshakes()
	fs = append(fs, family{name: "hs", count: int64(len(hs) * len(victims)), chunk: 16, get: func(i int64) tcase {
		h := hs[i/int64(len(victims))]
		v := victims[i%int64(len(victims))]
		return tcase{Family: "hs", Victim: v, Kind: h.kind, Desc: "handshake " + h.desc, HS: h.body, HSDesc: h.desc, MustEnd: h.mustEnd}
	}})
	// handshake shape x follow-up message
	shapes := acceptedShapes()
	follow := []wmsg{announceMsg(1), announceMsg(2), reqMsg(0, 0, pieceLen),
		simpleMsg(p2p.Message_COMPLETE, "COMPLETE", nil, "COMPLETE without body")}
	red := reducedMessages()
	if thorough {
		follow = red
	}
	fs = append(fs, family{name: "hs+msg", count: int64(len(shapes) * len(follow) * len(victims)), chunk: 8, get: func(i int64) tcase {
		v := victims[i%int64(len(victims))]
		j := i / int64(len(victims))
		h := shapes[j/int64(len(follow))]
		m := follow[j%int64(len(follow))]
		return tcase{Family: "hs+msg", Victim: v, Kind: h.kind + " then " + m.Type, Desc: "handshake " + h.desc + " then " + m.Desc,
			HS: h.body, HSDesc: h.desc, Msgs: []wmsg{m}, MustEnd: h.mustEnd}
	}})
	fs = append(fs, schedFamilies(thorough, shapes, follow)...)
	if thorough {
		pols := []string{"default", "rarest_first"}
		fs = append(fs, family{name: "pair", count: int64(len(red) * len(red) * len(victims) * len(pols)), chunk: 32, get: func(i int64) tcase {
			v := victims[i%int64(len(victims))]
			j := i / int64(len(victims))
			pol := pols[j%int64(len(pols))]
			j /= int64(len(pols))
			m1 := red[j/int64(len(red))]
			m2 := red[j%int64(len(red))]
			return tcase{Family: "pair", Victim: v, Kind: m1.Type + " then " + m2.Type, Desc: m1.Desc + " then " + m2.Desc, Msgs: []wmsg{m1, m2}, Policy: pol}
		}})
	}
	return fs
}

type caseSpace struct {
	fams  []family
	start []int64
	total int64
}

func newCaseSpace(thorough bool) *caseSpace {
	cs := &caseSpace{fams: families(thorough)}
	for _, f := range cs.fams {
		cs.start = append(cs.start, cs.total)
		cs.total += f.count
	}
	return cs
}

func (cs *caseSpace) get(id int64) tcase {
	for k := len(cs.fams) - 1; k >= 0; k-- {
		if id >= cs.start[k] {
			c := cs.fams[k].get(id - cs.start[k])
			c.ID = id
			return c
		}
	}
	panic("bad case id")
}
