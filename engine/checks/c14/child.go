package main

// The worker side: executes cases against the real kraken code. Runs in a
// subprocess with an address-space limit, so that a panic in a kraken-owned
// goroutine or an unbounded allocation kills only this process; the parent
// learns the culprit from the "S <id>" line written before each case.

import (
	"bufio"
	"bytes"
	"encoding/binary"
	"encoding/json"
	"errors"
	"fmt"
	"io"
	"net"
	"os"
	"runtime"
	"runtime/debug"
	"runtime/metrics"
	"sort"
	"strconv"
	"strings"
	"sync"
	"syscall"
	"time"

	"github.com/andres-erbsen/clock"
	"github.com/golang/protobuf/proto"
	"github.com/uber-go/tally"
	"github.com/uber/kraken/core"
	"github.com/uber/kraken/gen/go/proto/p2p"
	"github.com/uber/kraken/lib/store"
	"github.com/uber/kraken/lib/torrent/networkevent"
	"github.com/uber/kraken/lib/torrent/scheduler/conn"
	"github.com/uber/kraken/lib/torrent/scheduler/dispatch"
	"github.com/uber/kraken/lib/torrent/scheduler/torrentlog"
	"github.com/uber/kraken/lib/torrent/storage"
	"github.com/uber/kraken/lib/torrent/storage/agentstorage"
	"github.com/uber/kraken/lib/torrent/storage/originstorage"
	"github.com/uber/kraken/lib/torrent/storage/piecereader"
	"github.com/uber/kraken/tracker/metainfoclient"
	"github.com/willf/bitset"
	"go.uber.org/zap"
)

// allocCap bounds the bytes the victim may allocate while it processes one
// attacker connection (handshake + messages): the protocol message cap
// (32 KiB) and one piece (4 bytes here) several times over, plus slack for
// bookkeeping. The hostile inputs ask for 16 MiB .. 8 GiB.
const allocCap = 2 << 20

type violation struct {
	FP     string      `json:"fp"`
	Detail interface{} `json:"detail"`
}

type child struct {
	out      *os.File
	cs       *caseSpace
	mi       *core.MetaInfo
	counters map[string]int64
	keys     map[string]bool
	baseline int
	cur      tcase

	wireHS   *conn.Handshaker
	wireEv   *connEvents
	wireInfo *storage.TorrentInfo
}

func (c *child) emit(s string) {
	if _, err := c.out.Write([]byte(s + "\n")); err != nil {
		fmt.Fprintf(os.Stderr, "C14-CHILD-HARNESS-ERROR control pipe: %v\n", err)
		os.Exit(3)
	}
}

func (c *child) fail(format string, a ...interface{}) {
	msg := fmt.Sprintf(format, a...)
	msg = strings.ReplaceAll(msg, "\n", " | ")
	c.emit("X case " + strconv.FormatInt(c.cur.ID, 10) + " (" + c.cur.Desc + "): " + msg)
	os.Exit(3)
}

func (c *child) key(k string) {
	if !c.keys[k] {
		c.keys[k] = true
		c.emit("K " + k)
	}
}

func (c *child) count(k string) { c.counters[k]++ }

func (c *child) flushCounters() {
	if len(c.counters) == 0 {
		return
	}
	b, _ := json.Marshal(c.counters)
	c.counters = map[string]int64{}
	c.emit("N " + string(b))
}

func (c *child) violate(fp string, detail map[string]interface{}) {
	detail["case"] = c.cur
	b, _ := json.Marshal(violation{fp, detail})
	c.emit("V " + string(b))
}

func makeMetaInfo() *core.MetaInfo {
	dg, err := core.NewDigester().FromBytes(blob)
	if err != nil {
		panic(err)
	}
	mi, err := core.NewMetaInfo(dg, bytes.NewReader(blob), int64(pieceLen))
	if err != nil {
		panic(err)
	}
	if mi.NumPieces() != nPieces {
		panic("unexpected number of pieces")
	}
	torrentInfoHash = mi.InfoHash().String()
	torrentName = mi.Digest().Hex()
	shapes = []*shape{{n: nPieces, pieceLen: pieceLen, blob: blob, infoHash: torrentInfoHash, name: torrentName, mi: mi}}
	// 64 pieces (the bitfield fills its last word exactly) and 65 pieces (one
	// piece in the second word), 2-byte pieces with a 1-byte last piece.
	for _, n := range []int{64, 65} {
		b := make([]byte, 2*n-1)
		for i := range b {
			b[i] = byte('a' + i%26)
		}
		dg, err := core.NewDigester().FromBytes(b)
		if err != nil {
			panic(err)
		}
		m, err := core.NewMetaInfo(dg, bytes.NewReader(b), 2)
		if err != nil {
			panic(err)
		}
		if m.NumPieces() != n {
			panic("unexpected number of pieces")
		}
		shapes = append(shapes, &shape{n: n, pieceLen: 2, blob: b, infoHash: m.InfoHash().String(), name: m.Digest().Hex(), mi: m})
	}
	return mi
}

func setLimits() error {
	debug.SetMemoryLimit(1 << 30)
	b, err := os.ReadFile("/proc/self/statm")
	if err != nil {
		return err
	}
	pages, err := strconv.ParseInt(strings.Fields(string(b))[0], 10, 64)
	if err != nil {
		return err
	}
	vsz := uint64(pages) * uint64(os.Getpagesize())
	lim := vsz + (1536 << 20)
	return syscall.Setrlimit(syscall.RLIMIT_AS, &syscall.Rlimit{Cur: lim, Max: lim})
}

func childMain() {
	c := &child{out: os.NewFile(3, "ctl"), counters: map[string]int64{}, keys: map[string]bool{}}
	if err := setLimits(); err != nil {
		c.fail("setrlimit: %v", err)
	}
	c.mi = makeMetaInfo()
	c.cs = newCaseSpace(os.Getenv("VERIF_C14_TIER") == "thorough")
	c.wireEv = &connEvents{}
	var err error
	c.wireHS, err = conn.NewHandshaker(connConfig(), tally.NoopScope, clock.New(), networkevent.NewTestProducer(),
		mustPeerID(victimID), c.wireEv, zap.NewNop().Sugar())
	if err != nil {
		c.fail("handshaker: %v", err)
	}
	bf := bitsetOf(nPieces, 0)
	c.wireInfo = storage.NewTorrentInfo(c.mi, bf)
	c.baseline = runtime.NumGoroutine()

	in := bufio.NewScanner(os.Stdin)
	for in.Scan() {
		var from, to int64
		if _, err := fmt.Sscanf(in.Text(), "%d %d", &from, &to); err != nil {
			c.fail("bad command %q", in.Text())
		}
		for id := from; id < to; id++ {
			c.cur = c.cs.get(id)
			c.emit("S " + strconv.FormatInt(id, 10))
			c.runCase(c.cur)
			// Counters are flushed often so that a later crash of this process loses none.
			if len(c.counters) > 0 && (c.cur.Victim != "" || id%256 == 255) {
				c.flushCounters()
			}
		}
		c.flushCounters()
		c.emit(fmt.Sprintf("D %d %d", from, to))
	}
}

func connConfig() conn.Config {
	// Small channel buffers: the defaults (10000 slots each) only cost memory per case.
	return conn.Config{SenderBufferSize: 64, ReceiverBufferSize: 64}
}

func mustPeerID(s string) core.PeerID {
	p, err := core.NewPeerID(s)
	if err != nil {
		panic(err)
	}
	return p
}

// ---------------------------------------------------------------- plumbing

type connEvents struct {
	mu     sync.Mutex
	closed int
	cond   *sync.Cond
	byConn map[*conn.Conn]chan struct{}
}

// closedCh is closed once kraken reports ConnClosed for cn.
func (e *connEvents) closedCh(cn *conn.Conn) chan struct{} {
	e.mu.Lock()
	defer e.mu.Unlock()
	if e.byConn == nil {
		e.byConn = map[*conn.Conn]chan struct{}{}
	}
	ch, ok := e.byConn[cn]
	if !ok {
		ch = make(chan struct{})
		e.byConn[cn] = ch
	}
	return ch
}

func (e *connEvents) ConnClosed(cn *conn.Conn) {
	close(e.closedCh(cn))
	e.mu.Lock()
	e.closed++
	if e.cond != nil {
		e.cond.Broadcast()
	}
	e.mu.Unlock()
}

func (e *connEvents) wait(n int) {
	e.mu.Lock()
	if e.cond == nil {
		e.cond = sync.NewCond(&e.mu)
	}
	for e.closed < n {
		e.cond.Wait()
	}
	e.mu.Unlock()
}

type dispEvents struct {
	mu      sync.Mutex
	removed map[core.PeerID]chan struct{}
}

func (e *dispEvents) ch(id core.PeerID) chan struct{} {
	e.mu.Lock()
	defer e.mu.Unlock()
	if e.removed == nil {
		e.removed = map[core.PeerID]chan struct{}{}
	}
	c, ok := e.removed[id]
	if !ok {
		c = make(chan struct{})
		e.removed[id] = c
	}
	return c
}
func (e *dispEvents) DispatcherComplete(*dispatch.Dispatcher) {}
func (e *dispEvents) PeerRemoved(id core.PeerID, h core.InfoHash) {
	c := e.ch(id)
	select {
	case <-c:
	default:
		close(c)
	}
}

type sendRec struct {
	Type       string `json:"type"`
	Index      int32  `json:"index"`
	Offset     int32  `json:"offset"`
	Length     int32  `json:"length"`
	Payload    []byte `json:"payload,omitempty"`
	PayloadErr string `json:"payload_err,omitempty"`
}

// tap sits between the real Dispatcher and the real Conn (it is the
// dispatch.Messages the dispatcher talks to) and records what the dispatcher
// sends. Piece payload readers are read here, in the dispatching goroutine, so
// that the bytes the victim would put on the wire are observed
// deterministically even if the connection closes before its write loop runs.
type tap struct {
	c      *conn.Conn
	mu     sync.Mutex
	sends  []sendRec
	closed bool

	// Message pump (see pump): real receiver -> out, one message at a time.
	out   chan *conn.Message
	stop  chan struct{}
	taken int
	done  int

	closedCh chan struct{}
}

func newTap(cn *conn.Conn, ev *connEvents) *tap {
	t := &tap{c: cn, out: make(chan *conn.Message), stop: make(chan struct{}), closedCh: ev.closedCh(cn)}
	go t.pump()
	return t
}

// barrier is a message the dispatcher handles with an empty function
// (handleCancelPiece). The pump hands it to the dispatcher's feed loop after
// every real message: feed takes it only once it has finished the real one,
// which makes "all delivered messages are fully dispatched" observable without
// closing the connection (closing races with the dispatcher's replies).
var barrier = &conn.Message{Message: &p2p.Message{Type: p2p.Message_CANCEL_PIECE, CancelPiece: &p2p.CancelPieceMessage{}}}

func (t *tap) pump() {
	defer close(t.out)
	idle := 0
	for {
		var m *conn.Message
		ok, got := true, false
		t.mu.Lock()
		select {
		case m, ok = <-t.c.Receiver():
			got = true
			if ok {
				t.taken++
			}
		default:
		}
		t.mu.Unlock()
		if !got {
			select {
			case <-t.stop:
				return
			default:
			}
			if idle++; idle < 20 {
				runtime.Gosched()
			} else {
				time.Sleep(20 * time.Microsecond)
			}
			continue
		}
		idle = 0
		if !ok {
			return
		}
		for _, x := range []*conn.Message{m, barrier} {
			select {
			case t.out <- x:
			case <-t.stop:
				return
			}
		}
		t.mu.Lock()
		t.done++
		t.mu.Unlock()
	}
}

// quiet: nothing delivered by the read loop is waiting or being dispatched.
func (t *tap) quiet() bool {
	t.mu.Lock()
	defer t.mu.Unlock()
	return len(t.c.Receiver()) == 0 && t.taken == t.done
}

type errReader struct {
	err error
	n   int
}

func (r *errReader) Read([]byte) (int, error) { return 0, r.err }
func (r *errReader) Close() error             { return nil }
func (r *errReader) Length() int              { return r.n }

func (t *tap) Send(msg *conn.Message) error {
	rec := sendRec{Type: typeName(msg.Message.Type)}
	switch msg.Message.Type {
	case p2p.Message_PIECE_PAYLOAD:
		pp := msg.Message.PiecePayload
		rec.Index, rec.Offset, rec.Length = pp.Index, pp.Offset, pp.Length
		n := msg.Payload.Length()
		b, err := io.ReadAll(msg.Payload)
		msg.Payload.Close()
		rec.Payload = b
		if err != nil {
			rec.PayloadErr = err.Error()
			msg = &conn.Message{Message: msg.Message, Payload: &errReader{err, n}}
		} else {
			msg = &conn.Message{Message: msg.Message, Payload: piecereader.NewBuffer(b)}
		}
	case p2p.Message_PIECE_REQUEST:
		pr := msg.Message.PieceRequest
		rec.Index, rec.Offset, rec.Length = pr.Index, pr.Offset, pr.Length
	case p2p.Message_ERROR:
		rec.Index = msg.Message.Error.Index
	case p2p.Message_ANNOUCE_PIECE:
		rec.Index = msg.Message.AnnouncePiece.Index
	}
	t.mu.Lock()
	t.sends = append(t.sends, rec)
	closed := t.closed
	t.mu.Unlock()
	if closed {
		// Conn.Send on a closed Conn picks at random between "conn closed" and
		// queueing the message (select over the closed done channel and the
		// buffered sender channel). After the dispatcher itself closed the
		// connection the harness always takes the "conn closed" answer.
		return errors.New("conn closed")
	}
	return t.c.Send(msg)
}
func (t *tap) Receiver() <-chan *conn.Message { return t.out }
// Close is called by the dispatcher to end the connection. Conn.Close only
// starts the shutdown (a goroutine closes the done channel), so whether a Send
// right after it still succeeds is a race inside kraken; waiting for the
// ConnClosed event here picks the schedule in which the close has taken effect.
func (t *tap) Close() {
	t.mu.Lock()
	t.closed = true
	t.mu.Unlock()
	t.c.Close()
	if t.closedCh != nil {
		<-t.closedCh
	}
}
func (t *tap) snapshot() ([]sendRec, bool) {
	t.mu.Lock()
	defer t.mu.Unlock()
	return append([]sendRec{}, t.sends...), t.closed
}

func bitsetOf(n int, word uint64) *bitset.BitSet {
	b := bitset.New(uint(n))
	for i := 0; i < n; i++ {
		if word&(1<<uint(i)) != 0 {
			b.Set(uint(i))
		}
	}
	return b
}

// settle waits until every goroutine started during the case has exited, so a
// late panic is attributed to the right case.
func (c *child) settle() {
	if !c.settleFor(20 * time.Second) {
		buf := make([]byte, 1<<16)
		buf = buf[:runtime.Stack(buf, true)]
		c.fail("goroutines did not settle (%d > %d): %s", runtime.NumGoroutine(), c.baseline, buf)
	}
}

func (c *child) settleFor(d time.Duration) bool {
	deadline := time.Now().Add(d)
	for i := 0; ; i++ {
		if runtime.NumGoroutine() <= c.baseline {
			return true
		}
		if i < 50 {
			runtime.Gosched()
		} else {
			time.Sleep(50 * time.Microsecond)
		}
		if i%200 == 199 && time.Now().After(deadline) {
			return false
		}
	}
}

// restart asks the parent for a fresh worker process (state after a recovered
// panic could not be cleaned up).
func (c *child) restart() {
	c.flushCounters()
	c.emit("R " + strconv.FormatInt(c.cur.ID, 10))
	os.Exit(0)
}

var allocSample = []metrics.Sample{{Name: "/gc/heap/allocs:bytes"}}

func heapAllocs() uint64 {
	metrics.Read(allocSample)
	return allocSample[0].Value.Uint64()
}

// noDeadline makes the victim's end of the pipe ignore deadlines, like
// conn.PipeFixture's noopDeadline: handshake timeouts are wall-clock timers
// (5 s) that would fire long after the case is over.
type noDeadline struct{ net.Conn }

func (noDeadline) SetDeadline(time.Time) error      { return nil }
func (noDeadline) SetReadDeadline(time.Time) error  { return nil }
func (noDeadline) SetWriteDeadline(time.Time) error { return nil }

func pipe() (attacker net.Conn, victim net.Conn) {
	a, b := net.Pipe()
	return a, noDeadline{b}
}

// writeAll writes b; an error only means the victim closed the connection.
func writeAll(nc net.Conn, b []byte) bool {
	for len(b) > 0 {
		n, err := nc.Write(b)
		if err != nil {
			return false
		}
		b = b[n:]
	}
	return true
}

func frameBody(body []byte) []byte { return frame(wmsg{Body: body}) }

// ---------------------------------------------------------------- case dispatch

func (c *child) runCase(tc tcase) {
	switch tc.Family {
	case "wire":
		c.runWire(tc, false)
	case "hsraw":
		c.runHSRaw(tc)
	case "prefix":
		if tc.HSDesc == "prefix" {
			c.runHSPrefix(tc)
		} else {
			c.runWire(tc, true)
		}
	case "sched", "sched+msg":
		c.runSched(tc)
	default:
		c.runE2E(tc, tc.Victim)
	}
	c.settle()
}

// guarded runs f (harness glue that calls into kraken on this goroutine) and
// turns a panic into the same report a crash of the process would give.
func (c *child) guarded(f func()) (panicked bool) {
	defer func() {
		if r := recover(); r != nil {
			stack := fmt.Sprintf("panic: %v\n\ngoroutine 0 [running]:\n%s", r, debug.Stack())
			fp, frames, ok := classifyCrash(stack, c.cur.Kind)
			if !ok {
				c.fail("panic outside kraken code: %s", stack)
			}
			c.violate(fp, map[string]interface{}{"panic": fmt.Sprint(r), "frames": frames, "where": "goroutine owned by the caller of kraken (scheduler event loop / accept goroutine in production)"})
			c.count("recovered_panics")
			panicked = true
		}
	}()
	f()
	return false
}

// runHSRaw delivers a raw body as the first (handshake) message to Handshaker.Accept.
func (c *child) runHSRaw(tc tcase) {
	a, b := pipe()
	done := make(chan string, 1)
	before := heapAllocs()
	go func() {
		if c.guarded(func() {
			pc, err := c.wireHS.Accept(b)
			if err != nil {
				b.Close()
				done <- "rejected"
				return
			}
			pc.Close()
			done <- "accepted"
		}) {
			b.Close()
			done <- "panic"
		}
	}()
	writeAll(a, frameBody(tc.HS))
	out := <-done
	a.Close()
	c.checkAlloc(before, "handshake")
	c.key("hsraw|" + out)
	c.count("hsraw_" + out)
	if out == "panic" && !c.settleFor(2*time.Second) {
		c.restart()
	}
	if out == "accepted" {
		c.violate("raw handshake body accepted", map[string]interface{}{"note": "a body of at most 3 bytes cannot carry peer id, info hash and digest"})
	}
}

// runHSPrefix: a handshake whose length prefix is at/above the message cap.
func (c *child) runHSPrefix(tc tcase) {
	a, b := pipe()
	done := make(chan string, 1)
	before := heapAllocs()
	go func() {
		if c.guarded(func() {
			pc, err := c.wireHS.Accept(b)
			if err != nil {
				b.Close()
				done <- "rejected"
				return
			}
			pc.Close()
			done <- "accepted"
		}) {
			b.Close()
			done <- "panic"
		}
	}()
	writeAll(a, frame(tc.Msgs[0]))
	a.Close()
	out := <-done
	c.checkAlloc(before, "length prefix")
	c.key("prefix-hs|" + out)
	if out == "panic" && !c.settleFor(2*time.Second) {
		c.restart()
	}
	if out == "accepted" {
		c.violate("handshake with oversized/short frame accepted", map[string]interface{}{})
	}
}

func (c *child) checkAlloc(before uint64, kind string) bool {
	d := heapAllocs() - before
	if d > allocCap {
		c.violate("allocation beyond bound: "+kind, map[string]interface{}{"allocated_bytes": d, "bound_bytes": allocCap})
		c.count("alloc_violations")
		return false
	}
	return true
}

// runWire: conn layer only. Honest handshake through the real Handshaker, then
// the body; everything the real read loop delivers is collected from Receiver().
func (c *child) runWire(tc tcase, prefixMode bool) {
	a, b := pipe()
	res := make(chan *conn.Conn, 1)
	go func() {
		if c.guarded(func() {
			pc, err := c.wireHS.Accept(b)
			if err != nil {
				c.fail("honest handshake rejected: %v", err)
			}
			cn, err := c.wireHS.Establish(pc, c.wireInfo, nil)
			if err != nil {
				c.fail("establish: %v", err)
			}
			cn.Start()
			res <- cn
		}) {
			c.restart() // an honest handshake made the real handshaker panic
		}
	}()
	go io.Copy(io.Discard, a)
	c.wireEv.mu.Lock()
	closedBefore := c.wireEv.closed
	c.wireEv.mu.Unlock()
	if !writeAll(a, frameBody(honestHS(attackerID).body())) {
		c.fail("victim closed during honest handshake")
	}
	cn := <-res
	before := heapAllocs()
	m := tc.Msgs[0]
	wrote := writeAll(a, frame(m))
	alive := wrote && writeAll(a, []byte{0})
	a.Close()
	var types []string
	var delivered []*conn.Message
	for msg := range cn.Receiver() {
		delivered = append(delivered, msg)
		types = append(types, typeName(msg.Message.Type))
	}
	c.wireEv.wait(closedBefore + 1)
	kind := "message body"
	if prefixMode {
		kind = "length prefix"
	} else if len(delivered) == 1 && delivered[0].Message.Type == p2p.Message_PIECE_PAYLOAD {
		kind = "PIECE_PAYLOAD"
	}
	c.checkAlloc(before, kind)
	out := "ended"
	if alive {
		out = "alive"
	}
	if prefixMode {
		c.key(fmt.Sprintf("prefix|%d|%s|delivered=%v", *m.Prefix, out, types))
		if len(delivered) > 0 && int(*m.Prefix) != len(m.Body) {
			c.violate("frame with wrong length delivered", map[string]interface{}{"delivered": types})
		}
		return
	}
	c.key(fmt.Sprintf("wire|len%d|%s|delivered=%v", len(m.Body), out, types))
	c.count("wire_" + out)
	if len(delivered) > 1 {
		c.fail("one body delivered %d messages", len(delivered))
	}
	if len(delivered) == 1 {
		c.count("wire_delivered")
		// A decodable body reaches the dispatcher in production: run it end to end.
		m2 := m
		m2.Type = "RAW:" + types[0]
		e := tc
		e.Msgs = []wmsg{m2}
		e.Kind = types[0]
		c.cur = e
		for _, v := range victims {
			c.settle()
			c.runE2E(e, v)
		}
	} else if alive {
		c.violate("undecodable body neither delivered nor ending the connection", map[string]interface{}{})
	}
}

// ---------------------------------------------------------------- victims

type victim struct {
	kind    string
	dir     string
	closeFn func()
	t       storage.Torrent
	d       *dispatch.Dispatcher
	hs      *conn.Handshaker
	cev     *connEvents
	dev     *dispEvents
	conns   int
	taps    []*tap
	read    func() ([]byte, error) // the blob file as stored
}

func (c *child) newVictim(kind, policy string) *victim {
	dir, err := os.MkdirTemp("", "c14-")
	if err != nil {
		c.fail("mkdtemp: %v", err)
	}
	v := &victim{kind: kind, dir: dir, cev: &connEvents{}, dev: &dispEvents{}}
	hex := c.mi.Digest().Hex()
	switch kind {
	case "agent":
		cads, err := store.NewCADownloadStore(store.CADownloadStoreConfig{
			DownloadDir: dir + "/download", CacheDir: dir + "/cache",
			DownloadCleanup: store.CleanupConfig{Disabled: true}, CacheCleanup: store.CleanupConfig{Disabled: true},
		}, tally.NoopScope)
		if err != nil {
			c.fail("store: %v", err)
		}
		tc := metainfoclient.NewTestClient()
		if err := tc.Upload(c.mi); err != nil {
			c.fail("upload: %v", err)
		}
		t, err := agentstorage.NewTorrentArchive(tally.NoopScope, cads, tc).CreateTorrent("ns", c.mi.Digest())
		if err != nil {
			c.fail("create torrent: %v", err)
		}
		if err := t.WritePiece(piecereader.NewBuffer(pieceBytes(0)), 0); err != nil {
			c.fail("seed piece 0: %v", err)
		}
		v.t = t
		v.closeFn = cads.Close
		v.read = func() ([]byte, error) {
			r, err := cads.Any().GetFileReader(hex)
			if err != nil {
				return nil, err
			}
			defer r.Close()
			return io.ReadAll(r)
		}
	case "origin":
		cas, err := store.NewCAStore(store.CAStoreConfig{
			UploadDir: dir + "/upload", CacheDir: dir + "/cache",
			UploadCleanup: store.CleanupConfig{Disabled: true}, CacheCleanup: store.CleanupConfig{Disabled: true},
		}, tally.NoopScope)
		if err != nil {
			c.fail("store: %v", err)
		}
		if err := cas.CreateCacheFile(hex, bytes.NewReader(blob)); err != nil {
			c.fail("create cache file: %v", err)
		}
		t, err := originstorage.NewTorrent(cas, c.mi)
		if err != nil {
			c.fail("origin torrent: %v", err)
		}
		v.t = t
		v.closeFn = cas.Close
		v.read = func() ([]byte, error) {
			r, err := cas.GetCacheFileReader(hex)
			if err != nil {
				return nil, err
			}
			defer r.Close()
			return io.ReadAll(r)
		}
	}
	var err2 error
	v.hs, err2 = conn.NewHandshaker(connConfig(), tally.NoopScope, clock.New(), networkevent.NewTestProducer(),
		mustPeerID(victimID), v.cev, zap.NewNop().Sugar())
	if err2 != nil {
		c.fail("handshaker: %v", err2)
	}
	// A mock clock: the piece-request timeout watcher never fires by itself.
	v.d, err2 = dispatch.New(dispatch.Config{PieceRequestPolicy: policy}, tally.NoopScope, clock.NewMock(), networkevent.NewTestProducer(),
		v.dev, mustPeerID(victimID), v.t, zap.NewNop().Sugar(), torrentlog.NewNopLogger())
	if err2 != nil {
		c.fail("dispatcher: %v", err2)
	}
	return v
}

func (v *victim) stopTaps() {
	for _, t := range v.taps {
		select {
		case <-t.stop:
		default:
			close(t.stop)
		}
	}
}

// waitQuiet blocks until every message the peer's read loop delivered has been
// dispatched, or the peer was removed (connection ended).
func (c *child) waitQuiet(v *victim, t *tap) {
	removed := v.dev.ch(t.c.PeerID())
	deadline := time.Now().Add(90 * time.Second)
	for i := 0; ; i++ {
		select {
		case <-removed:
			return
		default:
		}
		if t.quiet() {
			return
		}
		if i < 50 {
			runtime.Gosched()
		} else {
			time.Sleep(20 * time.Microsecond)
		}
		if i%500 == 499 && time.Now().After(deadline) {
			buf := make([]byte, 1<<16)
			buf = buf[:runtime.Stack(buf, true)]
			c.fail("dispatcher did not become quiet: %s", buf)
		}
	}
}

func (v *victim) close() {
	v.d.TearDown()
	v.stopTaps()
	v.cev.wait(v.conns)
	v.closeFn()
	os.RemoveAll(v.dir)
}

// accept is the glue the scheduler has between Handshaker and Dispatcher
// (listenLoop -> incomingHandshakeEvent -> establishIncomingHandshake ->
// incomingConnEvent -> state.addIncomingConn), minus connstate bookkeeping.
func (c *child) accept(v *victim, nc net.Conn) (tp *tap, outcome string) {
	pc, err := v.hs.Accept(nc)
	if err != nil {
		nc.Close()
		return nil, "rejected by Accept"
	}
	if pc.Digest() != c.mi.Digest() {
		pc.Close() // torrentArchive.Stat fails for a digest the peer does not have
		return nil, "rejected: unknown torrent"
	}
	info := v.t.Stat()
	cn, err := v.hs.Establish(pc, info, v.d.RemoteBitfields())
	if err != nil {
		pc.Close()
		return nil, "rejected by Establish"
	}
	v.conns++
	cn.Start()
	tp = newTap(cn, v.cev)
	v.taps = append(v.taps, tp)
	if err := v.d.AddPeer(cn.PeerID(), cn.IsPeerOrigin(), pc.Bitfield(), tp); err != nil {
		cn.Close()
		return nil, "rejected by AddPeer"
	}
	return tp, "added"
}

// wireReader parses what the victim sends to a peer.
type wireReader struct {
	mu       sync.Mutex
	msgs     []sendRec
	done     chan struct{}
	parseErr string
}

func startWireReader(nc net.Conn) *wireReader {
	w := &wireReader{done: make(chan struct{})}
	go func() {
		defer close(w.done)
		first := true
		for {
			var l [4]byte
			if _, err := io.ReadFull(nc, l[:]); err != nil {
				return
			}
			body := make([]byte, binary.BigEndian.Uint32(l[:]))
			if _, err := io.ReadFull(nc, body); err != nil {
				return
			}
			var m p2p.Message
			if err := proto.Unmarshal(body, &m); err != nil {
				w.mu.Lock()
				w.parseErr = err.Error()
				w.mu.Unlock()
				return
			}
			if first {
				first = false // the victim's handshake
				continue
			}
			rec := sendRec{Type: typeName(m.Type)}
			if m.Type == p2p.Message_PIECE_PAYLOAD && m.PiecePayload != nil {
				rec.Index, rec.Length = m.PiecePayload.Index, m.PiecePayload.Length
				if m.PiecePayload.Length < 0 || m.PiecePayload.Length > 1<<16 {
					w.mu.Lock()
					w.parseErr = fmt.Sprintf("payload header with length %d", m.PiecePayload.Length)
					w.mu.Unlock()
					return
				}
				p := make([]byte, m.PiecePayload.Length)
				if _, err := io.ReadFull(nc, p); err != nil {
					return
				}
				rec.Payload = p
			}
			w.mu.Lock()
			w.msgs = append(w.msgs, rec)
			w.mu.Unlock()
		}
	}()
	return w
}

// connect opens one peer connection to the victim with the given handshake body.
func (c *child) connect(v *victim, hsBody []byte) (a net.Conn, tp *tap, outcome string, wr *wireReader) {
	a, b := pipe()
	type res struct {
		tp  *tap
		out string
	}
	done := make(chan res, 1)
	go func() {
		if c.guarded(func() {
			tp, out := c.accept(v, b)
			done <- res{tp, out}
		}) {
			done <- res{nil, "panic"}
		}
	}()
	wr = startWireReader(a)
	writeAll(a, frameBody(hsBody))
	r := <-done
	return a, r.tp, r.out, wr
}

func (c *child) runE2E(tc tcase, kind string) {
	policy := tc.Policy
	if policy == "" {
		policy = "default"
	}
	v := c.newVictim(kind, policy)
	c.count("e2e_cases")

	// The honest peer connects first: it is the "other connection".
	hconn, htap, hout, hwire := c.connect(v, honestHS(honestID).body())
	if hout != "added" {
		c.fail("honest handshake: %s", hout)
	}

	// ---- attacker
	before := heapAllocs()
	hsBody := tc.HS
	if hsBody == nil {
		hsBody = honestHS(attackerID).body()
	}
	aconn, atap, aout, _ := c.connect(v, hsBody)
	if aout == "panic" {
		// The violation is reported; the victim may be half-built. Tear down
		// what can be torn down; if goroutines linger, take a fresh process.
		aconn.Close()
		hconn.Close()
		c.key(fmt.Sprintf("%s|%s|%s|panic", tc.Family, kind, hsClass(tc)))
		v.d.TearDown()
		v.stopTaps()
		v.closeFn()
		os.RemoveAll(v.dir)
		if !c.settleFor(3 * time.Second) {
			c.restart()
		}
		return
	}
	alive := false
	if aout == "added" {
		alive = true
		for _, m := range tc.Msgs {
			if !writeAll(aconn, frame(m)) {
				alive = false
				break
			}
		}
		// Two separate probe bytes: each is taken only by a running read loop,
		// and a message completed by the first one has been delivered by the
		// time the second one is taken.
		alive = alive && writeAll(aconn, []byte{0}) && writeAll(aconn, []byte{0})
	}
	var asends []sendRec
	tapClosed := false
	if atap != nil {
		c.waitQuiet(v, atap)
		asends, tapClosed = atap.snapshot()
	}
	if os.Getenv("VERIF_C14_TRACE") != "" {
		b, _ := json.Marshal(asends)
		fmt.Fprintf(os.Stderr, "TRACE case %d %s: attacker outcome=%s alive=%v sends=%s\n", tc.ID, kind, aout, alive, b)
	}
	allocKind := tc.Kind
	c.checkAlloc(before, allocKind)

	// ---- what the victim answered to the attacker
	validReq := map[int32]int{}
	allowedWrite := map[int]bool{0: true}
	if kind == "origin" {
		allowedWrite = map[int]bool{0: true, 1: true, 2: true} // an origin holds the whole blob from the start
	}
	for _, m := range tc.Msgs {
		if m.ValidReq >= 0 {
			validReq[int32(m.ValidReq)]++
		}
		if m.ValidWrite >= 0 {
			allowedWrite[m.ValidWrite] = true
		}
	}
	var replyTypes []string
	for _, s := range asends {
		replyTypes = append(replyTypes, s.Type)
		if s.Type != "PIECE_PAYLOAD" {
			continue
		}
		c.count("payload_replies_to_attacker")
		inRange := s.Index >= 0 && int(s.Index) < nPieces
		switch {
		case !inRange || s.PayloadErr != "" || s.Length != plen(int(s.Index)) || !bytes.Equal(s.Payload, pieceBytes(int(s.Index))):
			c.violate("piece payload sent for something that is not a piece of the blob ("+kind+")",
				map[string]interface{}{"sent": s})
		case validReq[s.Index] == 0:
			c.violate("malformed piece request answered with a payload ("+kind+")", map[string]interface{}{"sent": s})
		default:
			validReq[s.Index]--
		}
	}

	aconn.Close()
	if atap != nil {
		<-v.dev.ch(atap.c.PeerID())
	}
	written := c.integrity(v, kind, allowedWrite, "after attacker connection")
	if kind == "origin" {
		written = nil
	}
	if len(written) > 0 {
		c.count("cases_with_attacker_piece_written")
	}

	// ---- the honest connection is still served
	hid := mustPeerID(honestID)
	send := func(m wmsg) bool {
		f := frame(m)
		// The first byte alone: it is taken only if the victim's read loop for
		// this connection is still running.
		if !writeAll(hconn, f[:1]) {
			return false
		}
		return writeAll(hconn, f[1:])
	}
	served := true
	want := []int{0}
	served = served && send(reqMsg(0, 0, plen(0)))
	if kind == "agent" {
		pm, _ := payloadMsg(1, 0, plen(1), "good")
		served = served && send(pm) && send(reqMsg(1, 0, plen(1)))
		want = append(want, 1)
		allowedWrite[1] = true
	} else {
		served = served && send(reqMsg(2, 0, plen(2)))
		want = append(want, 2)
	}
	if served {
		served = writeAll(hconn, []byte{0}) && writeAll(hconn, []byte{0})
	}
	c.waitQuiet(v, htap)
	hsends, _ := htap.snapshot()
	hconn.Close()
	<-v.dev.ch(hid)
	<-hwire.done
	if !served {
		c.violate("honest connection closed by the victim after hostile input on another connection ("+kind+")", map[string]interface{}{"attacker_outcome": aout})
	} else {
		got := map[int]bool{}
		for _, s := range hsends {
			if s.Type == "PIECE_PAYLOAD" && s.Index >= 0 && int(s.Index) < nPieces && s.PayloadErr == "" &&
				s.Length == plen(int(s.Index)) && bytes.Equal(s.Payload, pieceBytes(int(s.Index))) {
				got[int(s.Index)] = true
			}
		}
		for _, i := range want {
			if !got[i] {
				c.violate("honest connection not served after hostile input on another connection ("+kind+")",
					map[string]interface{}{"missing_piece": i, "sent_to_honest_peer": hsends})
				served = false
				break
			}
		}
		if served {
			c.count("honest_exchanges_verified")
		}
	}
	hwire.mu.Lock()
	for _, s := range hwire.msgs {
		if s.Type == "PIECE_PAYLOAD" && (s.Index < 0 || int(s.Index) >= nPieces || !bytes.Equal(s.Payload, pieceBytes(int(s.Index)))) {
			c.violate("bytes on the wire to the honest peer are not the blob's ("+kind+")", map[string]interface{}{"wire": s})
		}
	}
	if hwire.parseErr != "" {
		c.violate("victim sent an unparsable frame to the honest peer ("+kind+")", map[string]interface{}{"error": hwire.parseErr})
	}
	hwire.mu.Unlock()

	// ---- torrent integrity, end state (the honest peer's piece is now allowed too)
	c.integrity(v, kind, allowedWrite, "end")

	// ---- outcome class
	state := "alive"
	if aout != "added" {
		state = aout
	} else if !alive || tapClosed {
		state = "ended"
		c.count("attacker_conn_ended_by_victim")
	}
	if tc.MustEnd {
		c.count("wrong_size_bitfields")
		if state == "alive" {
			c.violate("handshake with a bitfield of the wrong size accepted ("+kind+", in)", map[string]interface{}{
				"note": "the connection is active after the handshake"})
		}
	}
	var mt []string
	for _, m := range tc.Msgs {
		mt = append(mt, m.Type)
	}
	v.close()
	c.settle()
	// Reply types for the outcome class are read once everything is quiet:
	// AddPeer's own request goroutine is not ordered with the feed loop.
	replyTypes = nil
	if atap != nil {
		fin, _ := atap.snapshot()
		for _, s := range fin {
			replyTypes = append(replyTypes, s.Type)
		}
	}
	sort.Strings(replyTypes)
	c.key(fmt.Sprintf("%s|%s|%s|%v|%s|replies=%v|pieces=%v", tc.Family, kind, hsClass(tc), mt, state, uniq(replyTypes), written))
}

// integrity: pieces are complete only through well-formed payloads, complete
// pieces hold the blob's bytes, the blob file keeps its size.
func (c *child) integrity(v *victim, kind string, allowed map[int]bool, phase string) (written []int) {
	bf := v.t.Bitfield()
	for i := 0; i < nPieces; i++ {
		has := bf.Test(uint(i))
		if has && i != 0 {
			written = append(written, i)
		}
		if has && !allowed[i] {
			c.violate("piece marked complete without a well-formed payload ("+kind+")", map[string]interface{}{"piece": i, "bitfield": bf.String(), "phase": phase})
		}
	}
	if bf.Len() != uint(nPieces) {
		c.violate("torrent bitfield changed size ("+kind+")", map[string]interface{}{"bitfield": bf.String(), "phase": phase})
	}
	data, err := v.read()
	if err != nil {
		c.fail("read blob file: %v", err)
	}
	if len(data) != len(blob) {
		c.violate("blob file size changed ("+kind+")", map[string]interface{}{"size": len(data), "want": len(blob), "phase": phase})
		return written
	}
	for i := 0; i < nPieces; i++ {
		if bf.Test(uint(i)) && !bytes.Equal(data[int(pieceLen)*i:int(pieceLen)*i+int(plen(i))], pieceBytes(i)) {
			c.violate("complete piece does not hold the blob's bytes ("+kind+")", map[string]interface{}{"piece": i, "file": data, "phase": phase})
		}
	}
	return written
}

func hsClass(tc tcase) string {
	if tc.HS == nil {
		return "honest-hs"
	}
	return tc.Kind
}

func uniq(s []string) []string {
	var out []string
	for i, x := range s {
		if i == 0 || x != s[i-1] {
			out = append(out, x)
		}
	}
	return out
}

var _ = errors.New
