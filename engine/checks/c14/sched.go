package main

// Scheduler-level part of C14 (families "sched" and "sched+msg").
//
// The victim is a REAL, started scheduler (newScheduler + start: real event
// loop goroutine, listener, handshaker, connstate, dispatcher, agentstorage /
// originstorage torrent). The hostile peer and an honest second peer are bare
// loopback TCP endpoints of the harness:
//
//   - direction "out": a fake tracker answer (announceclient.Client seam) hands
//     the hostile peer out; the victim DIALS it (announceResultEvent ->
//     initializeOutgoingHandshake -> Handshaker.Initialize/fullHandshake ->
//     outgoingConnEvent -> state.addOutgoingConn -> Dispatcher.AddPeer); the
//     hostile peer accepts the dial, reads the victim's handshake and ANSWERS
//     with one member of the hostile handshake alphabet;
//   - direction "in": the hostile peer dials the victim's real listener
//     (listenLoop -> Accept -> incomingHandshakeEvent ->
//     establishIncomingHandshake -> incomingConnEvent -> addIncomingConn).
//
// Origins never dial (announce client and announce queue are disabled), so
// "out" exists for agents only.

import (
	"bytes"
	"encoding/binary"
	"fmt"
	"io"
	"net"
	"os"
	"sort"
	"sync"
	"time"

	"github.com/golang/protobuf/proto"
	"github.com/uber-go/tally"
	"github.com/uber/kraken/core"
	"github.com/uber/kraken/gen/go/proto/p2p"
	"github.com/uber/kraken/lib/backend"
	"github.com/uber/kraken/lib/blobrefresh"
	"github.com/uber/kraken/lib/metainfogen"
	"github.com/uber/kraken/lib/store"
	"github.com/uber/kraken/lib/torrent/scheduler"
	"github.com/uber/kraken/lib/torrent/scheduler/conn"
	"github.com/uber/kraken/lib/torrent/scheduler/dispatch"
	"github.com/uber/kraken/lib/torrent/storage"
	"github.com/uber/kraken/lib/torrent/storage/agentstorage"
	"github.com/uber/kraken/lib/torrent/storage/originstorage"
	"github.com/uber/kraken/lib/torrent/storage/piecereader"
	"github.com/uber/kraken/tracker/metainfoclient"
	"github.com/uber/kraken/utils/log"
)

// barrierIndex marks the harness's last message on the hostile connection: a
// PIECE_REQUEST with offset 1 (never a full piece), which the dispatcher
// answers with ERROR{index: barrierIndex}. Messages on one connection are
// dispatched and answered in order, so once that ERROR (or the end of the
// connection) is read, everything the hostile peer sent has been handled.
const barrierIndex = 32429

// ---------------------------------------------------------------- enumeration

type schedParam struct {
	victim     string // agent | origin
	dir        string // out | in
	shape      int    // index into shapes
	peerOrigin bool
	start      string // piece0 | empty | complete (origin)
}

func schedParams(thorough, defaultShapeOnly bool) []schedParam {
	var out []schedParam
	starts := []string{"piece0"}
	if thorough {
		starts = append(starts, "empty")
	}
	for si := range shapes {
		if defaultShapeOnly && si > 0 {
			break
		}
		for _, st := range starts {
			out = append(out,
				schedParam{"agent", "out", si, false, st},
				schedParam{"agent", "out", si, true, st},
				schedParam{"agent", "in", si, false, st})
		}
		out = append(out, schedParam{"origin", "in", si, false, "complete"})
	}
	return out
}

func schedCase(fam string, p schedParam, h hsCase, msgs []wmsg) tcase {
	sh := shapes[p.shape]
	desc := fmt.Sprintf("%s scheduler, direction %s, %d pieces", p.victim, p.dir, sh.n)
	if p.dir == "out" {
		desc += fmt.Sprintf(", hostile peer handed out as origin=%v", p.peerOrigin)
	}
	desc += ", start " + p.start + ": handshake " + h.desc
	kind := h.kind
	for _, m := range msgs {
		desc += " then " + m.Desc
		kind += " then " + m.Type
	}
	return tcase{Family: fam, Victim: p.victim, Kind: kind, Desc: desc, HS: h.body, HSDesc: h.desc, Msgs: msgs,
		MustEnd: h.mustEnd, Dir: p.dir, Pieces: sh.n, PeerOrigin: p.peerOrigin, Start: p.start}
}

// schedFamilies: every scheduler start parameter x the whole hostile handshake
// alphabet of the torrent's shape; and (default shape) the accepted handshake
// shapes x one follow-up message.
func schedFamilies(thorough bool, accepted []hsCase, follow []wmsg) []family {
	hsBy := make([][]hsCase, len(shapes))
	for i, sh := range shapes {
		hsBy[i] = handshakesFor(sh)
	}
	ps := schedParams(thorough, false)
	var offs []int64
	var total int64
	for _, p := range ps {
		offs = append(offs, total)
		total += int64(len(hsBy[p.shape]))
	}
	f1 := family{name: "sched", count: total, chunk: 8, get: func(i int64) tcase {
		k := sort.Search(len(offs), func(k int) bool { return offs[k] > i }) - 1
		return schedCase("sched", ps[k], hsBy[ps[k].shape][i-offs[k]], nil)
	}}
	ps2 := schedParams(thorough, true)
	nf, na := int64(len(follow)), int64(len(accepted))
	f2 := family{name: "sched+msg", count: int64(len(ps2)) * na * nf, chunk: 8, get: func(i int64) tcase {
		p := ps2[i/(na*nf)]
		j := i % (na * nf)
		return schedCase("sched+msg", p, accepted[j/nf], []wmsg{follow[j%nf]})
	}}
	return []family{f1, f2}
}

func shapeSizes() []int {
	var out []int
	for _, sh := range shapes {
		out = append(out, sh.n)
	}
	return out
}

func schedStarts(thorough bool) []string {
	if thorough {
		return []string{"agent holds piece 0", "agent holds no piece", "origin holds the blob"}
	}
	return []string{"agent holds piece 0", "origin holds the blob"}
}

func shapeOf(n int) *shape {
	for _, sh := range shapes {
		if sh.n == n {
			return sh
		}
	}
	panic("unknown shape")
}

// ---------------------------------------------------------------- wire helpers

type parseError struct{ msg string }

func (e parseError) Error() string { return e.msg }

// readFrame reads one message (and the payload bytes of a PIECE_PAYLOAD) the
// victim wrote. A parseError means the victim sent garbage; any other error
// means the connection ended.
func readFrame(nc net.Conn) (*p2p.Message, []byte, error) {
	var l [4]byte
	if _, err := io.ReadFull(nc, l[:]); err != nil {
		return nil, nil, err
	}
	n := binary.BigEndian.Uint32(l[:])
	if n > 1<<20 {
		return nil, nil, parseError{fmt.Sprintf("frame with length prefix %d", n)}
	}
	body := make([]byte, n)
	if _, err := io.ReadFull(nc, body); err != nil {
		return nil, nil, err
	}
	m := new(p2p.Message)
	if err := proto.Unmarshal(body, m); err != nil {
		return nil, nil, parseError{"undecodable frame: " + err.Error()}
	}
	var payload []byte
	if m.Type == p2p.Message_PIECE_PAYLOAD {
		if m.PiecePayload == nil || m.PiecePayload.Length < 0 || m.PiecePayload.Length > 1<<16 {
			return nil, nil, parseError{fmt.Sprintf("PIECE_PAYLOAD header %v", m.PiecePayload)}
		}
		payload = make([]byte, m.PiecePayload.Length)
		if _, err := io.ReadFull(nc, payload); err != nil {
			return nil, nil, err
		}
	}
	return m, payload, nil
}

func pieceRequestFrame(idx, off, ln int32) []byte {
	return frameBody(mustMarshal(&p2p.Message{Type: p2p.Message_PIECE_REQUEST,
		PieceRequest: &p2p.PieceRequestMessage{Index: idx, Offset: off, Length: ln}}))
}

func piecePayloadFrame(idx int32, data []byte) []byte {
	f := frameBody(mustMarshal(&p2p.Message{Type: p2p.Message_PIECE_PAYLOAD,
		PiecePayload: &p2p.PiecePayloadMessage{Index: idx, Offset: 0, Length: int32(len(data))}}))
	return append(f, data...)
}

// fakeAnnounce is the tracker seam: the first announce of an incomplete
// torrent is answered with the configured hand-out, every later one with no
// peers (so that a periodic re-announce cannot re-dial within a case).
type fakeAnnounce struct {
	mu    sync.Mutex
	peers []*core.PeerInfo
	calls int
}

func (f *fakeAnnounce) CheckReadiness() error { return nil }

func (f *fakeAnnounce) Announce(d core.Digest, h core.InfoHash, complete bool, version int) ([]*core.PeerInfo, time.Duration, error) {
	f.mu.Lock()
	defer f.mu.Unlock()
	f.calls++
	if f.calls == 1 && !complete {
		return f.peers, time.Minute, nil
	}
	return nil, time.Minute, nil
}

// ---------------------------------------------------------------- victim

type svictim struct {
	kind       string
	sh         *shape
	dir        string
	sched      *scheduler.VerifPeer
	closeStore func()
	honestL    net.Listener
	hostileL   net.Listener
	stat       func() (*storage.TorrentInfo, error)
	readCache  func() ([]byte, error) // the blob as stored once the torrent is complete
	readAny    func() ([]byte, error) // the blob file wherever it is
}

func schedConfig() scheduler.Config {
	return scheduler.Config{
		DisablePreemption: true,
		// Wall-clock limits of the scheduler are set beyond the harness watchdog:
		// they never decide an outcome.
		ProbeTimeout: 110 * time.Second,
		Conn:         conn.Config{HandshakeTimeout: 110 * time.Second, SenderBufferSize: 256, ReceiverBufferSize: 256},
		// All missing pieces are requested from the first peer that has them.
		Dispatch:   dispatch.Config{AgentPipelineLimit: 128, OriginPipelineLimit: 128},
		TorrentLog: log.Config{Disable: true},
		Log:        log.Config{Disable: true},
	}
}

func listenLoopback(c *child) net.Listener {
	l, err := net.Listen("tcp", "127.0.0.1:0")
	if err != nil {
		c.fail("listen: %v", err)
	}
	return l
}

func portOf(a net.Addr) int { return a.(*net.TCPAddr).Port }

func (c *child) newSchedVictim(tc tcase, sh *shape) (*svictim, string) {
	dir, err := os.MkdirTemp("", "c14s-")
	if err != nil {
		c.fail("mkdtemp: %v", err)
	}
	v := &svictim{kind: tc.Victim, sh: sh, dir: tc.Dir}
	hex := sh.mi.Digest().Hex()
	pctx := core.PeerContext{PeerID: mustPeerID(victimID), Zone: "z", IP: "127.0.0.1", Port: 0}
	switch tc.Victim {
	case "agent":
		cads, err := store.NewCADownloadStore(store.CADownloadStoreConfig{
			DownloadDir: dir + "/download", CacheDir: dir + "/cache",
			DownloadCleanup: store.CleanupConfig{Disabled: true}, CacheCleanup: store.CleanupConfig{Disabled: true},
		}, tally.NoopScope)
		if err != nil {
			c.fail("store: %v", err)
		}
		mic := metainfoclient.NewTestClient()
		if err := mic.Upload(sh.mi); err != nil {
			c.fail("upload: %v", err)
		}
		ta := agentstorage.NewTorrentArchive(tally.NoopScope, cads, mic)
		if tc.Start == "piece0" {
			// An interrupted earlier download left piece 0 on disk.
			t, err := ta.CreateTorrent("ns", sh.mi.Digest())
			if err != nil {
				c.fail("create torrent: %v", err)
			}
			if err := t.WritePiece(piecereader.NewBuffer(sh.piece(0)), 0); err != nil {
				c.fail("seed piece 0: %v", err)
			}
		}
		v.closeStore = cads.Close
		v.stat = func() (*storage.TorrentInfo, error) { return ta.Stat("ns", sh.mi.Digest()) }
		v.readCache = func() ([]byte, error) {
			r, err := cads.Cache().GetFileReader(hex)
			if err != nil {
				return nil, err
			}
			defer r.Close()
			return io.ReadAll(r)
		}
		v.readAny = func() ([]byte, error) {
			r, err := cads.Any().GetFileReader(hex)
			if err != nil {
				return nil, err
			}
			defer r.Close()
			return io.ReadAll(r)
		}
		v.honestL = listenLoopback(c)
		ann := &fakeAnnounce{peers: []*core.PeerInfo{
			{PeerID: mustPeerID(honestID), IP: "127.0.0.1", Port: portOf(v.honestL.Addr()), Complete: true}}}
		if tc.Dir == "out" {
			v.hostileL = listenLoopback(c)
			ann.peers = append(ann.peers, &core.PeerInfo{PeerID: mustPeerID(attackerID), IP: "127.0.0.1",
				Port: portOf(v.hostileL.Addr()), Origin: tc.PeerOrigin, Complete: true})
		}
		v.sched, err = scheduler.VerifStartAgent(schedConfig(), ta, pctx, ann)
		if err != nil {
			c.fail("start agent scheduler: %v", err)
		}
	case "origin":
		cas, err := store.NewCAStore(store.CAStoreConfig{
			UploadDir: dir + "/upload", CacheDir: dir + "/cache",
			UploadCleanup: store.CleanupConfig{Disabled: true}, CacheCleanup: store.CleanupConfig{Disabled: true},
		}, tally.NoopScope)
		if err != nil {
			c.fail("store: %v", err)
		}
		if err := cas.CreateCacheFile(hex, bytes.NewReader(sh.blob)); err != nil {
			c.fail("create cache file: %v", err)
		}
		gen := metainfogen.Fixture(cas, int(sh.pieceLen))
		if err := gen.Generate(sh.mi.Digest()); err != nil {
			c.fail("generate metainfo: %v", err)
		}
		bm, err := backend.NewManager(backend.ManagerConfig{Log: log.Config{Disable: true}}, nil, backend.AuthConfig{}, tally.NoopScope)
		if err != nil {
			c.fail("backend manager: %v", err)
		}
		ta := originstorage.NewTorrentArchive(cas, blobrefresh.New(blobrefresh.Config{}, tally.NoopScope, cas, bm, gen))
		info, err := ta.Stat("ns", sh.mi.Digest())
		if err != nil || info.InfoHash().String() != sh.infoHash {
			c.fail("origin torrent fixture: %v", err)
		}
		v.closeStore = cas.Close
		v.stat = func() (*storage.TorrentInfo, error) { return ta.Stat("ns", sh.mi.Digest()) }
		v.readCache = func() ([]byte, error) {
			r, err := cas.GetCacheFileReader(hex)
			if err != nil {
				return nil, err
			}
			defer r.Close()
			return io.ReadAll(r)
		}
		v.readAny = v.readCache
		pctx.Origin = true
		v.sched, err = scheduler.VerifStartOrigin(schedConfig(), ta, pctx)
		if err != nil {
			c.fail("start origin scheduler: %v", err)
		}
	}
	return v, dir
}

func (c *child) acceptOne(l net.Listener) net.Conn {
	nc, err := l.Accept()
	if err != nil {
		c.fail("accept: %v", err)
	}
	return nc
}

func (c *child) dialVictim(v *svictim) net.Conn {
	nc, err := net.Dial("tcp", fmt.Sprintf("127.0.0.1:%d", portOf(v.sched.ListenAddr())))
	if err != nil {
		c.fail("dial victim: %v", err)
	}
	return nc
}

// readVictimHandshake reads the handshake the victim sends on a connection it
// dialled, and checks it describes the torrent (harness sanity).
func (c *child) readVictimHandshake(nc net.Conn, sh *shape, who string) {
	m, _, err := readFrame(nc)
	if err != nil {
		c.fail("%s peer: no handshake from the victim: %v", who, err)
	}
	if m.Type != p2p.Message_BITFIELD || m.Bitfield == nil || m.Bitfield.InfoHash != sh.infoHash || m.Bitfield.Name != sh.name || m.Bitfield.PeerID != victimID {
		c.fail("%s peer: unexpected handshake from the victim: %v", who, m)
	}
}

// drain keeps reading (and dropping) what the victim still writes to a fake peer.
func drain(nc net.Conn) chan struct{} {
	done := make(chan struct{})
	go func() {
		defer close(done)
		io.Copy(io.Discard, nc)
	}()
	return done
}

func (c *child) runSched(tc tcase) {
	sh := shapeOf(tc.Pieces)
	v, dir := c.newSchedVictim(tc, sh)
	c.count("sched_cases")
	kind := tc.Victim
	where := fmt.Sprintf("%s, %s", kind, tc.Dir)

	held := map[int]bool{}
	if kind == "origin" {
		for i := 0; i < sh.n; i++ {
			held[i] = true
		}
	} else if tc.Start == "piece0" {
		held[0] = true
	}

	// ---- the honest connection first: it is the "other connection".
	var hconn net.Conn
	var dl chan error
	if kind == "agent" {
		dl = make(chan error, 1)
		go func() { dl <- v.sched.Download("ns", sh.mi.Digest()) }()
		hconn = c.acceptOne(v.honestL)
		c.readVictimHandshake(hconn, sh, "honest")
		hh := honestHSFor(honestID, sh)
		hh.bitfield = sh.cleanBitfield(true)
		hh.namespace = ""
		if !writeAll(hconn, frameBody(hh.body())) {
			c.fail("honest peer: victim closed during the handshake")
		}
		// The agent asks the honest seeder for every piece it lacks.
		asked := map[int32]bool{}
		for len(asked) < sh.n-len(held) {
			m, _, err := readFrame(hconn)
			if err != nil {
				c.fail("honest peer: connection ended before any hostile input: %v", err)
			}
			if m.Type != p2p.Message_PIECE_REQUEST || m.PieceRequest == nil {
				continue
			}
			r := m.PieceRequest
			if r.Index < 0 || int(r.Index) >= sh.n || held[int(r.Index)] || r.Offset != 0 || r.Length != sh.plen(int(r.Index)) {
				c.fail("honest peer: unexpected piece request %v", r)
			}
			asked[r.Index] = true
		}
	} else {
		// An honest leecher of the origin: it fetches the last piece now (so the
		// connection is active) and piece 0 after the hostile input.
		hconn = c.dialVictim(v)
		if !writeAll(hconn, frameBody(honestHSFor(honestID, sh).body())) {
			c.fail("honest peer: victim closed during the handshake")
		}
		c.readVictimHandshake(hconn, sh, "honest")
		if !c.honestFetch(hconn, sh, sh.n-1) {
			c.fail("honest peer: not served before any hostile input")
		}
	}

	// ---- the hostile peer
	var aconn net.Conn
	if tc.Dir == "out" {
		aconn = c.acceptOne(v.hostileL)
		c.readVictimHandshake(aconn, sh, "hostile")
		c.count("sched_outgoing_dials_answered")
	} else {
		aconn = c.dialVictim(v)
		c.count("sched_incoming_dials")
	}
	before := heapAllocs()
	out := frameBody(tc.HS)
	for _, m := range tc.Msgs {
		out = append(out, frame(m)...)
	}
	// A follow-up that declares more payload bytes than it carries leaves the
	// victim's read loop waiting for the rest: no barrier can follow it. The
	// hostile peer closes its sending side instead and the connection must end.
	starved := false
	for _, m := range tc.Msgs {
		starved = starved || underfilled(m, sh)
	}
	if !starved {
		out = append(out, pieceRequestFrame(barrierIndex, 1, 1)...)
	}
	writeAll(aconn, out) // an error only means the victim has already closed
	state := "ended"
	if starved {
		aconn.(*net.TCPConn).CloseWrite()
		state = "ended after the hostile peer stopped sending"
	}
	var replies []sendRec
	for {
		m, payload, err := readFrame(aconn)
		if err != nil {
			if pe, ok := err.(parseError); ok {
				c.violate("victim sent an unparsable frame to the hostile peer ("+where+")", map[string]interface{}{"error": pe.msg})
			}
			break
		}
		if m.Type == p2p.Message_ERROR && m.Error != nil && m.Error.Index == barrierIndex {
			state = "alive"
			break
		}
		rec := sendRec{Type: typeName(m.Type), Payload: payload}
		switch {
		case m.Type == p2p.Message_PIECE_PAYLOAD:
			rec.Index, rec.Offset, rec.Length = m.PiecePayload.Index, m.PiecePayload.Offset, m.PiecePayload.Length
		case m.Type == p2p.Message_ERROR && m.Error != nil:
			rec.Index = m.Error.Index
		}
		replies = append(replies, rec)
	}
	adrain := drain(aconn)
	c.checkAlloc(before, tc.Kind)
	c.count("sched_" + tc.Dir + "_" + state)

	// ---- oracle: the hostile connection
	if tc.MustEnd {
		c.count("sched_wrong_size_bitfields")
		if state == "alive" {
			c.violate("handshake with a bitfield of the wrong size accepted ("+where+")", map[string]interface{}{
				"note": "the connection is active and answers requests after the handshake"})
		}
	}
	validReq := map[int32]int{}
	allowedWrite := map[int]bool{}
	for i := range held {
		allowedWrite[i] = true
	}
	for _, m := range tc.Msgs {
		if m.ValidReq >= 0 {
			validReq[int32(m.ValidReq)]++
		}
		if m.ValidWrite >= 0 {
			allowedWrite[m.ValidWrite] = true
		}
	}
	var replyTypes []string
	for _, s := range replies {
		if s.Type != "PIECE_PAYLOAD" && s.Type != "ERROR" {
			continue // the victim's own handshake / requests / announcements
		}
		replyTypes = append(replyTypes, s.Type)
		if s.Type != "PIECE_PAYLOAD" {
			continue
		}
		c.count("payload_replies_to_attacker")
		inRange := s.Index >= 0 && int(s.Index) < sh.n
		switch {
		case !inRange || s.Length != sh.plen(int(s.Index)) || string(s.Payload) != string(sh.piece(int(s.Index))):
			c.violate("piece payload sent for something that is not a piece of the blob ("+kind+")", map[string]interface{}{"sent": s})
		case validReq[s.Index] == 0:
			c.violate("malformed piece request answered with a payload ("+kind+")", map[string]interface{}{"sent": s})
		default:
			validReq[s.Index]--
		}
	}
	c.integritySched(v, kind, allowedWrite, "after hostile connection")

	// ---- oracle: the peer keeps serving
	if err := v.sched.Probe(); err != nil {
		c.violate("scheduler event loop does not answer after hostile input ("+where+")", map[string]interface{}{"probe": err.Error()})
	}
	served := true
	if kind == "agent" {
		if held[0] {
			served = c.honestFetch(hconn, sh, 0)
		}
		for i := 0; served && i < sh.n; i++ {
			if !held[i] {
				served = writeAll(hconn, piecePayloadFrame(int32(i), sh.piece(i)))
			}
		}
		// The agent closes the connection to the (complete) seeder when its
		// torrent is complete; any other end of the connection leaves it incomplete.
		<-drain(hconn)
		info, err := v.stat()
		if err != nil {
			c.fail("stat: %v", err)
		}
		if !served || info.Bitfield().Count() != uint(sh.n) {
			c.violate("honest connection not served after hostile input on another connection ("+kind+")",
				map[string]interface{}{"direction": tc.Dir, "hostile_connection": state, "bitfield": info.Bitfield().String(),
					"note": "the honest seeder answered every request; the download did not complete"})
			served = false
		} else if err := <-dl; err != nil {
			dl = nil
			c.violate("download fails although the honest connection delivered every piece ("+kind+")", map[string]interface{}{"error": err.Error()})
			served = false
		} else {
			dl = nil
			data, err := v.readCache()
			if err != nil {
				c.fail("read downloaded blob: %v", err)
			}
			if string(data) != string(sh.blob) {
				c.violate("complete piece does not hold the blob's bytes ("+kind+")", map[string]interface{}{"file": data, "phase": "downloaded"})
			} else {
				c.count("sched_downloads_verified")
			}
		}
	} else {
		if served = c.honestFetch(hconn, sh, 0); !served {
			c.violate("honest connection not served after hostile input on another connection ("+kind+")",
				map[string]interface{}{"direction": tc.Dir, "hostile_connection": state})
		} else {
			c.count("honest_exchanges_verified")
		}
		c.integritySched(v, kind, allowedWrite, "end")
	}

	// ---- teardown
	aconn.Close()
	hconn.Close()
	v.sched.Stop()
	<-adrain
	if dl != nil {
		<-dl // ErrSchedulerStopped
	}
	if v.honestL != nil {
		v.honestL.Close()
	}
	if v.hostileL != nil {
		v.hostileL.Close()
	}
	v.closeStore()
	os.RemoveAll(dir)

	var mt []string
	for _, m := range tc.Msgs {
		mt = append(mt, m.Type)
	}
	sort.Strings(replyTypes)
	c.key(fmt.Sprintf("%s|%s|%s|n=%d|origin=%v|%s|%s|%v|%s|replies=%v", tc.Family, kind, tc.Dir, sh.n, tc.PeerOrigin, tc.Start,
		tc.Kind, mt, state, uniq(replyTypes)))
}

// underfilled: a PIECE_PAYLOAD whose declared length is acceptable to the victim
// but larger than the number of bytes that follow.
func underfilled(m wmsg, sh *shape) bool {
	pm := new(p2p.Message)
	if err := proto.Unmarshal(m.Body, pm); err != nil || pm.Type != p2p.Message_PIECE_PAYLOAD || pm.PiecePayload == nil {
		return false
	}
	l := pm.PiecePayload.Length
	return l > 0 && l <= sh.pieceLen && int(l) > len(m.Payload)
}

// honestFetch: the honest peer requests piece i and must be sent its bytes.
func (c *child) honestFetch(nc net.Conn, sh *shape, i int) bool {
	if !writeAll(nc, pieceRequestFrame(int32(i), 0, sh.plen(i))) {
		return false
	}
	for {
		m, payload, err := readFrame(nc)
		if err != nil {
			if pe, ok := err.(parseError); ok {
				c.violate("victim sent an unparsable frame to the honest peer ("+c.cur.Victim+")", map[string]interface{}{"error": pe.msg})
			}
			return false
		}
		if m.Type != p2p.Message_PIECE_PAYLOAD {
			if m.Type == p2p.Message_ERROR {
				return false
			}
			continue
		}
		if int(m.PiecePayload.Index) != i || string(payload) != string(sh.piece(i)) {
			c.violate("bytes on the wire to the honest peer are not the blob's ("+c.cur.Victim+")",
				map[string]interface{}{"index": m.PiecePayload.Index, "payload": payload})
			return false
		}
		return true
	}
}

// integritySched: pieces are complete only through well-formed payloads,
// complete pieces hold the blob's bytes, the blob file keeps its size.
func (c *child) integritySched(v *svictim, kind string, allowed map[int]bool, phase string) {
	info, err := v.stat()
	if err != nil {
		c.fail("stat (%s): %v", phase, err)
	}
	bf := info.Bitfield()
	if bf.Len() != uint(v.sh.n) {
		c.violate("torrent bitfield changed size ("+kind+")", map[string]interface{}{"bitfield": bf.String(), "phase": phase})
		return
	}
	data, err := v.readAny()
	if err != nil {
		c.fail("read blob file (%s): %v", phase, err)
	}
	if len(data) != len(v.sh.blob) {
		c.violate("blob file size changed ("+kind+")", map[string]interface{}{"size": len(data), "want": len(v.sh.blob), "phase": phase})
		return
	}
	for i := 0; i < v.sh.n; i++ {
		if !bf.Test(uint(i)) {
			continue
		}
		if !allowed[i] {
			c.violate("piece marked complete without a well-formed payload ("+kind+")", map[string]interface{}{"piece": i, "bitfield": bf.String(), "phase": phase})
		}
		s := int(v.sh.pieceLen) * i
		if string(data[s:s+int(v.sh.plen(i))]) != string(v.sh.piece(i)) {
			c.violate("complete piece does not hold the blob's bytes ("+kind+")", map[string]interface{}{"piece": i, "file": data, "phase": phase})
		}
	}
}
