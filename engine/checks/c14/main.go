// C14: no input from a remote peer can crash or corrupt a peer.
//
// E4 (small-scope exhaustive inputs): every message body of at most 2 (quick) /
// 3 (thorough) bytes, boundary-value grids over every field of every message
// type, handshake shapes (bitfield length headers x word counts x patterns,
// remote bitfields, ids, message shapes), handshake x follow-up message and
// (thorough) ordered message pairs are written as raw bytes into a net.Pipe
// whose other end is the REAL conn.Handshaker / conn.Conn read loop /
// dispatch.Dispatcher on a REAL agentstorage or originstorage torrent, glued
// together the way scheduler.state.addIncomingConn does it.
//
// Scheduler-level families (sched.go): the whole hostile handshake alphabet is
// also delivered to a REAL started scheduler over loopback TCP, as the ANSWER to
// a handshake the agent sent on a connection it dialled itself (fake tracker
// hand-out -> initializeOutgoingHandshake -> Handshaker.Initialize ->
// outgoingConnEvent -> addOutgoingConn -> Dispatcher.AddPeer) and through the
// scheduler's real listener, for torrents of 3, 64 and 65 pieces.
//
// Cases run in worker subprocesses of this binary (RLIMIT_AS + memory limit):
// a panic in a kraken-owned goroutine or a runaway allocation kills only the
// worker, which has written the case id to a pipe before executing it.
package main

import (
	"bufio"
	"bytes"
	"encoding/json"
	"fmt"
	"os"
	"os/exec"
	"regexp"
		"strconv"
	"strings"
	"sync"
	"sync/atomic"
	"time"

	"verif/evid"
	_ "verif/quiet"
)

const childEnv = "VERIF_C14_CHILD"

func main() {
	if os.Getenv(childEnv) != "" {
		childMain()
		return
	}
	parentMain()
}

// ---------------------------------------------------------------- crash classification

var (
	reNum      = regexp.MustCompile(`0x[0-9a-f]+|-?\d+`)
	krakenPref = "github.com/uber/kraken/"
)

// classifyCrash turns a Go panic / fatal-error dump into a fingerprint: the
// failure class plus the two innermost kraken frames of the failing goroutine.
// ok=false when no kraken frame is on the failing stack (a harness bug).
func classifyCrash(stderr, kind string) (fp string, frames []string, ok bool) {
	lines := strings.Split(stderr, "\n")
	class := ""
	msg := ""
	for _, l := range lines {
		if strings.HasPrefix(l, "panic: ") && msg == "" {
			msg = strings.TrimPrefix(l, "panic: ")
		}
		if strings.HasPrefix(l, "fatal error: ") && msg == "" {
			msg = l
		}
	}
	switch {
	case msg == "":
		return "", nil, false
	case strings.Contains(msg, "out of memory") || strings.Contains(msg, "cannot allocate memory"):
		class = "oom"
	case strings.Contains(msg, "nil pointer dereference"):
		class = "nil dereference"
	case strings.Contains(msg, "out of range") || strings.Contains(msg, "makeslice") || strings.Contains(msg, "slice bounds"):
		class = "index/size out of range"
	case strings.HasPrefix(msg, "fatal error: "):
		class = strings.TrimPrefix(msg, "fatal error: ")
	default:
		class = "panic " + reNum.ReplaceAllString(msg, "N")
		if len(class) > 80 {
			class = class[:80]
		}
	}
	// goroutine blocks: pick the first one that has a kraken frame
	var cur []string
	pick := func() bool {
		var fr []string
		for _, f := range cur {
			if strings.HasPrefix(f, krakenPref) {
				name := strings.TrimPrefix(f, krakenPref)
				if i := strings.LastIndex(name, "("); i > 0 {
					name = name[:i]
				}
				if j := strings.LastIndex(name, "/"); j >= 0 {
					name = name[j+1:]
				}
				name = strings.TrimSuffix(name, "...")
				if len(fr) == 0 || fr[len(fr)-1] != name {
					fr = append(fr, name)
				}
			}
		}
		if len(fr) > 0 {
			frames = fr
			return true
		}
		return false
	}
	found := false
	for _, l := range lines {
		if strings.HasPrefix(l, "goroutine ") && strings.HasSuffix(l, ":") {
			if len(cur) > 0 && pick() {
				found = true
				break
			}
			cur = nil
			continue
		}
		if l != "" && !strings.HasPrefix(l, "\t") && !strings.HasPrefix(l, "created by ") {
			cur = append(cur, l)
		}
	}
	if !found && len(cur) > 0 && pick() {
		found = true
	}
	if !found {
		return "", nil, false
	}
	if class == "oom" {
		return "allocation beyond bound: " + kind, frames, true
	}
	site := frames[0]
	if len(frames) > 1 {
		site += " < " + frames[1]
	}
	return "crash (" + class + ") at " + site, frames, true
}

// ---------------------------------------------------------------- parent

type chunk struct{ from, to int64 }

type parent struct {
	run      *evid.Run
	cs       *caseSpace
	tier     string
	mu       sync.Mutex
	counters map[string]int64
	evals    int64
	crashes  int64
	spawns   int64
	fatal    atomic.Value // string
}

type worker struct {
	p      *parent
	cmd    *exec.Cmd
	stdin  *os.File
	ctl    *bufio.Reader
	ctlR   *os.File
	stderr *capBuf
	errDone chan struct{}
	progress int64
	wdKilled int32
	wdStop   chan struct{}
	inChunk  int32
}

const watchdog = 120 * time.Second

type capBuf struct {
	mu sync.Mutex
	b  bytes.Buffer
}

func (c *capBuf) Write(p []byte) (int, error) {
	c.mu.Lock()
	if c.b.Len() < 256<<10 {
		c.b.Write(p)
	}
	c.mu.Unlock()
	return len(p), nil
}
func (c *capBuf) String() string { c.mu.Lock(); defer c.mu.Unlock(); return c.b.String() }

func (p *parent) spawn() (*worker, error) {
	self, err := os.Executable()
	if err != nil {
		return nil, err
	}
	inR, inW, err := os.Pipe()
	if err != nil {
		return nil, err
	}
	ctlR, ctlW, err := os.Pipe()
	if err != nil {
		return nil, err
	}
	errR, errW, err := os.Pipe()
	if err != nil {
		return nil, err
	}
	cmd := exec.Command(self)
	cmd.Env = append(os.Environ(), childEnv+"=1", "VERIF_C14_TIER="+p.tier, "GOMAXPROCS=2")
	cmd.Stdin = inR
	cmd.Stdout = os.Stderr
	cmd.Stderr = errW
	cmd.ExtraFiles = []*os.File{ctlW}
	if err := cmd.Start(); err != nil {
		return nil, err
	}
	inR.Close()
	ctlW.Close()
	errW.Close()
	w := &worker{p: p, cmd: cmd, stdin: inW, ctl: bufio.NewReaderSize(ctlR, 1<<20), ctlR: ctlR, stderr: &capBuf{}, errDone: make(chan struct{})}
	go func() {
		buf := make([]byte, 32<<10)
		for {
			n, err := errR.Read(buf)
			if n > 0 {
				w.stderr.Write(buf[:n])
			}
			if err != nil {
				break
			}
		}
		errR.Close()
		close(w.errDone)
	}()
	atomic.AddInt64(&p.spawns, 1)
	w.wdStop = make(chan struct{})
	atomic.StoreInt64(&w.progress, time.Now().UnixNano())
	go func() {
		t := time.NewTicker(5 * time.Second)
		defer t.Stop()
		for {
			select {
			case <-w.wdStop:
				return
			case <-t.C:
				if w.busy() && time.Since(time.Unix(0, atomic.LoadInt64(&w.progress))) > watchdog {
					atomic.StoreInt32(&w.wdKilled, 1)
					w.cmd.Process.Kill()
					return
				}
			}
		}
	}()
	return w, nil
}

func (w *worker) busy() bool { return atomic.LoadInt32(&w.inChunk) != 0 }

func (w *worker) kill() {
	select {
	case <-w.wdStop:
	default:
		close(w.wdStop)
	}
	w.stdin.Close()
	w.cmd.Process.Kill()
	w.cmd.Wait()
	<-w.errDone
	w.ctlR.Close()
}

// runChunk executes [from,to) on w. It returns the id to resume from when the
// worker died (and dead=true), or to when the chunk completed.
func (w *worker) runChunk(from, to int64) (next int64, dead bool, err error) {
	atomic.StoreInt32(&w.inChunk, 1)
	defer atomic.StoreInt32(&w.inChunk, 0)
	defer func() {
		if dead {
			select {
			case <-w.wdStop:
			default:
				close(w.wdStop)
			}
		}
	}()
	if _, err := fmt.Fprintf(w.stdin, "%d %d\n", from, to); err != nil {
		return from, true, nil // died between chunks without having started a case
	}
	last := int64(-1)
	restart := false
	for {
		atomic.StoreInt64(&w.progress, time.Now().UnixNano())
		s, rerr := w.ctl.ReadString('\n')
		if rerr != nil {
			break
		}
		lr := struct{ s string }{s}
		line := strings.TrimRight(lr.s, "\n")
		if len(line) < 2 {
			continue
		}
		arg := line[2:]
		switch line[0] {
		case 'S':
			last, _ = strconv.ParseInt(arg, 10, 64)
			atomic.AddInt64(&w.p.evals, 1)
		case 'K':
			w.p.run.Distinct(arg)
			if os.Getenv("VERIF_C14_KEYS") != "" {
				fmt.Println("KEY", arg)
			}
		case 'V':
			var v violation
			if err := json.Unmarshal([]byte(arg), &v); err != nil {
				w.cmd.Process.Kill()
				return 0, true, fmt.Errorf("bad violation line: %v", err)
			}
			w.p.run.Violation(v.FP, v.Detail)
		case 'N':
			var m map[string]int64
			json.Unmarshal([]byte(arg), &m)
			w.p.mu.Lock()
			for k, n := range m {
				w.p.counters[k] += n
			}
			w.p.mu.Unlock()
		case 'D':
			return to, false, nil
		case 'R':
			restart = true
		case 'X':
			w.cmd.Process.Kill()
			return 0, true, fmt.Errorf("worker harness error: %s", arg)
		}
	}
	// EOF on the control pipe: the worker is gone.
	w.stdin.Close()
	werr := w.cmd.Wait()
	<-w.errDone
	w.ctlR.Close()
	if restart {
		return last + 1, true, nil
	}
	stderr := w.stderr.String()
	if atomic.LoadInt32(&w.wdKilled) != 0 {
		return 0, true, fmt.Errorf("worker made no progress for %v at case %d (%s); killed by the harness watchdog\n%s", watchdog, last, w.p.describe(last), tail(stderr, 3000))
	}
	if last < 0 {
		return 0, true, fmt.Errorf("worker died before its first case: %v\n%s", werr, tail(stderr, 4000))
	}
	tc := w.p.cs.get(last)
	fp, frames, ok := classifyCrash(stderr, tc.Kind)
	if !ok {
		return 0, true, fmt.Errorf("worker died at case %d (%s) and the cause cannot be attributed to kraken code: %v\n%s", last, tc.Desc, werr, tail(stderr, 6000))
	}
	atomic.AddInt64(&w.p.crashes, 1)
	w.p.run.Violation(fp, map[string]interface{}{
		"case": tc, "worker_exit": fmt.Sprint(werr), "frames": frames, "stderr_head": head(stderr, 1500),
		"where": "goroutine owned by kraken (not recoverable by the embedding process): the whole peer process dies",
	})
	return last + 1, true, nil
}

func head(s string, n int) string {
	if len(s) > n {
		return s[:n]
	}
	return s
}
func tail(s string, n int) string {
	if len(s) > n {
		return s[len(s)-n:]
	}
	return s
}

func (p *parent) describe(id int64) string {
	if id < 0 || id >= p.cs.total {
		return "none"
	}
	return p.cs.get(id).Desc
}

func parentMain() {
	run := evid.New("C14", "exploration")
	mi := makeMetaInfo()
	_ = mi
	p := &parent{run: run, tier: run.Tier(), counters: map[string]int64{}}
	p.cs = newCaseSpace(run.Thorough())

	if os.Getenv("VERIF_C14_LIST") != "" {
		for k, f := range p.cs.fams {
			fmt.Printf("%-8s start=%d count=%d chunk=%d\n", f.name, p.cs.start[k], f.count, f.chunk)
		}
		if sub := os.Getenv("VERIF_C14_FIND"); sub != "" {
			for k, f := range p.cs.fams {
				if f.chunk >= 1024 {
					continue
				}
				for i := int64(0); i < f.count; i++ {
					if c := p.cs.get(p.cs.start[k] + i); strings.Contains(c.Desc, sub) {
						fmt.Printf("%d %s %s: %s\n", c.ID, c.Family, c.Victim, c.Desc)
					}
				}
			}
		}
		os.Exit(0)
	}
	budget := 70 * time.Second
	if run.Thorough() {
		budget = 12 * time.Minute
	}
	if v, err := strconv.Atoi(os.Getenv("VERIF_C14_BUDGET_S")); err == nil && v > 0 {
		budget = time.Duration(v) * time.Second // development aid
	}
	deadline := time.Now().Add(budget)

	var chunks []chunk
	if rp := run.ReplayPath(); rp != "" {
		b, err := os.ReadFile(rp)
		if err != nil {
			run.Fatal(err)
		}
		var r struct {
			Case struct {
				Case struct {
					ID int64 `json:"id"`
				} `json:"case"`
			} `json:"case"`
		}
		if err := json.Unmarshal(b, &r); err != nil {
			run.Fatal(err)
		}
		id := r.Case.Case.ID
		fmt.Printf("replaying case %d: %s\n", id, p.describe(id))
		chunks = []chunk{{id, id + 1}}
		run.Distinct("replay")
		run.Distinct(fmt.Sprintf("replay of case %d", id))
	} else if rg := os.Getenv("VERIF_C14_RANGE"); rg != "" {
		// development aid: run the cases [from,to) only
		var from, to int64
		if _, err := fmt.Sscanf(rg, "%d:%d", &from, &to); err != nil {
			run.Fatal(err)
		}
		for s := from; s < to; s += 8 {
			e := s + 8
			if e > to {
				e = to
			}
			chunks = append(chunks, chunk{s, e})
		}
	} else {
		// End-to-end families first (never the ones cut by the budget), their
		// chunks in a fixed stride order and round-robin across families, so
		// that every input kind is reached early even when many workers die.
		var e2e [][]chunk
		var bulk []chunk
		for k, f := range p.cs.fams {
			var cl []chunk
			for s := int64(0); s < f.count; s += f.chunk {
				e := s + f.chunk
				if e > f.count {
					e = f.count
				}
				cl = append(cl, chunk{p.cs.start[k] + s, p.cs.start[k] + e})
			}
			if f.chunk >= 1024 {
				bulk = append(bulk, cl...)
				continue
			}
			n := len(cl)
			stride := 1
			for _, c := range []int{37, 31, 29, 23, 19, 17, 13, 11, 7, 5, 3} {
				if n > c && n%c != 0 {
					stride = c
					break
				}
			}
			perm := make([]chunk, 0, n)
			for i := 0; i < n; i++ {
				perm = append(perm, cl[(i*stride)%n])
			}
			e2e = append(e2e, perm)
		}
		for more := true; more; {
			more = false
			for k := range e2e {
				if len(e2e[k]) > 0 {
					chunks = append(chunks, e2e[k][0])
					e2e[k] = e2e[k][1:]
					more = true
				}
			}
		}
		chunks = append(chunks, bulk...)
	}

	var next int64 = -1
	var skipped int64
	var wg sync.WaitGroup
	var fatalMu sync.Mutex
	var fatalErr error
	setFatal := func(err error) {
		fatalMu.Lock()
		if fatalErr == nil {
			fatalErr = err
		}
		fatalMu.Unlock()
	}
	isFatal := func() bool { fatalMu.Lock(); defer fatalMu.Unlock(); return fatalErr != nil }
	for i := 0; i < evid.Workers(); i++ {
		wg.Add(1)
		go func() {
			defer wg.Done()
			var w *worker
			defer func() {
				if w != nil {
					w.kill()
				}
			}()
			for {
				k := atomic.AddInt64(&next, 1)
				if k >= int64(len(chunks)) || isFatal() {
					return
				}
				ch := chunks[k]
				if time.Now().After(deadline) {
					atomic.AddInt64(&skipped, ch.to-ch.from)
					continue
				}
				from := ch.from
				for from < ch.to {
					if from > ch.from && time.Now().After(deadline) {
						atomic.AddInt64(&skipped, ch.to-from) // a worker died mid-chunk after the budget ran out
						break
					}
					if w == nil {
						var err error
						if w, err = p.spawn(); err != nil {
							setFatal(err)
							return
						}
					}
					nx, dead, err := w.runChunk(from, ch.to)
					if err != nil {
						setFatal(err)
						w = nil
						return
					}
					if dead {
						w = nil
					}
					from = nx
				}
			}
		}()
	}
	wg.Wait()
	if fatalErr != nil {
		run.Fatal(fatalErr)
	}

	run.Eval(int(p.evals))
	var famDesc []string
	for _, f := range p.cs.fams {
		famDesc = append(famDesc, fmt.Sprintf("%s=%d", f.name, f.count))
		run.Set("cases_"+f.name, f.count)
	}
	for k, v := range p.counters {
		run.Set(k, v)
	}
	run.Set("worker_processes_spawned", p.spawns)
	run.Set("worker_crashes", p.crashes)
	maxBody := 2
	if run.Thorough() {
		maxBody = 3
	}
	run.Rule = fmt.Sprintf("one evaluation = one hostile input written as raw bytes to the real Handshaker/Conn/Dispatcher of a fresh victim (agent torrent with 1 of 3 pieces, origin torrent) next to an honest second connection; families: %s. wire/hsraw = every byte string of length <= %d as message / handshake body; grid = boundary grid index%v x offset%v x length%v per PIECE_REQUEST/PIECE_PAYLOAD (x payload bytes good/corrupt/short/long/none); msg = index grid for ANNOUNCE/CANCEL/ERROR, every type without body / with another type's body / unknown types; hs = bitfield length header x 0..3 words x pattern, truncated/trailing bytes, remote-bitfield map keys x values, peer id / info hash / name / namespace values, wrong message shapes; hs+msg and pair = follow-ups and ordered pairs over a reduced alphabet. sched = {agent scheduler x direction out (the agent dials the hostile peer named by a fake tracker answer; hostile peer handed out as agent / as origin) | agent scheduler x direction in | origin scheduler x direction in} x torrent of %v pieces x start state %v x the whole hs alphabet built for that piece count (bitfield: length header{0,1,n-1,n,n+1,63,64,65,128,2^16,2^26,2^36,2^63,max} x 0..3 words x pattern%v), delivered over loopback TCP to a real started scheduler next to an honest second connection; sched+msg = the same start parameters (3 pieces) x accepted handshake shapes x one follow-up message. distinct = outcome class (family, victim, direction, pieces, input kind, connection outcome, reply types, pieces written)",
		strings.Join(famDesc, " "), maxBody, idxGrid, offGrid(run.Thorough()), lenGrid, shapeSizes(), schedStarts(run.Thorough()), bitfieldPatterns)
	run.Assume("small scope: one 10-byte blob in 3 pieces of 4/4/2 bytes (sched family also: 127 bytes in 64 pieces and 129 bytes in 65 pieces of 2 bytes, last piece 1 byte); agent holds piece 0; fields take boundary values only; bodies up to " + strconv.Itoa(maxBody) + " bytes exhaustively, longer bodies only through the structured grids")
	run.Assume("families msg/grid/hs/hs+msg/pair: the scheduler glue between Handshaker and Dispatcher (Accept -> Stat -> Establish -> Start -> AddPeer) is re-stated in the harness. Families sched/sched+msg: nothing is re-stated, the victim is a real started scheduler (newScheduler+start as NewAgentScheduler/NewOriginScheduler do, through an in-package export): real event loop goroutine, listener, Handshaker.Initialize/Accept/Establish, connstate, dispatcher, agentstorage/originstorage; seams are the tracker (announceclient.Client answering the first announce with [honest seeder, hostile peer]), the metainfo client and the origin's empty backend manager; connstate limits and event orders are C16/C17")
	run.Assume("sched families: the hostile and the honest peer are loopback TCP endpoints of the harness; the hostile input is released only after the honest connection is active (the agent has requested every missing piece from the honest seeder; the origin has served it a piece); the hostile peer ends its input with a chunked PIECE_REQUEST{index:32429 offset:1} and the case continues when the dispatcher's ERROR answer to it, or the end of the connection, has been read; afterwards the scheduler must answer Probe, the honest seeder delivers every piece and the agent's Download must return nil with the blob's bytes in the cache (origin: the honest leecher is served piece 0); dispatch pipeline limit 128 so that all pieces are requested from the first seeder; scheduler wall-clock limits (handshake, probe) set to 110 s, beyond any case")
	run.Assume("'bitfield of the wrong size' (must be rejected or end the connection) = undecodable, declared bit count != number of pieces, or a bit set at an index >= number of pieces in the decoded words; trailing bytes after the decoded words are not decided by the statement")
	run.Assume("allocation bound: at most 2 MiB allocated while one attacker connection is processed (message cap 32 KiB, pieces of 4 bytes); measured with runtime/metrics, backed by RLIMIT_AS = start size + 1.5 GiB in the worker process")
	run.Assume("families msg/grid/hs/hs+msg/pair: a recording dispatch.Messages wrapper sits between the real Dispatcher and the real Conn and reads piece payload readers in the dispatching goroutine (no wrapper in the sched families: replies are read from the socket)")
	run.Assume("determinisation of two kraken-internal races: a synthetic no-op CANCEL_PIECE is handed to the dispatcher's feed loop after every received message as a barrier (so replies are observed before the attacker closes), and after the dispatcher closed a connection later Sends on it return 'conn closed' (Conn.Send itself chooses at random there)")
	run.Assume("hang detection is a harness watchdog (120 s without progress = harness error), not an oracle")
	for _, id := range []int64{p.cs.start[0] + 4200, p.cs.start[1] + 300, p.cs.start[3] + 11, p.cs.start[4] + 141, p.cs.start[5] + 40, p.cs.start[6] + 9, p.cs.start[7] + 29, p.cs.start[7] + 1500, p.cs.start[8] + 30} {
		if id < p.cs.total {
			c := p.cs.get(id)
			smp := map[string]interface{}{"id": c.ID, "family": c.Family, "victim": c.Victim, "desc": c.Desc}
			if c.Dir != "" {
				smp["direction"], smp["pieces"], smp["must_end"] = c.Dir, c.Pieces, c.MustEnd
			}
			if c.HS != nil {
				smp["handshake_body_hex"] = fmt.Sprintf("%x", c.HS)
			}
			for i, m := range c.Msgs {
				smp[fmt.Sprintf("frame_%d_hex", i)] = fmt.Sprintf("%x", frame(m))
			}
			run.Sample(smp)
		}
	}
	if skipped > 0 {
		run.NotExhaustive(fmt.Sprintf("time budget %v reached: %d of %d cases not run", budget, skipped, p.cs.total))
	}
	run.Finish()
}
