// C15: piece request bookkeeping respects pipeline limits and peer removal.
// E3: explicit-state BFS over all histories of ReservePieces / MarkUnsent /
// MarkInvalid / Clear / ClearPeer / clock advances on the REAL
// piecerequest.Manager (both selection policies, explicit clock), compared
// step by step with a reference model that follows the implementation's
// choice of pieces (relation model) and enumerates the math/rand draws of the
// default policy (math/rand -> verif/shim/vrand through the overlay; the BFS
// operation string carries the answers).
package main

import (
	"encoding/json"
	"fmt"
	"os"
	"sort"
	"strconv"
	"strings"
	"sync"
	"sync/atomic"
	"time"

	"github.com/andres-erbsen/clock"
	"github.com/uber/kraken/core"
	"github.com/uber/kraken/lib/torrent/scheduler/dispatch/piecerequest"
	"github.com/uber/kraken/utils/syncutil"
	"github.com/willf/bitset"

	"verif/bfs"
	"verif/evid"
	_ "verif/quiet"
	"verif/rep"
	"verif/shim/vrand"
)

const timeout = 10 * time.Second

// Clock advances of the alphabet. Request ages are sums of these and never
// equal the timeout exactly (the text does not decide that boundary): ages
// 0s and 6s are unexpired, everything else (>= 11s) is expired.
var advances = map[string]time.Duration{"6": 6 * time.Second, "11": 11 * time.Second}

// Read-only look-ahead offsets at which the failed-request report is also
// evaluated after every step (what a later reader of the report would see if
// only time passed). At +11s every request still booked has failed, so the
// report is a complete dump of the bookkeeping.
var lookahead = []time.Duration{0, 5 * time.Second, 11 * time.Second}

// fclock is an explicit clock (clock.Mock sleeps 1ms per Add, unusable here).
type fclock struct {
	clock.Clock
	t time.Time
}

func (c *fclock) Now() time.Time { return c.t }

var epoch = time.Unix(100000, 0)

// ---- rand answers (vrand.Decider is a process global) ----
//
// BFS workers run in parallel; the Manager call that may draw random numbers
// is serialised by randMu and answered from the calling system's op string.

var (
	randMu  sync.Mutex
	randCur *sys
)

func decide(n int, label string) int {
	if randCur == nil {
		panic("C15: rand draw outside a ReservePieces call of the harness")
	}
	return randCur.draw(n)
}

// ---- configuration ----

type config struct {
	policy   string
	limits   [2]int // [agent, origin]
	peers    int    // peer 1 ("q") is an origin, the others are agents
	pieces   int
	prio     []int // numPeersByPiece
	depth    int
	allMarks bool // offer Mark* also for (peer, piece) without a booked request
}

func (c config) name() string {
	return fmt.Sprintf("%s limits=%d/%d peers=%d pieces=%d prio=%v marks=%v depth=%d", c.policy, c.limits[0], c.limits[1], c.peers, c.pieces, c.prio, c.allMarks, c.depth)
}

func peerID(k int) core.PeerID {
	var p core.PeerID
	for i := range p {
		p[i] = byte(0x10 + k)
	}
	return p
}

func peerName(k int) string { return string(rune('p' + k)) }

func peerIdx(id core.PeerID, n int) int {
	for k := 0; k < n; k++ {
		if id == peerID(k) {
			return k
		}
	}
	return -1
}

// ---- model ----

type mreq struct {
	piece, peer int
	sent        time.Duration
	marks       uint8 // bit0: marked unsent at some point, bit1: marked invalid
	last        uint8 // last mark (1 unsent, 2 invalid)
}

const (
	clsReserveSome = 1 << iota
	clsReserveNoQuota
	clsEndgameDup
	clsReReserve
	clsClearPeerDouble
	clsClearPeerSome
	clsClearMulti
	clsAdvanceExpires
	clsMarkLive
	clsMarkLate
	clsRandDraw
	clsRandMispredicted
	clsBlockedByOther
	clsReserveFewerThanQuota
)

var clsNames = []string{"reserve_returned_pieces", "reserve_no_quota_left", "endgame_duplicate_created", "rereserve_same_peer_after_expiry_or_mark", "clearpeer_peer_has_two_requests_on_one_piece", "clearpeer_removes_requests", "clear_removes_several_requests", "advance_expires_a_request", "mark_on_booked_request", "mark_without_booked_request", "rand_draw_consumed", "rand_draws_not_as_predicted", "candidate_blocked_by_other_peers_request", "reserve_returned_fewer_than_quota"}

type sys struct {
	cfg      config
	clk      *fclock
	m        *piecerequest.Manager
	counters syncutil.Counters

	now   time.Duration
	reqs  []mreq
	tombs map[[2]int]string // (piece, peer) -> how its requests were removed (classification only)

	rand     []int
	randUsed int
	randOdd  bool
	drawn    []int

	cls      uint32
	obs      string
	obsValid bool

	n    int     // operations applied so far
	srch *search // shared per-search bookkeeping (nil in replay mode)
}

// search is shared by all systems of one BFS. maxLen is the longest history
// whose last step has been fully checked so far: the BFS is level-synchronous
// and builds every successor by replaying a history all of whose prefixes were
// checked as the last step of an earlier expansion, so the (expensive) report
// comparison is skipped for steps strictly below maxLen -- they are exact
// repetitions of already checked deterministic steps. The cheap reservation
// clauses are evaluated on every step regardless.
type search struct {
	maxLen atomic.Int64
	sink   *classSink
}

func newSys(cfg config, srch *search) (*sys, error) {
	clk := &fclock{Clock: clock.New(), t: epoch}
	m, err := piecerequest.NewManager(clk, timeout, cfg.policy, cfg.limits[0], cfg.limits[1])
	if err != nil {
		return nil, err
	}
	cs := syncutil.NewCounters(cfg.pieces)
	for i := 0; i < cfg.pieces; i++ {
		cs.Set(i, cfg.prio[i])
	}
	return &sys{cfg: cfg, clk: clk, m: m, counters: cs, tombs: map[[2]int]string{}, srch: srch}, nil
}

func (s *sys) Close() {}

func (s *sys) draw(n int) int {
	s.drawn = append(s.drawn, n)
	if s.randUsed < len(s.rand) {
		a := s.rand[s.randUsed]
		s.randUsed++
		if a >= n {
			s.randOdd = true
			a %= n
		}
		return a
	}
	s.randOdd = true
	return 0
}

func (s *sys) limit(peer int) int {
	if peer == 1 {
		return s.cfg.limits[1]
	}
	return s.cfg.limits[0]
}

func (r mreq) expired(now time.Duration) bool { return now-r.sent > timeout }
func (r mreq) active(now time.Duration) bool  { return r.marks == 0 && !r.expired(now) }

func (s *sys) activeCount(peer int) int {
	n := 0
	for _, r := range s.reqs {
		if r.peer == peer && r.active(s.now) {
			n++
		}
	}
	return n
}

// validM mirrors which candidates the implementation may still pick (used
// only to predict the number of rand draws, never as an oracle).
func (s *sys) validM(peer, piece int, endgame bool) bool {
	for _, r := range s.reqs {
		if r.piece == piece && r.active(s.now) {
			if r.peer == peer || !endgame {
				return false
			}
		}
	}
	return true
}

func (s *sys) hasLive(peer, piece int) bool {
	for _, r := range s.reqs {
		if r.piece == piece && r.peer == peer {
			return true
		}
	}
	return false
}

// randVectors lists the answer vectors for the draws the default policy will
// make: reservoir sampling draws Intn(k) for the k-th valid candidate, k =
// quota .. nvalid-1.
func (s *sys) randVectors(peer, mask int, endgame bool) []string {
	if s.cfg.policy != piecerequest.DefaultPolicy {
		return []string{""}
	}
	quota := s.limit(peer) - s.activeCount(peer)
	if quota <= 0 {
		return []string{""}
	}
	nv := 0
	for i := 0; i < s.cfg.pieces; i++ {
		if mask&(1<<uint(i)) != 0 && s.validM(peer, i, endgame) {
			nv++
		}
	}
	vecs := []string{""}
	for k := quota; k < nv; k++ {
		var next []string
		for _, v := range vecs {
			for a := 0; a < k; a++ {
				next = append(next, v+strconv.Itoa(a))
			}
		}
		vecs = next
	}
	return vecs
}

func (s *sys) Ops() []string {
	var ops []string
	for p := 0; p < s.cfg.peers; p++ {
		for mask := 1; mask < 1<<uint(s.cfg.pieces); mask++ {
			for _, eg := range []string{"n", "e"} {
				for _, v := range s.randVectors(p, mask, eg == "e") {
					op := fmt.Sprintf("R:%s:%d:%s", peerName(p), mask, eg)
					if v != "" {
						op += ":" + v
					}
					ops = append(ops, op)
				}
			}
		}
	}
	for _, k := range []string{"U", "I"} {
		for p := 0; p < s.cfg.peers; p++ {
			for i := 0; i < s.cfg.pieces; i++ {
				if s.cfg.allMarks || s.hasLive(p, i) {
					ops = append(ops, fmt.Sprintf("%s:%s:%d", k, peerName(p), i))
				}
			}
		}
	}
	for i := 0; i < s.cfg.pieces; i++ {
		ops = append(ops, fmt.Sprintf("C:%d", i))
	}
	for p := 0; p < s.cfg.peers; p++ {
		ops = append(ops, "X:"+peerName(p))
	}
	ops = append(ops, "A:6", "A:11")
	return ops
}

func (s *sys) parsePeer(f string) (int, error) {
	if len(f) != 1 || int(f[0]-'p') < 0 || int(f[0]-'p') >= s.cfg.peers {
		return 0, fmt.Errorf("bad peer %q", f)
	}
	return int(f[0] - 'p'), nil
}

var opKinds = map[string]string{"R": "Reserve", "U": "MarkUnsent", "I": "MarkInvalid", "C": "Clear", "X": "ClearPeer", "A": "advance"}

func (s *sys) Apply(op string) (err error) {
	f := strings.Split(op, ":")
	kind := opKinds[f[0]]
	if kind == "" {
		return fmt.Errorf("bad op %q", op)
	}
	defer func() {
		if r := recover(); r != nil {
			err = bfs.Failf("panic in piecerequest.Manager ("+kind+")", "%v", r)
		}
	}()
	s.cls = 0
	s.n++
	check := s.srch == nil || int64(s.n) >= s.srch.maxLen.Load()
	pre := ""
	if check && s.srch != nil {
		pre = s.modelString()
	}
	switch f[0] {
	case "R":
		if len(f) < 4 {
			return fmt.Errorf("bad op %q", op)
		}
		peer, err := s.parsePeer(f[1])
		if err != nil {
			return err
		}
		mask, err := strconv.Atoi(f[2])
		if err != nil || mask <= 0 || mask >= 1<<uint(s.cfg.pieces) {
			return fmt.Errorf("bad op %q", op)
		}
		endgame := f[3] == "e"
		s.rand = s.rand[:0]
		if len(f) > 4 {
			for _, c := range f[4] {
				s.rand = append(s.rand, int(c-'0'))
			}
		}
		if e := s.reserve(peer, mask, endgame); e != nil {
			return e
		}
	case "U", "I":
		peer, err := s.parsePeer(f[1])
		if err != nil {
			return err
		}
		piece, err := strconv.Atoi(f[2])
		if err != nil || piece < 0 || piece >= s.cfg.pieces {
			return fmt.Errorf("bad op %q", op)
		}
		bit, last := uint8(1), uint8(1)
		if f[0] == "I" {
			bit, last = 2, 2
			s.m.MarkInvalid(peerID(peer), piece)
		} else {
			s.m.MarkUnsent(peerID(peer), piece)
		}
		// The text speaks of "the" request of the peer for the piece; when an
		// older (already failed) one is still booked the model follows the
		// implementation and marks them all (membership in the failed report
		// is the same either way).
		hit := false
		for k := range s.reqs {
			if s.reqs[k].peer == peer && s.reqs[k].piece == piece {
				s.reqs[k].marks |= bit
				s.reqs[k].last = last
				hit = true
			}
		}
		if hit {
			s.cls |= clsMarkLive
		} else {
			s.cls |= clsMarkLate
		}
	case "C":
		piece, err := strconv.Atoi(f[1])
		if err != nil || piece < 0 || piece >= s.cfg.pieces {
			return fmt.Errorf("bad op %q", op)
		}
		s.m.Clear(piece)
		var keep []mreq
		n := 0
		for _, r := range s.reqs {
			if r.piece == piece {
				s.tombs[[2]int{r.piece, r.peer}] = "Clear"
				n++
			} else {
				keep = append(keep, r)
			}
		}
		s.reqs = keep
		if n >= 2 {
			s.cls |= clsClearMulti
		}
	case "X":
		peer, err := s.parsePeer(f[1])
		if err != nil {
			return err
		}
		s.m.ClearPeer(peerID(peer))
		var keep []mreq
		per := map[int]int{}
		for _, r := range s.reqs {
			if r.peer == peer {
				s.tombs[[2]int{r.piece, r.peer}] = "ClearPeer"
				per[r.piece]++
			} else {
				keep = append(keep, r)
			}
		}
		s.reqs = keep
		if len(per) > 0 {
			s.cls |= clsClearPeerSome
		}
		for _, n := range per {
			if n >= 2 {
				s.cls |= clsClearPeerDouble
			}
		}
	case "A":
		d, ok := advances[f[1]]
		if !ok {
			return fmt.Errorf("bad op %q", op)
		}
		for _, r := range s.reqs {
			if r.active(s.now) && !r.active(s.now+d) {
				s.cls |= clsAdvanceExpires
			}
		}
		s.now += d
		s.clk.t = epoch.Add(s.now)
	}
	if !check {
		s.obsValid = false
		return nil
	}
	err = s.invariants(kind)
	if s.srch != nil {
		if s.cls != 0 {
			s.srch.sink.put(pre+"#"+op, s.cls)
		}
		for {
			cur := s.srch.maxLen.Load()
			if int64(s.n) <= cur || s.srch.maxLen.CompareAndSwap(cur, int64(s.n)) {
				break
			}
		}
	}
	return err
}

func (s *sys) reserve(peer, mask int, endgame bool) error {
	bs := bitset.New(uint(s.cfg.pieces))
	for i := 0; i < s.cfg.pieces; i++ {
		if mask&(1<<uint(i)) != 0 {
			bs.Set(uint(i))
		}
	}
	quota := s.limit(peer) - s.activeCount(peer)
	predicted := 0
	nvalid := 0
	for i := 0; i < s.cfg.pieces; i++ {
		if mask&(1<<uint(i)) != 0 {
			if s.validM(peer, i, endgame) {
				nvalid++
			} else if !endgame {
				for _, r := range s.reqs {
					if r.piece == i && r.peer != peer && r.active(s.now) {
						s.cls |= clsBlockedByOther
					}
				}
			}
		}
	}
	if s.cfg.policy == piecerequest.DefaultPolicy && quota > 0 && nvalid > quota {
		predicted = nvalid - quota
	}
	s.randUsed, s.randOdd, s.drawn = 0, false, s.drawn[:0]
	randMu.Lock()
	randCur = s
	pieces, err := func() ([]int, error) {
		defer func() { randCur = nil; randMu.Unlock() }()
		return s.m.ReservePieces(peerID(peer), peer == 1, bs, s.counters, endgame)
	}()
	if err != nil {
		return fmt.Errorf("ReservePieces: unexpected error %v", err)
	}
	if len(s.drawn) > 0 {
		s.cls |= clsRandDraw
	}
	if s.randOdd || s.randUsed != len(s.rand) || len(s.drawn) != predicted {
		s.cls |= clsRandMispredicted
	}
	if quota <= 0 {
		s.cls |= clsReserveNoQuota
	}
	if len(pieces) > 0 {
		s.cls |= clsReserveSome
	}
	if quota > 0 && len(pieces) < quota {
		s.cls |= clsReserveFewerThanQuota
	}
	ctx := func() string {
		return fmt.Sprintf("peer %s (limit %d, %d unexpired outstanding) candidates=%03b endgame=%v -> %v; booked before: %s", peerName(peer), s.limit(peer), s.limit(peer)-quota, mask, endgame, pieces, s.modelString())
	}
	// clause 1: never more unexpired outstanding requests to a peer than its pipeline limit
	if len(pieces) > 0 && len(pieces) > quota {
		return bfs.Failf("peer is asked for more unexpired pieces than its pipeline limit (Reserve)", "%s", ctx())
	}
	// clause 2: outside endgame no piece gets a second unexpired outstanding request
	if !endgame {
		seen := map[int]bool{}
		for _, i := range pieces {
			dup := seen[i]
			seen[i] = true
			for _, r := range s.reqs {
				if r.piece == i && r.active(s.now) {
					dup = true
				}
			}
			if dup {
				return bfs.Failf("piece gets a second unexpired request outside endgame (Reserve)", "piece %d: %s", i, ctx())
			}
		}
	}
	// the model follows the implementation's choice
	for _, i := range pieces {
		for _, r := range s.reqs {
			if r.piece == i && r.peer != peer && r.active(s.now) {
				s.cls |= clsEndgameDup
			}
			if r.piece == i && r.peer == peer && !r.active(s.now) {
				s.cls |= clsReReserve
			}
		}
		s.reqs = append(s.reqs, mreq{piece: i, peer: peer, sent: s.now})
		delete(s.tombs, [2]int{i, peer})
	}
	return nil
}

const (
	maxPieces = 4
	maxPeers  = 4
)

func statusName(st piecerequest.Status) string {
	switch st {
	case piecerequest.StatusPending:
		return "pending"
	case piecerequest.StatusExpired:
		return "expired"
	case piecerequest.StatusUnsent:
		return "unsent"
	case piecerequest.StatusInvalid:
		return "invalid"
	}
	return fmt.Sprintf("status(%d)", int(st))
}

// invariants evaluates the observable reports after an operation of the given
// kind and compares them with the model. It also renders the observation that
// goes into the state key.
func (s *sys) invariants(kind string) error {
	after := " (after " + kind + ")"
	ob := make([]byte, 0, 96)
	defer func() { s.clk.t = epoch.Add(s.now) }()
	for oi, off := range lookahead {
		at := s.now + off
		s.clk.t = epoch.Add(at)
		failed := s.m.GetFailedRequests()
		var cnt [maxPieces][maxPeers][4]uint8
		var rc, mf, mp [maxPieces][maxPeers]int
		var allowed [maxPieces][maxPeers]uint8
		desc := func() string {
			var lines []string
			for _, r := range failed {
				pn := "?"
				if pk := peerIdx(r.PeerID, s.cfg.peers); pk >= 0 {
					pn = peerName(pk)
				}
				lines = append(lines, fmt.Sprintf("%d%s:%s", r.Piece, pn, statusName(r.Status)))
			}
			sort.Strings(lines)
			when := ""
			if off > 0 {
				when = fmt.Sprintf(" [report as read %v later with no further calls]", off)
			}
			return fmt.Sprintf("failed report=%v%s; model booked: %s", lines, when, s.modelStringAt(at))
		}
		for _, r := range failed {
			pk := peerIdx(r.PeerID, s.cfg.peers)
			if pk < 0 || r.Piece < 0 || r.Piece >= s.cfg.pieces {
				return bfs.Failf("failed report lists a request of an unknown peer or piece"+after, "%s", desc())
			}
			if r.Status < 0 || r.Status > 3 {
				return bfs.Failf("failed report carries a status that does not apply to the request"+after, "%s", desc())
			}
			cnt[r.Piece][pk][r.Status]++
			rc[r.Piece][pk]++
		}
		ob = append(ob, 'F', byte('0'+oi), '=')
		for i := 0; i < s.cfg.pieces; i++ {
			for p := 0; p < s.cfg.peers; p++ {
				for st := 0; st < 4; st++ {
					if c := cnt[i][p][st]; c > 0 {
						ob = append(ob, byte('0'+i), byte('p'+p), byte('0'+st), 'x', byte('0'+c), ',')
					}
				}
			}
		}
		ob = append(ob, ';')
		for _, r := range s.reqs {
			if r.marks == 0 && !r.expired(at) {
				mp[r.piece][r.peer]++
				continue
			}
			mf[r.piece][r.peer]++
			if r.expired(at) {
				allowed[r.piece][r.peer] |= 1 << uint(piecerequest.StatusExpired)
			}
			if r.marks&1 != 0 {
				allowed[r.piece][r.peer] |= 1 << uint(piecerequest.StatusUnsent)
			}
			if r.marks&2 != 0 {
				allowed[r.piece][r.peer] |= 1 << uint(piecerequest.StatusInvalid)
			}
		}
		for i := 0; i < s.cfg.pieces; i++ {
			for p := 0; p < s.cfg.peers; p++ {
				r, f, o := rc[i][p], mf[i][p], mp[i][p]
				if r == f && (r == 0 || statusesAllowed(cnt[i][p], allowed[i][p])) {
					continue
				}
				who := fmt.Sprintf("piece %d peer %s: reported %d, model failed %d / outstanding %d", i, peerName(p), r, f, o)
				switch {
				case r > f+o:
					switch s.tombs[[2]int{i, p}] {
					case "ClearPeer":
						return bfs.Failf("request of a removed peer is reported as failed"+after, "%s; %s", who, desc())
					case "Clear":
						return bfs.Failf("request of a cleared piece is reported as failed"+after, "%s; %s", who, desc())
					}
					if f+o > 0 {
						return bfs.Failf("failed report lists a request more often than it is booked"+after, "%s; %s", who, desc())
					}
					return bfs.Failf("failed report lists a request that was never made"+after, "%s; %s", who, desc())
				case r > f:
					return bfs.Failf("failed report lists a request that neither expired nor was marked unsent/invalid"+after, "%s; %s", who, desc())
				case r < f:
					return bfs.Failf("failed report misses a request that expired or was marked unsent/invalid"+after, "%s; %s", who, desc())
				default:
					return bfs.Failf("failed report carries a status that does not apply to the request"+after, "%s; %s", who, desc())
				}
			}
		}
	}
	// pending report (independent of the clock)
	for p := 0; p < s.cfg.peers; p++ {
		pend := s.m.PendingPieces(peerID(p))
		ob = append(ob, 'P', byte('p'+p), '=')
		for _, i := range pend {
			ob = strconv.AppendInt(ob, int64(i), 10)
			ob = append(ob, ',')
			if s.hasLive(p, i) {
				continue
			}
			d := fmt.Sprintf("PendingPieces(%s)=%v; model booked: %s", peerName(p), pend, s.modelString())
			switch s.tombs[[2]int{i, p}] {
			case "ClearPeer":
				return bfs.Failf("request of a removed peer is reported as pending"+after, "piece %d: %s", i, d)
			case "Clear":
				return bfs.Failf("request of a cleared piece is reported as pending"+after, "piece %d: %s", i, d)
			}
			return bfs.Failf("pending report lists a request that was never made"+after, "piece %d: %s", i, d)
		}
		ob = append(ob, ';')
	}
	s.obs = string(ob)
	s.obsValid = true
	return nil
}

// statusesAllowed: no entry is reported as pending, and every reported status
// is one that applies to some failed request of the pair (expired if one
// expired, unsent/invalid if one was marked so).
func statusesAllowed(cnt [4]uint8, allowed uint8) bool {
	for st := 0; st < 4; st++ {
		if cnt[st] > 0 && (st == int(piecerequest.StatusPending) || allowed&(1<<uint(st)) == 0) {
			return false
		}
	}
	return true
}

func (s *sys) modelString() string { return s.modelStringAt(s.now) }

// modelStringAt renders the booked requests canonically (ages are capped: all
// expired requests behave alike).
func (s *sys) modelStringAt(at time.Duration) string {
	l := make([]string, 0, len(s.reqs))
	for _, r := range s.reqs {
		var b [12]byte
		e := b[:0]
		e = append(e, byte('0'+r.piece), byte('p'+r.peer), '@')
		if r.expired(at) {
			e = append(e, 'x')
		} else {
			e = strconv.AppendInt(e, int64((at-r.sent)/time.Second), 10)
		}
		e = append(e, '/', byte('0'+r.marks), byte('0'+r.last))
		l = append(l, string(e))
	}
	sort.Strings(l)
	return "[" + strings.Join(l, " ") + "]"
}

func (s *sys) Key() string {
	if !s.obsValid {
		if err := s.invariants("state"); err != nil {
			return s.modelString() + "|FAIL " + err.Error()
		}
	}
	return s.modelString() + "|" + s.obs
}

func searchConfig(cfg config, sink *classSink, deadline time.Time) bfs.Config {
	var srch *search
	if sink != nil {
		srch = &search{sink: sink}
	}
	return bfs.Config{MaxDepth: cfg.depth, Deadline: deadline, New: func() (bfs.System, error) {
		return newSys(cfg, srch)
	}}
}

func configs(thorough bool) []config {
	d, r := piecerequest.DefaultPolicy, piecerequest.RarestFirstPolicy
	if !thorough {
		return []config{
			{policy: d, limits: [2]int{1, 2}, peers: 2, pieces: 3, prio: []int{2, 1, 1}, depth: 5},
			{policy: r, limits: [2]int{2, 1}, peers: 2, pieces: 3, prio: []int{2, 1, 1}, depth: 5},
			{policy: d, limits: [2]int{2, 1}, peers: 2, pieces: 3, prio: []int{2, 1, 1}, depth: 5},
			{policy: r, limits: [2]int{1, 2}, peers: 2, pieces: 3, prio: []int{1, 1, 2}, depth: 5},
			{policy: d, limits: [2]int{2, 2}, peers: 3, pieces: 3, prio: []int{2, 1, 1}, allMarks: true, depth: 4},
		}
	}
	return []config{
		{policy: d, limits: [2]int{1, 2}, peers: 2, pieces: 3, prio: []int{2, 1, 1}, depth: 7},
		{policy: d, limits: [2]int{2, 1}, peers: 2, pieces: 3, prio: []int{2, 1, 1}, depth: 7},
		{policy: r, limits: [2]int{1, 2}, peers: 2, pieces: 3, prio: []int{2, 1, 1}, depth: 7},
		{policy: r, limits: [2]int{2, 1}, peers: 2, pieces: 3, prio: []int{1, 1, 2}, depth: 7},
		{policy: d, limits: [2]int{2, 2}, peers: 3, pieces: 3, prio: []int{2, 1, 1}, allMarks: true, depth: 5},
	}
}

func main() {
	vrand.Decider = decide
	run := evid.New("C15", "model_checking")
	run.Rule = "every history up to the depth bound over ReservePieces(peer, candidates in all non-empty subsets of the pieces, endgame in {no,yes}, each answer vector of the default policy's math/rand draws), MarkUnsent/MarkInvalid(peer, piece), Clear(piece), ClearPeer(peer), advance(6s | 11s; timeout 10s) on a real piecerequest.Manager, BFS state-deduplicated on (model multiset of booked requests with capped ages and marks, failed report now/+5s/+11s, PendingPieces of every peer); every transition compared with the reference model. distinct = distinct states per configuration."
	run.Assume("small-scope: 2-3 peers (q is an origin), 3 pieces, pipeline limits in {1,2}, request ages in {0s, 6s, expired}; an age exactly equal to the timeout is kept out of the alphabet (the text does not decide that boundary)")
	run.Assume("math/rand in the piecerequest package is replaced by verif/shim/vrand through go build -overlay; every draw of the default policy is answered from the operation string and all answer vectors are enumerated (the number of draws is predicted from the model; mispredictions are counted and make the run non-exhaustive)")
	run.Assume("the model is a relation on which candidates are reserved: it follows the implementation's choice and checks only the stated limits (it does not require that a reservation returns as many pieces as possible)")
	run.Assume("look-ahead: after every step the failed report is also read with the explicit clock moved +5s/+11s and moved back (GetFailedRequests is read-only and the Manager has no timers), i.e. what a later reader would see if only time passed")

	if p := run.ReplayPath(); p != "" {
		replay(run, p)
		return
	}

	budget := 45 * time.Second
	if run.Thorough() {
		budget = 13 * time.Minute
	}
	deadline := time.Now().Add(budget)
	var tot [32]int
	for _, cfg := range configs(run.Thorough()) {
		sink := newClassSink()
		name := cfg.name()
		res := rep.BFS(run, name, searchConfig(cfg, sink, deadline))
		for i := 0; i < res.States; i++ {
			run.Distinct(fmt.Sprintf("%s#%d", name, i))
		}
		c := sink.counts()
		for b := range c {
			tot[b] += c[b]
		}
	}
	cc := map[string]int{}
	for b, n := range clsNames {
		cc[n] = tot[b]
	}
	run.Set("transition_classes", cc)
	if b, err := json.Marshal(cc); err == nil {
		fmt.Printf("transition classes: %s\n", b)
	}
	if cc["rand_draws_not_as_predicted"] > 0 {
		run.NotExhaustive(fmt.Sprintf("%d transitions drew random numbers differently from the prediction: rand outcomes not fully enumerated there", cc["rand_draws_not_as_predicted"]))
	}
	if run.NViolations() == 0 {
		for _, n := range []string{"reserve_returned_pieces", "reserve_no_quota_left", "endgame_duplicate_created", "rereserve_same_peer_after_expiry_or_mark", "clearpeer_peer_has_two_requests_on_one_piece", "clear_removes_several_requests", "advance_expires_a_request", "mark_on_booked_request", "rand_draw_consumed", "candidate_blocked_by_other_peers_request"} {
			if cc[n] == 0 {
				run.Fatal(fmt.Errorf("vacuous: no transition of class %q was explored", n))
			}
		}
	}
	run.Finish()
}

func replay(run *evid.Run, path string) {
	b, err := os.ReadFile(path)
	if err != nil {
		run.Fatal(err)
	}
	var rp struct {
		Fingerprint string `json:"fingerprint"`
		Case        struct {
			Search  string   `json:"search"`
			History []string `json:"history"`
		} `json:"case"`
	}
	if err := json.Unmarshal(b, &rp); err != nil {
		run.Fatal(err)
	}
	var cfg *config
	for _, th := range []bool{false, true} {
		for _, c := range configs(th) {
			c := c
			if c.name() == rp.Case.Search && cfg == nil {
				cfg = &c
			}
		}
	}
	if cfg == nil {
		run.Fatal(fmt.Errorf("replay: unknown search %q", rp.Case.Search))
	}
	err = bfs.Replay(searchConfig(*cfg, nil, time.Time{}), rp.Case.History)
	run.Eval(len(rp.Case.History))
	run.Distinct("replay")
	run.Distinct("replay:" + rp.Fingerprint)
	if f, ok := err.(*bfs.Fail); ok {
		run.Violation(f.Fingerprint, map[string]interface{}{"search": rp.Case.Search, "history": rp.Case.History, "msg": f.Msg})
	} else if err != nil {
		run.Fatal(err)
	} else {
		fmt.Printf("replay of %v: no violation\n", rp.Case.History)
	}
	run.Finish()
}
