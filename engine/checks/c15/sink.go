package main

import (
	"hash/fnv"
	"sync"
)

// classSink records one class bitmask per distinct (state, op) transition, so
// the per-class counts are those of the state graph, not of BFS replays.
type classSink struct {
	shards [256]struct {
		mu sync.Mutex
		m  map[uint64]uint32
	}
}

func newClassSink() *classSink {
	s := &classSink{}
	for i := range s.shards {
		s.shards[i].m = map[uint64]uint32{}
	}
	return s
}

func (s *classSink) put(key string, mask uint32) {
	h := fnv.New64a()
	h.Write([]byte(key))
	k := h.Sum64()
	sh := &s.shards[k%256]
	sh.mu.Lock()
	sh.m[k] = mask
	sh.mu.Unlock()
}

// counts returns, per bit, the number of recorded transitions carrying it.
func (s *classSink) counts() [32]int {
	var out [32]int
	for i := range s.shards {
		for _, m := range s.shards[i].m {
			for b := 0; b < 32; b++ {
				if m&(1<<uint(b)) != 0 {
					out[b]++
				}
			}
		}
	}
	return out
}
