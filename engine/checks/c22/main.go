// C22: rendezvous ordering is insertion-independent and minimally disruptive.
//
// E4 (small-scope exhaustive enumeration on the real hrw.RendezvousHash): for
// every key of an exhaustive key space (all 65536 four-hex keys, all 256
// two-hex keys as initCASVolumes builds them, a fixed table of 64-hex keys),
// every node set up to a size bound over a small label universe, every weight
// profile and every hasher configuration, the real GetOrderedNodes is executed
// for EVERY insertion permutation of the set, for every single-node removal
// (+ re-add) and every single-node addition, and compared with
//
//	(a) an independently written scoring reference (own murmur3-x64-128,
//	    own 53-bit fraction + rehash-on-zero, own sha256/big-rational variant):
//	    the list must be a permutation of the node set whose reference scores
//	    are non-increasing;
//	(b) itself across permutations (insertion independence);
//	(c) itself before/after a removal / an addition (minimal disruption).
package main

import (
	"crypto/sha256"
	"encoding/binary"
	"encoding/hex"
	"fmt"
	"hash"
	"math"
	"math/big"
	"runtime/debug"
	"sort"
	"strings"
	"sync"
	"sync/atomic"
	"time"

	"github.com/spaolacci/murmur3"
	"github.com/uber/kraken/lib/hrw"

	"verif/evid"
	_ "verif/quiet"
)

// ---------------------------------------------------------------------------
// Independent reference: murmur3 x64 128 (first 64 bits), seed 0.

func rotl(x uint64, r uint) uint64 { return (x << r) | (x >> (64 - r)) }

func fmix(k uint64) uint64 {
	k ^= k >> 33
	k *= 0xff51afd7ed558ccd
	k ^= k >> 33
	k *= 0xc4ceb9fe1a85ec53
	k ^= k >> 33
	return k
}

func refMurmur64(data []byte) uint64 {
	const c1, c2 = 0x87c37b91114253d5, 0x4cf5ad432745937f
	var h1, h2 uint64
	n := len(data)
	p := data
	for len(p) >= 16 {
		k1 := binary.LittleEndian.Uint64(p[0:8])
		k2 := binary.LittleEndian.Uint64(p[8:16])
		k1 *= c1
		k1 = rotl(k1, 31)
		k1 *= c2
		h1 ^= k1
		h1 = rotl(h1, 27)
		h1 += h2
		h1 = h1*5 + 0x52dce729
		k2 *= c2
		k2 = rotl(k2, 33)
		k2 *= c1
		h2 ^= k2
		h2 = rotl(h2, 31)
		h2 += h1
		h2 = h2*5 + 0x38495ab5
		p = p[16:]
	}
	var k1, k2 uint64
	for i := len(p) - 1; i >= 8; i-- {
		k2 ^= uint64(p[i]) << (8 * uint(i-8))
	}
	if len(p) > 8 {
		k2 *= c2
		k2 = rotl(k2, 33)
		k2 *= c1
		h2 ^= k2
	}
	top := len(p)
	if top > 8 {
		top = 8
	}
	for i := top - 1; i >= 0; i-- {
		k1 ^= uint64(p[i]) << (8 * uint(i))
	}
	if len(p) > 0 {
		k1 *= c1
		k1 = rotl(k1, 31)
		k1 *= c2
		h1 ^= k1
	}
	h1 ^= uint64(n)
	h2 ^= uint64(n)
	h1 += h2
	h2 += h1
	h1 = fmix(h1)
	h2 = fmix(h2)
	h1 += h2
	return h1
}

const mask53 = (uint64(1) << 53) - 1

// zeroing reports whether the "zeroing" test hasher clears the low 53 bits of
// the hash of this input. It never does so for 8-byte inputs (the re-hash
// input), so the re-hash result is an ordinary murmur3 value.
func zeroing(in []byte, h uint64) bool { return len(in) != 8 && (h>>61)&3 == 0 }

// refHash64 is the reference of the 64-bit hashers ("murmur3", "zeroing").
func refHash64(hasher string, in []byte) uint64 {
	h := refMurmur64(in)
	if hasher == "zeroing" && zeroing(in, h) {
		h &^= mask53
	}
	return h
}

var two256m1 = new(big.Int).Sub(new(big.Int).Lsh(big.NewInt(1), 256), big.NewInt(1))

// refFraction maps (key bytes ++ label) to the [0,1) fraction, reference side.
// rehashed reports that the rehash-on-zero rule was applied.
func refFraction(hasher string, in []byte) (f float64, rehashed bool) {
	switch hasher {
	case "murmur3", "zeroing":
		h := refHash64(hasher, in)
		v := h & mask53
		if v == 0 {
			var b [8]byte
			binary.BigEndian.PutUint64(b[:], h)
			v = refHash64(hasher, b[:]) & mask53
			rehashed = true
		}
		return math.Ldexp(float64(v), -53), rehashed
	case "sha256":
		// hash as 256-bit big-endian integer, rounded to 53 significant bits
		// (nearest even), divided by 2^256-1, rounded to float64.
		s := sha256.Sum256(in)
		x := new(big.Int).SetBytes(s[:])
		if bl := x.BitLen(); bl > 53 {
			sh := uint(bl - 53)
			q := new(big.Int).Rsh(x, sh)
			rem := new(big.Int).Sub(x, new(big.Int).Lsh(q, sh))
			half := new(big.Int).Lsh(big.NewInt(1), sh-1)
			switch rem.Cmp(half) {
			case 1:
				q.Add(q, big.NewInt(1))
			case 0:
				if q.Bit(0) == 1 {
					q.Add(q, big.NewInt(1))
				}
			}
			x = q.Lsh(q, sh)
		}
		r := new(big.Rat).SetFrac(x, two256m1)
		f, _ = r.Float64()
		return f, false
	}
	panic(hasher)
}

func refScore(hasher string, keyBytes []byte, label string, weight int) (float64, bool) {
	in := append(append([]byte{}, keyBytes...), label...)
	f, re := refFraction(hasher, in)
	return -float64(weight) / math.Log(f), re
}

// ---------------------------------------------------------------------------
// Real-side hasher configurations.

// zeroHash is a hash.Hash64-like wrapper around the production murmur3 hasher
// which clears the low 53 bits for a quarter of the non-8-byte inputs, so that
// the real UInt64ToFloat64 takes its rehash-on-zero branch.
type zeroHash struct {
	inner hash.Hash
	buf   []byte
}

func (z *zeroHash) Write(p []byte) (int, error) {
	z.buf = append(z.buf, p...)
	return z.inner.Write(p)
}
func (z *zeroHash) Sum(b []byte) []byte {
	s := z.inner.Sum(nil)
	h := binary.BigEndian.Uint64(s)
	if zeroing(z.buf, h) {
		h &^= mask53
	}
	var o [8]byte
	binary.BigEndian.PutUint64(o[:], h)
	return append(b, o[:]...)
}
func (z *zeroHash) Reset()         { z.buf = z.buf[:0]; z.inner.Reset() }
func (z *zeroHash) Size() int      { return 8 }
func (z *zeroHash) BlockSize() int { return z.inner.BlockSize() }

func newReal(hasher string) *hrw.RendezvousHash {
	switch hasher {
	case "murmur3":
		return hrw.NewRendezvousHash(hrw.Murmur3Hash, hrw.UInt64ToFloat64)
	case "zeroing":
		return hrw.NewRendezvousHash(func() hash.Hash { return &zeroHash{inner: hrw.Murmur3Hash()} }, hrw.UInt64ToFloat64)
	case "sha256":
		return hrw.NewRendezvousHash(sha256.New, hrw.BigIntToFloat64)
	}
	panic(hasher)
}

// ---------------------------------------------------------------------------

// labels: volume locations as configured for CAStore volumes and host:port
// addresses as used by the hash ring.
var universe = []string{
	"/mnt/kraken/vol0", "/mnt/kraken/vol1", "kraken-origin01-dca1:15002",
	"kraken-origin02-dca1:15002", "10.12.7.33:15002", "/data/3",
}

type profile struct {
	name    string
	weights []int // per universe label
}

var profiles = []profile{
	{"uniform100", []int{100, 100, 100, 100, 100, 100}},
	{"mixed", []int{1, 100, 1000, 1, 1000, 100}},
	{"mixed2", []int{1000, 1, 100, 100, 1, 1000}},
	// all weights different: two nodes whose first-level hash is zeroed by the
	// test hasher can share the re-hash input (it only has the top 11 bits
	// left); with different weights their scores still differ, so the test
	// hasher introduces no artificial ties.
	{"distinct", []int{1, 100, 1000, 10, 500, 50}},
	{"distinct2", []int{700, 3, 40, 1000, 1, 250}},
}

type config struct {
	hasher string
	prof   profile
	labels []int // indices into universe
	maxSet int   // max node-set size for the permutation sweep
	keys   []string
}

func perms(n int) [][]int {
	var out [][]int
	a := make([]int, n)
	for i := range a {
		a[i] = i
	}
	var rec func(k int)
	rec = func(k int) {
		if k == n {
			out = append(out, append([]int{}, a...))
			return
		}
		for i := k; i < n; i++ {
			a[k], a[i] = a[i], a[k]
			rec(k + 1)
			a[k], a[i] = a[i], a[k]
		}
	}
	rec(0)
	return out
}

var permTab [7][][]int

func subsets(labels []int, maxSize int) [][]int {
	var out [][]int
	n := len(labels)
	for size := 1; size <= maxSize; size++ {
		for m := 1; m < 1<<uint(n); m++ {
			var s []int
			for i := 0; i < n; i++ {
				if m>>uint(i)&1 == 1 {
					s = append(s, labels[i])
				}
			}
			if len(s) == size {
				out = append(out, s)
			}
		}
	}
	return out
}

func labelsOf(nodes []*hrw.RendezvousHashNode) []string {
	out := make([]string, len(nodes))
	for i, n := range nodes {
		out[i] = n.Label
	}
	return out
}

func eq(a, b []string) bool {
	if len(a) != len(b) {
		return false
	}
	for i := range a {
		if a[i] != b[i] {
			return false
		}
	}
	return true
}

func without(a []string, x string) []string {
	out := make([]string, 0, len(a))
	for _, v := range a {
		if v != x {
			out = append(out, v)
		}
	}
	return out
}

type violation struct {
	fp     string
	detail map[string]interface{}
}

type counters struct {
	calls, permBuilds, removals, additions, reordered, refTies, rehashScores, setKeys int64
	distinct                                                                          map[string]struct{}
}

// checkKey runs every node set / permutation / removal / addition for one key.
func checkKey(cfg *config, sets [][]int, key string, c *counters, report func(violation)) {
	keyBytes, err := hex.DecodeString(key)
	if err != nil {
		panic(err)
	}
	score := make(map[string]float64, len(cfg.labels))
	for _, i := range cfg.labels {
		s, re := refScore(cfg.hasher, keyBytes, universe[i], cfg.prof.weights[i])
		score[universe[i]] = s
		if re {
			c.rehashScores++
		}
	}
	base := func(extra map[string]interface{}) map[string]interface{} {
		m := map[string]interface{}{"hasher": cfg.hasher, "weights": cfg.prof.name, "key": key}
		for k, v := range extra {
			m[k] = v
		}
		return m
	}
	// oracle (a): permutation of the set, reference scores non-increasing.
	sortedOK := func(list []string, set []string) string {
		if len(list) != len(set) {
			return "length"
		}
		seen := map[string]bool{}
		for _, l := range list {
			seen[l] = true
		}
		for _, s := range set {
			if !seen[s] {
				return "members"
			}
		}
		if len(seen) != len(set) {
			return "members"
		}
		for i := 0; i+1 < len(list); i++ {
			if !(score[list[i]] >= score[list[i+1]]) {
				return "order"
			}
		}
		return ""
	}
	build := func(order []string) *hrw.RendezvousHash {
		rh := newReal(cfg.hasher)
		for _, l := range order {
			rh.AddNode(l, cfg.prof.weights[indexOf(l)])
		}
		return rh
	}
	for _, set := range sets {
		k := len(set)
		setLabels := make([]string, k)
		for i, ix := range set {
			setLabels[i] = universe[ix]
		}
		c.setKeys++
		for i := 0; i < k; i++ {
			for j := i + 1; j < k; j++ {
				if score[setLabels[i]] == score[setLabels[j]] {
					c.refTies++
				}
			}
		}
		var first []string
		if k <= cfg.maxSet {
			for pi, p := range permTab[k] {
				order := make([]string, k)
				for i, ix := range p {
					order[i] = setLabels[ix]
				}
				rh := build(order)
				got := labelsOf(rh.GetOrderedNodes(key, k))
				c.calls++
				c.permBuilds++
				if pi == 0 {
					first = got
					if why := sortedOK(got, setLabels); why != "" {
						report(violation{"ordered list is not the node set sorted by descending reference score (" + why + "; hasher " + cfg.hasher + ")",
							base(map[string]interface{}{"inserted": order, "got": got, "scores": pick(score, setLabels)})})
					}
					if !eq(got, order) {
						c.reordered++
					}
					if k >= 2 {
						c.distinct[cfg.hasher+"|"+cfg.prof.name+"|"+strings.Join(got, ">")] = struct{}{}
					}
					// n larger than the node count returns the same full list.
					if g2 := labelsOf(rh.GetOrderedNodes(key, k+1)); !eq(g2, got) {
						report(violation{"ordered list differs between n=len and n>len (hasher " + cfg.hasher + ")",
							base(map[string]interface{}{"inserted": order, "n_len": got, "n_more": g2})})
					}
					c.calls++
					continue
				}
				if !eq(got, first) {
					report(violation{"ordered list depends on insertion order (hasher " + cfg.hasher + ")",
						base(map[string]interface{}{"inserted_a": permute(setLabels, permTab[k][0]), "list_a": first, "inserted_b": order, "list_b": got, "scores": pick(score, setLabels)})})
				}
			}
		} else {
			rh := build(setLabels)
			first = labelsOf(rh.GetOrderedNodes(key, k))
			c.calls++
			if why := sortedOK(first, setLabels); why != "" {
				report(violation{"ordered list is not the node set sorted by descending reference score (" + why + "; hasher " + cfg.hasher + ")",
					base(map[string]interface{}{"inserted": setLabels, "got": first, "scores": pick(score, setLabels)})})
			}
		}
		// removal of every single node, then re-adding it (real RemoveNode / AddNode).
		for _, x := range setLabels {
			rh := build(setLabels)
			rh.RemoveNode(x)
			got := labelsOf(rh.GetOrderedNodes(key, k))
			c.calls++
			c.removals++
			if want := without(first, x); !eq(got, want) {
				report(violation{"removing a node changed more than dropping it from the list (hasher " + cfg.hasher + ")",
					base(map[string]interface{}{"nodes": setLabels, "removed": x, "before": first, "after": got, "want": want})})
			}
			rh.AddNode(x, cfg.prof.weights[indexOf(x)])
			back := labelsOf(rh.GetOrderedNodes(key, k))
			c.calls++
			if !eq(back, first) {
				report(violation{"re-adding a removed node does not restore the list (hasher " + cfg.hasher + ")",
					base(map[string]interface{}{"nodes": setLabels, "readded": x, "before": first, "after_readd": back})})
			}
		}
		// addition of every single node outside the set.
		in := map[int]bool{}
		for _, ix := range set {
			in[ix] = true
		}
		for _, y := range cfg.labels {
			if in[y] {
				continue
			}
			rh := build(setLabels)
			rh.AddNode(universe[y], cfg.prof.weights[y])
			got := labelsOf(rh.GetOrderedNodes(key, k+1))
			c.calls++
			c.additions++
			cnt := 0
			for _, l := range got {
				if l == universe[y] {
					cnt++
				}
			}
			if cnt != 1 || !eq(without(got, universe[y]), first) {
				report(violation{"adding a node changed more than inserting it into the list (hasher " + cfg.hasher + ")",
					base(map[string]interface{}{"nodes": setLabels, "added": universe[y], "before": first, "after": got})})
			}
		}
	}
}

// ---------------------------------------------------------------------------
// History phase: one LONG-LIVED ring. Every sequence of AddNode / RemoveNode /
// "look up all test keys" operations up to the depth bound, started from every
// freshly built ring of <= 3 of 4 labels in every insertion order, is run on
// one real RendezvousHash; each lookup must equal the list of a ring built
// fresh from the current node set and be sorted by the reference score.

// lookup operations of the history alphabet: -1 = all histKeys in order, else
// the index of one key.
var singleLookups = []int{-1, 1, 5, 8}

var histKeys = []string{"0000", "00ff", "a1b2", "7fff", "ffff", "0A", "FF", "3c",
	"e3b0c44298fc1c149afbf4c8996fb92427ae41e4649b934ca495991b7852b855",
	"6b86b273ff34fce19d6b804eff5a3f5747ada4eaa22f1d49c01e52ddb7875b4b"}

func historyPhase(run *evid.Run, hasher string, prof profile, labels []int, depth int) (execs, lookups int) {
	type op struct {
		kind  byte // 'a','r','l'
		label int
	}
	ref := map[string]map[string]float64{}
	for _, key := range histKeys {
		kb, _ := hex.DecodeString(key)
		ref[key] = map[string]float64{}
		for _, i := range labels {
			sc, _ := refScore(hasher, kb, universe[i], prof.weights[i])
			ref[key][universe[i]] = sc
		}
	}
	outcomes := map[string]struct{}{}
	var starts [][]int
	for _, sub := range subsets(labels, 3) {
		for _, p := range permTab[len(sub)] {
			o := make([]int, len(sub))
			for i, ix := range p {
				o[i] = sub[ix]
			}
			starts = append(starts, o)
		}
	}
	starts = append(starts, []int{})
	describe := func(start []int, h []op) string {
		var b strings.Builder
		b.WriteString("start[")
		for i, l := range start {
			if i > 0 {
				b.WriteByte(' ')
			}
			b.WriteString(universe[l])
		}
		b.WriteString("]")
		for _, o := range h {
			switch o.kind {
			case 'a':
				b.WriteString(" add(" + universe[o.label] + ")")
			case 'r':
				b.WriteString(" remove(" + universe[o.label] + ")")
			default:
				if o.label < 0 {
					b.WriteString(" lookup(all keys)")
				} else {
					b.WriteString(" lookup(" + histKeys[o.label] + ")")
				}
			}
		}
		return b.String()
	}
	var mu sync.Mutex
	runSeq := func(start []int, h []op, lookups *int) {
		rh := newReal(hasher)
		var cur []int // current members in insertion order
		// lists handed out earlier belong to their callers: no later lookup or
		// membership change may alter them (a lookup that sorts or returns the
		// ring's own node array would)
		type heldList struct {
			nodes  []*hrw.RendezvousHashNode
			labels []string
			at     int
			key    string
		}
		var held []heldList
		checkHeld := func(step int) bool {
			for _, hl := range held {
				if now := labelsOf(hl.nodes); !eq(now, hl.labels) {
					run.Violation("a list returned earlier by GetOrderedNodes was changed by a later lookup or membership change (hasher "+hasher+")", map[string]interface{}{
						"history": describe(start, h[:step+1]), "key": hl.key, "returned_at_step": hl.at, "was": hl.labels, "now": now})
					return false
				}
			}
			return true
		}
		for _, l := range start {
			rh.AddNode(universe[l], prof.weights[l])
			cur = append(cur, l)
		}
		for step, o := range h {
			if step > 0 && !checkHeld(step-1) {
				return
			}
			switch o.kind {
			case 'a':
				rh.AddNode(universe[o.label], prof.weights[o.label])
				cur = append(cur, o.label)
			case 'r':
				rh.RemoveNode(universe[o.label])
				for i, l := range cur {
					if l == o.label {
						cur = append(cur[:i:i], cur[i+1:]...)
						break
					}
				}
			case 'l':
				// fresh ring with the same nodes, inserted in canonical (index) order
				canon := append([]int{}, cur...)
				sort.Ints(canon)
				fresh := newReal(hasher)
				for _, l := range canon {
					fresh.AddNode(universe[l], prof.weights[l])
				}
				lk := histKeys
				if o.label >= 0 {
					lk = histKeys[o.label : o.label+1]
				}
				for _, key := range lk {
					for _, n := range []int{len(cur), 1, 2} {
						*lookups++
						gotNodes := rh.GetOrderedNodes(key, n)
						got := labelsOf(gotNodes)
						if len(held) < 6 {
							held = append(held, heldList{gotNodes, got, step, key})
						}
						want := labelsOf(fresh.GetOrderedNodes(key, n))
						bad := ""
						if !eq(got, want) {
							bad = "long-lived ring answers differently from a fresh ring with the same nodes"
						}
						for i := 0; bad == "" && i+1 < len(got); i++ {
							if !(ref[key][got[i]] >= ref[key][got[i+1]]) {
								bad = "long-lived ring: list not sorted by descending reference score"
							}
						}
						if bad != "" {
							run.Violation(bad+" (hasher "+hasher+")", map[string]interface{}{
								"history": describe(start, h[:step+1]), "key": key, "n": n, "got": got, "fresh_ring": want})
							return
						}
						if n == len(cur) && len(cur) >= 2 {
							mu.Lock()
							outcomes[hasher+"|hist|"+strings.Join(got, ">")] = struct{}{}
							mu.Unlock()
						}
					}
				}
			}
		}
		if len(h) > 0 {
			checkHeld(len(h) - 1)
		}
	}
	explore := func(start []int) (e, l int) {
		var hist []op
		var rec func(members map[int]bool, d int)
		rec = func(members map[int]bool, d int) {
			if d == 0 {
				// a shorter history ending in a lookup is a prefix of a longer one; only
				// maximal sequences ending in a lookup are executed, every lookup on the
				// way is checked.
				if len(hist) > 0 && hist[len(hist)-1].kind == 'l' {
					e++
					runSeq(start, hist, &l)
				}
				return
			}
			for _, lb := range labels {
				k := byte('a')
				if members[lb] {
					k = 'r'
				}
				members[lb] = !members[lb]
				hist = append(hist, op{k, lb})
				rec(members, d-1)
				hist = hist[:len(hist)-1]
				members[lb] = !members[lb]
			}
			// lookups: all keys in a row, or one single key (an implementation may
			// remember its last question); the same lookup twice in a row adds nothing
			for _, li := range singleLookups {
				if n := len(hist); n > 0 && hist[n-1].kind == 'l' && hist[n-1].label == li {
					continue
				}
				hist = append(hist, op{'l', li})
				rec(members, d-1)
				hist = hist[:len(hist)-1]
			}
		}
		m := map[int]bool{}
		for _, lb := range start {
			m[lb] = true
		}
		rec(m, depth)
		return
	}
	jobs := make(chan []int, len(starts))
	for _, st := range starts {
		jobs <- st
	}
	close(jobs)
	var wg sync.WaitGroup
	for w := 0; w < evid.Workers(); w++ {
		wg.Add(1)
		go func() {
			defer wg.Done()
			for st := range jobs {
				e, l := explore(st)
				mu.Lock()
				execs += e
				lookups += l
				mu.Unlock()
			}
		}()
	}
	wg.Wait()
	for k := range outcomes {
		run.Distinct(k)
	}
	return
}

func indexOf(l string) int {
	for i, u := range universe {
		if u == l {
			return i
		}
	}
	panic("label " + l)
}

func pick(score map[string]float64, ls []string) map[string]string {
	m := map[string]string{}
	for _, l := range ls {
		m[l] = fmt.Sprintf("%.17g", score[l])
	}
	return m
}

func permute(ls []string, p []int) []string {
	out := make([]string, len(p))
	for i, ix := range p {
		out[i] = ls[ix]
	}
	return out
}

// selfTest cross-checks the reference pieces (harness sanity, exit 2 on failure).
func selfTest(run *evid.Run) {
	// reference murmur3 vs. the library the implementation uses, all tail lengths.
	for n := 0; n <= 70; n++ {
		in := make([]byte, n)
		for i := range in {
			in[i] = byte(i*37 + n*11 + 1)
		}
		if got, want := refMurmur64(in), murmur3.Sum64(in); got != want {
			run.Fatal(fmt.Errorf("reference murmur3 self-test failed for length %d: %#x != %#x", n, got, want))
		}
	}
	// zeroing wrapper agrees with the reference side on a few inputs and hits both branches.
	z := &zeroHash{inner: hrw.Murmur3Hash()}
	hit := 0
	for i := 0; i < 64; i++ {
		in := []byte(fmt.Sprintf("input-%d", i))
		z.Reset()
		z.Write(in)
		got := binary.BigEndian.Uint64(z.Sum(nil))
		if got != refHash64("zeroing", in) {
			run.Fatal(fmt.Errorf("zeroing hasher and its reference disagree on %q", in))
		}
		if got&mask53 == 0 {
			hit++
		}
	}
	if hit == 0 || hit == 64 {
		run.Fatal(fmt.Errorf("zeroing hasher self-test: %d/64 zeroed", hit))
	}
}

func main() {
	run := evid.New("C22", "exploration")
	debug.SetGCPercent(400) // the real Score allocates per call; live heap is tiny
	selfTest(run)
	for i := 1; i <= 6; i++ {
		permTab[i] = perms(i)
	}

	var k4 []string
	for i := 0; i < 65536; i++ {
		k4 = append(k4, fmt.Sprintf("%04x", i))
	}
	var k2 []string
	for i := 0; i < 256; i++ {
		k2 = append(k2, fmt.Sprintf("%02X", i)) // exactly as initCASVolumes formats them
	}
	// fixed table of 64-hex keys (sha256 of small integers) -- deterministic.
	var k64 []string
	nLong := 64
	if run.Thorough() {
		nLong = 1024
	}
	for i := 0; i < nLong; i++ {
		s := sha256.Sum256([]byte(fmt.Sprintf("c22-long-key-%d", i)))
		k64 = append(k64, hex.EncodeToString(s[:]))
	}
	// one key of every decoded length 1..160 bytes (an implementation may treat
	// key||label by size classes: fixed scratch buffers, short-key memos)
	var klen []string
	for l := 1; l <= 160; l++ {
		var b []byte
		for i := 0; len(b) < l; i++ {
			s := sha256.Sum256([]byte(fmt.Sprintf("c22-len-%d-%d", l, i)))
			b = append(b, s[:]...)
		}
		klen = append(klen, hex.EncodeToString(b[:l]))
	}
	small := append(append(append([]string{}, k2...), k64...), klen...)
	all := append(append([]string{}, k4...), small...)

	var cfgs []config
	if run.Thorough() {
		six := []int{0, 1, 2, 3, 4, 5}
		cfgs = []config{
			{"zeroing", profiles[3], six, 5, all},
			{"zeroing", profiles[4], []int{1, 2, 3, 4, 5}, 4, all},
			{"sha256", profiles[0], []int{0, 1, 2, 3}, 4, all},
			{"sha256", profiles[1], []int{2, 3, 4, 5}, 4, all},
			{"murmur3", profiles[0], six, 5, all},
			{"murmur3", profiles[1], six, 5, all},
			{"murmur3", profiles[2], []int{0, 2, 3, 4, 5}, 4, all},
		}
	} else {
		cfgs = []config{
			{"zeroing", profiles[3], []int{0, 2, 3, 5}, 4, append(append([]string{}, k4[:8192]...), small...)},
			{"sha256", profiles[1], []int{1, 2, 4, 5}, 3, small},
			{"murmur3", profiles[0], []int{0, 1, 2, 3}, 4, all},
			{"murmur3", profiles[1], []int{2, 3, 4, 5}, 4, all},
		}
	}
	run.Rule = "one evaluation = one real GetOrderedNodes call; enumerated: every key of the key space x every node set (all subsets up to the size bound of the label universe) x every insertion permutation of the set x every single-node RemoveNode(+re-AddNode) x every single-node AddNode, per hasher and weight profile; plus, on ONE long-lived ring, every sequence of AddNode/RemoveNode/lookup operations up to depth 4 (quick) / 5 (thorough) from every start ring of <= 3 of 4 labels in every insertion order, each lookup (10 keys: four-hex, two-hex, 64-hex; n = len, 1, 2) compared with a ring built fresh from the same node set and with the reference order, and every list handed out earlier in the history re-read after every later operation (it must not change); a case is distinct/non-trivial when it is a different (hasher, weights, resulting order) with >= 2 nodes"
	run.Assume("small-scope: node sets of size <= 4 (quick) / <= 5 (thorough) drawn from 4 (quick) / 6 (thorough) of 6 fixed labels (volume paths and host:port addresses); weights uniform 100, two fixed mixed profiles over {1,100,1000} and (for the rehash-forcing hasher) two all-different profiles")
	run.Assume("keys: all 65536 four-hex keys, all 256 two-hex keys, a fixed table of 64-hex keys, one key of every decoded length 1..160 bytes; only well-formed (even-length) hex keys -- Score is NaN for undecodable keys and the statement does not define an order for them")
	run.Assume("reference score: own murmur3-x64-128 (cross-checked at startup against spaolacci/murmur3 on all tail lengths), low 53 bits / 2^53, rehash of the 8 hash bytes when those bits are zero, -w/ln(f); sha256 variant: 256-bit integer rounded to 53 bits / (2^256-1); reference and implementation both use math.Log of the Go runtime")
	run.Assume("the rehash-on-zero branch of UInt64ToFloat64 cannot be reached with murmur3 on this key space (needs 53 zero bits); it is exercised through a wrapper hasher that clears the low 53 bits of a quarter of the first-level hashes (never of the 8-byte re-hash input); that configuration uses all-different weights because zeroed hashes keep only their top 11 bits as re-hash input and equal-weight nodes would tie artificially")

	deadline := time.Now().Add(55 * time.Second)
	if run.Thorough() {
		deadline = time.Now().Add(13 * time.Minute)
	}
	var mu sync.Mutex
	total := counters{distinct: map[string]struct{}{}}
	var capped int32
	for ci := range cfgs {
		cfg := &cfgs[ci]
		use := subsets(cfg.labels, cfg.maxSet)
		const chunk = 128
		type job struct{ lo, hi int }
		jobs := make(chan job, len(cfg.keys)/chunk+1)
		for lo := 0; lo < len(cfg.keys); lo += chunk {
			hi := lo + chunk
			if hi > len(cfg.keys) {
				hi = len(cfg.keys)
			}
			jobs <- job{lo, hi}
		}
		close(jobs)
		var wg sync.WaitGroup
		for w := 0; w < evid.Workers(); w++ {
			wg.Add(1)
			go func() {
				defer wg.Done()
				c := counters{distinct: map[string]struct{}{}}
				report := func(v violation) {
					run.Violation(v.fp, v.detail)
				}
				for j := range jobs {
					if time.Now().After(deadline) {
						atomic.StoreInt32(&capped, 1)
						continue
					}
					for _, key := range cfg.keys[j.lo:j.hi] {
						checkKey(cfg, use, key, &c, report)
					}
				}
				mu.Lock()
				total.calls += c.calls
				total.permBuilds += c.permBuilds
				total.removals += c.removals
				total.additions += c.additions
				total.reordered += c.reordered
				total.refTies += c.refTies
				total.rehashScores += c.rehashScores
				total.setKeys += c.setKeys
				for k := range c.distinct {
					total.distinct[k] = struct{}{}
				}
				mu.Unlock()
			}()
		}
		wg.Wait()
		run.Set(fmt.Sprintf("config_%d", ci), fmt.Sprintf("hasher=%s weights=%s labels=%d sets<=%d (%d sets) keys=%d", cfg.hasher, cfg.prof.name, len(cfg.labels), cfg.maxSet, len(use), len(cfg.keys)))
	}
	// history phase (long-lived ring)
	hdepth := 4
	if run.Thorough() {
		hdepth = 5
	}
	{
		type hc struct {
			hasher string
			prof   profile
			labels []int
		}
		hcs := []hc{{"murmur3", profiles[1], []int{2, 3, 4, 5}}, {"zeroing", profiles[3], []int{0, 2, 3, 5}}}
		if run.Thorough() {
			hcs = append(hcs, hc{"murmur3", profiles[0], []int{0, 1, 2, 3}}, hc{"sha256", profiles[1], []int{1, 2, 4, 5}})
		}
		var he, hl int64
		for _, c := range hcs {
			e, l := historyPhase(run, c.hasher, c.prof, c.labels, hdepth)
			he += int64(e)
			hl += int64(l)
		}
		run.Set("history_depth", hdepth)
		run.Set("history_sequences_executed", he)
		run.Set("history_lookups_compared", hl)
		run.Eval(int(hl))
	}
	if capped != 0 {
		run.NotExhaustive("internal deadline reached before all key chunks were processed")
	}
	run.Eval(int(total.calls))
	keys := make([]string, 0, len(total.distinct))
	for k := range total.distinct {
		keys = append(keys, k)
	}
	sort.Strings(keys)
	for i, k := range keys {
		run.Distinct(k)
		if i%(len(keys)/5+1) == 0 {
			run.Sample(k)
		}
	}
	run.Set("set_key_pairs", total.setKeys)
	run.Set("permutation_builds", total.permBuilds)
	run.Set("removal_checks", total.removals)
	run.Set("addition_checks", total.additions)
	run.Set("lists_differing_from_insertion_order", total.reordered)
	run.Set("reference_score_ties", total.refTies)
	run.Set("scores_through_rehash_branch", total.rehashScores)
	if total.rehashScores == 0 {
		run.Fatal(fmt.Errorf("vacuous: rehash-on-zero branch never exercised"))
	}
	if total.reordered == 0 {
		run.Fatal(fmt.Errorf("vacuous: no list ever differed from its insertion order"))
	}
	run.Finish()
}
