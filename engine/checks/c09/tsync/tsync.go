// Package tsync is check C09's stand-in for package sync inside
// github.com/uber/kraken/lib/store/tiered (import rewritten by the build
// overlay). Everything is verif/shim/vsync, except that Mutex (the flusher's
// f.mu and blob.mu) additionally
//
//   - calls AfterUnlock after the lock was released: the harness uses it to
//     wake an idle flusher thread as soon as work is queued (the stand-in for the
//     worker's `<-f.notify`, which would block a vrt thread on a real channel);
//   - is a scheduling point AFTER the release (vsync's point before a release
//     is switched off by the harness: it adds nothing, see main.go). This is what
//     delimits the window between the flusher's completion bookkeeping
//     (`delete(f.blobs, key)` ... `f.mu.Unlock()`) and the deferred eviction unban.
package tsync

import (
	"verif/shim/vsync"
	"verif/vrt"
)

type (
	Locker    = vsync.Locker
	RWMutex   = vsync.RWMutex
	Once      = vsync.Once
	WaitGroup = vsync.WaitGroup
	Cond      = vsync.Cond
	Map       = vsync.Map
	Pool      = vsync.Pool
)

// NewCond mirrors sync.NewCond.
func NewCond(l Locker) *Cond { return vsync.NewCond(l) }

// AfterUnlock, when set, runs after every Mutex release (controlled executions only).
var AfterUnlock func()

// Reset clears the per-execution hook.
func Reset() { AfterUnlock = nil }

// Mutex mirrors sync.Mutex.
type Mutex struct{ m vsync.Mutex }

func (m *Mutex) Lock()         { m.m.Lock() }
func (m *Mutex) TryLock() bool { return m.m.TryLock() }

func (m *Mutex) Unlock() {
	m.m.Unlock()
	if !vrt.Active() {
		return
	}
	if AfterUnlock != nil {
		AfterUnlock()
	}
	if vsync.Points {
		vrt.Point("Unlocked")
	}
}
