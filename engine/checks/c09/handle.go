// Handle histories (E3-style part of C09): ALL histories of handle operations
// on ONE long-lived tiered.File of a completed, flushed blob, with the
// memory->disk switch (eviction of the blob from the memory tier by memory
// pressure) placed at every position of the history.
//
// The concurrent scenarios of main.go drive a retained handle with sequential
// Reads only. The switch of a tiered.File (openDiskFileIfNeeded, guarded by a
// sync.Once) is however triggered by WHICHEVER handle method runs first after the
// eviction, and it has to carry the handle's state (the cursor) over to the disk
// file. This part therefore enumerates the alphabet of handle methods around the
// eviction point:
//
//	read1 / read2   Read into a 1- / 2-byte buffer (sequential, moves the cursor)
//	readat0/readat2 ReadAt(1 byte, offset 0 / 2) (positional, cursor-less)
//	size            Size() (cursor-less)
//	seekcur         Seek(0, io.SeekCurrent)
//	seekrel         Seek(d, io.SeekCurrent), d = +1 if the model cursor < len, else -1
//	seek1 / seekend Seek(1, io.SeekStart) / Seek(0, io.SeekEnd)
//	E               Create(b, 3)+Close under memory capacity 3: evicts a (at most once per history)
//
// Oracle (statement: "opening it through the tiered store yields exactly its
// bytes ... no matter how ... memory pressure [interleaves]"): a model cursor
// over the blob's bytes. Every Read delivers exactly want[cursor:cursor+n]
// (n >= 1 unless cursor == len, then io.EOF), every ReadAt delivers want[off],
// Size is len(want), no call fails, and after the last operation of the history
// the handle is read to EOF and must deliver exactly want[cursor:]. The value
// RETURNED by Seek is recorded in the outcome but not judged; a wrong cursor
// shows in the bytes of the following Reads / of the final drain.
package main

import (
	"fmt"
	"io"
	"strings"

	"verif/checks/c09/tsync"
	"verif/evid"
	"verif/shim/vsync"
	"verif/shim/vsyncq"
	"verif/vrt"
)

const histPrefix = "handle-hist/"
const histBlob = "XYZ"

var histAlphabet = []string{"read1", "read2", "readat0", "readat2", "size", "seekcur", "seekrel", "seek1", "seekend"}

const (
	clHWrong = "read through a retained tiered.File of a completed blob returns wrong bytes"
	clHFail  = "read through a retained tiered.File of a completed blob fails"
	clHSize  = "retained tiered.File of a completed blob reports a wrong size"
)

// histHarness executes one history on a fresh store (single vrt thread: the
// flush is run to quiescence before the handle is opened, the eviction is a
// member of the history).
func histHarness(ops []string) *vrt.Harness {
	return &vrt.Harness{Name: histPrefix + strings.Join(ops, ","), Horizon: 50000, Body: func() (string, string) {
		vsync.Points, vsync.UnlockPoints = true, false
		vsyncq.Points, vsyncq.UnlockPoints = false, false
		tsync.Reset()
		w, err := newWorld(scenario{name: "handle-hist", memCap: uint64(len(histBlob))})
		if err != nil {
			return "", "HARNESS: " + err.Error()
		}
		defer w.close()
		want := histBlob
		// start state: a created, written, marked complete, flushed to disk (eviction ban lifted), still in memory
		f, err := w.st.Create(keyA, uint64(len(want)))
		if err == nil {
			_, err = f.Write([]byte(want))
			if cerr := f.Close(); err == nil {
				err = cerr
			}
		}
		if err == nil {
			err = w.st.MarkComplete(keyA)
		}
		if err != nil {
			return "", "HARNESS: set-up: " + err.Error()
		}
		w.quiesce()
		if present, complete, _, _ := w.mem.VerifBlob(keyA); !present || !complete {
			return "", fmt.Sprintf("HARNESS: set-up: a not resident in memory after flush (present=%v complete=%v)", present, complete)
		}
		h, err := w.st.Open(keyA)
		if err != nil {
			return "", "HARNESS: set-up: open: " + err.Error()
		}
		w.handle = h // closed by w.close()

		var obs strings.Builder
		pos := 0 // model cursor
		evicted := false
		hist := strings.Join(ops, ",")
		fail := func(clause, format string, a ...interface{}) {
			w.fail(clause, "history [%s] on one open handle of a=%q: %s", hist, want, fmt.Sprintf(format, a...))
		}
		read := func(i int, op string, size int) {
			buf := make([]byte, size)
			n, err := h.Read(buf)
			fmt.Fprintf(&obs, "%s=%q/%s ", op, buf[:n], errClass(err))
			switch {
			case err != nil && err != io.EOF:
				fail(clHFail, "op %d %s at cursor %d: %v", i, op, pos, err)
			case n > len(want)-pos || string(buf[:n]) != want[pos:pos+n]:
				fail(clHWrong, "op %d %s at cursor %d: got %q, the blob continues with %q", i, op, pos, buf[:n], want[pos:])
			case n == 0 && pos < len(want):
				fail(clHWrong, "op %d %s at cursor %d: no bytes (%s) although %q remain", i, op, pos, errClass(err), want[pos:])
			case err == io.EOF && pos+n < len(want):
				fail(clHWrong, "op %d %s at cursor %d: EOF after %q although %q remain", i, op, pos, buf[:n], want[pos+n:])
			case n == 0 && err == nil:
				fail(clHWrong, "op %d %s at cursor %d = end: neither bytes nor EOF", i, op, pos)
			}
			pos += n
		}
		seek := func(i int, op string, off int64, whence int, newPos int) {
			got, err := h.Seek(off, whence)
			fmt.Fprintf(&obs, "%s=%d/%s ", op, got, errClass(err))
			if err != nil {
				fail(clHFail, "op %d %s (Seek(%d,%d)) at cursor %d: %v", i, op, off, whence, pos, err)
			}
			pos = newPos
		}
		for i, op := range ops {
			if len(w.vio) > 0 {
				break
			}
			switch op {
			case "read1":
				read(i, op, 1)
			case "read2":
				read(i, op, 2)
			case "readat0", "readat2":
				off := int(op[6] - '0')
				buf := make([]byte, 1)
				n, err := h.ReadAt(buf, int64(off))
				fmt.Fprintf(&obs, "%s=%q/%s ", op, buf[:n], errClass(err))
				if err != nil && !(err == io.EOF && n == 1 && off == len(want)-1) {
					fail(clHFail, "op %d %s: %v", i, op, err)
				} else if n != 1 || buf[0] != want[off] {
					fail(clHWrong, "op %d %s: got %q want %q", i, op, buf[:n], want[off:off+1])
				}
			case "size":
				sz := h.Size()
				fmt.Fprintf(&obs, "size=%d ", sz)
				if sz != int64(len(want)) {
					fail(clHSize, "op %d Size()=%d want %d", i, sz, len(want))
				}
			case "seekcur":
				seek(i, op, 0, io.SeekCurrent, pos)
			case "seekrel":
				d := 1
				if pos >= len(want) {
					d = -1
				}
				seek(i, op, int64(d), io.SeekCurrent, pos+d)
			case "seek1":
				seek(i, op, 1, io.SeekStart, 1)
			case "seekend":
				seek(i, op, 0, io.SeekEnd, len(want))
			case "E":
				fb, err := w.st.Create(keyB, uint64(len(want)))
				if err == nil {
					fb.Close()
				}
				if aNow, _, _, _ := w.mem.VerifBlob(keyA); !aNow {
					evicted = true
				}
				fmt.Fprintf(&obs, "E=%s/evicted=%v ", errClass(err), evicted)
			default:
				return "", "HARNESS: unknown handle op " + op
			}
		}
		if len(w.vio) == 0 {
			// drain: the rest of the stream is exactly want[pos:]
			rest, err := readAll(h, false)
			fmt.Fprintf(&obs, "drain=%q/%s ", rest, errClass(err))
			if err != nil {
				fail(clHFail, "reading the handle to EOF from cursor %d: %v (read %q)", pos, err, rest)
			} else if rest != want[pos:] {
				fail(clHWrong, "reading the handle to EOF from cursor %d: got %q want %q", pos, rest, want[pos:])
			}
		}
		o := fmt.Sprintf("%s| evict=%v", obs.String(), evicted)
		if len(w.harness) > 0 {
			return o, "HARNESS: " + strings.Join(w.harness, "; ")
		}
		if len(w.vio) > 0 {
			return o, strings.Join(w.vio, "\n")
		}
		return o, ""
	}}
}

// histories enumerates every sequence of length n over the handle alphabet with
// the eviction E inserted at every position 0..n, plus the sequence without E.
func histories(n int) [][]string {
	var seqs [][]string
	var rec func(cur []string)
	rec = func(cur []string) {
		if len(cur) == n {
			seqs = append(seqs, append([]string{}, cur...))
			return
		}
		for _, a := range histAlphabet {
			rec(append(cur, a))
		}
	}
	rec(nil)
	var out [][]string
	for _, s := range seqs {
		out = append(out, s)
		for p := 0; p <= n; p++ {
			h := append(append(append([]string{}, s[:p]...), "E"), s[p:]...)
			out = append(out, h)
		}
	}
	return out
}

// handleHistories runs the whole bounded history space in-process (one
// execution per history: a history is single-threaded, so there is exactly one
// schedule) and reports one violation per fingerprint with the shortest
// failing history found first (histories of length 1..n in turn).
func handleHistories(run *evid.Run, depth int) {
	total, evict, distinct := 0, 0, map[string]bool{}
	for n := 1; n <= depth; n++ {
		for _, ops := range histories(n) {
			h := histHarness(ops)
			x, obs, vio := vrt.Replay(h, nil)
			msg := vioMsg(x, vio)
			if strings.HasPrefix(msg, "HARNESS: ") {
				run.Fatal(fmt.Errorf("%s: %s", h.Name, msg))
			}
			total++
			if strings.Contains(obs, "evict=true") {
				evict++
			}
			key := "handle-hist|" + obs
			if !distinct[key] {
				distinct[key] = true
				run.Distinct(key)
			}
			if msg != "" {
				fp := violationFP(scenario{name: "handle-hist"}, msg, "", x.Deadlock)
				run.Violation(fp, vrt.Violation{Harness: h.Name, Msg: msg, Obs: obs, Deadlock: x.Deadlock})
			}
			if total%997 == 1 {
				run.Sample(map[string]interface{}{"harness": h.Name, "outcome": obs})
			}
		}
	}
	run.Eval(total)
	run.Set("handle_histories", map[string]interface{}{"depth": depth, "alphabet": append(append([]string{}, histAlphabet...), "E"), "executions": total, "with_eviction_of_a_under_the_open_handle": evict, "outcomes": len(distinct)})
	fmt.Printf("  %-30s depth=%d executions=%-7d evicted=%-6d outcomes=%d\n", "handle-hist", depth, total, evict, len(distinct))
}
