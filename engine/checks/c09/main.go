// C09: the tiered store never loses or corrupts a completed blob or metadata
// update, however flushing from memory to disk interleaves with client
// operations.
//
// Engine E1 (vrt cooperative scheduler + preemption-bounded DFS) on the REAL
// tiered.store assembled from the real memory.Store, the real disk.Store (on
// tmpfs) and the real flusher -- built through an overlay export file with NO
// worker goroutines. A harness thread ("flusher thread") executes the worker's
// inner loop body (nextToFlush + flush) verbatim, so the explorer decides when
// every flusher step happens relative to the clients.
//
// Scheduling points: every Lock/RLock of lib/store/tiered (s.mu, f.mu, b.mu,
// File.once), a point after every release of a flusher mutex (tsync), a point
// before every client operation that does not start with such a lock operation
// (observers, writes; harness), and -- in the "fine" phase -- every
// Lock/RLock of lib/store/memory and lib/store/disk (vsyncq.Points). The
// shims' own unlock points (vsync/vsyncq.UnlockPoints) are switched off; the
// only release-related point is tsync's point AFTER the release of a flusher
// mutex (the release of s.mu / of a memory or disk lock is followed by the next
// client-operation boundary or lock acquisition anyway). A point *before* a
// release adds nothing: a thread that runs while another one is about to release
// L either needs L (then it is disabled) or does not (then its steps commute
// with the release).
//
// Client histories: the structural and metadata operations on key a form ONE
// sequential client history per scenario (T1, then -- for delete/re-create --
// T3, which starts when T1 has returned; uncoordinated clients racing on an
// incomplete blob are outside the statement). Observers (Has/Open+read/
// GetMetadata), the memory-pressure client Create(b) and the retained-handle
// reader T4 are independent threads. A `pre` prefix of T1 can be executed before
// the threads start, which puts the windows of later operations within reach of
// the preemption bound.
package main

import (
	"encoding/json"
	"errors"
	"fmt"
	"io"
	"os"
	"regexp"
	"runtime/pprof"
	"sort"
	"strconv"
	"strings"
	"time"

	"github.com/uber-go/tally"
	"github.com/uber/kraken/lib/store/disk"
	"github.com/uber/kraken/lib/store/memory"
	"github.com/uber/kraken/lib/store/metadata"
	"github.com/uber/kraken/lib/store/tiered"
	"github.com/uber/kraken/utils/log"
	"go.uber.org/zap"

	"verif/checks/c09/tsync"
	"verif/evid"
	_ "verif/quiet"
	"verif/rep"
	"verif/shim/vsync"
	"verif/shim/vsyncq"
	"verif/vrt"
)

// ------------------------------------------------------------ metadata type

const mdSuffix = "_c09md"

// vmd is a movable metadata type with an integer value. Objects handed to the
// store are never mutated afterwards (memory.Store keeps the pointer).
type vmd struct{ v int }

func (m *vmd) GetSuffix() string          { return mdSuffix }
func (m *vmd) Movable() bool              { return true }
func (m *vmd) Serialize() ([]byte, error) { return []byte(strconv.Itoa(m.v)), nil }
func (m *vmd) Deserialize(b []byte) error {
	v, err := strconv.Atoi(string(b))
	m.v = v
	return err
}

type vmdFactory struct{}

func (vmdFactory) Create(string) metadata.Metadata { return &vmd{} }

func init() { metadata.Register(regexp.MustCompile("^"+mdSuffix+"$"), vmdFactory{}) }

// ------------------------------------------------------------ scenarios

const (
	keyA = "aaaa"
	keyB = "bbbb"
	keyC = "cccc"
)

// contents of the successive incarnations of key a (all of size 2)
var contents = []string{"A1", "B2", "C3", "D4", "E5"}

// A program is a list of client operations:
//
//	create / write / complete          Create(a,2) / File.Write(bytes of this incarnation)+Close / MarkComplete(a)
//	setmd:N / delmd                    SetMetadata(a, N) / DeleteMetadata(a)
//	delete                             Delete(a)
//	has / read / getmd                 Has(a) / Open(a)+ReadAll / GetMetadata(a)       (observers)
//	createb / createc                  Create(b,2) / Create(c,2): memory pressure
//	hread                              read the retained tiered.File (opened after the pre-steps) byte by byte to EOF
//	as:<name>                          the following operations are logged as thread <name> (a client that
//	                                   starts when the previous one has finished; same vrt thread)
type scenario struct {
	name     string
	family   string // fingerprint context: plain | delete | pressure
	memCap   uint64
	flushers int
	pre      int        // leading operations of clients[0] executed before the threads start
	clients  [][]string // clients[0] is T1
	names    []string
	handle   bool // open a tiered.File on a after the pre-steps (needs pre >= 3)
	thorough bool // only in the thorough tier
	cut      int  // explored with the quick bounds minus cut (at least 1)
	deep     bool // thorough tier: small scenario, explored with one more preemption
	heavy    bool // thorough tier: a complete pass at the quick bounds first, then the thorough bounds under the time budget
}

var t1Full = []string{"create", "write", "complete", "setmd:1", "setmd:2"}
var t1Del = []string{"create", "write", "complete", "setmd:1", "delmd"}
var t3Recreate = []string{"as:T3", "delete", "has", "create", "write", "complete", "read", "setmd:3"}

func cat(ps ...[]string) []string {
	var out []string
	for _, p := range ps {
		out = append(out, p...)
	}
	return out
}

func scenarios() []scenario {
	t1 := []string{"create", "write", "complete"}
	return []scenario{
		// T1 life cycle against the flusher and one concurrent observer
		{name: "read", family: "plain", memCap: 3, flushers: 1, pre: 2, clients: [][]string{t1Full, {"has", "read"}}},
		{name: "getmd", family: "plain", memCap: 3, flushers: 1, pre: 2, clients: [][]string{t1Del, {"getmd", "getmd"}}},
		// metadata set before MarkComplete travels with the blob (markDirty lists it)
		{name: "md-before-complete", family: "plain", memCap: 3, flushers: 1, pre: 2, clients: [][]string{{"create", "write", "setmd:1", "complete", "delmd", "setmd:2"}, {"getmd"}}},
		{name: "md-before-complete-pressure", family: "pressure", memCap: 3, flushers: 1, pre: 3, clients: [][]string{{"create", "write", "setmd:1", "complete"}, {"createb", "getmd"}}},
		// delete + re-creation of the same key against a flush of the first incarnation
		// (T3 = the operations after "as:T3"; it starts when T1 has finished, so both run in one vrt thread)
		{name: "recreate", family: "delete", deep: true, memCap: 3, flushers: 1, pre: 2, clients: [][]string{cat(t1, []string{"setmd:1"}, t3Recreate)}},
		{name: "recreate-queued", family: "delete", deep: true, memCap: 3, flushers: 1, pre: 3, clients: [][]string{cat(t1, t3Recreate)}},
		{name: "recreate-2flushers", heavy: true, family: "delete", memCap: 3, flushers: 2, pre: 3, clients: [][]string{cat(t1, []string{"as:T3", "delete", "create", "write", "complete", "setmd:3"})}},
		{name: "delete-only", family: "delete", deep: true, memCap: 3, flushers: 1, pre: 2, clients: [][]string{cat(t1, []string{"setmd:1", "as:T3", "delete", "has", "read"})}},
		// memory pressure: Create(b) evicts a as soon as a is evictable
		{name: "pressure-from-start", family: "pressure", memCap: 3, flushers: 1, pre: 0, cut: 1, clients: [][]string{cat(t1, []string{"setmd:1"}), {"createb"}}},
		{name: "pressure", family: "pressure", memCap: 3, flushers: 1, pre: 2, clients: [][]string{t1Full, {"createb", "getmd"}}},
		{name: "pressure-late-md", family: "pressure", memCap: 3, flushers: 1, pre: 4, clients: [][]string{t1Full, {"createb", "getmd"}}},
		{name: "pressure-late-delmd", family: "pressure", memCap: 3, flushers: 1, pre: 4, clients: [][]string{t1Del, {"createb", "getmd"}}},
		{name: "pressure-handle", heavy: true, family: "pressure", memCap: 2, flushers: 1, pre: 3, handle: true, clients: [][]string{t1, {"createb"}, {"hread"}}, names: []string{"T1", "T3", "T4"}},
		// thorough only
		{name: "pressure-2flushers", heavy: true, cut: 1, family: "pressure", memCap: 3, flushers: 2, pre: 3, thorough: true, clients: [][]string{t1Full, {"createb", "getmd"}}},
		{name: "read-2flushers", heavy: true, cut: 1, family: "plain", memCap: 3, flushers: 2, pre: 2, thorough: true, clients: [][]string{t1Full, {"has", "read"}}},
		{name: "pressure-read", heavy: true, family: "pressure", memCap: 3, flushers: 1, pre: 2, thorough: true, clients: [][]string{t1Full, {"createb"}, {"read", "getmd"}}, names: []string{"T1", "T3", "T4"}},
		{name: "recreate-2flushers-full", heavy: true, family: "delete", memCap: 3, flushers: 2, pre: 2, thorough: true, clients: [][]string{cat(t1, []string{"setmd:1"}, t3Recreate)}},
		{name: "recreate-pressure", family: "delete", memCap: 3, flushers: 1, pre: 3, thorough: true, clients: [][]string{cat(t1, []string{"as:T3", "delete", "create", "write", "complete"}), {"createb", "read"}}, names: []string{"T1", "T4"}},
	}
}

func (sc scenario) clientName(i int) string {
	if i < len(sc.names) {
		return sc.names[i]
	}
	return []string{"T1", "T3", "T4", "T5"}[i]
}

// ------------------------------------------------------------ one execution

// event is one client operation with its logical invocation/return times.
type event struct {
	thread   string
	op       string
	inv, ret int
	err      error
	inc      int    // create/write/complete/delete/md ops: incarnation of a they refer to (model)
	has      bool   // has
	data     string // read / hread
	mdOK     bool   // getmd
	mdVal    int
}

type flushRec struct {
	key      string
	entry    string // identity of the dirty-table entry being flushed
	beg, end int
}

type world struct {
	sc      scenario
	fine    bool
	dir     string
	st      *tiered.Store
	mem     *memory.Store
	dsk     *disk.Store
	clock   int
	log     []*event
	flushes []*flushRec
	files   map[string]*tiered.File // handle of the thread's current incarnation
	created int                     // successful Create(a) so far
	handle  *tiered.File
	harness []string // harness errors (never violations)
	vio     []string
	nDone   int  // client threads that returned
	nExit   int  // client + flusher threads that returned
	evicted bool // a left memory by LRU eviction at some point (vacuity)
	// dirtyEvictable: at the return of a metadata update or of a flush, key a had an entry in the
	// flusher's dirty table while it was evictable in the memory store (trace pattern of root cause 2)
	dirtyEvictable bool
	aborted        map[string]int // entry identity -> return time of the Delete(a) that aborted it
}

var idleObj = new(int) // flusher threads wait here for work
var mainObj = new(int) // the main thread waits here for all other threads

func (w *world) tick() int { w.clock++; return w.clock }

func (w *world) herr(format string, a ...interface{}) {
	w.harness = append(w.harness, fmt.Sprintf(format, a...))
}
func (w *world) fail(clause, format string, a ...interface{}) {
	w.vio = append(w.vio, clause+" :: "+fmt.Sprintf(format, a...))
}

func newWorld(sc scenario) (*world, error) {
	dir, err := os.MkdirTemp("", "c09-")
	if err != nil {
		return nil, err
	}
	cfg := &tiered.Config{
		DiskConfig: &disk.Config{CapacityBytes: 1 << 20, RootDir: dir + "/disk"},
		MemConfig:  &memory.Config{CapacityBytes: sc.memCap, GOMEMLIMITBytes: 1 << 40},
	}
	st, mem, dsk, err := tiered.VerifNewStore(cfg, tally.NoopScope)
	if err != nil {
		os.RemoveAll(dir)
		return nil, err
	}
	return &world{sc: sc, dir: dir, st: st, mem: mem, dsk: dsk, files: map[string]*tiered.File{}}, nil
}

func (w *world) close() {
	if w.handle != nil {
		w.handle.Close()
	}
	os.RemoveAll(w.dir)
}

func isNotExist(err error) bool { return errors.Is(err, os.ErrNotExist) }

func errClass(err error) string {
	switch {
	case err == nil:
		return "ok"
	case errors.Is(err, os.ErrNotExist):
		return "notexist"
	case errors.Is(err, os.ErrExist):
		return "exist"
	case err == io.EOF:
		return "eof"
	}
	return "err(" + err.Error() + ")"
}

// readAll reads a tiered.File to EOF one byte at a time (every Read is a
// separate store access, so evictions can fall between two reads).
func readAll(f *tiered.File, point bool) (string, error) {
	point = point && !vsyncq.Points
	var out []byte
	buf := make([]byte, 1)
	for i := 0; i < 16; i++ {
		if point && i > 0 {
			vrt.Point("client-read")
		}
		n, err := f.Read(buf)
		out = append(out, buf[:n]...)
		if err == io.EOF {
			return string(out), nil
		}
		if err != nil {
			return string(out), err
		}
	}
	return string(out), errors.New("no EOF after 16 reads")
}

// do executes one client operation on the real store and logs it.
func (w *world) do(thread, op string) *event {
	e := &event{thread: thread, op: op, inc: w.created}
	e.inv = w.tick()
	switch {
	case op == "create":
		f, err := w.st.Create(keyA, 2)
		e.err = err
		if err == nil {
			w.created++
			e.inc = w.created
			w.files[thread] = f
		}
	case op == "write":
		f := w.files[thread]
		if f == nil {
			e.err = errors.New("no handle")
			break
		}
		n, err := f.Write([]byte(contents[w.created-1]))
		if err == nil && n != 2 {
			err = fmt.Errorf("short write %d", n)
		}
		if cerr := f.Close(); err == nil {
			err = cerr
		}
		e.err = err
	case op == "complete":
		e.err = w.st.MarkComplete(keyA)
	case strings.HasPrefix(op, "setmd:"):
		v, _ := strconv.Atoi(op[6:])
		e.mdVal, e.mdOK = v, true
		e.err = w.st.SetMetadata(keyA, &vmd{v})
	case op == "delmd":
		e.err = w.st.DeleteMetadata(keyA, mdSuffix)
	case op == "delete":
		entry := w.st.VerifEntryID(keyA) // structural operations are sequential: this is the entry Delete aborts
		e.err = w.st.Delete(keyA)
		if e.err == nil && entry != "" && thread != "end" {
			if w.aborted == nil {
				w.aborted = map[string]int{}
			}
			w.aborted[entry] = w.clock + 1 // = e.ret
		}
	case op == "has":
		e.has, _ = w.st.Has(keyA)
	case op == "read":
		f, err := w.st.Open(keyA)
		if err == nil {
			e.data, err = readAll(f, true)
			f.Close()
		}
		e.err = err
	case op == "getmd":
		md := &vmd{}
		ok, err := w.st.GetMetadata(keyA, md)
		e.err, e.mdOK, e.mdVal = err, ok, md.v
	case op == "createb" || op == "createc":
		k := keyB
		if op == "createc" {
			k = keyC
		}
		aIn, _, _, _ := w.mem.VerifBlob(keyA)
		f, err := w.st.Create(k, 2)
		if err == nil {
			f.Close()
		}
		if aNow, _, _, _ := w.mem.VerifBlob(keyA); aIn && !aNow {
			w.evicted = true
		}
		e.err = err
	case op == "hread":
		if w.handle == nil {
			e.err = errors.New("no retained handle")
			break
		}
		e.data, e.err = readAll(w.handle, true)
	default:
		e.err = errors.New("unknown op " + op)
		w.herr("unknown op %q", op)
	}
	e.ret = w.tick()
	if mdOp(op) && thread != "end" {
		w.sampleDirtyEvictable()
	}
	w.log = append(w.log, e)
	return e
}

// runClient executes a client program; structural failures end the program
// (the following operations would act on a state the model does not define).
func (w *world) runClient(name string, prog []string, controlled bool) {
	for _, op := range prog {
		if strings.HasPrefix(op, "as:") {
			name = op[3:]
			continue
		}
		// Mutators start with s.mu.Lock() (a point); observers and writes start
		// with a memory-store lock, which is a point only in the fine phase.
		if controlled && !w.fine && (observer(op) || op == "write") {
			vrt.Point("client-op " + op)
		}
		e := w.do(name, op)
		if e.err != nil {
			switch op {
			case "create", "write", "complete", "delete":
				return
			}
		}
	}
}

// flusherThread is the worker loop of flusher.worker with the blocking receive
// on f.notify replaced by "wait until something is queued": the inner loop body
// is the real one (VerifFlushStep).
func (w *world) flusherThread() {
	for {
		for w.st.VerifQueued() == 0 {
			if w.nDone == len(w.sc.clients) {
				return
			}
			vrt.Block(idleObj, "flusher-idle")
		}
		for w.flushStep() {
		}
	}
}

// threadDone runs when a client / flusher thread function returns.
func (w *world) threadDone(client bool) {
	if client {
		w.nDone++
		if w.nDone == len(w.sc.clients) {
			vrt.Wake(idleObj) // idle flusher threads terminate
		}
	}
	w.nExit++
	if w.nExit == len(w.sc.clients)+w.sc.flushers {
		vrt.Wake(mainObj)
	}
}

// sampleDirtyEvictable records whether a is tracked as dirty by the flusher while the memory store may evict it.
func (w *world) sampleDirtyEvictable() {
	present, _, banned, _ := w.mem.VerifBlob(keyA)
	if present && !banned && w.listHas(w.st.VerifDirty(), keyA) {
		w.dirtyEvictable = true
	}
}

func (w *world) flushStep() bool {
	var rec *flushRec
	ok := w.st.VerifFlushStep(func(key, entry string) {
		rec = &flushRec{key: key, entry: entry, beg: w.tick()}
		w.flushes = append(w.flushes, rec)
	})
	if rec != nil {
		rec.end = w.tick()
		w.sampleDirtyEvictable()
	}
	return ok
}

func (w *world) quiesce() {
	for i := 0; w.flushStep(); i++ {
		if i > 100 {
			w.herr("flusher queue does not drain")
			return
		}
	}
}

// ------------------------------------------------------------ oracle

func structural(op string) bool {
	return op == "create" || op == "write" || op == "complete" || op == "delete"
}
func mdOp(op string) bool { return strings.HasPrefix(op, "setmd:") || op == "delmd" }
func observer(op string) bool {
	return op == "has" || op == "read" || op == "getmd" || op == "hread"
}

type mdv struct {
	ok bool
	v  int
}

func (m mdv) String() string {
	if !m.ok {
		return "absent"
	}
	return strconv.Itoa(m.v)
}

func mdOf(e *event) mdv {
	if e.op == "delmd" {
		return mdv{}
	}
	return mdv{true, e.mdVal}
}

// monitor judges every observer operation against the client history
// (DESIGN.md section 4, C09): from the return of MarkComplete(k) until a
// Delete(k) is invoked Has is true and Open+read returns exactly k's bytes;
// GetMetadata returns the value of the last update that returned before the read
// was invoked, or of a concurrent one; after Delete(k) returned and until the
// next Create(k) is invoked k is absent.
func (w *world) monitor() {
	var str, mds []*event
	for _, e := range w.log {
		if e.err != nil {
			continue
		}
		if structural(e.op) {
			str = append(str, e)
		}
		if mdOp(e.op) {
			mds = append(mds, e)
		}
	}
	// scenario sanity: structural and metadata operations on a form ONE sequential client history
	seq := append(append([]*event{}, str...), mds...)
	sort.Slice(seq, func(i, j int) bool { return seq[i].inv < seq[j].inv })
	for i := 1; i < len(seq); i++ {
		if seq[i].inv < seq[i-1].ret {
			w.herr("scenario error: %s/%s overlaps %s/%s", seq[i-1].thread, seq[i-1].op, seq[i].thread, seq[i].op)
		}
	}
	for _, o := range w.log {
		if !observer(o.op) {
			continue
		}
		// last structural operation that returned before o was invoked; none may overlap o
		var last *event
		overlap := false
		for _, s := range str {
			if s.ret < o.inv {
				last = s
			} else if s.inv < o.ret {
				overlap = true
			}
		}
		// failed structural operations are not in str; a failed one leaves the model undefined
		for _, e := range w.log {
			if structural(e.op) && e.err != nil && e.inv < o.ret {
				overlap = true
			}
		}
		if overlap || last == nil {
			continue
		}
		ctx := fmt.Sprintf("%s %s invoked at t=%d after %s(a#%d) returned at t=%d", o.thread, o.op, o.inv, last.op, last.inc, last.ret)
		switch last.op {
		case "complete":
			want := contents[last.inc-1]
			switch o.op {
			case "has":
				if !o.has {
					w.fail("completed blob not reported by Has", "%s: Has=false", ctx)
				}
			case "read", "hread":
				what := "Open+read of a completed blob"
				if o.op == "hread" {
					what = "read through a retained tiered.File of a completed blob"
				}
				if o.err != nil {
					w.fail(what+" fails", "%s: %v (read %q)", ctx, o.err, o.data)
				} else if o.data != want {
					w.fail(what+" returns wrong bytes", "%s: got %q want %q", ctx, o.data, want)
				}
			case "getmd":
				allowed := map[mdv]bool{}
				cur := mdv{}
				for _, m := range mds {
					if m.inc != last.inc {
						continue
					}
					if m.ret < o.inv {
						cur = mdOf(m)
					} else if m.inv < o.ret {
						allowed[mdOf(m)] = true
					}
				}
				allowed[cur] = true
				got := mdv{o.mdOK, o.mdVal}
				if o.err != nil {
					w.fail("GetMetadata of a completed blob fails", "%s: %v", ctx, o.err)
				} else if !allowed[got] {
					w.fail("GetMetadata does not return the last metadata update", "%s: got %v, last returned update %v, allowed %v", ctx, got, cur, allowed)
				}
			}
		case "delete":
			switch o.op {
			case "has":
				if o.has {
					w.fail("deleted key resurfaces (Has)", "%s: Has=true", ctx)
				}
			case "read":
				if o.err == nil {
					w.fail("deleted key resurfaces (Open)", "%s: Open succeeded, read %q", ctx, o.data)
				} else if !isNotExist(o.err) {
					w.fail("deleted key resurfaces (Open)", "%s: Open: %v", ctx, o.err)
				}
			}
		}
	}
	// re-creation after a successful Delete must not be blocked
	deleted := false
	for _, e := range w.log {
		switch {
		case e.op == "delete" && e.err == nil:
			deleted = true
		case e.op == "delete" && e.err != nil:
			w.fail("Delete of an existing key fails", "%s delete at t=%d: %v", e.thread, e.inv, e.err)
		case deleted && (e.op == "create" || e.op == "write" || e.op == "complete") && e.err != nil:
			w.fail("re-creation of a deleted key is blocked ("+e.op+")", "%s %s at t=%d: %v", e.thread, e.op, e.inv, e.err)
		case !deleted && structural(e.op) && e.err != nil:
			w.herr("%s %s (first incarnation) failed: %v", e.thread, e.op, e.err)
		}
	}
}

// finalModel returns the state the client history leaves key a in.
func (w *world) finalModel() (state string, inc int, md mdv) {
	state = "none"
	for _, e := range w.log {
		if e.err != nil {
			if structural(e.op) {
				return "undefined", 0, mdv{}
			}
			continue
		}
		switch {
		case e.op == "create":
			state, inc, md = "incomplete", e.inc, mdv{}
		case e.op == "complete":
			state = "live"
		case e.op == "delete":
			state, md = "deleted", mdv{}
		case mdOp(e.op):
			md = mdOf(e)
		}
	}
	return
}

func (w *world) listHas(l []string, k string) bool {
	for _, x := range l {
		if x == k {
			return true
		}
	}
	return false
}

// checkLive: at quiescence the disk store holds the blob and the last metadata
// value, the memory eviction ban is lifted, and the tiered store serves both.
func (w *world) checkLive(when string, inc int, md mdv) {
	want := contents[inc-1]
	if in, scope := w.dsk.ScopeComplete().Has(keyA); !in || !scope {
		w.fail("at quiescence the disk store does not hold the completed blob", "%s: a#%d disk Has(complete scope)=(%v,%v), flusher dirty table %v", when, inc, in, scope, w.st.VerifDirty())
	} else {
		f, err := w.dsk.Open(keyA)
		if err != nil {
			w.herr("%s: disk open: %v", when, err)
		} else {
			b, _ := io.ReadAll(f)
			f.Close()
			if string(b) != want {
				w.fail("at quiescence the disk copy differs from the blob's bytes", "%s: a#%d disk has %q want %q", when, inc, b, want)
			}
		}
		got := &vmd{}
		ok, err := w.dsk.GetMetadata(keyA, got)
		if err != nil {
			w.herr("%s: disk getmd: %v", when, err)
		} else if (mdv{ok, got.v}) != md && !(!ok && !md.ok) {
			w.fail("at quiescence the disk store does not hold the last metadata value", "%s: a#%d disk metadata %v want %v", when, inc, mdv{ok, got.v}, md)
		}
	}
	if present, _, banned, _ := w.mem.VerifBlob(keyA); present && banned {
		w.fail("at quiescence the memory eviction ban is not lifted", "%s: a#%d still banned, flusher dirty table %v", when, inc, w.st.VerifDirty())
	}
	if in, _ := w.st.Has(keyA); !in {
		w.fail("completed blob not reported by Has", "%s: a#%d Has=false at quiescence", when, inc)
	}
	f, err := w.st.Open(keyA)
	if err != nil {
		w.fail("Open+read of a completed blob fails", "%s: a#%d Open at quiescence: %v", when, inc, err)
	} else {
		data, err := readAll(f, false)
		f.Close()
		if err != nil {
			w.fail("Open+read of a completed blob fails", "%s: a#%d read at quiescence: %v", when, inc, err)
		} else if data != want {
			w.fail("Open+read of a completed blob returns wrong bytes", "%s: a#%d at quiescence got %q want %q", when, inc, data, want)
		}
	}
	got := &vmd{}
	ok, err := w.st.GetMetadata(keyA, got)
	if err != nil {
		w.fail("GetMetadata of a completed blob fails", "%s: a#%d at quiescence: %v", when, inc, err)
	} else if (mdv{ok, got.v}) != md && !(!ok && !md.ok) {
		w.fail("GetMetadata does not return the last metadata update", "%s: a#%d at quiescence got %v want %v", when, inc, mdv{ok, got.v}, md)
	}
	if !w.listHas(w.st.ScopeComplete().List(), keyA) {
		w.fail("completed blob missing from List", "%s: a#%d List(complete)=%v", when, inc, w.st.ScopeComplete().List())
	}
}

// checkDeleted: a deleted key is absent from mem, disk and List.
func (w *world) checkDeleted(when string) {
	var where []string
	if in, _ := w.mem.Has(keyA); in {
		where = append(where, "memory store")
	}
	if in, _ := w.dsk.Has(keyA); in {
		where = append(where, "disk store")
	}
	if in, _ := w.st.Has(keyA); in {
		where = append(where, "Has")
	}
	if w.listHas(w.st.List(), keyA) || w.listHas(w.st.ScopeComplete().List(), keyA) || w.listHas(w.st.ScopeIncomplete().List(), keyA) {
		where = append(where, "List")
	}
	if f, err := w.st.Open(keyA); err == nil {
		f.Close()
		where = append(where, "Open")
	}
	if len(where) > 0 {
		w.fail("deleted key still present at quiescence", "%s: present in %v", when, where)
	}
}

// recreate: the key can be created (and completed, flushed) again.
func (w *world) recreate(when string) (inc int, ok bool) {
	for _, op := range []string{"create", "write", "complete"} {
		if e := w.do("end", op); e.err != nil {
			w.fail("re-creation of a deleted key is blocked ("+op+")", "%s: %v", when, e.err)
			return 0, false
		}
	}
	w.quiesce()
	return w.created, true
}

// endState: quiescence oracle. When the flusher's dirty table is not empty at
// quiescence (an entry that no queue element refers to), the history is continued
// sequentially (one more metadata update, delete, re-creation) and judged by the
// same clauses, so that a stuck entry can show its effect.
func (w *world) endState() {
	w.quiesce()
	state, inc, md := w.finalModel()
	switch state {
	case "live":
		w.checkLive("end of history", inc, md)
		if len(w.vio) > 0 || len(w.st.VerifDirty()) == 0 {
			// clean quiescent state (flusher idle and empty): what follows is sequential code
			return
		}
		if e := w.do("end", "setmd:9"); e.err != nil {
			w.herr("continuation SetMetadata: %v", e.err)
			return
		}
		w.quiesce()
		w.checkLive("after one more SetMetadata", inc, mdv{true, 9})
		if len(w.vio) > 0 {
			return
		}
		if e := w.do("end", "delete"); e.err != nil {
			w.fail("Delete of an existing key fails", "continuation: %v", e.err)
			return
		}
		w.quiesce()
		w.checkDeleted("after Delete of the flushed blob")
	case "deleted":
		w.checkDeleted("end of history")
		if len(w.vio) > 0 || len(w.st.VerifDirty()) == 0 {
			return
		}
		if inc, ok := w.recreate("after end of history"); ok {
			w.checkLive("re-created after end of history", inc, mdv{})
		}
	case "undefined":
		// a structural operation failed: reported by monitor
	default:
		w.herr("scenario leaves a in state %q", state)
	}
}

// Trace-derived root-cause tags (see FINDINGS.md). They are computed from the
// client/flusher event trace of the execution, not from the violated clause.
const (
	tagStale   = "[flush of the deleted incarnation outlived Delete]"
	tagTwice   = "[entry taken twice from the queue after re-create]"
	tagMDUnban = "[md update raced with deferred unban]"
)

// tag returns the known race pattern the execution exhibits, or "".
//
//   - tagStale: a flush that belongs to the incarnation a Delete(a) removed -- it was
//     handed the dirty-table entry that Delete aborted (entries are identified by
//     pointer), or it had begun before that Delete returned -- returned only after the
//     Delete had returned. Everything such a flush still does (abort check, disk.Create,
//     failure clean-up, removal of "the" entry, deferred unban) goes by key.
//   - tagTwice: after a Delete(a) aborted an entry, two flushes were handed the same
//     (new) entry: the queue still held the key of the aborted entry (the queue holds
//     keys), so the entry of the re-created blob was dequeued twice.
//   - tagMDUnban: when a SetMetadata/DeleteMetadata or a flush returned, a was in the
//     flusher's dirty table and at the same time evictable in the memory store, i.e.
//     the update's eviction ban was taken away by the (deferred) unban of a flush.
func (w *world) tag() string {
	for _, f := range w.flushes {
		if f.key != keyA {
			continue
		}
		for _, d := range w.log {
			if d.op != "delete" || d.err != nil || d.thread == "end" || !(f.end > d.ret) {
				continue
			}
			if dret, aborted := w.aborted[f.entry]; (aborted && dret == d.ret) || f.beg < d.ret {
				return tagStale
			}
		}
	}
	for i, f := range w.flushes {
		for _, g := range w.flushes[:i] {
			if f.entry == g.entry && len(w.aborted) > 0 {
				return tagTwice
			}
		}
	}
	if w.dirtyEvictable {
		return tagMDUnban
	}
	return ""
}

// fingerprint names the failure class of a violating execution:
// "<scenario>: <first violated clause> <root-cause tag, if any>".
func (w *world) fingerprint() string {
	fp := w.sc.name + ": " + strings.SplitN(w.vio[0], " :: ", 2)[0]
	if t := w.tag(); t != "" {
		fp += " " + t
	}
	return fp
}

// overlapped reports whether some flush ran concurrently with a client operation.
func (w *world) overlapped() bool {
	for _, f := range w.flushes {
		for _, e := range w.log {
			if e.thread != "end" && e.thread != "pre" && e.inv < f.end && f.beg < e.ret {
				return true
			}
		}
	}
	return false
}

func (w *world) observation() string {
	var b strings.Builder
	for _, e := range w.log {
		if e.thread == "end" {
			continue
		}
		fmt.Fprintf(&b, "%s.%s=", e.thread, e.op)
		switch e.op {
		case "has":
			fmt.Fprintf(&b, "%v", e.has)
		case "read", "hread":
			fmt.Fprintf(&b, "%s%q", errClass(e.err), e.data)
		case "getmd":
			fmt.Fprintf(&b, "%s:%v", errClass(e.err), mdv{e.mdOK, e.mdVal})
		default:
			b.WriteString(errClass(e.err))
		}
		b.WriteByte(' ')
	}
	return b.String()
}

// ------------------------------------------------------------ harness

func harness(sc scenario, fine bool) *vrt.Harness {
	name := sc.name + "/coarse"
	if fine {
		name = sc.name + "/fine"
	}
	return &vrt.Harness{Name: name, Horizon: 50000, Body: func() (string, string) {
		vsync.Points, vsync.UnlockPoints = true, false
		vsyncq.Points, vsyncq.UnlockPoints = fine, false
		tsync.Reset()
		w, err := newWorld(sc)
		if err != nil {
			return "", "HARNESS: " + err.Error()
		}
		w.fine = fine
		defer w.close()
		defer tsync.Reset()
		tsync.AfterUnlock = func() {
			if w.st.VerifQueued() > 0 {
				vrt.Wake(idleObj)
			}
		}
		// sequential prefix of T1 (no flusher step can happen: no flusher thread yet)
		w.runClient("T1", sc.clients[0][:sc.pre], false)
		for _, e := range w.log {
			e.thread = "T1"
			if e.err != nil {
				w.herr("pre-step %s: %v", e.op, e.err)
			}
		}
		if sc.handle {
			if w.handle, err = w.st.Open(keyA); err != nil {
				w.herr("open retained handle: %v", err)
			}
		}
		for i := range sc.clients {
			i := i
			prog := sc.clients[i]
			if i == 0 {
				prog = prog[sc.pre:]
			}
			cname := sc.clientName(i)
			vrt.GoNamed(cname, func() {
				defer w.threadDone(true)
				w.runClient(cname, prog, true)
			})
		}
		for i := 0; i < sc.flushers; i++ {
			vrt.GoNamed(fmt.Sprintf("F%d", i+1), func() {
				defer w.threadDone(false)
				w.flusherThread()
			})
		}
		// like vrt.Join, but main is woken once (by the last thread) instead of at every thread exit
		for w.nExit < len(sc.clients)+sc.flushers {
			vrt.Block(mainObj, "join")
		}
		ovl := w.overlapped()
		w.monitor()
		if len(w.vio) == 0 && len(w.harness) == 0 {
			w.endState()
		}
		obs := fmt.Sprintf("%s| flushes=%d ovl=%v evict=%v", w.observation(), len(w.flushes), ovl, w.evicted)
		if traceOut != nil {
			w.trace(traceOut)
		}
		if len(w.harness) > 0 {
			return obs + " HARNESS{" + w.harness[0] + "}", "HARNESS: " + strings.Join(w.harness, "; ")
		}
		if len(w.vio) > 0 {
			// the fingerprint is part of the observation: outcome counts are merged without a cap,
			// so the complete set of fingerprints of an exploration can be read from them
			return obs + " VIO{" + w.fingerprint() + "}", strings.Join(w.vio, "\n")
		}
		return obs, ""
	}}
}

func main() {
	var hs []*vrt.Harness
	for _, sc := range scenarios() {
		hs = append(hs, harness(sc, true), harness(sc, false))
	}
	vrt.WorkerMain(hs)
	if os.Getenv("C09_BENCH") != "" {
		bench(hs)
		return
	}

	run := evid.New("C09", "exploration")
	if p := run.ReplayPath(); p != "" {
		replay(p, hs)
		return
	}
	run.Rule = "E1: for each scenario (one sequential client history on key a = Create, write, MarkComplete, SetMetadata/DeleteMetadata, optionally Delete + re-Create + write' + MarkComplete; plus independent observer / memory-pressure / retained-handle client threads; plus 1-2 flusher threads executing the real worker loop body) every interleaving up to the preemption bound at the scheduling points of the real code: 'coarse' phase = lock operations of lib/store/tiered + client-operation boundaries, 'fine' phase = additionally every lock operation of lib/store/memory and lib/store/disk. distinct = distinct observable outcomes (client results + flush/eviction pattern) per scenario and phase. Plus 'handle-hist' (sequential, in-process): every history of length 1..3 (quick) / 1..4 (thorough) over the tiered.File method alphabet {Read 1 byte, Read 2 bytes, ReadAt 0, ReadAt 2, Size, Seek(0,Cur), Seek(+-1,Cur), Seek(1,Start), Seek(0,End)} on ONE open handle of a completed, flushed 3-byte blob, with the eviction from the memory tier (memory pressure: Create(b)) inserted at every position or absent, followed by a read to EOF; oracle = model cursor over the blob's bytes; distinct = distinct (history, results) pairs."
	run.Assume("code between two lock operations is data-race free (sequentially consistent interleavings at synchronisation operations only)")
	run.Assume("small-scope: keys a (size 2, up to 2 incarnations + sequential continuation) and b/c (pressure only), one metadata type, memory capacity 2-3 bytes, disk capacity 1 MiB (no disk eviction)")
	run.Assume("handle-hist: one handle used by one thread (the eviction falls between two handle calls), at most one eviction per history, read-only handle methods, blob of 3 bytes, memory capacity 3 bytes; the value returned by Seek is not judged, only the bytes subsequently delivered")
	run.Assume("the worker's blocking receive on f.notify is replaced by 'wait until the flusher queue is non-empty'; the loop body (nextToFlush+flush) is the real code, the flusher is built by the real newFlusher with 0 workers")
	run.Assume("points before a lock release are not scheduling points (they only duplicate interleavings reachable from the next acquisition / the point after the release)")

	// (coarse bound, fine bound)
	quickB, thoroughB := [2]int{2, 1}, [2]int{3, 2}
	budget := 40 * time.Second
	if run.Thorough() {
		budget = 720 * time.Second
	}
	type job struct {
		sc    scenario
		fine  bool
		bound int
	}
	var jobs, late []job
	atLeast1 := func(b int) int {
		if b < 1 {
			return 1
		}
		return b
	}
	for _, sc := range scenarios() {
		if sc.thorough && !run.Thorough() {
			continue
		}
		for ph := 0; ph < 2; ph++ {
			switch {
			case !run.Thorough():
				jobs = append(jobs, job{sc, ph == 1, atLeast1(quickB[ph] - sc.cut)})
			case sc.deep:
				jobs = append(jobs, job{sc, ph == 1, thoroughB[ph] + 1})
			case sc.heavy:
				// complete pass first; the pass at the thorough bounds shares what is left of the budget
				jobs = append(jobs, job{sc, ph == 1, atLeast1(quickB[ph] - sc.cut)})
				late = append(late, job{sc, ph == 1, thoroughB[ph]})
			default:
				jobs = append(jobs, job{sc, ph == 1, thoroughB[ph]})
			}
		}
	}
	jobs = append(jobs, late...)
	// C09_ONLY=<harness>@<bound> (debugging aid): explore just that harness at that bound
	if only := os.Getenv("C09_ONLY"); only != "" {
		jobs = nil
		for _, sc := range scenarios() {
			for _, fine := range []bool{false, true} {
				if h := harness(sc, fine); strings.HasPrefix(only, h.Name+"@") {
					b, _ := strconv.Atoi(only[len(h.Name)+1:])
					jobs = append(jobs, job{sc, fine, b})
				}
			}
		}
	}
	// handle histories (handle.go): in-process, every history of handle operations x eviction position
	histDepth := 3
	if run.Thorough() {
		histDepth = 4
	}
	handleHistories(run, histDepth)
	if os.Getenv("C09_HIST_ONLY") != "" { // debugging aid
		run.Finish()
		return
	}
	start := time.Now()
	totalExec, totalOvl, totalEvict := 0, 0, 0
	for ji, j := range jobs {
		sc, bound := j.sc, j.bound
		h := harness(sc, j.fine)
		_, o1, v1 := vrt.Replay(h, nil)
		_, o2, v2 := vrt.Replay(h, nil)
		if o1 != o2 || v1 != v2 {
			run.Fatal(errors.New("non-deterministic replay in " + h.Name + ": " + o1 + " vs " + o2))
		}
		// time cap of this exploration: twice its share of what is left of the budget
		left := budget - time.Since(start)
		maxDur := int(2 * left.Seconds() / float64(len(jobs)-ji))
		if min := map[bool]int{false: 20, true: 5}[run.Thorough()]; maxDur < min {
			maxDur = min
		}
		fpOf := func(v vrt.Violation) string {
			if strings.HasPrefix(v.Msg, "HARNESS: ") {
				run.Fatal(fmt.Errorf("%s schedule %v: %s", h.Name, v.Choices, v.Msg))
			}
			return violationFP(sc, v.Msg, v.Obs, v.Deadlock)
		}
		res := rep.VRT(run, h, bound, evid.Workers(), maxDur, fpOf)
		// rep.VRT reports at most 20 failing executions per exploration (5 per shard job); the complete
		// set of fingerprints is in the outcome table. Report the ones that were crowded out as well,
		// with a schedule found by a small in-process search (helper below) where that is quick.
		reported := map[string]bool{}
		for _, v := range res.Violations {
			reported[fpOf(v)] = true
		}
		var missing []string
		for k := range res.Outcomes {
			if m := harnessRe.FindStringSubmatch(k); m != nil {
				run.Fatal(fmt.Errorf("%s: %s", h.Name, m[1]))
			}
			fp := ""
			if m := vioRe.FindStringSubmatch(k); m != nil {
				fp = m[1]
			} else if strings.HasPrefix(k, "DEADLOCK ") {
				fp = violationFP(sc, "deadlock: "+strings.TrimPrefix(k, "DEADLOCK "), "", true)
			} else if k == "PANIC" && !reportedPanic(reported) {
				fp = sc.name + ": panic (schedule not captured)"
			}
			if fp != "" && !reported[fp] {
				reported[fp] = true
				missing = append(missing, fp)
			}
		}
		sort.Strings(missing)
		for _, fp := range missing {
			fp := fp
			v := vrt.Violation{Harness: h.Name, Msg: "schedule not captured (fingerprint taken from the outcome table)", Obs: fp}
			if ch, obs, msg, ok := findSchedule(h, bound, 20*time.Second, func(x *vrt.Exec, obs, vio string) bool {
				return violationFP(sc, vioMsg(x, vio), obs, x.Deadlock) == fp
			}); ok {
				v.Choices, v.Obs, v.Msg = ch, obs, msg
			}
			run.Violation(fp, v)
		}
		ovl, evict := 0, 0
		for k, n := range res.Outcomes {
			if strings.Contains(k, "ovl=true") {
				ovl += n
			}
			if strings.Contains(k, "evict=true") {
				evict += n
			}
		}
		totalExec += res.Executions
		totalOvl += ovl
		totalEvict += evict
		run.Set(fmt.Sprintf("explored:%s@%d", h.Name, bound), map[string]interface{}{"executions": res.Executions, "flush_overlapping_client_op": ovl, "a_evicted_from_memory": evict, "preemption_bound": bound, "completed": res.Completed, "outcomes": len(res.Outcomes)})
		fmt.Printf("  %-30s bound=%d executions=%-7d overlap=%-7d evicted=%-6d outcomes=%-4d completed=%v\n", h.Name, bound, res.Executions, ovl, evict, len(res.Outcomes), res.Completed)
	}
	run.Set("executions_total", totalExec)
	run.Set("executions_with_flush_overlapping_client_op", totalOvl)
	run.Set("executions_with_memory_eviction_of_a", totalEvict)
	if totalOvl == 0 {
		run.Fatal(errors.New("vacuous: no execution had a flush step overlapping a client operation"))
	}
	run.Finish()
}

var vioRe = regexp.MustCompile(`VIO\{(.*)\}$`)
var harnessRe = regexp.MustCompile(`HARNESS\{(.*)\}$`)

// violationFP maps a failing execution to its fingerprint.
func violationFP(sc scenario, msg, obs string, deadlock bool) string {
	if m := vioRe.FindStringSubmatch(obs); m != nil {
		return m[1]
	}
	first := strings.SplitN(msg, "\n", 2)[0]
	switch {
	case strings.HasPrefix(msg, "panic: "):
		if len(first) > 120 {
			first = first[:120]
		}
		return sc.name + ": " + first
	case deadlock:
		return sc.name + ": deadlock " + strings.Join(stripThreads(first), ",")
	}
	return sc.name + ": " + strings.SplitN(first, " :: ", 2)[0]
}

func reportedPanic(reported map[string]bool) bool {
	for fp := range reported {
		if strings.Contains(fp, ": panic: ") {
			return true
		}
	}
	return false
}

// vioMsg is the violation message the explorer derives from an execution.
func vioMsg(x *vrt.Exec, vio string) string {
	switch {
	case x.Panic != "":
		return "panic: " + x.Panic
	case x.Deadlock && vio == "":
		return "deadlock: " + strings.Join(x.Blocked, ",")
	}
	return vio
}

// findSchedule is a helper the engine does not offer: a preemption-bounded DFS
// (same successor rule and cost accounting as vrt's explorer, bounds 0..bound in
// turn so that the schedule found needs as few preemptions as possible) that stops
// at the first execution accepted by want. In-process, time-capped.
func findSchedule(h *vrt.Harness, bound int, maxDur time.Duration, want func(x *vrt.Exec, obs, vio string) bool) (choices []int, obs, msg string, found bool) {
	deadline := time.Now().Add(maxDur)
	var rec func(prefix []int, b int) bool
	rec = func(prefix []int, b int) bool {
		if time.Now().After(deadline) {
			return false
		}
		x, o, v := vrt.Replay(h, prefix)
		if x.Diverged != "" {
			return false
		}
		if want(x, o, v) {
			ch := x.Choices()
			for len(ch) > 0 && ch[len(ch)-1] == 0 {
				ch = ch[:len(ch)-1]
			}
			choices, obs, msg, found = ch, o, vioMsg(x, v), true
			return true
		}
		if x.Panic != "" {
			return false
		}
		cost := 0
		for i, p := range x.Points {
			dev := p.Env || p.RunningEnabled
			if i >= len(prefix) {
				for alt := 1; alt < p.NEnabled; alt++ {
					c := cost
					if dev {
						c++
					}
					if c > b {
						continue
					}
					np := append(append([]int{}, x.Choices()[:i]...), alt)
					if rec(np, b) {
						return true
					}
				}
			}
			if p.Chosen != 0 && dev {
				cost++
			}
		}
		return false
	}
	for b := 0; b <= bound && !found; b++ {
		rec(nil, b)
	}
	return
}

// stripThreads turns "deadlock: T1@Lock,F1@flusher-idle" into its sorted parts.
func stripThreads(msg string) []string {
	msg = strings.TrimPrefix(msg, "deadlock: ")
	parts := strings.Split(msg, ",")
	sort.Strings(parts)
	return parts
}

// bench (C09_BENCH=<harness name>): time the default schedule, optionally with a CPU profile.
func bench(hs []*vrt.Harness) {
	for _, h := range hs {
		if h.Name != os.Getenv("C09_BENCH") {
			continue
		}
		if p := os.Getenv("C09_PROF"); p != "" {
			f, _ := os.Create(p)
			pprof.StartCPUProfile(f)
			defer pprof.StopCPUProfile()
		}
		t0 := time.Now()
		n := 2000
		var x *vrt.Exec
		for i := 0; i < n; i++ {
			x, _, _ = vrt.Replay(h, nil)
		}
		fmt.Printf("%s: %d executions, %v each, %d steps, %d points\n", h.Name, n, time.Since(t0)/time.Duration(n), x.Steps, len(x.Points))
	}
}

var traceOut io.Writer

// trace prints the client operations and flushes of an execution in logical-time order.
func (w *world) trace(out io.Writer) {
	type line struct {
		t int
		s string
	}
	var ls []line
	for _, e := range w.log {
		res := errClass(e.err)
		switch e.op {
		case "has":
			res = fmt.Sprint(e.has)
		case "read", "hread":
			res += fmt.Sprintf(" %q", e.data)
		case "getmd":
			res += " " + mdv{e.mdOK, e.mdVal}.String()
		}
		ls = append(ls, line{e.inv, fmt.Sprintf("t=%-3d %-4s %s invoked", e.inv, e.thread, e.op)})
		ls = append(ls, line{e.ret, fmt.Sprintf("t=%-3d %-4s %s -> %s", e.ret, e.thread, e.op, res)})
	}
	for _, f := range w.flushes {
		ls = append(ls, line{f.beg, fmt.Sprintf("t=%-3d      flusher: nextToFlush returned %s, flush begins", f.beg, f.key)})
		ls = append(ls, line{f.end, fmt.Sprintf("t=%-3d      flusher: flush(%s) returned", f.end, f.key)})
	}
	sort.Slice(ls, func(i, j int) bool { return ls[i].t < ls[j].t })
	for _, l := range ls {
		fmt.Fprintln(out, "  "+l.s)
	}
	for _, f := range w.flushes {
		fmt.Fprintf(out, "  flush [%d,%d] of entry %s\n", f.beg, f.end, f.entry)
	}
	fmt.Fprintf(out, "  entries aborted by Delete (entry -> return time): %v; dirty-while-evictable seen: %v; tag: %q\n", w.aborted, w.dirtyEvictable, w.tag())
}

// replay re-runs the schedule of a replay artefact and prints what happened.
func replay(path string, hs []*vrt.Harness) {
	b, err := os.ReadFile(path)
	if err != nil {
		fmt.Fprintln(os.Stderr, err)
		os.Exit(2)
	}
	var r struct {
		Fingerprint string `json:"fingerprint"`
		Case        struct {
			Harness string
			Choices []int
		} `json:"case"`
	}
	if err := json.Unmarshal(b, &r); err != nil {
		fmt.Fprintln(os.Stderr, err)
		os.Exit(2)
	}
	if strings.HasPrefix(r.Case.Harness, histPrefix) {
		hs = append(hs, histHarness(strings.Split(strings.TrimPrefix(r.Case.Harness, histPrefix), ",")))
	}
	for _, h := range hs {
		if h.Name != r.Case.Harness {
			continue
		}
		traceOut = os.Stdout
		if os.Getenv("C09_LOG") != "" {
			zl, _ := zap.NewDevelopment()
			log.SetGlobalLogger(zl.Sugar())
		}
		fmt.Printf("replay %s schedule %v\n", h.Name, r.Case.Choices)
		x, obs, vio := vrt.Replay(h, r.Case.Choices)
		for i, p := range x.Points {
			mark := " "
			if p.Chosen != 0 && p.RunningEnabled {
				mark = "*" // preemption
			}
			fmt.Printf("  point %2d%s choice %d/%d -> %s\n", i, mark, p.Chosen, p.NEnabled, p.Label)
		}
		fmt.Printf("observation: %s\n", obs)
		if x.Deadlock {
			fmt.Printf("DEADLOCK: %v\n", x.Blocked)
		}
		if x.Panic != "" {
			fmt.Printf("PANIC: %s\n", x.Panic)
		}
		if vio == "" && !x.Deadlock && x.Panic == "" {
			fmt.Println("no violation")
			os.Exit(0)
		}
		fmt.Printf("VIOLATION property=C09 replay=%s\n  %s\n", path, strings.ReplaceAll(vio, "\n", "\n  "))
		os.Exit(1)
	}
	fmt.Fprintf(os.Stderr, "unknown harness %q\n", r.Case.Harness)
	os.Exit(2)
}
