// C38: registry path parsing recovers exactly the components it was built from.
// E4: small-scope exhaustive enumeration. An independently written builder of
// the Docker registry storage layout produces every path of 12 kinds from
// (repository, tag, digest, upload id, algorithm, offset) over hostile
// vocabularies; the real ParsePath / Get* must classify it as the kind built and
// return exactly the components. Mutated paths that unambiguously leave the
// layout must be rejected.
package main

import (
	"encoding/json"
	"fmt"
	"os"
	"regexp"
	"runtime"
	"sort"
	"strings"
	"sync"
	"sync/atomic"
	"syscall"
	"time"

	"github.com/uber/kraken/lib/dockerregistry"

	"verif/evid"
	_ "verif/quiet"
)

// ---------------------------------------------------------------------------
// Domain: Docker reference grammar + registry layout, written independently of
// paths.go.

var (
	reRepoComponent    = regexp.MustCompile(`^[a-z0-9]+(?:(?:[._]|__|[-]*)[a-z0-9]+)*$`)
	reTag              = regexp.MustCompile(`^[\w][\w.-]{0,127}$`)
	reHex64            = regexp.MustCompile(`^[0-9a-f]{64}$`)
	reManifestEnvelope = regexp.MustCompile(`/_manifests/(?:tags|revisions)/.+/link$`)
	reUUID             = regexp.MustCompile(`^[0-9a-f]{8}-[0-9a-f]{4}-[0-9a-f]{4}-[0-9a-f]{4}-[0-9a-f]{12}$`)
)

// Repository components: ordinary names plus every word of the layout that is a
// legal repository component.
var repoWords = []string{
	"kraken", "library", "a-b", "a.b", "a_b", "a__b", "0",
	"repositories", "blobs", "sha256", "tags", "revisions", "current", "index",
	"link", "data", "startedat", "hashstates", "docker", "registry", "v2",
}

// Tags: ordinary tags plus layout words; a tag may start with '_' so the
// section keywords themselves are legal tags.
var tagWords = []string{
	"latest", "v1.0", "a-b", "A.B-c_d", "_x", "0",
	"current", "index", "link", "tags", "revisions", "sha256", "data",
	"_manifests", "_layers", "_uploads",
}

var digests = []string{
	"0000000000000000000000000000000000000000000000000000000000000000",
	"ffffffffffffffffffffffffffffffffffffffffffffffffffffffffffffffff",
	"0123456789abcdef0123456789abcdef0123456789abcdef0123456789abcdef",
	"a3ed95caeb02ffe68cdd9fd84406680ae93d633cb16422d00e8a7c22955b46d4",
}

var uploadIDs = []string{
	"00000000-0000-0000-0000-000000000000",
	"a1b2c3d4-e5f6-4789-8abc-def012345678",
	"ffffffff-ffff-4fff-bfff-ffffffffffff",
}

var algos = []string{"sha256", "sha512"}
var offsets = []string{"0", "7", "1928129"}

const registryPrefix = "/docker/registry/v2"

func repos(maxComponents int) []string {
	var out []string
	var rec func(prefix string, depth int)
	rec = func(prefix string, depth int) {
		for _, w := range repoWords {
			r := w
			if prefix != "" {
				r = prefix + "/" + w
			}
			out = append(out, r)
			if depth+1 < maxComponents {
				rec(r, depth+1)
			}
		}
	}
	rec("", 0)
	return out
}

// pcase is one built path with the components it was built from.
type pcase struct {
	Kind    string `json:"kind"`
	Path    string `json:"path"`
	Repo    string `json:"repo,omitempty"`
	Tag     string `json:"tag,omitempty"`
	Digest  string `json:"digest,omitempty"`
	Upload  string `json:"upload_id,omitempty"`
	Algo    string `json:"algo,omitempty"`
	Offset  string `json:"offset,omitempty"`
	Type    string `json:"want_type"`
	SubType string `json:"want_subtype"`
	// Mutation is non-empty for a path that was pushed out of the layout.
	Mutation string `json:"mutation,omitempty"`
	// Systematic single mutation (sys.go): the verdict comes from the reference
	// grammar, not from the way the path was made.
	Sys  bool   `json:"systematic,omitempty"`
	Op   string `json:"operator,omitempty"`
	Comp string `json:"component,omitempty"`
	Head bool   `json:"in_repository_part,omitempty"`
}

// build lists every layout path of one repository (the builder / reference).
func build(repo string) []pcase {
	base := registryPrefix + "/repositories/" + repo
	var out []pcase
	add := func(c pcase, segs ...string) {
		c.Repo = repo
		c.Path = base + "/" + strings.Join(segs, "/")
		out = append(out, c)
	}
	add(pcase{Kind: "manifest-revisions-dir", Type: "_manifests", SubType: "revisions"}, "_manifests", "revisions")
	add(pcase{Kind: "manifest-tags-dir", Type: "_manifests", SubType: "tags"}, "_manifests", "tags")
	for _, d := range digests {
		add(pcase{Kind: "manifest-revision-link", Digest: d, Type: "_manifests", SubType: "revisions"}, "_manifests", "revisions", "sha256", d, "link")
		add(pcase{Kind: "layer-link", Digest: d, Type: "_layers", SubType: "link"}, "_layers", "sha256", d, "link")
		add(pcase{Kind: "layer-data", Digest: d, Type: "_layers", SubType: "data"}, "_layers", "sha256", d, "data")
	}
	for _, t := range tagWords {
		add(pcase{Kind: "tag-current-link", Tag: t, Type: "_manifests", SubType: "tags"}, "_manifests", "tags", t, "current", "link")
		for _, d := range digests {
			add(pcase{Kind: "tag-index-link", Tag: t, Digest: d, Type: "_manifests", SubType: "tags"}, "_manifests", "tags", t, "index", "sha256", d, "link")
		}
	}
	for _, u := range uploadIDs {
		add(pcase{Kind: "upload-data", Upload: u, Type: "_uploads", SubType: "data"}, "_uploads", u, "data")
		add(pcase{Kind: "upload-startedat", Upload: u, Type: "_uploads", SubType: "startedat"}, "_uploads", u, "startedat")
		for _, a := range algos {
			add(pcase{Kind: "upload-hashstates-dir", Upload: u, Algo: a, Type: "_uploads", SubType: "hashstates"}, "_uploads", u, "hashstates", a)
			for _, o := range offsets {
				add(pcase{Kind: "upload-hashstate", Upload: u, Algo: a, Offset: o, Type: "_uploads", SubType: "hashstates"}, "_uploads", u, "hashstates", a, o)
			}
		}
	}
	return out
}

func buildBlobs() []pcase {
	var out []pcase
	for _, d := range digests {
		out = append(out, pcase{Kind: "blob-data", Digest: d, Type: "blobs", SubType: "data",
			Path: registryPrefix + "/blobs/sha256/" + d[:2] + "/" + d + "/data"})
	}
	return out
}

// keyword misspellings (exactly one fixed keyword segment is changed).
var misspell = map[string]string{
	"_manifests": "manifests", "_layers": "layers", "_uploads": "uploads",
	"tags": "tag", "revisions": "revision", "current": "curent", "index": "indx",
	"link": "lnk", "data": "dat", "sha256": "sha25", "startedat": "started",
	"hashstates": "hashstate", "blobs": "blob",
}

// tailSegments splits a built path into the part that is not mutated (registry
// prefix and repository) and the segments after it.
func tailSegments(c pcase) (head string, segs []string) {
	if c.Kind == "blob-data" {
		return registryPrefix, strings.Split(strings.TrimPrefix(c.Path, registryPrefix+"/"), "/")
	}
	head = registryPrefix + "/repositories/" + c.Repo
	return head, strings.Split(strings.TrimPrefix(c.Path, head+"/"), "/")
}

// keywordIdx: which tail segments are fixed keywords for the kind.
func keywordIdx(c pcase) []int {
	switch c.Kind {
	case "manifest-revisions-dir", "manifest-tags-dir":
		return []int{0, 1}
	case "manifest-revision-link":
		return []int{0, 1, 2, 4}
	case "tag-current-link":
		return []int{0, 1, 3, 4}
	case "tag-index-link":
		return []int{0, 1, 3, 4, 6}
	case "layer-link", "layer-data":
		return []int{0, 1, 3}
	case "upload-data", "upload-startedat":
		return []int{0, 2}
	case "upload-hashstates-dir", "upload-hashstate":
		return []int{0, 2}
	case "blob-data":
		return []int{0, 1, 4}
	}
	return nil
}

func digestIdx(c pcase) int {
	switch c.Kind {
	case "manifest-revision-link":
		return 3
	case "tag-index-link":
		return 5
	case "layer-link", "layer-data":
		return 2
	case "blob-data":
		return 3
	}
	return -1
}

var quickTier bool
var quickMutTags = map[string]bool{"latest": true, "link": true, "current": true, "index": true, "_uploads": true}

// mutationBase: mutations are applied to every (repository, kind, tag) but only
// for the first digest / upload id / algorithm / offset (the mutated segments
// do not depend on those values).
func mutationBase(c pcase) bool {
	if quickTier && c.Tag != "" && !quickMutTags[c.Tag] {
		return false
	}
	if strings.Count(c.Repo, "/") > 1 {
		return false // mutations: every repository of <= 2 components
	}
	return (c.Digest == "" || c.Digest == digests[len(digests)-1]) && (c.Upload == "" || c.Upload == uploadIDs[1]) &&
		(c.Algo == "" || c.Algo == algos[0]) && (c.Offset == "" || c.Offset == offsets[1])
}

// mutations returns paths derived from c that unambiguously leave the layout.
func mutations(c pcase) []pcase {
	head, segs := tailSegments(c)
	var out []pcase
	emit := func(name string, s []string) {
		m := c
		m.Mutation = name
		m.Path = head + "/" + strings.Join(s, "/")
		out = append(out, m)
	}
	cp := func() []string { return append([]string{}, segs...) }
	for _, i := range keywordIdx(c) {
		s := cp()
		w, ok := misspell[s[i]]
		if !ok {
			panic("no misspelling for keyword " + s[i] + " in " + c.Path)
		}
		s[i] = w
		emit("keyword misspelt", s)
	}
	switch c.Kind {
	case "manifest-revision-link", "tag-current-link", "tag-index-link", "layer-link", "layer-data",
		"upload-data", "upload-startedat", "blob-data":
		emit("final segment dropped", segs[:len(segs)-1])
	}
	switch c.Kind {
	case "manifest-revision-link", "tag-current-link", "tag-index-link", "layer-link", "layer-data",
		"upload-data", "upload-startedat", "upload-hashstate", "blob-data":
		emit("segment appended after the final file", append(cp(), "x"))
	}
	if c.Kind == "tag-current-link" || c.Kind == "tag-index-link" {
		s := cp()
		s[2] = s[2] + "/x"
		emit("tag with an extra segment", s)
	}
	if i := digestIdx(c); i >= 0 {
		bads := []string{c.Digest[:63], c.Digest + "0", c.Digest[:63] + "g"}
		if up := strings.ToUpper(c.Digest); up != c.Digest {
			bads = append(bads, up)
		}
		for _, bad := range bads {
			s := cp()
			s[i] = bad
			if c.Kind == "blob-data" {
				s[2] = bad[:2]
			}
			emit("malformed digest", s)
		}
	}
	if c.Kind == "upload-hashstate" {
		s := cp()
		s[4] = s[4] + "a"
		emit("offset not a number", s)
	}
	return out
}

// nonLayout: paths without a complete layout suffix.
func nonLayout(repo string) []pcase {
	base := registryPrefix + "/repositories/" + repo
	var out []pcase
	for _, p := range []string{base, base + "/_manifests", base + "/_layers", base + "/_uploads", base + "/_manifests/" + "latest" + "/link"} {
		out = append(out, pcase{Kind: "non-layout", Repo: repo, Path: p, Mutation: "incomplete layout path"})
	}
	return out
}

// ---------------------------------------------------------------------------
// Oracle on the real code.

type failure struct {
	fp     string
	detail map[string]interface{}
}

// inputClass names the feature of the input that a wrong extraction correlates
// with, so that one root cause maps to one fingerprint across path kinds.
func inputClass(c pcase) string {
	for _, comp := range strings.Split(c.Repo, "/") {
		if comp == "repositories" {
			return "repository has a 'repositories' component"
		}
	}
	switch c.Tag {
	case "_manifests", "_layers", "_uploads":
		return "tag is a section keyword"
	}
	return "kind " + c.Kind
}

type result struct {
	fails          []failure
	parseLenient   bool // mutated path accepted by ParsePath, rejected by an extractor
	extractorCalls int
	verdict        verdict // systematic mutations: set of the reference grammar
	accepted       bool    // systematic mutations: ParsePath and every extractor accepted
}

func checkCase(c pcase) (res result) {
	if c.Sys {
		// Systematic single mutation: the reference grammar decides what the
		// statement demands of this path.
		ref, v := refVerdict(c.Path)
		switch v {
		case vWellFormed:
			// The mutated path is itself a path built from valid components: first
			// clause of the statement, with the components of the reference parse.
			res = checkCase(ref)
			for i := range res.fails {
				res.fails[i].detail["derived_from"] = c
			}
			res.verdict = v
			return res
		case vUndecided:
			// Structure intact, a name is not a valid name (or layout path under
			// another root only): run the real code (panics are still violations),
			// no oracle on the answer.
			u := c
			u.Mutation = ""
			u.Sys = false
			r := checkCase(u)
			res.extractorCalls = r.extractorCalls
			for _, f := range r.fails {
				if strings.HasPrefix(f.fp, "path parsing: panics") {
					f.detail["case"] = c
					res.fails = append(res.fails, f)
				}
			}
			res.verdict = v
			return res
		}
		res.verdict = v
	}
	addFail := func(fn, clause string, extra map[string]interface{}) {
		d := map[string]interface{}{"case": c, "function": fn}
		for k, v := range extra {
			d[k] = v
		}
		cls := inputClass(c)
		if c.Mutation != "" {
			cls = c.Mutation + ", kind " + c.Kind
		}
		res.fails = append(res.fails, failure{fp: fmt.Sprintf("%s: %s (%s)", fn, clause, cls), detail: d})
	}
	defer func() {
		if r := recover(); r != nil {
			addFail("path parsing", "panics", map[string]interface{}{"panic": fmt.Sprint(r)})
		}
	}()

	type ext struct {
		fn  string
		err error
		ok  bool // returned components equal the built ones
		got interface{}
	}
	var exts []ext
	pt, st, perr := dockerregistry.ParsePath(c.Path)
	parseOK := perr == nil && pt.String() == c.Type && string(st) == c.SubType
	exts = append(exts, ext{"ParsePath", perr, parseOK, []string{pt.String(), string(st)}})

	if c.Kind != "blob-data" && c.Kind != "non-layout" {
		got, err := dockerregistry.GetRepo(c.Path)
		exts = append(exts, ext{"GetRepo", err, err == nil && got == c.Repo, got})
	}
	switch c.Kind {
	case "manifest-revision-link":
		d, err := dockerregistry.GetManifestDigest(c.Path)
		exts = append(exts, ext{"GetManifestDigest", err, err == nil && d.Hex() == c.Digest && d.Algo() == "sha256", d.String()})
	case "tag-current-link":
		t, cur, err := dockerregistry.GetManifestTag(c.Path)
		exts = append(exts, ext{"GetManifestTag", err, err == nil && t == c.Tag && cur, []interface{}{t, cur}})
	case "tag-index-link":
		t, cur, err := dockerregistry.GetManifestTag(c.Path)
		exts = append(exts, ext{"GetManifestTag", err, err == nil && t == c.Tag && !cur, []interface{}{t, cur}})
		d, err := dockerregistry.GetManifestDigest(c.Path)
		exts = append(exts, ext{"GetManifestDigest", err, err == nil && d.Hex() == c.Digest && d.Algo() == "sha256", d.String()})
	case "layer-link", "layer-data":
		d, err := dockerregistry.GetLayerDigest(c.Path)
		exts = append(exts, ext{"GetLayerDigest", err, err == nil && d.Hex() == c.Digest && d.Algo() == "sha256", d.String()})
	case "blob-data":
		d, err := dockerregistry.GetBlobDigest(c.Path)
		exts = append(exts, ext{"GetBlobDigest", err, err == nil && d.Hex() == c.Digest && d.Algo() == "sha256", d.String()})
	case "upload-data", "upload-startedat", "upload-hashstates-dir":
		u, err := dockerregistry.GetUploadUUID(c.Path)
		exts = append(exts, ext{"GetUploadUUID", err, err == nil && u == c.Upload, u})
	case "upload-hashstate":
		u, err := dockerregistry.GetUploadUUID(c.Path)
		exts = append(exts, ext{"GetUploadUUID", err, err == nil && u == c.Upload, u})
		a, o, err := dockerregistry.GetUploadAlgoAndOffset(c.Path)
		exts = append(exts, ext{"GetUploadAlgoAndOffset", err, err == nil && a == c.Algo && o == c.Offset, []string{a, o}})
	}
	res.extractorCalls = len(exts)

	if c.Mutation == "" {
		// Built path: classification and every extractor of the kind must return
		// exactly what the path was built from.
		for _, e := range exts {
			if e.err != nil {
				addFail(e.fn, "rejects a path built from valid components", map[string]interface{}{"error": e.err.Error()})
			} else if !e.ok {
				addFail(e.fn, "returns other components than the path was built from", map[string]interface{}{"got": e.got})
			}
		}
		return res
	}
	// Mutated path: must be rejected, i.e. classification or at least one of the
	// extractors the kind needs returns an error.
	rejected := false
	for _, e := range exts {
		if e.err != nil {
			rejected = true
		}
	}
	if !rejected {
		got := map[string]interface{}{}
		for _, e := range exts {
			got[e.fn] = e.got
		}
		addFail("ParsePath+extractors", "accept a path that does not follow the layout", map[string]interface{}{"got": got})
	} else if perr == nil {
		res.parseLenient = true
		// Classification itself must reject, except where the regexps are looser
		// than the layout by design: anything of the shape
		// _manifests/(tags|revisions)/.../link, and digest well-formedness (left to
		// the digest extractors).
		exempt := c.Mutation == "malformed digest" || reManifestEnvelope.MatchString(c.Path)
		if c.Sys && (c.Comp == "digest" || c.Head) {
			// digest well-formedness is left to the digest extractors; the part
			// repositories/<repository> is GetRepo's, ParsePath looks at the section tail.
			exempt = true
		}
		if !exempt {
			addFail("ParsePath", "classifies a path that does not follow the layout", map[string]interface{}{"got": []string{pt.String(), string(st)}})
		}
	}
	res.accepted = !rejected
	return res
}

func caseKey(c pcase) string { return fmt.Sprintf("%05d|%s", len(c.Path), c.Path) }

func main() {
	run := evid.New("C38", "exploration")
	run.Rule = "builder (independent implementation of the Docker registry layout under /docker/registry/v2) x every repository of 1..k components over 21 words (ordinary + every layout word that is a legal component) x 16 tags (incl. layout words and the '_'-prefixed section keywords, legal by the tag grammar) x 2/4 digests x 3 upload uuids x 2 algorithms x 3 offsets, for 12 path kinds; each built path is given to the real ParsePath and to every extractor of its kind, which must return the kind / components built. (a) Scripted mutations: each built path (for one representative digest / upload id / algorithm / offset per repository, kind and tag; repositories of <= 2 components; quick tier: 5 of the 16 tags) is mutated out of the layout (one keyword misspelt, mandatory final segment dropped, segment appended after a file, tag with extra segment, malformed digest, non-numeric offset, incomplete paths) and must be rejected. (b) Systematic single mutations: each base path (same representatives; every blob path; quick: every 1-component repository + the 2-component repositories over {kraken,a_b,repositories}; thorough: every repository of <= 2 components, all 16 tags for 1-component and 5 tags for 2-component repositories) is split into its components (fixed directory names from 'repositories'/'blobs' on, repository components, tag, digest, blob shard directory, upload id, algorithm, offset) and EVERY single mutation of EVERY component is generated: character deleted at every position, character duplicated at every position, truncation to every shorter prefix (incl. empty), extension at the start and at the end by every character of the component's class alphabet (hex slots: 0-9a-f,g,A; offset: 0-9,a; names and fixed names: a,z,0,9,A,_,.,-), case of every single letter changed, whole component upper-cased / lower-cased, component deleted, component duplicated, component swapped with its right neighbour, component replaced by a copy of its left / right neighbour. An independently written reference grammar of the layout puts every mutated path into one of three sets: well-formed (a path of one of the 12 kinds from valid components under the fixed root -> checked like a built path against the components of the reference parse), not-layout (no reading at all - any root prefix, any repository split, any non-empty text in the name slots - makes it an instance of the layout -> must be rejected), undecided (structure intact but a repository/tag/upload id/algorithm is not a valid name, or a layout path only under another root -> executed, only panics are violations). Rejected = ParsePath or an extractor of the base kind errors; ParsePath itself must reject too, except malformed digests, paths that keep the shape _manifests/(tags|revisions)/.../link and mutations inside repositories/<repository> (GetRepo's part). distinct = distinct built paths (each a different component tuple); mutated paths are counted separately, per operator, per component and per reference verdict."
	run.Assume("small-scope: repositories of <= 3 components over a 21-word vocabulary, 16 tags, 4 digests, 3 upload ids; registry prefix fixed to /docker/registry/v2 (what docker distribution passes to a storage driver) and never mutated; mutations are single (one operator applied once to one component)")
	run.Assume("valid names = Docker reference grammar (repository components [a-z0-9]+ with ._- separators, tag [\\w][\\w.-]{0,127}), digest = 64 lowercase hex, blob shard directory = first two characters of the digest, upload id = uuid, algorithm = [a-z0-9]+, offset = decimal; generated vocabularies are validated against these grammars at start, every built path must be read back by the reference grammar as the kind and components built, and every scripted mutation must be not-layout by the reference grammar (harness error otherwise)")
	run.Assume("rejected = ParsePath or at least one extractor the kind needs returns an error, and ParsePath itself must reject every not-layout path except malformed digests, paths of the shape _manifests/(tags|revisions)/.../link and mutations of the repositories/<repository> part; what the statement does not decide is not given an oracle: invalid NAMES in an intact structure (kraken leaves name validation to the registry front end), paths that are layout paths under another root (text before /repositories resp. /blobs is opaque to kraken), a 2-character blob shard directory that differs from the digest's first two characters is not-layout by the reference grammar but no single mutation of this alphabet produces it (it needs a character substitution), so it stays unprobed")

	if rp := run.ReplayPath(); rp != "" {
		b, err := os.ReadFile(rp)
		if err != nil {
			run.Fatal(err)
		}
		var f struct {
			Case struct {
				Case pcase `json:"case"`
			} `json:"case"`
		}
		if err := json.Unmarshal(b, &f); err != nil {
			run.Fatal(err)
		}
		r := checkCase(f.Case.Case)
		run.Eval(1)
		run.Distinct("replay")
		run.Distinct("replay2")
		run.Sample(f.Case.Case)
		for _, fl := range r.fails {
			run.Violation(fl.fp, fl.detail)
		}
		run.Finish()
		return
	}

	// Domain self-check against the independent grammars.
	for _, w := range repoWords {
		if !reRepoComponent.MatchString(w) {
			run.Fatal(fmt.Errorf("invalid repository component in vocabulary: %q", w))
		}
	}
	for _, t := range tagWords {
		if !reTag.MatchString(t) {
			run.Fatal(fmt.Errorf("invalid tag in vocabulary: %q", t))
		}
	}
	for _, d := range digests {
		if !reHex64.MatchString(d) {
			run.Fatal(fmt.Errorf("invalid digest in vocabulary: %q", d))
		}
	}
	for _, u := range uploadIDs {
		if !reUUID.MatchString(u) {
			run.Fatal(fmt.Errorf("invalid upload id in vocabulary: %q", u))
		}
	}

	runtime.GOMAXPROCS(evid.Workers())
	maxComp, budget := 2, 150*time.Second
	if run.Thorough() {
		maxComp, budget = 3, 800*time.Second
	} else {
		digests = []string{digests[2], digests[3]}
		quickTier = true
	}
	rs := repos(maxComp)
	deadline := time.Now().Add(budget)

	var mu sync.Mutex
	var dump *os.File // debugging aid: C38_DUMP_FAILS=<file> lists every failing case
	if p := os.Getenv("C38_DUMP_FAILS"); p != "" {
		var err error
		if dump, err = os.Create(p); err != nil {
			run.Fatal(err)
		}
		defer dump.Close()
	}
	worst := map[string]failure{}
	worstKey := map[string]string{}
	nPerFp := map[string]int64{}
	perKind := map[string]int64{}
	perMutation := map[string]int64{}
	var built, mutated, mutationBases, lenient, skipped, extractorCalls int64
	var sysBases, sysMutated, sysAcceptedWF, sysRejectedNL int64
	sysPerVerdict := map[string]int64{}
	sysPerOp := map[string]int64{}
	sysPerComp := map[string]int64{}

	process := func(cases []pcase, withMut bool) {
		lk := map[string]int64{}
		lm := map[string]int64{}
		var nb, nm, nl, ne, nmb, nsb, nsm, nswf, nsnl int64
		lv := map[string]int64{}
		lo := map[string]int64{}
		lc := map[string]int64{}
		var fails []struct {
			f failure
			k string
		}
		handle := func(c pcase) {
			r := checkCase(c)
			if c.Sys {
				lv[r.verdict.String()]++
				switch r.verdict {
				case vWellFormed:
					if len(r.fails) == 0 {
						nswf++
					}
				case vNotLayout:
					if !r.accepted {
						nsnl++
					}
				}
			}
			ne += int64(r.extractorCalls)
			if r.parseLenient {
				nl++
			}
			for _, f := range r.fails {
				fails = append(fails, struct {
					f failure
					k string
				}{f, caseKey(c)})
			}
		}
		for _, c := range cases {
			if c.Mutation == "" {
				nb++
				lk[c.Kind]++
				run.Distinct(c.Path)
				// self-check: the reference grammar reads every built path as the
				// kind and components the builder used
				if ref, v := refVerdict(c.Path); v != vWellFormed || ref != c {
					run.Fatal(fmt.Errorf("reference grammar disagrees with the builder on %s: %s %+v", c.Path, v, ref))
				}
				handle(c)
				if withMut && mutationBase(c) {
					nmb++
					for _, m := range mutations(c) {
						// self-check of the reference grammar: every scripted
						// mutation leaves the layout under every reading
						if _, v := refVerdict(m.Path); v != vNotLayout {
							run.Fatal(fmt.Errorf("reference grammar says %s for scripted mutation %q: %s", v, m.Mutation, m.Path))
						}
						nm++
						lm[m.Mutation]++
						handle(m)
					}
				}
				if withMut && sysBase(c) {
					nsb++
					for _, m := range sysMutations(c) {
						nsm++
						lo[m.Op]++
						lc[m.Comp]++
						handle(m)
					}
				}
			} else {
				nm++
				lm[c.Mutation]++
				handle(c)
			}
		}
		run.Eval(int(nb + nm + nsm))
		mu.Lock()
		sysBases += nsb
		sysMutated += nsm
		sysAcceptedWF += nswf
		sysRejectedNL += nsnl
		for k, v := range lv {
			sysPerVerdict[k] += v
		}
		for k, v := range lo {
			sysPerOp[k] += v
		}
		for k, v := range lc {
			sysPerComp[k] += v
		}
		built += nb
		mutated += nm
		mutationBases += nmb
		lenient += nl
		extractorCalls += ne
		for k, v := range lk {
			perKind[k] += v
		}
		for k, v := range lm {
			perMutation[k] += v
		}
		for _, f := range fails {
			if dump != nil {
				fmt.Fprintf(dump, "%s\t%s\n", f.f.fp, f.k)
			}
			nPerFp[f.f.fp]++
			if cur, ok := worstKey[f.f.fp]; !ok || f.k < cur {
				worstKey[f.f.fp] = f.k
				worst[f.f.fp] = f.f
			}
		}
		mu.Unlock()
	}

	var next int64 = -1
	var wg sync.WaitGroup
	for w := 0; w < evid.Workers(); w++ {
		wg.Add(1)
		go func() {
			defer wg.Done()
			for {
				i := int(atomic.AddInt64(&next, 1))
				if i >= len(rs) {
					return
				}
				if time.Now().After(deadline) {
					atomic.AddInt64(&skipped, 1)
					continue
				}
				process(build(rs[i]), true)
				process(nonLayout(rs[i]), false)
			}
		}()
	}
	wg.Wait()
	process(buildBlobs(), true)
	process([]pcase{
		{Kind: "non-layout", Path: "", Mutation: "incomplete layout path"},
		{Kind: "non-layout", Path: "/", Mutation: "incomplete layout path"},
		{Kind: "non-layout", Path: registryPrefix, Mutation: "incomplete layout path"},
		{Kind: "non-layout", Path: registryPrefix + "/repositories", Mutation: "incomplete layout path"},
		{Kind: "non-layout", Path: registryPrefix + "/blobs", Mutation: "incomplete layout path"},
		{Kind: "non-layout", Path: registryPrefix + "/blobs/sha256", Mutation: "incomplete layout path"},
	}, false)

	if skipped > 0 {
		run.NotExhaustive(fmt.Sprintf("time budget hit: %d of %d repositories not executed", skipped, len(rs)))
	}
	var fps []string
	for fp := range worst {
		fps = append(fps, fp)
	}
	sort.Strings(fps)
	for _, fp := range fps {
		f := worst[fp]
		f.detail["failing_cases_in_class"] = nPerFp[fp]
		run.Violation(fp, f.detail)
	}

	ex := build("library/a-b")
	for _, i := range []int{0, 3, 15, 16, len(ex) - 1} {
		run.Sample(map[string]interface{}{"kind": ex[i].Kind, "path": ex[i].Path})
	}
	ms := mutations(ex[16])
	run.Sample(map[string]interface{}{"kind": ex[16].Kind, "mutation": ms[len(ms)-1].Mutation, "path": ms[len(ms)-1].Path})
	// one written-out systematic mutation per reference verdict and base
	for _, b := range []pcase{buildBlobs()[0], ex[16]} {
		seenV := map[verdict]bool{}
		for _, m := range sysMutations(b) {
			if _, v := refVerdict(m.Path); !seenV[v] {
				seenV[v] = true
				run.Sample(map[string]interface{}{"kind": b.Kind, "component": m.Comp, "operator": m.Op, "reference_verdict": v.String(), "path": m.Path})
			}
		}
	}
	run.Set("repositories", len(rs))
	run.Set("built_paths", built)
	run.Set("built_paths_per_kind", perKind)
	run.Set("mutated_paths", mutated)
	run.Set("built_paths_used_as_mutation_base", mutationBases)
	run.Set("mutated_paths_per_mutation", perMutation)
	run.Set("mutated_accepted_by_ParsePath_but_rejected_by_extractor", lenient)
	run.Set("extractor_calls", extractorCalls)
	run.Set("systematic_mutation_bases", sysBases)
	run.Set("systematic_mutated_paths", sysMutated)
	run.Set("systematic_mutated_paths_per_reference_verdict", sysPerVerdict)
	run.Set("systematic_mutated_paths_per_operator", sysPerOp)
	run.Set("systematic_mutated_paths_per_component", sysPerComp)
	run.Set("systematic_wellformed_accepted_with_exact_components", sysAcceptedWF)
	run.Set("systematic_notlayout_rejected", sysRejectedNL)
	var ru syscall.Rusage
	if syscall.Getrusage(syscall.RUSAGE_SELF, &ru) == nil {
		run.Set("cpu_s", float64(ru.Utime.Sec+ru.Stime.Sec)+float64(ru.Utime.Usec+ru.Stime.Usec)/1e6)
	}
	run.Finish()
}
