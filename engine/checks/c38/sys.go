// Systematic single mutations of well-formed registry paths, decided by an
// independent reference grammar of the layout.
//
// Every built path (of a mutation base) is split into its components: the fixed
// directory names, the repository components, the tag, the digest, the blob
// shard directory, the upload id, the hash algorithm and the offset. Every single
// mutation of every component is generated (character deleted / duplicated at
// every position, truncation to every shorter prefix incl. the empty one,
// extension at either end by every character of a class alphabet, case of every
// letter changed, whole component upper/lower-cased, component deleted,
// component duplicated, component swapped with its right neighbour, component
// replaced by a copy of its left / right neighbour). The reference grammar then
// puts the mutated path into exactly one of three sets:
//
//	well-formed   it is itself a path of one of the 12 kinds built from valid
//	              components (strict, deterministic parse under the fixed
//	              registry root): it is checked like a built path, against the
//	              components the reference parse found;
//	not-layout    under NO reading (any root prefix, any split of the repository,
//	              any non-empty text in the name slots) is it an instance of the
//	              layout: it must be rejected;
//	undecided     the directory structure is intact but a name (repository, tag,
//	              upload id, algorithm) is not a valid name, or the path is a
//	              layout path only under another root: the statement does not
//	              decide it; counted, no oracle.
package main

import (
	"regexp"
	"strings"
)

var (
	reAlgo   = regexp.MustCompile(`^[a-z0-9]+$`)
	reOffset = regexp.MustCompile(`^[0-9]+$`)
)

type verdict int

const (
	vWellFormed verdict = iota
	vUndecided
	vNotLayout
)

func (v verdict) String() string {
	return [...]string{"well-formed", "undecided", "not-layout"}[v]
}

func isSection(s string) bool { return s == "_manifests" || s == "_layers" || s == "_uploads" }

// refTail parses the segments from the section directory on. strict: names must
// be valid by their grammars; otherwise any non-empty segment is a name. Format
// slots (digest, offset) and fixed names are always exact.
func refTail(t []string, strict bool) (pcase, bool) {
	name := func(s string, re *regexp.Regexp) bool {
		if strict {
			return re.MatchString(s)
		}
		return s != ""
	}
	n := len(t)
	if n < 2 {
		return pcase{}, false
	}
	switch t[0] {
	case "_manifests":
		switch {
		case n == 2 && t[1] == "revisions":
			return pcase{Kind: "manifest-revisions-dir", Type: "_manifests", SubType: "revisions"}, true
		case n == 2 && t[1] == "tags":
			return pcase{Kind: "manifest-tags-dir", Type: "_manifests", SubType: "tags"}, true
		case n == 5 && t[1] == "revisions" && t[2] == "sha256" && reHex64.MatchString(t[3]) && t[4] == "link":
			return pcase{Kind: "manifest-revision-link", Digest: t[3], Type: "_manifests", SubType: "revisions"}, true
		case n == 5 && t[1] == "tags" && name(t[2], reTag) && t[3] == "current" && t[4] == "link":
			return pcase{Kind: "tag-current-link", Tag: t[2], Type: "_manifests", SubType: "tags"}, true
		case n == 7 && t[1] == "tags" && name(t[2], reTag) && t[3] == "index" && t[4] == "sha256" && reHex64.MatchString(t[5]) && t[6] == "link":
			return pcase{Kind: "tag-index-link", Tag: t[2], Digest: t[5], Type: "_manifests", SubType: "tags"}, true
		}
	case "_layers":
		if n == 4 && t[1] == "sha256" && reHex64.MatchString(t[2]) && (t[3] == "link" || t[3] == "data") {
			return pcase{Kind: "layer-" + t[3], Digest: t[2], Type: "_layers", SubType: t[3]}, true
		}
	case "_uploads":
		if !name(t[1], reUUID) {
			return pcase{}, false
		}
		switch {
		case n == 3 && (t[2] == "data" || t[2] == "startedat"):
			return pcase{Kind: "upload-" + t[2], Upload: t[1], Type: "_uploads", SubType: t[2]}, true
		case n == 4 && t[2] == "hashstates" && name(t[3], reAlgo):
			return pcase{Kind: "upload-hashstates-dir", Upload: t[1], Algo: t[3], Type: "_uploads", SubType: "hashstates"}, true
		case n == 5 && t[2] == "hashstates" && name(t[3], reAlgo) && reOffset.MatchString(t[4]):
			return pcase{Kind: "upload-hashstate", Upload: t[1], Algo: t[3], Offset: t[4], Type: "_uploads", SubType: "hashstates"}, true
		}
	}
	return pcase{}, false
}

func refBlob(r []string) (pcase, bool) {
	if len(r) == 5 && r[0] == "blobs" && r[1] == "sha256" && reHex64.MatchString(r[3]) && r[2] == r[3][:2] && r[4] == "data" {
		return pcase{Kind: "blob-data", Digest: r[3], Type: "blobs", SubType: "data"}, true
	}
	return pcase{}, false
}

// refStrict: deterministic parse under the fixed registry root. Repository
// components cannot start with '_', so the repository ends at the first section
// directory.
func refStrict(path string) (pcase, bool) {
	if !strings.HasPrefix(path, registryPrefix+"/") {
		return pcase{}, false
	}
	r := strings.Split(path[len(registryPrefix)+1:], "/")
	if c, ok := refBlob(r); ok {
		c.Path = path
		return c, true
	}
	if r[0] != "repositories" {
		return pcase{}, false
	}
	j := 1
	for j < len(r) && !isSection(r[j]) {
		if !reRepoComponent.MatchString(r[j]) {
			return pcase{}, false
		}
		j++
	}
	if j == 1 || j == len(r) {
		return pcase{}, false
	}
	c, ok := refTail(r[j:], true)
	if !ok {
		return pcase{}, false
	}
	c.Repo = strings.Join(r[1:j], "/")
	c.Path = path
	return c, true
}

// refLooseAny: is there ANY reading of the path as an instance of the layout?
// The root is any non-empty prefix, the repository any non-empty text between
// "repositories" and a section directory, names any non-empty segment.
func refLooseAny(path string) bool {
	s := strings.Split(path, "/")
	for i := 1; i < len(s); i++ {
		if strings.Join(s[:i], "/") == "" {
			continue
		}
		switch s[i] {
		case "blobs":
			if _, ok := refBlob(s[i:]); ok {
				return true
			}
		case "repositories":
			for j := i + 2; j < len(s); j++ {
				if !isSection(s[j]) || strings.Join(s[i+1:j], "/") == "" {
					continue
				}
				if _, ok := refTail(s[j:], false); ok {
					return true
				}
			}
		}
	}
	return false
}

func refVerdict(path string) (pcase, verdict) {
	if c, ok := refStrict(path); ok {
		return c, vWellFormed
	}
	if refLooseAny(path) {
		return pcase{}, vUndecided
	}
	return pcase{}, vNotLayout
}

// ---------------------------------------------------------------------------
// Components of a built path.

type comp struct {
	s     string
	class string // fingerprint name of the component
	alpha string // extension alphabet of the component's character class
	head  bool   // part of repositories/<repository> (GetRepo's responsibility)
}

const (
	alphaName = "az09A_.-"           // one representative of every character class of the name grammars
	alphaHex  = "0123456789abcdefgA" // every hex digit + the nearest characters outside
	alphaDec  = "0123456789a"        // every decimal digit + one outside
)

func fixedComp(s string, head bool) comp {
	return comp{s: s, class: "fixed name '" + s + "'", alpha: alphaName, head: head}
}

func components(c pcase) []comp {
	if c.Kind == "blob-data" {
		return []comp{fixedComp("blobs", false), fixedComp("sha256", false),
			{s: c.Digest[:2], class: "blob shard directory", alpha: alphaHex},
			{s: c.Digest, class: "digest", alpha: alphaHex}, fixedComp("data", false)}
	}
	out := []comp{fixedComp("repositories", true)}
	for _, r := range strings.Split(c.Repo, "/") {
		out = append(out, comp{s: r, class: "repository component", alpha: alphaName, head: true})
	}
	f := func(s string) comp { return fixedComp(s, false) }
	dg := comp{s: c.Digest, class: "digest", alpha: alphaHex}
	tg := comp{s: c.Tag, class: "tag", alpha: alphaName}
	up := comp{s: c.Upload, class: "upload id", alpha: alphaName}
	al := comp{s: c.Algo, class: "algorithm", alpha: alphaName}
	of := comp{s: c.Offset, class: "offset", alpha: alphaDec}
	switch c.Kind {
	case "manifest-revisions-dir":
		out = append(out, f("_manifests"), f("revisions"))
	case "manifest-tags-dir":
		out = append(out, f("_manifests"), f("tags"))
	case "manifest-revision-link":
		out = append(out, f("_manifests"), f("revisions"), f("sha256"), dg, f("link"))
	case "tag-current-link":
		out = append(out, f("_manifests"), f("tags"), tg, f("current"), f("link"))
	case "tag-index-link":
		out = append(out, f("_manifests"), f("tags"), tg, f("index"), f("sha256"), dg, f("link"))
	case "layer-link":
		out = append(out, f("_layers"), f("sha256"), dg, f("link"))
	case "layer-data":
		out = append(out, f("_layers"), f("sha256"), dg, f("data"))
	case "upload-data":
		out = append(out, f("_uploads"), up, f("data"))
	case "upload-startedat":
		out = append(out, f("_uploads"), up, f("startedat"))
	case "upload-hashstates-dir":
		out = append(out, f("_uploads"), up, f("hashstates"), al)
	case "upload-hashstate":
		out = append(out, f("_uploads"), up, f("hashstates"), al, of)
	default:
		panic("components: unknown kind " + c.Kind)
	}
	return out
}

func isLetter(b byte) bool { return (b >= 'a' && b <= 'z') || (b >= 'A' && b <= 'Z') }

// sysMutations: every single mutation of every component of the built path c.
// Mutated paths equal to the original or to an earlier mutation of the same
// base are dropped.
func sysMutations(c pcase) []pcase {
	cs := components(c)
	segs := make([]string, len(cs))
	for i, k := range cs {
		segs[i] = k.s
	}
	if got := registryPrefix + "/" + strings.Join(segs, "/"); got != c.Path {
		panic("components do not rebuild the path: " + got + " vs " + c.Path)
	}
	seen := map[string]bool{c.Path: true}
	var out []pcase
	emit := func(op, class string, head bool, s []string) {
		p := registryPrefix + "/" + strings.Join(s, "/")
		if len(s) == 0 {
			p = registryPrefix
		}
		if seen[p] {
			return
		}
		seen[p] = true
		m := c
		m.Path, m.Sys, m.Op, m.Comp, m.Head = p, true, op, class, head
		m.Mutation = "single mutation of " + class
		out = append(out, m)
	}
	with := func(i int, v string) []string {
		s := append([]string{}, segs...)
		s[i] = v
		return s
	}
	for i, k := range cs {
		v := k.s
		for j := 0; j < len(v); j++ {
			emit("character deleted", k.class, k.head, with(i, v[:j]+v[j+1:]))
			emit("character duplicated", k.class, k.head, with(i, v[:j+1]+v[j:]))
			emit("truncated to a shorter prefix", k.class, k.head, with(i, v[:j]))
			if isLetter(v[j]) {
				emit("case of one letter changed", k.class, k.head, with(i, v[:j]+string(v[j]^0x20)+v[j+1:]))
			}
		}
		emit("upper-cased", k.class, k.head, with(i, strings.ToUpper(v)))
		emit("lower-cased", k.class, k.head, with(i, strings.ToLower(v)))
		for _, ch := range k.alpha {
			emit("extended by one character at the end", k.class, k.head, with(i, v+string(ch)))
			emit("extended by one character at the start", k.class, k.head, with(i, string(ch)+v))
		}
		// component-level mutations
		s := append(append([]string{}, segs[:i]...), segs[i+1:]...)
		emit("component deleted", k.class, k.head, s)
		s = append(append(append([]string{}, segs[:i+1]...), v), segs[i+1:]...)
		emit("component duplicated", k.class, k.head, s)
		if i+1 < len(cs) {
			s = append([]string{}, segs...)
			s[i], s[i+1] = s[i+1], s[i]
			emit("component swapped with its right neighbour", k.class, k.head || cs[i+1].head, s)
			emit("component replaced by a copy of its right neighbour", k.class, k.head, with(i, segs[i+1]))
		}
		left := "v2"
		if i > 0 {
			left = segs[i-1]
		}
		emit("component replaced by a copy of its left neighbour", k.class, k.head, with(i, left))
	}
	return out
}

// Mutation bases of the systematic mutations: the representative digest /
// upload id / algorithm / offset per (repository, kind, tag) as for the scripted
// mutations, every blob path, and
//
//	quick:    every 1-component repository and the 2-component repositories over
//	          quickSysWords, 5 of the 16 tags;
//	thorough: every repository of <= 2 components; all 16 tags for 1-component
//	          repositories, the 5 quick tags for 2-component repositories.
var quickSysWords = map[string]bool{"kraken": true, "a_b": true, "repositories": true}

func sysBase(c pcase) bool {
	if c.Kind == "blob-data" {
		return true // every digest
	}
	if !mutationBase(c) {
		return false
	}
	parts := strings.Split(c.Repo, "/")
	if len(parts) == 2 {
		if c.Tag != "" && !quickMutTags[c.Tag] {
			return false
		}
		if quickTier && !(quickSysWords[parts[0]] && quickSysWords[parts[1]]) {
			return false
		}
	}
	return true
}
