// Package vnet stands in for package net inside kraken's lib/hostlist (import
// rewritten through the build overlay of check C24): the DNS lookup of a
// DNS-backed host list becomes an environment answer the harness owns. Names
// registered with Register are answered by the registered function; every
// other name, and everything that is not a lookup, is delegated to the real
// package net, so the code under test is unchanged for unregistered names.
package vnet

import (
	"context"
	"net"
	"sync"
)

type (
	IP        = net.IP
	IPNet     = net.IPNet
	IPAddr    = net.IPAddr
	Addr      = net.Addr
	Interface = net.Interface
	Error     = net.Error
	DNSError  = net.DNSError
	AddrError = net.AddrError
)

func SplitHostPort(hostport string) (host, port string, err error) {
	return net.SplitHostPort(hostport)
}
func JoinHostPort(host, port string) string { return net.JoinHostPort(host, port) }
func ParseIP(s string) net.IP               { return net.ParseIP(s) }
func Interfaces() ([]net.Interface, error)  { return net.Interfaces() }
func InterfaceAddrs() ([]net.Addr, error)   { return net.InterfaceAddrs() }

// Answer is what the environment says to one lookup of a registered name.
type Answer func() ([]string, error)

var registry sync.Map // name -> Answer

// Register makes every LookupHost of name (through this package) call answer.
func Register(name string, answer Answer) { registry.Store(name, answer) }

// Unregister removes a registration.
func Unregister(name string) { registry.Delete(name) }

// Resolver mirrors the part of net.Resolver kraken's host list uses.
type Resolver struct {
	PreferGo     bool
	StrictErrors bool
	Dial         func(ctx context.Context, network, address string) (net.Conn, error)
}

// DefaultResolver mirrors net.DefaultResolver.
var DefaultResolver = &Resolver{}

func (r *Resolver) real() *net.Resolver {
	return &net.Resolver{PreferGo: r.PreferGo, StrictErrors: r.StrictErrors, Dial: r.Dial}
}

// LookupHost answers registered names from the registry.
func (r *Resolver) LookupHost(ctx context.Context, host string) ([]string, error) {
	if a, ok := registry.Load(host); ok {
		return a.(Answer)()
	}
	return r.real().LookupHost(ctx, host)
}

// LookupIPAddr answers registered names from the registry.
func (r *Resolver) LookupIPAddr(ctx context.Context, host string) ([]net.IPAddr, error) {
	if a, ok := registry.Load(host); ok {
		names, err := a.(Answer)()
		if err != nil {
			return nil, err
		}
		var out []net.IPAddr
		for _, n := range names {
			out = append(out, net.IPAddr{IP: net.ParseIP(n)})
		}
		return out, nil
	}
	return r.real().LookupIPAddr(ctx, host)
}

// LookupHost mirrors net.LookupHost.
func LookupHost(host string) ([]string, error) {
	return DefaultResolver.LookupHost(context.Background(), host)
}
