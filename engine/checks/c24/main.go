// C24: passive health filtering follows its failure-window rule.
// E3: explicit-state BFS over all timelines of Failed(host) / clock advances /
// observations on the real healthcheck.NewPassiveFilter + healthcheck.Passive
// with a manual clock, every observation compared with a reference model that
// is the literal predicate of the statement over all recorded failure times.
// Two families of searches: a fixed host list (phase 1), and a real DNS-backed
// hostlist.List built by hostlist.New (phase 2, dnslist.go) whose DNS record,
// refresh outcomes and TTL expiry are part of the timeline.
package main

import (
	"fmt"
	"sort"
	"strings"
	"sync"
	"time"

	"github.com/andres-erbsen/clock"
	"github.com/uber/kraken/lib/healthcheck"
	"github.com/uber/kraken/lib/hostlist"
	"github.com/uber/kraken/utils/stringset"

	"verif/bfs"
	"verif/evid"
	_ "verif/quiet"
	"verif/rep"
)

// T is the FailTimeout of every configuration.
const T = 10 * time.Second

// manualClock is a clock.Clock whose Now is set by the harness. (clock.Mock's
// Add sleeps 1ms of wall time per call; the passive filter only calls Now, any
// other method would dereference the nil embedded interface and panic.)
type manualClock struct {
	clock.Clock
	mu  sync.Mutex
	now time.Time
}

func (c *manualClock) Now() time.Time {
	c.mu.Lock()
	defer c.mu.Unlock()
	return c.now
}

func (c *manualClock) add(d time.Duration) {
	c.mu.Lock()
	c.now = c.now.Add(d)
	c.mu.Unlock()
}

type fixedList struct{ hosts []string }

func (l fixedList) Resolve() stringset.Set { return stringset.New(l.hosts...) }

// ---------------------------------------------------------------- vacuity / coverage events

type eventSet struct {
	mu sync.Mutex
	m  map[string]map[string]struct{}
}

var events = &eventSet{m: map[string]map[string]struct{}{}}

func (e *eventSet) record(ev, id string) {
	e.mu.Lock()
	if e.m[ev] == nil {
		e.m[ev] = map[string]struct{}{}
	}
	e.m[ev][id] = struct{}{}
	e.mu.Unlock()
}

// ---------------------------------------------------------------- system

type sys struct {
	name     string
	fails    int
	list     []string // the passively checked host list (phase 2: the hosts the list currently has, see dnslist.go)
	failable []string // hosts the environment reports failures for
	clk      *manualClock
	pf       healthcheck.PassiveFilter
	p        *healthcheck.Passive
	run      *evid.Run

	// phase 2 only (nil in phase 1): the real DNS-backed list and its environment
	hosts hostlist.List
	dns   *dnsEnv

	// model: current time and every failure ever recorded, per host
	now time.Duration
	rec map[string][]time.Duration
}

func newSys(run *evid.Run, fails int, list, failable []string) *sys {
	clk := &manualClock{now: time.Unix(1000, 0)}
	pf := healthcheck.NewPassiveFilter(healthcheck.PassiveFilterConfig{Fails: fails, FailTimeout: T}, clk)
	return &sys{
		name:     fmt.Sprintf("Fails=%d list=%s", fails, strings.Join(list, "")),
		fails:    fails,
		list:     list,
		failable: failable,
		clk:      clk,
		pf:       pf,
		p:        healthcheck.NewPassive(fixedList{list}, pf),
		run:      run,
		rec:      map[string][]time.Duration{},
	}
}

func (s *sys) Close() {
	if s.dns != nil {
		s.dns.close()
	}
}

var advances = map[string]time.Duration{
	"adv T/2":   T / 2,
	"adv T":     T,
	"adv T+1ns": T + 1,
}

func (s *sys) Ops() []string {
	var ops []string
	for _, h := range s.failable {
		ops = append(ops, "fail "+h)
	}
	ops = append(ops, "run", "resolve", "adv T/2", "adv T", "adv T+1ns")
	if s.dns != nil {
		ops = append(ops, s.dns.ops()...)
	}
	return ops
}

// window is the number of recorded failures of host h that fall within
// FailTimeout of (i.e. in the FailTimeout-long period ending at) the failure
// recorded at time f.
func (s *sys) window(h string, f time.Duration) int {
	n := 0
	for _, g := range s.rec[h] {
		if g <= f && f-g <= T {
			n++
		}
	}
	return n
}

// filtered is the statement: at least Fails of the host's recorded failures
// fall within FailTimeout of some failure that happened no more than
// FailTimeout ago.
func (s *sys) filtered(h string) bool {
	for _, f := range s.rec[h] {
		if s.now-f <= T && s.window(h, f) >= s.fails {
			return true
		}
	}
	return false
}

// everQualified: some failure (of any age) has Fails failures in its window.
func (s *sys) everQualified(h string) bool {
	for _, f := range s.rec[h] {
		if s.window(h, f) >= s.fails {
			return true
		}
	}
	return false
}

func (s *sys) want() stringset.Set {
	w := stringset.New()
	for _, h := range s.list {
		if !s.filtered(h) {
			w.Add(h)
		}
	}
	return w
}

func (s *sys) Apply(op string) error {
	id := s.name + "|" + s.modelKey() + "|" + op
	switch {
	case strings.HasPrefix(op, "fail "):
		h := strings.TrimPrefix(op, "fail ")
		s.p.Failed(s.addr(h))
		s.rec[h] = append(s.rec[h], s.now)
	case strings.HasPrefix(op, "adv "):
		d, ok := advances[op]
		if !ok {
			return fmt.Errorf("unknown op %q", op)
		}
		s.clk.add(d)
		s.now += d
	case strings.HasPrefix(op, "dns ") && s.dns != nil:
		if err := s.dns.set(strings.TrimPrefix(op, "dns ")); err != nil {
			return err
		}
	case op == "run":
		// phase 1: the filter is run on the list; phase 2: on every host of
		// the universe (members or not), the rule is per host
		in := s.list
		if s.dns != nil {
			in = s.failable
		}
		got := s.labels(s.pf.Run(s.addrs(in)))
		if err := s.compare("PassiveFilter.Run", op, in, got, id); err != nil {
			return err
		}
	case op == "resolve":
		got := s.labels(s.p.Resolve())
		if s.dns != nil {
			// the list's hosts from here on: the latest successful non-empty
			// answer it has taken, including a refresh made by this Resolve
			s.absorbLookups(true, id)
		}
		want := s.want()
		if len(s.list) > 0 && len(got) == 0 {
			if s.dns != nil {
				return bfs.Failf("Passive.Resolve returned an empty set while the DNS-backed host list has hosts ("+s.dns.lastKind()+")", "%s: the list has hosts %v (latest successful answer), DNS record now %q; model healthy set %v; filter state %s; list state %s", s.name, s.list, s.dns.state, sorted(want), healthcheck.VerifPassiveDump(s.pf), hostlist.VerifListDump(s.hosts))
			}
			return bfs.Failf("Passive.Resolve returned an empty set for a non-empty host list", "%s: model healthy set %v; filter state %s", s.name, sorted(want), healthcheck.VerifPassiveDump(s.pf))
		}
		if len(want) == 0 {
			// every host is filtered out: the statement only demands a
			// non-empty answer (the implementation answers with all hosts)
			if len(s.list) > 0 {
				events.record("resolve_all_filtered_fallback", id)
				if s.dns != nil && s.dns.lastFailed() {
					events.record("resolve_all_filtered_fallback_after_failed_refresh", id)
				}
			}
		} else if err := s.compare("Passive.Resolve", op, s.list, got, id); err != nil {
			return err
		}
	default:
		return fmt.Errorf("unknown op %q", op)
	}
	if s.dns != nil {
		// a lookup outside Resolve (there is none in the unchanged code) is taken the same way
		s.absorbLookups(false, id)
		if s.nontrivial() || s.dns.refreshes > 0 {
			s.run.Distinct(s.name + "|" + s.modelKey() + "|" + s.dnsKey())
		}
		return nil
	}
	if s.nontrivial() {
		s.run.Distinct(s.name + "|" + s.modelKey())
	}
	return nil
}

// compare checks an observed healthy set against the statement, host by host.
func (s *sys) compare(where, op string, list []string, got stringset.Set, id string) error {
	inList := map[string]bool{}
	for _, h := range list {
		inList[h] = true
	}
	for a := range got {
		if !inList[a] {
			return bfs.Failf(where+" returned a host that is not in the list", "%s: got %v", s.name, sorted(got))
		}
	}
	for _, h := range list {
		f := s.filtered(h)
		if f {
			events.record("observed_filtered", id+"|"+h)
			if s.boundaryAnchor(h) {
				events.record("observed_filtered_anchor_exactly_T_ago", id+"|"+h)
			}
		} else if s.everQualified(h) {
			events.record("observed_expired", id+"|"+h)
		} else if len(s.rec[h]) >= s.fails {
			events.record("observed_enough_failures_but_spread_out", id+"|"+h)
		}
		if got.Has(h) == !f {
			continue
		}
		fp := ""
		switch {
		case !f && s.everQualified(h):
			fp = where + ": host still filtered out although every qualifying failure is older than FailTimeout"
		case !f:
			fp = where + ": host filtered out although no FailTimeout window holds Fails of its failures"
		default:
			fp = where + ": host not filtered out although Fails failures fall within FailTimeout of a failure no older than FailTimeout"
		}
		return bfs.Failf(fp, "%s op %q: host %s in result=%v, statement says filtered=%v; failure ages %v (FailTimeout %v, Fails %d); result %v; filter state %s",
			s.name, op, h, got.Has(h), f, s.ages(h, -1), T, s.fails, sorted(got), healthcheck.VerifPassiveDump(s.pf))
	}
	return nil
}

// boundaryAnchor: h is filtered only thanks to failures that are exactly
// FailTimeout old or windows that are exactly FailTimeout wide.
func (s *sys) boundaryAnchor(h string) bool {
	for _, f := range s.rec[h] {
		if s.now-f < T && s.window(h, f) >= s.fails {
			return false
		}
	}
	return true
}

func (s *sys) ages(h string, maxAge time.Duration) []time.Duration {
	var r []time.Duration
	for _, f := range s.rec[h] {
		if maxAge < 0 || s.now-f <= maxAge {
			r = append(r, s.now-f)
		}
	}
	return r
}

func (s *sys) nontrivial() bool {
	for _, h := range s.failable {
		if len(s.ages(h, 2*T)) > 0 {
			return true
		}
	}
	return false
}

func sorted(s stringset.Set) []string {
	r := s.ToSlice()
	sort.Strings(r)
	return r
}

// modelKey: per host the ages of the recorded failures that can still matter.
// A failure older than 2*FailTimeout can neither be a qualifying failure (older
// than FailTimeout) nor lie in the window of one, now or later.
func (s *sys) modelKey() string {
	var b strings.Builder
	for _, h := range s.failable {
		b.WriteString(h + ":")
		for _, a := range s.ages(h, 2*T) {
			fmt.Fprintf(&b, "%d,", int64(a))
		}
		b.WriteString(" ")
	}
	return b.String()
}

// Key = model state + the implementation's internal state (unhealthy marks and
// retained failures, as ages).
func (s *sys) Key() string {
	k := s.modelKey() + "#" + healthcheck.VerifPassiveDump(s.pf)
	if s.dns != nil {
		k += "#" + s.dnsKey() + "#" + hostlist.VerifListDump(s.hosts)
	}
	return k
}

// ---------------------------------------------------------------- main

func main() {
	run := evid.New("C24", "model_checking")
	run.Rule = "E3, two families of BFS searches on a real healthcheck.NewPassiveFilter + Passive with a manual clock. Phase 1, per (Fails, fixed host list): all timelines of Failed(host), clock advances (T/2, T, T+1ns with T=FailTimeout) and observations (PassiveFilter.Run on the list, Passive.Resolve). Phase 2, per (Fails, initial DNS answer, TTL): the list is a real DNS-backed hostlist.List built by hostlist.New (its net lookup and its clock.New() answered by the harness through the build overlay), and the timeline alphabet additionally sets the DNS record to each of {host sets, lookup error, empty answer}; TTL expiry happens through the same clock advances, so Passive.Resolve makes refreshes whose outcome is {same hosts, changed hosts, error, empty answer}. States are deduplicated on the ages of the recorded failures (<= 2T) + the filter's internal unhealthy marks and retained failures (+ phase 2: DNS record state, the hosts the list has, kind of the latest refresh, the list's published snapshot and refresh-trap age). Every observation is compared with the literal predicate of the statement evaluated over all recorded failure times; in phase 2 'the hosts the list has' is the latest successful non-empty answer the list has looked up (the model follows the lookups the implementation is observed to make). distinct = distinct (configuration, model state) pairs with at least one recorded failure younger than 2T (phase 2: or at least one refresh)."
	run.Assume("small-scope: hosts {x,y} (thorough also {x,y,z}), Fails in 1..3, clock advances from {T/2, T, T+1ns}")
	run.Assume("'within FailTimeout of a failure f' is read as the FailTimeout-long period ending at f (failures g with 0 <= t_f - t_g <= FailTimeout), the reading of the configuration documentation ('failed requests that must occur during the FailTimeout period') and the implementation's choice; the boundaries are inclusive as the statement words them ('no more than')")
	run.Assume("when every host is filtered out the statement only demands a non-empty Resolve result; which hosts are returned is not checked")
	run.Assume("the clock is monotone (time only advances)")
	run.Assume("phase 2 small-scope: hosts {x,y} (thorough also {x,y,z}), DNS record states from a stated set of host sets plus lookup error and empty answer, TTL 7s or 12s with FailTimeout 10s (no sum of advances equals a TTL, so the refresh boundary 'exactly TTL ago' is not in the space), one list per system, sequential callers")
	run.Assume("phase 2: 'the list has hosts' = the latest successful non-empty DNS answer the list has taken (hostlist.New: after a failed refresh the latest successful snapshot is used); an empty answer counts as a failed refresh; when the list refreshes is not prescribed (the model follows the observed lookups), only what it resolves to afterwards")

	type cfg struct {
		list, failable []string
		depth          int
	}
	cfgs := []cfg{
		{[]string{"x", "y"}, []string{"x", "y"}, 8},
		{[]string{"x"}, []string{"x", "y"}, 7},
	}
	budget := 50 * time.Second
	if run.Thorough() {
		cfgs = []cfg{
			{[]string{"x", "y"}, []string{"x", "y"}, 10},
			{[]string{"x"}, []string{"x", "y"}, 9},
			{[]string{"x", "y", "z"}, []string{"x", "y", "z"}, 8},
		}
		budget = 13 * time.Minute
	}
	deadline := time.Now().Add(budget)
	for _, c := range cfgs {
		for fails := 1; fails <= 3; fails++ {
			c, fails := c, fails
			name := fmt.Sprintf("list=%s Fails=%d depth=%d", strings.Join(c.list, ""), fails, c.depth)
			res := rep.BFS(run, name, bfs.Config{MaxDepth: c.depth, Deadline: deadline, New: func() (bfs.System, error) {
				return newSys(run, fails, c.list, c.failable), nil
			}})
			fmt.Printf("  %s: states=%d transitions=%d reached_depth=%d fixpoint=%v completed=%v\n", name, res.States, res.Transitions, res.MaxDepth, res.Fixpoint, res.Completed)
		}
	}
	// phase 2: the list is a real DNS-backed hostlist.List (dnslist.go)
	type dcfg struct {
		universe []string
		init     string
		answers  []string
		ttl      time.Duration
		fails    []int
		depth    int
	}
	xy := []string{"x", "y"}
	dcfgs := []dcfg{
		{xy, "xy", []string{"xy", "x", "y", "err", "empty"}, 7 * time.Second, []int{1, 2}, 7},
		{xy, "x", []string{"x", "xy", "err", "empty"}, 12 * time.Second, []int{2}, 7},
	}
	if run.Thorough() {
		dcfgs = []dcfg{
			{xy, "xy", []string{"xy", "x", "y", "err", "empty"}, 7 * time.Second, []int{1, 2, 3}, 8},
			{xy, "x", []string{"x", "xy", "y", "err", "empty"}, 12 * time.Second, []int{1, 2, 3}, 8},
			{[]string{"x", "y", "z"}, "xy", []string{"xy", "yz", "z", "err", "empty"}, 7 * time.Second, []int{1, 2}, 7},
		}
	}
	for _, c := range dcfgs {
		for _, fails := range c.fails {
			c, fails := c, fails
			name := fmt.Sprintf("dns-list universe=%s init=%s answers=%s TTL=%v Fails=%d depth=%d", strings.Join(c.universe, ""), c.init, strings.Join(c.answers, "|"), c.ttl, fails, c.depth)
			res := rep.BFS(run, name, bfs.Config{MaxDepth: c.depth, Deadline: deadline, New: func() (bfs.System, error) {
				return newDNSSys(run, fails, c.universe, c.init, c.answers, c.ttl)
			}})
			fmt.Printf("  %s: states=%d transitions=%d reached_depth=%d fixpoint=%v completed=%v\n", name, res.States, res.Transitions, res.MaxDepth, res.Fixpoint, res.Completed)
		}
	}
	events.mu.Lock()
	for ev, ids := range events.m {
		run.Set("transitions_with_"+ev, len(ids))
	}
	events.mu.Unlock()
	run.Finish()
}
