// Phase 2 of C24: the passively checked host list is a REAL DNS-backed
// hostlist.List built by hostlist.New. The harness owns what hostlist's seams
// answer (through the build overlay: lib/hostlist imports verif/checks/c24/vnet
// for net and verif/checks/c24/vclk for the clock package):
//   - the DNS record is environment state, set by the timeline ops "dns <answer>"
//     (a set of hosts, a lookup error, or an empty answer); every lookup the list
//     makes is answered with the record's current state;
//   - the list's refresh trap reads the harness clock, so the TTL expires through
//     the same "adv" ops that age the failures.
//
// The statement's "the list has hosts" is modelled as a relation that follows
// the implementation's observed lookups: the hosts of the list are the latest
// successful, non-empty answer the list has taken (hostlist.New: "If, after
// construction, there is an error resolving DNS, the latest successful snapshot
// is used. As such, Resolve never returns an empty set."). WHEN the list looks
// the record up is not prescribed by the oracle.
package main

import (
	"fmt"
	"sort"
	"strings"
	"sync/atomic"
	"time"

	"github.com/uber/kraken/lib/healthcheck"
	"github.com/uber/kraken/lib/hostlist"
	"github.com/uber/kraken/utils/stringset"

	"verif/bfs"
	"verif/checks/c24/vclk"
	"verif/checks/c24/vnet"
	"verif/evid"
)

const dnsPort = 80

// ip is what the DNS record holds for a host label; the list attaches the port.
var ip = map[string]string{"x": "10.0.0.1", "y": "10.0.0.2", "z": "10.0.0.3"}

var dnsSeq int64

// dnsEnv is the DNS record of one system and the log of the lookups made.
type dnsEnv struct {
	name    string   // the (unique) record name of this system
	answers []string // alphabet of record states: host-label sets ("xy"), "err", "empty"
	state   string   // current record state

	asked     []string // states answered to lookups not yet absorbed by the model
	last      string   // state answered to the latest lookup after construction ("" = none yet)
	refreshes int      // lookups after construction
}

func (d *dnsEnv) ops() []string {
	var ops []string
	for _, a := range d.answers {
		if a != d.state {
			ops = append(ops, "dns "+a)
		}
	}
	return ops
}

func (d *dnsEnv) set(a string) error {
	for _, b := range d.answers {
		if a == b {
			d.state = a
			return nil
		}
	}
	return fmt.Errorf("unknown dns answer %q", a)
}

// lookup is the environment's answer to one LookupHost of the record.
func (d *dnsEnv) lookup() ([]string, error) {
	d.asked = append(d.asked, d.state)
	switch d.state {
	case "err":
		return nil, fmt.Errorf("lookup %s: i/o timeout", d.name)
	case "empty":
		return []string{}, nil
	}
	var out []string
	for _, c := range d.state {
		out = append(out, ip[string(c)])
	}
	return out, nil
}

func (d *dnsEnv) close() { vnet.Unregister(d.name) }

func (d *dnsEnv) lastFailed() bool { return d.last == "err" || d.last == "empty" }

// lastKind names the kind of the latest refresh (fingerprint suffix).
func (d *dnsEnv) lastKind() string {
	switch d.last {
	case "":
		return "no refresh since construction"
	case "err":
		return "latest refresh: lookup error"
	case "empty":
		return "latest refresh: empty answer"
	}
	return "latest refresh: successful"
}

func members(state string) []string {
	var l []string
	for _, c := range state {
		l = append(l, string(c))
	}
	sort.Strings(l)
	return l
}

// newDNSSys builds filter + Passive over a real hostlist.New(Config{DNS, TTL})
// whose record initially answers init.
func newDNSSys(run *evid.Run, fails int, universe []string, init string, answers []string, ttl time.Duration) (bfs.System, error) {
	clk := &manualClock{now: time.Unix(1000, 0)}
	d := &dnsEnv{
		name:    fmt.Sprintf("c24-%d.verif.invalid", atomic.AddInt64(&dnsSeq, 1)),
		answers: answers,
		state:   init,
	}
	vnet.Register(d.name, d.lookup)
	var hosts hostlist.List
	var err error
	vclk.With(clk, func() {
		hosts, err = hostlist.New(hostlist.Config{DNS: fmt.Sprintf("%s:%d", d.name, dnsPort), TTL: ttl})
	})
	if err != nil {
		d.close()
		return nil, fmt.Errorf("hostlist.New: %v", err)
	}
	if len(d.asked) != 1 {
		d.close()
		return nil, fmt.Errorf("hostlist.New made %d lookups of the harness record, want 1 (seam not in effect?)", len(d.asked))
	}
	d.asked = nil
	pf := healthcheck.NewPassiveFilter(healthcheck.PassiveFilterConfig{Fails: fails, FailTimeout: T}, clk)
	return &sys{
		name:     fmt.Sprintf("dns Fails=%d init=%s TTL=%v", fails, init, ttl),
		fails:    fails,
		list:     members(init),
		failable: universe,
		clk:      clk,
		pf:       pf,
		p:        healthcheck.NewPassive(hosts, pf),
		run:      run,
		rec:      map[string][]time.Duration{},
		hosts:    hosts,
		dns:      d,
	}, nil
}

// absorbLookups moves the model's host list along the lookups the
// implementation made: a successful non-empty answer becomes the list's hosts,
// a failed one (error, empty answer) leaves them as they are.
func (s *sys) absorbLookups(inResolve bool, id string) {
	d := s.dns
	for _, a := range d.asked {
		d.refreshes++
		d.last = a
		switch {
		case a == "err":
			events.record("refresh_lookup_error", id)
		case a == "empty":
			events.record("refresh_empty_answer", id)
		case a == strings.Join(s.list, ""):
			events.record("refresh_same_hosts", id)
		default:
			events.record("refresh_changed_hosts", id)
			s.list = members(a)
		}
		if !inResolve {
			events.record("lookup_outside_resolve", id)
		}
	}
	d.asked = nil
}

func (s *sys) dnsKey() string {
	return "dns=" + s.dns.state + " list=" + strings.Join(s.list, "") + " " + s.dns.lastKind()
}

// addr maps a host label to the address the implementation sees.
func (s *sys) addr(h string) string {
	if s.dns == nil {
		return h
	}
	return fmt.Sprintf("%s:%d", ip[h], dnsPort)
}

func (s *sys) addrs(hs []string) stringset.Set {
	r := stringset.New()
	for _, h := range hs {
		r.Add(s.addr(h))
	}
	return r
}

// labels maps a result of the implementation back to host labels (an address
// that is no host of the universe stays as it is and fails the membership clause).
func (s *sys) labels(got stringset.Set) stringset.Set {
	if s.dns == nil {
		return got
	}
	r := stringset.New()
next:
	for a := range got {
		for _, h := range s.failable {
			if s.addr(h) == a {
				r.Add(h)
				continue next
			}
		}
		r.Add(a)
	}
	return r
}
