// Package vclk stands in for github.com/andres-erbsen/clock inside kraken's
// lib/hostlist (import rewritten through the build overlay of check C24).
// hostlist.New wires its refresh trap to clock.New(); with this package the
// harness hands the clock of its timeline to exactly the constructor call it
// makes (With), so TTL expiry is decided by the harness clock. Outside With,
// New is the real clock.New.
package vclk

import (
	"sync"
	"sync/atomic"

	"github.com/andres-erbsen/clock"
)

type (
	Clock  = clock.Clock
	Mock   = clock.Mock
	Timer  = clock.Timer
	Ticker = clock.Ticker
)

func NewMock() *clock.Mock { return clock.NewMock() }

type holder struct{ c clock.Clock }

var (
	mu      sync.Mutex
	pending atomic.Pointer[holder]
)

// New returns the clock handed over by the enclosing With, else a real clock.
func New() clock.Clock {
	if h := pending.Load(); h != nil {
		return h.c
	}
	return clock.New()
}

// With runs f (a constructor call) with New answering c. Calls are serialised.
func With(c clock.Clock, f func()) {
	mu.Lock()
	defer mu.Unlock()
	pending.Store(&holder{c})
	defer pending.Store(nil)
	f()
}
