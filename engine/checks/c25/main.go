// C25: cluster clients contact a bounded sample of current hosts.
//
// E4: stringset.Set.Sample(n) over every set size x every n of a small scope.
// E1 (sequential): the real tagclient cluster client (do / doOnce -> real
// singleClient -> real httputil.Send) and the real blobclient.Locations (real
// HTTPProvider / HTTPClient) run against a fake http.RoundTripper that counts
// the hosts contacted; the answer to every contact is an environment choice
// (vrt.Choose) over every answer class the clients (or httputil) can tell
// apart: 200, connection refused, client timeout, 201, 202, 403, 404, 409,
// 429, 500, 502, 503, 504, 200 with an unparsable body, 200 whose body breaks
// off (plus next-page / 200-without-locations where the call has them), so the
// explorer enumerates every failure pattern of every host list size.
//
// Which hosts are picked is decided by Go's randomised map iteration inside
// stringset; the oracle is a relation that must hold for every draw (bounded
// count of distinct hosts, membership in the current list) and the answers are
// indexed by contact number, so the execution tree does not depend on the draw.
package main

import (
	"encoding/json"
	"errors"
	"fmt"
	"io"
	"net/http"
	"os"
	"sort"
	"strings"
	"time"

	"github.com/uber/kraken/build-index/tagclient"
	"github.com/uber/kraken/core"
	"github.com/uber/kraken/origin/blobclient"
	"github.com/uber/kraken/utils/stringset"

	"verif/evid"
	_ "verif/quiet"
	"verif/rep"
	"verif/vrt"
)

// ---------------------------------------------------------------- fakes

// fakeList is a healthcheck.List whose content the harness controls. Resolve
// hands out a fresh copy (like hostlist.list does).
type fakeList struct {
	cur    stringset.Set
	failed []string
}

func (l *fakeList) Resolve() stringset.Set { return l.cur.Copy() }
func (l *fakeList) Failed(addr string)     { l.failed = append(l.failed, addr) }

type answer struct {
	name    string
	status  int
	net     bool // connection-level failure (RoundTrip error)
	timeout bool // with net: the error is a net.Error with Timeout() == true (slow host, client gave up)
	page    bool // 200 + a next-page link (list calls)
	noLocs  bool // 200 without the Origin-Locations header
	garbage bool // 200 with a body the caller cannot parse
	bodyErr bool // 200 whose body breaks off with a read error
}

// The per-contact answer alphabet. Index 0 is the default (ok), index 1 the
// plain network error (the determinism proof replays [1,1,1]).
var (
	ansOK      = answer{name: "ok", status: 200}
	ansNet     = answer{name: "neterr", net: true}
	ansTimeout = answer{name: "timeout", net: true, timeout: true}
	ans201     = answer{name: "201", status: 201}
	ans202     = answer{name: "202", status: 202}
	ans403     = answer{name: "403", status: 403}
	ans404     = answer{name: "404", status: 404}
	ans409     = answer{name: "409", status: 409}
	ans429     = answer{name: "429", status: 429}
	ans500     = answer{name: "500", status: 500}
	ans502     = answer{name: "502", status: 502}
	ans503     = answer{name: "503", status: 503}
	ans504     = answer{name: "504", status: 504}
	ansPage    = answer{name: "ok+nextpage", status: 200, page: true}
	ansNoLocs  = answer{name: "ok-nolocs", status: 200, noLocs: true}
	ansGarbage = answer{name: "ok-garbage", status: 200, garbage: true}
	ansBodyErr = answer{name: "ok-bodyerr", status: 200, bodyErr: true}
)

// statusAlphabet: one member for every class httputil and the clients tell
// apart (2xx accepted, NetworkError with and without Timeout, IsCreated,
// IsAccepted, IsForbidden, IsNotFound, IsConflict, each of the four
// IsRetryable codes, a plain 5xx).
func statusAlphabet() []answer {
	return []answer{ansOK, ansNet, ansTimeout, ans201, ans202, ans403, ans404, ans409, ans429, ans500, ans502, ans503, ans504}
}

// tag cluster client calls: the status alphabet + the two broken-200 answers.
func tagAlphabet() []answer { return append(statusAlphabet(), ansGarbage, ansBodyErr) }

// list calls which follow next-page links themselves.
func tagListAlphabet() []answer { return append(tagAlphabet(), ansPage) }

// blobclient.Locations: the status alphabet + 200 without the locations header.
func locAlphabet() []answer { return append(statusAlphabet(), ansNoLocs) }

// two-request (relist) scenarios: one representative per error type httputil
// constructs (accepted 200, NetworkError plain / timeout, StatusError
// definitive 4xx / definitive 5xx / retryable 429 / retryable 5xx).
func tagRelistAlphabet() []answer {
	return []answer{ansOK, ansNet, ansTimeout, ans404, ans500, ans429, ans503}
}
func locRelistAlphabet() []answer { return []answer{ansOK, ansNet, ans404, ans503, ansNoLocs} }

func isRetryableName(n string) bool { return n == "429" || n == "502" || n == "503" || n == "504" }

type timeoutErr struct{ host string }

func (e timeoutErr) Error() string   { return "dial tcp " + e.host + ": i/o timeout" }
func (e timeoutErr) Timeout() bool   { return true }
func (e timeoutErr) Temporary() bool { return true }

type brokenBody struct{}

func (brokenBody) Read([]byte) (int, error) { return 0, errors.New("unexpected EOF (injected)") }
func (brokenBody) Close() error             { return nil }

// execState is the per-execution record of the fake transport. vrt runs one
// execution at a time per process, so a single current pointer is enough.
type execState struct {
	answers  []answer
	limit    int             // distinct hosts the statement allows for this call
	seen     map[string]bool // distinct hosts so far
	contacts []string        // host of every round trip, in order
	given    []string        // answer names, in order
}

var cur *execState

type fakeTransport struct{}

var testDigest = func() core.Digest {
	d, err := core.NewSHA256DigestFromHex(strings.Repeat("ab", 32))
	if err != nil {
		panic(err)
	}
	return d
}()

func (fakeTransport) RoundTrip(req *http.Request) (*http.Response, error) {
	st := cur
	if st == nil {
		return nil, errors.New("c25: round trip outside an execution")
	}
	st.contacts = append(st.contacts, req.URL.Host)
	st.seen[req.URL.Host] = true
	a := ansOK
	if len(st.seen) <= st.limit {
		a = st.answers[vrt.Choose(len(st.answers), "answer")]
	}
	// else: the clause is already violated in this execution; the remaining
	// contacts are answered ok without branching (keeps the tree finite when
	// the client walks a long host list).
	if a.page && req.URL.Query().Get("offset") != "" {
		a = ansOK // only the first page has a successor
	}
	st.given = append(st.given, a.name)
	if a.net {
		if a.timeout {
			return nil, timeoutErr{req.URL.Host}
		}
		return nil, errors.New("dial tcp " + req.URL.Host + ": connect: connection refused")
	}
	body := ""
	hdr := http.Header{}
	if a.status == 200 {
		p := req.URL.Path
		switch {
		case a.garbage:
			body = "<html>not what the caller expects</html>"
		case strings.HasSuffix(p, "/locations"):
			if !a.noLocs {
				hdr.Set("Origin-Locations", "origin1:80,origin2:80")
			}
		case strings.HasPrefix(p, "/list/") || strings.HasPrefix(p, "/repositories/"):
			if a.page {
				body = `{"Links":{"next":"` + p + `?offset=page2"},"size":1,"result":["t1"]}`
			} else {
				body = `{"size":1,"result":["t2"]}`
			}
		case strings.HasPrefix(p, "/tags/") && req.Method == "GET":
			body = testDigest.String()
		case p == "/origin":
			body = "origin-cluster"
		case p == "/readiness":
			body = "OK"
		}
	} else {
		body = "injected status"
	}
	var rc io.ReadCloser = io.NopCloser(strings.NewReader(body))
	clen := int64(len(body))
	if a.bodyErr {
		rc, clen = brokenBody{}, -1
	}
	return &http.Response{
		Status:        fmt.Sprintf("%d %s", a.status, http.StatusText(a.status)),
		StatusCode:    a.status,
		Proto:         "HTTP/1.1",
		ProtoMajor:    1,
		ProtoMinor:    1,
		Header:        hdr,
		Body:          rc,
		ContentLength: clen,
		Request:       req,
	}, nil
}

// ---------------------------------------------------------------- calls

type call struct {
	name string
	// kind: "multi" (statement: at most three distinct hosts), "single"
	// (exactly one), "none" (documented as unsupported on the cluster client;
	// the at-most-three bound still applies).
	kind    string
	family  string // fingerprint family: which kraken function does the sampling
	answers []answer
	run     func(l *fakeList) error
}

func tagCall(name, kind string, answers []answer, f func(c tagclient.Client) error) call {
	fam := "tagclient clusterClient.do"
	if kind == "single" {
		fam = "tagclient clusterClient.doOnce"
	}
	return call{name: "tagclient." + name, kind: kind, family: fam, answers: answers, run: func(l *fakeList) error {
		return f(tagclient.NewClusterClient(l, nil))
	}}
}

func calls() []call {
	std := tagAlphabet()
	lst := tagListAlphabet()
	cs := []call{
		tagCall("Get", "multi", std, func(c tagclient.Client) error { _, err := c.Get("repo:tag"); return err }),
		tagCall("Has", "multi", std, func(c tagclient.Client) error { _, err := c.Has("repo:tag"); return err }),
		tagCall("Put", "multi", std, func(c tagclient.Client) error { return c.Put("repo:tag", testDigest) }),
		tagCall("PutAndReplicate", "multi", std, func(c tagclient.Client) error { return c.PutAndReplicate("repo:tag", testDigest) }),
		tagCall("Replicate", "multi", std, func(c tagclient.Client) error { return c.Replicate("repo:tag") }),
		tagCall("Origin", "multi", std, func(c tagclient.Client) error { _, err := c.Origin(); return err }),
		tagCall("List", "multi", lst, func(c tagclient.Client) error { _, err := c.List("repo"); return err }),
		tagCall("ListRepository", "multi", lst, func(c tagclient.Client) error { _, err := c.ListRepository("repo"); return err }),
		tagCall("ListWithPagination", "multi", std, func(c tagclient.Client) error {
			_, err := c.ListWithPagination("repo", tagclient.ListFilter{Limit: 2})
			return err
		}),
		tagCall("ListRepositoryWithPagination", "multi", std, func(c tagclient.Client) error {
			_, err := c.ListRepositoryWithPagination("repo", tagclient.ListFilter{Limit: 2})
			return err
		}),
		tagCall("CheckReadiness", "single", std, func(c tagclient.Client) error { return c.CheckReadiness() }),
		tagCall("DuplicatePut", "none", std, func(c tagclient.Client) error { return c.DuplicatePut("repo:tag", testDigest, time.Second) }),
		tagCall("DuplicateReplicate", "none", std, func(c tagclient.Client) error {
			return c.DuplicateReplicate("repo:tag", testDigest, nil, time.Second)
		}),
	}
	cs = append(cs, call{name: "blobclient.Locations", kind: "multi", family: "blobclient.Locations",
		answers: locAlphabet(),
		run: func(l *fakeList) error {
			_, err := blobclient.Locations(blobclient.NewProvider(), l, testDigest)
			return err
		}})
	// the resolver every blobclient.ClusterClient method starts with (it only
	// builds clients for the returned locations, it does not contact them)
	cs = append(cs, call{name: "blobclient.ClientResolver.Resolve", kind: "multi", family: "blobclient clientResolver.Resolve",
		answers: locAlphabet(),
		run: func(l *fakeList) error {
			_, err := blobclient.NewClientResolver(blobclient.NewProvider(), l).Resolve(testDigest)
			return err
		}})
	return cs
}

// ---------------------------------------------------------------- harness

func hostNames(prefix string, n int) []string {
	hs := make([]string, n)
	for i := range hs {
		hs[i] = fmt.Sprintf("%s%02d.cluster:7602", prefix, i)
	}
	return hs
}

type reqResult struct {
	contacts int
	distinct int
	outside  []string // contacted hosts that are not in the current list
	given    []string
	errClass string
	// the client moved on to another host after a host had sent an HTTP
	// response (as opposed to moving on after connection-level failures only)
	pastAnswered bool
	retryable    int // answers with a retryable status (429/502/503/504)
}

// oneRequest runs one client request against list content hosts and returns
// what the fake transport saw.
func oneRequest(c call, l *fakeList, hosts []string) reqResult {
	l.cur = stringset.FromSlice(hosts)
	st := &execState{answers: c.answers, limit: 3, seen: map[string]bool{}}
	if c.kind == "single" {
		st.limit = 1
	}
	cur = st
	err := c.run(l)
	cur = nil
	seen := map[string]bool{}
	var outside []string
	for _, h := range st.contacts {
		if !seen[h] && !l.cur.Has(h) {
			outside = append(outside, h)
		}
		seen[h] = true
	}
	cls := "nil"
	if err != nil {
		cls = "err"
	}
	r := reqResult{contacts: len(st.contacts), distinct: len(seen), outside: outside, given: st.given, errClass: cls}
	for i, g := range st.given {
		if isRetryableName(g) {
			r.retryable++
		}
		if g == ansNet.name || g == ansTimeout.name {
			continue
		}
		for _, h := range st.contacts[i+1:] {
			if h != st.contacts[i] {
				r.pastAnswered = true
			}
		}
	}
	return r
}

// judge applies the statement to one request.
func judge(c call, listSize int, r reqResult) string {
	if len(r.outside) > 0 {
		sort.Strings(r.outside)
		return fmt.Sprintf("%s: contacted a host that is not in the current host list\n%s contacted %v (answers %v), list size %d", c.family, c.name, r.outside, r.given, listSize)
	}
	switch c.kind {
	case "single":
		want := 1
		if listSize == 0 {
			want = 0
		}
		if r.distinct != want {
			return fmt.Sprintf("%s: single-attempt call did not contact exactly one host\n%s contacted %d distinct hosts (answers %v), list size %d", c.family, c.name, r.distinct, r.given, listSize)
		}
	default:
		if r.distinct > 3 {
			// same clause, two failure classes: the client walked past three
			// hosts which were all unreachable (the sample is too large), or it
			// failed over past a host which did answer (that answer did not
			// count against the three-host budget).
			cls := ""
			if r.pastAnswered {
				cls = " (fail-over past hosts which answered)"
			}
			return fmt.Sprintf("%s: more than three distinct hosts tried%s\n%s contacted %d distinct hosts (answers %v), list size %d", c.family, cls, c.name, r.distinct, r.given, listSize)
		}
	}
	return ""
}

// harness: one request against a list of n hosts.
func harness(c call, n int) *vrt.Harness {
	return &vrt.Harness{Name: fmt.Sprintf("%s/n=%d", c.name, n), Horizon: 100000, Body: func() (string, string) {
		r := oneRequest(c, &fakeList{}, hostNames("a", n))
		return fmt.Sprintf("contacts=%d distinct=%d %s retryable=%d pastAnswered=%v %v", r.contacts, r.distinct, r.errClass, r.retryable, r.pastAnswered, r.given), judge(c, n, r)
	}}
}

// relistHarness: the client object lives across two requests; between them the
// host list changes from n hosts to n2 new hosts plus `keep` of the old ones.
//
// answers2 == nil: both requests are answered from `answers`; otherwise the
// second request is answered from answers2 (thorough tier: the full alphabet;
// the harness name carries the suffix " full2").
func relistHarness(name string, fam string, kind string, answers, answers2 []answer, mk func(l *fakeList) func() error, n, n2, keep int) *vrt.Harness {
	c := call{name: name, kind: kind, family: fam, answers: answers}
	hname := fmt.Sprintf("%s/relist n=%d->%d+%d", name, n, n2, keep)
	if answers2 != nil {
		hname += " full2"
	}
	return &vrt.Harness{Name: hname, Horizon: 100000, Body: func() (string, string) {
		c := c
		l := &fakeList{}
		do := mk(l)
		c.run = func(*fakeList) error { return do() }
		hostsA := hostNames("a", n)
		r1 := oneRequest(c, l, hostsA)
		if v := judge(c, n, r1); v != "" {
			return "", v
		}
		hostsB := append(hostNames("b", n2), hostsA[:keep]...)
		if answers2 != nil {
			c.answers = answers2
		}
		r2 := oneRequest(c, l, hostsB)
		obs := fmt.Sprintf("r1 contacts=%d distinct=%d %v | r2 contacts=%d distinct=%d %v", r1.contacts, r1.distinct, r1.given, r2.contacts, r2.distinct, r2.given)
		if v := judge(c, len(hostsB), r2); v != "" {
			return obs, strings.Replace(v, "\n", "\n(second request after the host list changed) ", 1)
		}
		return obs, ""
	}}
}

func relistHarnesses(thorough bool) []*vrt.Harness {
	std := tagRelistAlphabet()
	var hs []*vrt.Harness
	shapes := [][3]int{{2, 2, 0}, {3, 1, 1}, {3, 3, 2}}
	if thorough {
		shapes = append(shapes, [3]int{1, 3, 0}, [3]int{4, 2, 1}, [3]int{2, 4, 2})
	}
	mkGet := func(l *fakeList) func() error {
		c := tagclient.NewClusterClient(l, nil)
		return func() error { _, err := c.Get("repo:tag"); return err }
	}
	mkReady := func(l *fakeList) func() error {
		c := tagclient.NewClusterClient(l, nil)
		return func() error { return c.CheckReadiness() }
	}
	mkLoc := func(l *fakeList) func() error {
		p := blobclient.NewProvider()
		return func() error { _, err := blobclient.Locations(p, l, testDigest); return err }
	}
	for _, sh := range shapes {
		hs = append(hs,
			relistHarness("tagclient.Get", "tagclient clusterClient.do", "multi", std, nil, mkGet, sh[0], sh[1], sh[2]),
			relistHarness("tagclient.CheckReadiness", "tagclient clusterClient.doOnce", "single", std, nil, mkReady, sh[0], sh[1], sh[2]),
			relistHarness("blobclient.Locations", "blobclient.Locations", "multi", locRelistAlphabet(), nil, mkLoc, sh[0], sh[1], sh[2]),
		)
		if thorough {
			hs = append(hs,
				relistHarness("tagclient.Get", "tagclient clusterClient.do", "multi", std, tagAlphabet(), mkGet, sh[0], sh[1], sh[2]),
				relistHarness("tagclient.CheckReadiness", "tagclient clusterClient.doOnce", "single", std, tagAlphabet(), mkReady, sh[0], sh[1], sh[2]),
				relistHarness("blobclient.Locations", "blobclient.Locations", "multi", locRelistAlphabet(), locAlphabet(), mkLoc, sh[0], sh[1], sh[2]),
			)
		}
	}
	return hs
}

func listSizes(thorough bool) []int {
	if thorough {
		return []int{0, 1, 2, 3, 4, 5, 6, 7, 8, 12, 24, 36}
	}
	return []int{0, 1, 2, 3, 4, 5, 6, 8}
}

// trivial harnesses (empty list, calls the cluster client refuses without
// contacting anybody) are executed and judged but not counted as distinct
// non-trivial cases.
var trivial = map[string]bool{}

func allHarnesses(thorough bool) []*vrt.Harness {
	var hs []*vrt.Harness
	for _, c := range calls() {
		for _, n := range listSizes(thorough) {
			h := harness(c, n)
			if n == 0 || c.kind == "none" {
				trivial[h.Name] = true
			}
			hs = append(hs, h)
		}
	}
	return append(hs, relistHarnesses(thorough)...)
}

// ---------------------------------------------------------------- E4: Sample

func checkSample(run *evid.Run) {
	maxSize, maxN := 12, 6
	if run.Thorough() {
		maxSize, maxN = 36, 8
	}
	nontrivial := 0
	for size := 0; size <= maxSize; size++ {
		members := hostNames("s", size)
		for n := 0; n <= maxN; n++ {
			s := stringset.FromSlice(members)
			got := s.Sample(n)
			run.Eval(1)
			want := n
			if size < want {
				want = size
			}
			if n < size && n > 0 {
				nontrivial++
				run.Distinct(fmt.Sprintf("Sample size=%d n=%d", size, n))
			}
			if len(got) != want {
				cls := "more"
				if len(got) < want {
					cls = "fewer"
				}
				run.Violation("stringset.Sample(n) yields "+cls+" than min(n, size) members",
					map[string]interface{}{"set_size": size, "n": n, "got_size": len(got), "want_size": want})
			}
			for x := range got {
				if !s.Has(x) {
					run.Violation("stringset.Sample(n) yields a non-member",
						map[string]interface{}{"set_size": size, "n": n, "non_member": x})
					break
				}
			}
		}
	}
	run.Set("sample_cases_n_below_size", nontrivial)
	run.Sample(map[string]interface{}{"sample": "Sample(n) on sets of size 0.." + fmt.Sprint(maxSize) + " x n 0.." + fmt.Sprint(maxN)})
}

// ---------------------------------------------------------------- replay

// replay re-executes the schedule of a replay file written for a vrt violation.
func replay(run *evid.Run, path string) {
	b, err := os.ReadFile(path)
	if err != nil {
		run.Fatal(err)
	}
	var f struct {
		Case struct {
			Harness string
			Choices []int
		} `json:"case"`
	}
	if err := json.Unmarshal(b, &f); err != nil {
		run.Fatal(err)
	}
	for _, h := range allHarnesses(true) {
		if h.Name == f.Case.Harness {
			_, obs, vio := vrt.Replay(h, f.Case.Choices)
			fmt.Printf("replay %s choices %v\n  observation: %s\n", h.Name, f.Case.Choices, obs)
			if vio != "" {
				fmt.Printf("  => %s\n", vio)
				os.Exit(1)
			}
			os.Exit(0)
		}
	}
	run.Fatal(fmt.Errorf("replay: no harness %q (Sample violations are replayed by calling Sample with the recorded set_size/n)", f.Case.Harness))
}

// ---------------------------------------------------------------- main

func main() {
	http.DefaultTransport = fakeTransport{} // real sockets are never used
	vrt.WorkerMain(allHarnesses(true))

	run := evid.New("C25", "exploration")
	run.Rule = "E4: stringset.Set.Sample(n) for every set size 0..S x n 0..N (distinct = (size,n) pairs with 0<n<size). " +
		"E1-sequential: for every cluster-client call (13 tagclient cluster methods through the real singleClient/httputil.Send; blobclient.Locations and blobclient.ClientResolver.Resolve through the real HTTPProvider/HTTPClient) x every host-list size (including sizes above three), " +
		"every sequence of per-contact answers as environment choices (full tree, no deviation cap in effect) over one member of every answer class httputil/the clients tell apart: " +
		"{200, connection refused, client timeout (net.Error Timeout), 201, 202, 403, 404, 409, 429, 500, 502, 503, 504; tagclient also 200 with an unparsable body and 200 whose body breaks off; list calls also next-page; Locations/Resolve also 200-without-locations}; " +
		"plus relist scenarios (list replaced between two requests of one long-lived client; both requests answered from {200, connection refused, timeout, 404, 500, 429, 503} resp. {200, connection refused, 404, 503, 200-without-locations}; thorough: additionally with the second request answered from the full alphabet). " +
		"Oracle per request: at most three distinct hosts contacted (exactly one for CheckReadiness), all from the list current at that request. distinct = outcome classes (contacts, distinct hosts, answer sequence) per harness."
	run.Assume("http.DefaultTransport is replaced by a recording fake: a connection-level failure is modelled as a RoundTrip error (what httputil wraps as NetworkError), a slow host as a RoundTrip error with Timeout()==true returned at once (no real waiting), an HTTP answer as a response with that status")
	run.Assume("which hosts are drawn is decided by Go's randomised map iteration; the oracle (count of distinct hosts, membership) must hold for every draw and answers are indexed by contact number, so one execution per answer sequence decides the clause for every draw")
	run.Assume("once a request has contacted more hosts than the statement allows the clause is violated; its remaining contacts are answered 200 without branching")
	run.Assume("small-scope: host lists of the sizes listed in coverage.list_sizes; one status code per class (e.g. 500 for non-retryable 5xx); set sizes for Sample as in the rule")

	if rp := run.ReplayPath(); rp != "" {
		replay(run, rp)
	}

	checkSample(run)

	sizes := listSizes(run.Thorough())
	run.Set("list_sizes", sizes)
	maxDur := 20
	if run.Thorough() {
		maxDur = 300
	}
	var reached3, multiExec, singleExec, trivialExec int64
	var withRetryable, withRetryableBig, pastAnswered, withTimeout int64
	for _, h := range allHarnesses(run.Thorough()) {
		// determinism proof: the default schedule twice, and an all-network-failure
		// schedule twice, give the same observation (draws differ, observation must not)
		_, o1, _ := vrt.Replay(h, nil)
		_, o2, _ := vrt.Replay(h, nil)
		_, o3, _ := vrt.Replay(h, []int{1, 1, 1})
		_, o4, _ := vrt.Replay(h, []int{1, 1, 1})
		if o1 != o2 || o3 != o4 {
			run.Fatal(fmt.Errorf("non-deterministic replay in %s: %q vs %q / %q vs %q", h.Name, o1, o2, o3, o4))
		}
		// bound 64 > longest possible answer sequence: the whole tree is explored
		fp := func(v vrt.Violation) string { return strings.SplitN(v.Msg, "\n", 2)[0] }
		var res *vrt.Result
		if trivial[h.Name] {
			res = vrt.Explore(h, 64, time.Duration(maxDur)*time.Second)
			if res.Err != "" {
				run.Fatal(errors.New(h.Name + ": " + res.Err))
			}
			if !res.Completed || res.Capped > 0 {
				run.NotExhaustive(h.Name + ": cap hit")
			}
			run.Eval(res.Executions)
			trivialExec += int64(res.Executions)
			for _, v := range res.Violations {
				run.Violation(fp(v), v)
			}
		} else {
			w := 1
			if strings.HasSuffix(h.Name, " full2") && strings.HasPrefix(h.Name, "blobclient.") {
				w = evid.Workers() // ~2*10^5 executions each: shard over worker processes
			}
			res = rep.VRT(run, h, 64, w, maxDur, fp)
		}
		big := false // single-request harness on a list of more than three hosts
		if i := strings.Index(h.Name, "/n="); i >= 0 {
			var n int
			fmt.Sscanf(h.Name[i:], "/n=%d", &n)
			big = n > 3
		}
		for k, cnt := range res.Outcomes {
			if strings.Contains(k, "distinct=3 ") {
				reached3 += int64(cnt)
			}
			if !strings.Contains(k, "retryable=0 ") && strings.Contains(k, "retryable=") {
				withRetryable += int64(cnt)
				if big {
					withRetryableBig += int64(cnt)
				}
			}
			if strings.Contains(k, "pastAnswered=true") {
				pastAnswered += int64(cnt)
			}
			if strings.Contains(k, "timeout") {
				withTimeout += int64(cnt)
			}
		}
		if strings.Contains(h.Name, "CheckReadiness") {
			singleExec += int64(res.Executions)
		} else {
			multiExec += int64(res.Executions)
		}
	}
	run.Set("executions_reaching_three_distinct_hosts", reached3)
	run.Set("executions_multi_attempt_calls", multiExec)
	run.Set("executions_single_attempt_calls", singleExec)
	run.Set("executions_trivial_harnesses", trivialExec)
	run.Set("executions_with_retryable_status_answer", withRetryable)
	run.Set("executions_with_retryable_status_answer_on_list_larger_than_three", withRetryableBig)
	run.Set("executions_with_client_timeout_answer", withTimeout)
	run.Set("executions_failing_over_past_an_answering_host", pastAnswered)
	names := func(as []answer) (ns []string) {
		for _, a := range as {
			ns = append(ns, a.name)
		}
		return
	}
	run.Set("answer_alphabet_tagclient", names(tagAlphabet()))
	run.Set("answer_alphabet_tagclient_list_calls", names(tagListAlphabet()))
	run.Set("answer_alphabet_blobclient_locations", names(locAlphabet()))
	run.Set("answer_alphabet_relist_tagclient", names(tagRelistAlphabet()))
	run.Set("answer_alphabet_relist_blobclient_locations", names(locRelistAlphabet()))
	run.Finish()
}
