// C11: no client-supplied name makes a store touch files outside its directory.
//
// E4 (small-scope exhaustive inputs): every string of length <= 4 (quick) / 5
// (thorough) over the hostile token alphabet {. / a %2e %2f %25 .. \}, raw and
// percent-encoded once more, is substituted as path parameter ({tag}, {repo},
// {uid}, {digest}, {namespace}, {remote}, wildcard) into the REAL handlers of
// the build-index tag server (real tagstore over a real SimpleStore) and of the
// origin blob server (real CAStore), invoked through Handler().ServeHTTP; the
// unescaped names are also passed directly to the SimpleStore / CAStore APIs
// those handlers use and to the proxy's docker-registry storage driver
// (`_uploads/<id>/...` paths).
//
// Configuration dimension: the same routes and calls, with a sub-alphabet of
// the names (short hostile names, ordinary flat and nested names, traversal
// names, two well-formed digests), are run against stores that the real
// constructors build from every configuration in {flat layout, each store
// directory alone two levels deep under otherwise empty directories} x
// {directory string clean, with a trailing slash (as in every shipped
// config/*/base.yaml), with `//`, with a `/./` segment, with an `x/../`
// segment}: code that compares, trims or joins paths against the CONFIGURED
// directory string instead of a cleaned one behaves differently only there.
//
// Observer: each store lives in a fresh tree  <top>/g3/g2/sandbox/{upload,cache}
// (nested layout: .../sandbox/spoolu/deep/upload, .../sandbox/spoolc/deep/cache)
// with sentinel files next to the store directories (and, in the "planted"
// variant, files called `data` where a one- or two-level escape would land).
// The whole <top> tree is snapshotted (path, type, size, mtime, sha256)
// before and after every request. Oracle (property text): no file outside
// the store directories is created, modified or deleted -- a store directory
// itself and its ancestors are outside (they are entries of directories that
// are not the store's); no response carries the content of a sentinel (read
// outside); a storing request that is answered 2xx has stored its file inside
// the store directory (names that cannot be stored there are rejected with an
// error).
package main

import (
	"bytes"
	"context"
	"crypto/sha256"
	"encoding/hex"
	"encoding/json"
	"errors"
	"fmt"
	"io"
	"net/http"
	"net/http/httptest"
	"net/url"
	"os"
	"path/filepath"
	"sort"
	"strings"
	"sync"
	"sync/atomic"
	"syscall"
	"time"
	"unsafe"

	"github.com/andres-erbsen/clock"
	"github.com/go-chi/chi"
	"github.com/uber-go/tally"
	"go.opentelemetry.io/otel/trace/noop"

	"github.com/uber/kraken/build-index/tagclient"
	"github.com/uber/kraken/build-index/tagserver"
	"github.com/uber/kraken/build-index/tagstore"
	"github.com/uber/kraken/core"
	"github.com/uber/kraken/lib/backend"
	"github.com/uber/kraken/lib/backend/backenderrors"
	"github.com/uber/kraken/lib/blobrefresh"
	"github.com/uber/kraken/lib/dockerregistry"
	"github.com/uber/kraken/lib/hashring"
	"github.com/uber/kraken/lib/healthcheck"
	"github.com/uber/kraken/lib/hostlist"
	"github.com/uber/kraken/lib/metainfogen"
	"github.com/uber/kraken/lib/persistedretry"
	"github.com/uber/kraken/lib/store"
	"github.com/uber/kraken/lib/store/metadata"
	"github.com/uber/kraken/origin/blobclient"
	"github.com/uber/kraken/origin/blobserver"
	"github.com/uber/kraken/utils/stringset"

	"verif/evid"
	_ "verif/quiet"
)

// ---------------------------------------------------------------------------
// fixed contents

var (
	// digest used in {digest} position of tag PUTs; also the value of tag "a".
	tagDigest = mustDigest([]byte("c11 tag target"))
	// planted `data` files of the build-index variant are valid digests, so a
	// read through the tag store would be served back to the client.
	plantedRootDigest   = mustDigest([]byte("c11 planted sandbox/data"))
	plantedParentDigest = mustDigest([]byte("c11 planted parent/data"))
	plantedG3Digest     = mustDigest([]byte("c11 planted g3/data"))

	// origin: upload "a" holds blobA; requests carry digest(blobA).
	blobA       = []byte("c11 origin blob A payload 0123456789")
	blobADigest = mustDigest(blobA)

	outerSecret   = "C11-OUTER-7f3c9a1e5b"
	siblingSecret = "C11-SIBLING-2d8e4c6a90"
	sibDirSecret  = "C11-SIBDIR-91b7e3f5ac"
	plantedSecret = "C11-PLANTED-ROOT-5e1a9c3b7d"
	planted2Secr  = "C11-PLANTED-PARENT-c4f8a2e6b0"
	victimSecret  = "C11-VICTIM-a-0d6b3f9e21"
)

func mustDigest(b []byte) core.Digest {
	d, err := core.NewDigester().FromBytes(b)
	if err != nil {
		panic(err)
	}
	return d
}

// ---------------------------------------------------------------------------
// snapshot observer

type fent struct {
	kind  byte // 'd' dir, 'f' regular, 'o' other
	size  int64
	mtime int64
	ctime int64
	ino   uint64
	sum   [32]byte
}

type snapshot map[string]fent

// takeSnapshot records every entry under parent. File contents are hashed; the
// hash of prev is reused only when inode, size, mtime AND ctime are unchanged
// (ctime cannot be set by a program, so an unchanged ctime means no write,
// truncate, rename or chmod happened to that inode).
func takeSnapshot(parent string, prev snapshot) (snapshot, error) {
	s := make(snapshot, len(prev)+4)
	if _, err := os.Lstat(parent); os.IsNotExist(err) {
		return s, nil // the whole tree was removed: everything shows up as deleted
	}
	err := filepath.WalkDir(parent, func(p string, d os.DirEntry, err error) error {
		if err != nil {
			return err
		}
		if p == parent {
			return nil
		}
		rel := p[len(parent)+1:]
		if d.IsDir() {
			s[rel] = fent{kind: 'd'}
			return nil
		}
		info, err := d.Info()
		if err != nil {
			return err
		}
		e := fent{kind: 'o', size: info.Size(), mtime: info.ModTime().UnixNano()}
		if st, ok := info.Sys().(*syscall.Stat_t); ok {
			e.ino = st.Ino
			e.ctime = st.Ctim.Sec*1e9 + st.Ctim.Nsec
		}
		if info.Mode().IsRegular() {
			e.kind = 'f'
			if pe, ok := prev[rel]; ok && pe.kind == 'f' && pe.ino == e.ino && pe.size == e.size && pe.mtime == e.mtime && pe.ctime == e.ctime && e.ino != 0 {
				e.sum = pe.sum
			} else {
				b, err := os.ReadFile(p)
				if err != nil {
					return err
				}
				e.sum = sha256.Sum256(b)
			}
		}
		s[rel] = e
		return nil
	})
	return s, err
}

type change struct {
	Path string `json:"path"` // relative to <top>
	Op   string `json:"op"`   // create | modify | delete
}

// Layout: <top>/g3/g2/sandbox/{upload,cache}. The store directories sit three
// levels below the snapshot root so that an escape of up to three levels (the
// deepest one a name of <= 5 tokens can express) still lands inside the tree
// that is snapshotted and that belongs to this check alone.
const pre = "g3/g2/"

// layout says where (relative to <top>, in clean form) the two store
// directories of a sandbox are.
type layout struct {
	name         string
	upRel, caRel string
}

var (
	// the layout of the name-enumeration phase
	flatLayout = layout{"flat", pre + "sandbox/upload", pre + "sandbox/cache"}
	// each store directory two levels deep under a parent that holds nothing else
	nestedLayout = layout{"nested", pre + "sandbox/spoolu/deep/upload", pre + "sandbox/spoolc/deep/cache"}
)

func (l *layout) isRoot(rel string) bool { return rel == l.upRel || rel == l.caRel }

func (l *layout) inside(rel string) bool {
	return strings.HasPrefix(rel, l.upRel+"/") || strings.HasPrefix(rel, l.caRel+"/")
}

// spelling is one way of writing the path <dir>/<base> in a configuration.
type spelling struct {
	name  string
	clean bool
	spell func(dir, base string) string
}

var spellings = []spelling{
	{"clean", true, func(d, b string) string { return d + "/" + b }},
	{"trailing slash", false, func(d, b string) string { return d + "/" + b + "/" }},
	{"double slash", false, func(d, b string) string { return d + "//" + b }},
	{"./ segment", false, func(d, b string) string { return d + "/./" + b }},
	{"x/../ segment", false, func(d, b string) string { return d + "/" + b + "/../" + b }},
}

// storeCfg is one configuration of the two store directories: where they are
// and how the configuration spells each of them.
type storeCfg struct {
	lay        layout
	upSp, caSp spelling
}

func (c *storeCfg) String() string {
	return fmt.Sprintf("%s layout, upload_dir: %s, cache_dir: %s", c.lay.name, c.upSp.name, c.caSp.name)
}

func (c *storeCfg) clean() bool { return c.upSp.clean && c.caSp.clean }

var defaultCfg = &storeCfg{flatLayout, spellings[0], spellings[0]}

// diff returns the changes outside the store directories, the number of
// changes inside, whether a data file was created inside, and whether a store
// root directory itself disappeared.
func diff(l *layout, base, after snapshot) (outside []change, insideN int, newInsideFile bool, rootGone bool) {
	isRoot, inside := l.isRoot, l.inside
	for p, b := range base {
		a, ok := after[p]
		switch {
		case !ok:
			if isRoot(p) {
				rootGone = true
			} else if inside(p) {
				insideN++
			} else {
				outside = append(outside, change{p, "delete"})
			}
		case a != b:
			if isRoot(p) {
				rootGone = true // replaced by something else
			} else if inside(p) {
				insideN++
			} else {
				outside = append(outside, change{p, "modify"})
			}
		}
	}
	for p, a := range after {
		if _, ok := base[p]; ok {
			continue
		}
		if inside(p) {
			insideN++
			if a.kind == 'f' {
				newInsideFile = true
			}
		} else if !isRoot(p) {
			outside = append(outside, change{p, "create"})
		}
	}
	sort.Slice(outside, func(i, j int) bool { return outside[i].Path < outside[j].Path })
	return
}

// ---------------------------------------------------------------------------
// sandbox

type opResult struct {
	status int    // HTTP status, or 200/500 for direct calls (nil / non-nil error)
	body   []byte // response body / bytes read / error text
	routed bool   // the name reached the code under test
	name   string // the name as the code under test sees it (after unescaping)
	input  string // concrete request (URL path or call)
}

// op is one way of handing a hostile string to the system.
type op struct {
	label  string // stable: "PUT /tags/{tag}/digest/{digest}" or "SimpleStore.CreateCacheFile"
	stores bool   // a 2xx answer claims the name was stored
	run    func(sb *sandbox, p string) opResult
}

type surface struct {
	name     string
	http     bool
	build    func(sb *sandbox, planted bool) error
	ops      []op
	prestore map[string]bool // names stored while building (their 2xx needs no new file)
}

type sandbox struct {
	parent  string
	cfg     *storeCfg
	base    snapshot
	secrets []string
	handler http.Handler
	routes  chi.Routes
	simple  *store.SimpleStore
	cas     *store.CAStore
	driver  *dockerregistry.KrakenStorageDriver
	closers []func()

	ifd     int            // inotify instance watching every directory of base
	watches map[int]string // watch descriptor -> directory (relative to parent, "" = parent)
}

func (sb *sandbox) close() {
	for _, c := range sb.closers {
		c()
	}
	// the inotify instance belongs to the worker; the kernel drops the watches
	// together with the directories
	os.RemoveAll(sb.parent)
}

func writeSentinel(path, content string) error {
	if err := os.MkdirAll(filepath.Dir(path), 0o755); err != nil {
		return err
	}
	if err := os.WriteFile(path, []byte(content), 0o644); err != nil {
		return err
	}
	old := time.Date(2001, 1, 1, 0, 0, 0, 0, time.UTC)
	return os.Chtimes(path, old, old)
}

func newSandbox(sf *surface, planted bool, ifd int, cfg *storeCfg) (*sandbox, error) {
	parent, err := os.MkdirTemp("", "c11-")
	if err != nil {
		return nil, err
	}
	sb := &sandbox{parent: parent, ifd: ifd, cfg: cfg}
	g2 := filepath.Join(parent, "g3", "g2")
	g3 := filepath.Join(parent, "g3")
	root := filepath.Join(g2, "sandbox")
	if err := os.MkdirAll(root, 0o755); err != nil {
		return nil, err
	}
	if err := sf.build(sb, planted); err != nil {
		return nil, fmt.Errorf("build %s: %v", sf.name, err)
	}
	// sentinels next to (never inside) the store directories
	sent := map[string]string{
		filepath.Join(g2, "outer.txt"):       outerSecret,
		filepath.Join(g3, "outer3.txt"):      outerSecret + "-3",
		filepath.Join(root, "sibling.txt"):   siblingSecret,
		filepath.Join(root, "sib", "data"):   sibDirSecret,
		filepath.Join(root, "sib", "_extra"): sibDirSecret + "-extra",
	}
	sb.secrets = []string{outerSecret, siblingSecret, sibDirSecret}
	if planted {
		if sf.name == "build-index" || sf.name == "SimpleStore" {
			sent[filepath.Join(root, "data")] = plantedRootDigest.String()
			sent[filepath.Join(g2, "data")] = plantedParentDigest.String()
			sent[filepath.Join(g3, "data")] = plantedG3Digest.String()
			sb.secrets = append(sb.secrets, plantedRootDigest.Hex(), plantedParentDigest.Hex(), plantedG3Digest.Hex())
		} else {
			sent[filepath.Join(root, "data")] = plantedSecret
			sent[filepath.Join(g2, "data")] = planted2Secr
			sent[filepath.Join(g3, "data")] = planted2Secr + "-3"
			sb.secrets = append(sb.secrets, plantedSecret, planted2Secr)
		}
	}
	if planted {
		// victims whose names the alphabets can spell: at every level beside and
		// above the store directories a regular file `a` and an empty directory `aa`
		for i, dir := range []string{root, g2, g3} {
			sec := fmt.Sprintf("%s-%d", victimSecret, i)
			sent[filepath.Join(dir, "a")] = sec
			sb.secrets = append(sb.secrets, sec)
			if err := os.MkdirAll(filepath.Join(dir, "aa"), 0o755); err != nil {
				return nil, err
			}
		}
	}
	for p, c := range sent {
		if err := writeSentinel(p, c); err != nil {
			return nil, err
		}
	}
	sb.base, err = takeSnapshot(parent, nil)
	if err != nil {
		return nil, err
	}
	if err := sb.watch(); err != nil {
		return nil, fmt.Errorf("inotify: %v", err)
	}
	return sb, nil
}

// ---------------------------------------------------------------------------
// inotify: every directory that exists at baseline (the parent, the sandbox
// directory, the sentinel directory, the store directories and everything in
// them) is watched. Events are queued by the kernel synchronously with the file
// operation, so after a request has returned the queue holds everything the
// request did to an entry of a watched directory. It is used (a) to see opens /
// reads of files outside the store directories and (b) to skip the snapshot
// comparison when no mutating event at all was queued.

const (
	mutMask  = syscall.IN_CREATE | syscall.IN_DELETE | syscall.IN_MODIFY | syscall.IN_MOVED_FROM | syscall.IN_MOVED_TO | syscall.IN_ATTRIB | syscall.IN_DELETE_SELF | syscall.IN_MOVE_SELF | syscall.IN_CLOSE_WRITE
	readMask = syscall.IN_OPEN | syscall.IN_ACCESS
)

func (sb *sandbox) watch() error {
	fd := sb.ifd
	sb.watches = map[int]string{}
	// events of the previous sandbox of this worker (its removal) are stale
	if _, _, err := sb.drain(); err != nil {
		return err
	}
	dirs := []string{""}
	for rel, e := range sb.base {
		if e.kind == 'd' {
			dirs = append(dirs, rel)
		}
	}
	for _, rel := range dirs {
		wd, err := syscall.InotifyAddWatch(fd, filepath.Join(sb.parent, rel), mutMask|readMask)
		if err != nil {
			return err
		}
		sb.watches[wd] = rel
	}
	return nil
}

// recycle brings the sandbox back to its initial state after a request whose
// only effect was to ADD entries inside the store directories: the added
// entries are removed, the store and its server are closed and instantiated
// again over the same directories (no in-memory state survives), and a new
// baseline is taken. Anything else (a baseline entry modified or removed, a
// store root gone, any effect outside) is not handled here: the caller builds
// a completely new sandbox. Returns false in that case.
func (sb *sandbox) recycle(sf *surface, planted bool, v verdict) bool {
	if v.after == nil || len(v.outside) > 0 || len(v.reads) > 0 || v.rootGone {
		return false
	}
	var added []string
	for p, b := range sb.base {
		if a, ok := v.after[p]; !ok || a != b {
			return false
		}
	}
	for p := range v.after {
		if _, ok := sb.base[p]; !ok {
			if !sb.inside(p) {
				return false
			}
			added = append(added, p)
		}
	}
	sort.Sort(sort.Reverse(sort.StringSlice(added))) // children before parents
	for _, p := range added {
		if err := os.Remove(filepath.Join(sb.parent, p)); err != nil {
			return false
		}
	}
	for _, c := range sb.closers {
		c()
	}
	sb.closers = nil
	if err := sf.build(sb, planted); err != nil {
		return false
	}
	base, err := takeSnapshot(sb.parent, sb.base)
	if err != nil {
		return false
	}
	// the outside part must be exactly what it was
	for p, b := range sb.base {
		if !sb.inside(p) && !sb.isRoot(p) && base[p] != b {
			return false
		}
	}
	sb.base = base
	return sb.watch() == nil
}

type fsEvent struct {
	rel  string
	mask uint32
}

// drain returns the queued events (overflow = the kernel dropped some).
func (sb *sandbox) drain() (evs []fsEvent, overflow bool, err error) {
	var buf [16384]byte
	for {
		n, rerr := syscall.Read(sb.ifd, buf[:])
		if rerr == syscall.EAGAIN || n == 0 {
			return evs, overflow, nil
		}
		if rerr == syscall.EINTR {
			continue
		}
		if rerr != nil {
			return nil, false, rerr
		}
		for off := 0; off+syscall.SizeofInotifyEvent <= n; {
			raw := (*syscall.InotifyEvent)(unsafe.Pointer(&buf[off]))
			nameLen := int(raw.Len)
			name := ""
			if nameLen > 0 {
				b := buf[off+syscall.SizeofInotifyEvent : off+syscall.SizeofInotifyEvent+nameLen]
				if i := bytes.IndexByte(b, 0); i >= 0 {
					b = b[:i]
				}
				name = string(b)
			}
			off += syscall.SizeofInotifyEvent + nameLen
			if raw.Mask&syscall.IN_Q_OVERFLOW != 0 {
				overflow = true
				continue
			}
			if raw.Mask&syscall.IN_IGNORED != 0 {
				continue
			}
			dir, ok := sb.watches[int(raw.Wd)]
			if !ok {
				continue
			}
			rel := filepath.Join(dir, name)
			evs = append(evs, fsEvent{rel, raw.Mask})
		}
	}
}

// ---------------------------------------------------------------------------
// fakes for everything that is not the store (remote services)

type fakeBackend struct{}

func (fakeBackend) Stat(ns, name string) (*core.BlobInfo, error) {
	return nil, backenderrors.ErrBlobNotFound
}
func (fakeBackend) Upload(ns, name string, src io.Reader) error {
	_, err := io.Copy(io.Discard, src)
	return err
}
func (fakeBackend) Download(ns, name string, dst io.Writer) error {
	return backenderrors.ErrBlobNotFound
}
func (fakeBackend) List(prefix string, opts ...backend.ListOption) (*backend.ListResult, error) {
	return &backend.ListResult{}, nil
}
func (fakeBackend) Close() error { return nil }

type fakeRetry struct{}

func (fakeRetry) Add(persistedretry.Task) error                   { return nil }
func (fakeRetry) SyncExec(persistedretry.Task) error              { return nil }
func (fakeRetry) Close()                                          {}
func (fakeRetry) Find(interface{}) ([]persistedretry.Task, error) { return nil, nil }

type fakeResolver struct{}

func (fakeResolver) Resolve(tag string, d core.Digest) (core.DigestList, error) { return nil, nil }

type emptyHosts struct{}

func (emptyHosts) Resolve() stringset.Set { return stringset.New() }

var errRemote = errors.New("c11: remote not available")

type fakeCluster struct{}

func (fakeCluster) CheckReadiness() error { return nil }
func (fakeCluster) UploadBlob(context.Context, string, core.Digest, io.ReadSeeker, uint64) error {
	return errRemote
}
func (fakeCluster) DownloadBlob(context.Context, string, core.Digest, io.Writer) error {
	return errRemote
}
func (fakeCluster) PrefetchBlob(string, core.Digest) error { return errRemote }
func (fakeCluster) GetMetaInfo(string, core.Digest) (*core.MetaInfo, error) {
	return nil, errRemote
}
func (fakeCluster) Stat(string, core.Digest) (*core.BlobInfo, error) {
	return nil, blobclient.ErrBlobNotFound
}
func (fakeCluster) OverwriteMetaInfo(core.Digest, int64) error          { return errRemote }
func (fakeCluster) Owners(core.Digest) ([]core.PeerContext, error)      { return nil, errRemote }
func (fakeCluster) ReplicateToRemote(string, core.Digest, string) error { return errRemote }

type fakeTagProvider struct{}

func (fakeTagProvider) Provide(string) tagclient.Client { return nil }

type fakeBlobProvider struct{}

func (fakeBlobProvider) Provide(string) blobclient.Client { return nil }

type fakeClusterProvider struct{}

func (fakeClusterProvider) Provide(string) (blobclient.ClusterClient, error) {
	return nil, errRemote
}

type fakeTransferer struct{}

func (fakeTransferer) Stat(string, core.Digest) (*core.BlobInfo, error) {
	return nil, errRemote
}
func (fakeTransferer) Download(string, core.Digest) (store.FileReader, error) {
	return nil, errRemote
}
func (fakeTransferer) Upload(string, core.Digest, store.FileReader) error { return nil }
func (fakeTransferer) GetTag(string) (core.Digest, error)                 { return core.Digest{}, errRemote }
func (fakeTransferer) PutTag(string, core.Digest) error                   { return nil }
func (fakeTransferer) ListTags(string) ([]string, error)                  { return nil, nil }

var (
	backendsOnce sync.Once
	backendsVal  *backend.Manager
	backendsErr  error
)

// newBackends returns the (stateless, shared) backend manager whose only
// client is the fake remote storage.
func newBackends() (*backend.Manager, error) {
	backendsOnce.Do(func() { backendsVal, backendsErr = newBackends0() })
	return backendsVal, backendsErr
}

func newBackends0() (*backend.Manager, error) {
	m, err := backend.NewManager(backend.ManagerConfig{}, nil, backend.AuthConfig{}, tally.NoopScope)
	if err != nil {
		return nil, err
	}
	if err := m.Register(".*", fakeBackend{}, false); err != nil {
		return nil, err
	}
	return m, nil
}

// ---------------------------------------------------------------------------
// surfaces

// dirs returns the store directories as the configuration spells them.
func (sb *sandbox) dirs() (upload, cache string) {
	l := &sb.cfg.lay
	return sb.cfg.upSp.spell(filepath.Join(sb.parent, filepath.Dir(l.upRel)), filepath.Base(l.upRel)),
		sb.cfg.caSp.spell(filepath.Join(sb.parent, filepath.Dir(l.caRel)), filepath.Base(l.caRel))
}

func (sb *sandbox) inside(rel string) bool { return sb.cfg.lay.inside(rel) }
func (sb *sandbox) isRoot(rel string) bool { return sb.cfg.lay.isRoot(rel) }

func buildSimple(sb *sandbox) error {
	up, ca := sb.dirs()
	ss, err := store.NewSimpleStore(store.SimpleStoreConfig{
		UploadDir: up, CacheDir: ca,
		UploadCleanup: store.CleanupConfig{Disabled: true},
		CacheCleanup:  store.CleanupConfig{Disabled: true},
	}, tally.NoopScope)
	if err != nil {
		return err
	}
	sb.simple = ss
	sb.closers = append(sb.closers, ss.Close)
	return nil
}

func buildCAS(sb *sandbox) error {
	up, ca := sb.dirs()
	cas, err := store.NewCAStore(store.CAStoreConfig{
		UploadDir: up, CacheDir: ca, Capacity: 64,
		UploadCleanup: store.CleanupConfig{Disabled: true},
		CacheCleanup:  store.CleanupConfig{Disabled: true},
	}, tally.NoopScope)
	if err != nil {
		return err
	}
	sb.cas = cas
	sb.closers = append(sb.closers, cas.Close)
	// one legitimate upload in progress, id "a", holding blobA (written the way
	// the store lays it out; the store picks it up from disk like after a reload)
	if err := os.MkdirAll(filepath.Join(up, "a"), 0o775); err != nil {
		return err
	}
	return os.WriteFile(filepath.Join(up, "a", "data"), blobA, 0o775)
}

func prestoreTagA(sb *sandbox) error {
	_, ca := sb.dirs()
	if err := os.MkdirAll(filepath.Join(ca, "a"), 0o775); err != nil {
		return err
	}
	if err := os.WriteFile(filepath.Join(ca, "a", "data"), []byte(tagDigest.String()), 0o775); err != nil {
		return err
	}
	b, _ := metadata.NewPersist(true).Serialize()
	return os.WriteFile(filepath.Join(ca, "a", metadata.NewPersist(true).GetSuffix()), b, 0o775)
}

func buildBuildIndex(sb *sandbox, planted bool) error {
	if err := buildSimple(sb); err != nil {
		return err
	}
	backends, err := newBackends()
	if err != nil {
		return err
	}
	ts := tagstore.New(tagstore.Config{}, sb.simple, backends, fakeRetry{})
	srv := tagserver.New(tagserver.Config{}, tally.NoopScope, backends, "origin-dns", fakeCluster{},
		emptyHosts{}, ts, nil, fakeRetry{}, fakeTagProvider{}, fakeResolver{},
		noop.NewTracerProvider().Tracer("c11"))
	sb.handler = srv.Handler()
	sb.routes, _ = sb.handler.(chi.Routes)
	if sb.routes == nil {
		return errors.New("tagserver handler is not a chi router")
	}
	// one legitimate tag "a" already on disk (as after a restart)
	return prestoreTagA(sb)
}

func buildOrigin(sb *sandbox, planted bool) error {
	if err := buildCAS(sb); err != nil {
		return err
	}
	backends, err := newBackends()
	if err != nil {
		return err
	}
	const addr = "origin1:80"
	ring := hashring.New(hashring.Config{MaxReplica: 1}, hostlist.Fixture(addr), healthcheck.IdentityFilter{}, tally.NoopScope)
	mg := metainfogen.Fixture(sb.cas, 4)
	br := blobrefresh.New(blobrefresh.Config{}, tally.NoopScope, sb.cas, backends, mg)
	srv, err := blobserver.New(blobserver.Config{}, tally.NoopScope, clock.NewMock(), addr, ring, sb.cas,
		fakeBlobProvider{}, fakeClusterProvider{}, core.PeerContext{}, backends, br, mg, fakeRetry{})
	if err != nil {
		return err
	}
	sb.handler = srv.Handler()
	sb.routes, _ = sb.handler.(chi.Routes)
	if sb.routes == nil {
		return errors.New("blobserver handler is not a chi router")
	}
	return nil
}

func buildProxyDriver(sb *sandbox, planted bool) error {
	if err := buildCAS(sb); err != nil {
		return err
	}
	sb.driver = dockerregistry.NewReadWriteStorageDriver(dockerregistry.Config{}, sb.cas, fakeTransferer{}, dockerregistry.DefaultVerificationFunc)
	return nil
}

// doHTTP serves one request exactly as net/http would hand it to the handler:
// the request target is parsed with url.ParseRequestURI (status 400 from the
// HTTP layer when that fails, handler not reached).
func doHTTP(sb *sandbox, method, target string, body []byte, hdr map[string]string) opResult {
	res := opResult{input: method + " " + target}
	u, err := url.ParseRequestURI(target)
	if err != nil {
		res.status = 400
		res.body = []byte("http: " + err.Error())
		return res
	}
	req, err := http.NewRequest(method, "http://c11.invalid/", bytes.NewReader(body))
	if err != nil {
		panic(err)
	}
	req.URL = u
	req.RequestURI = target
	req.ContentLength = int64(len(body))
	for k, v := range hdr {
		req.Header.Set(k, v)
	}
	w := httptest.NewRecorder()
	sb.handler.ServeHTTP(w, req)
	res.status = w.Code
	res.body = w.Body.Bytes()
	return res
}

// httpOp builds an op that substitutes p into the path template at "{}".
func httpOp(method, pattern, param, tmpl string, stores bool, body []byte, hdr map[string]string) op {
	label := fmt.Sprintf("%s %s [%s]", method, pattern, param)
	if strings.Contains(tmpl, "sha256:{}") {
		label += " sha256:-prefixed"
	}
	return op{label: label, stores: stores, run: func(sb *sandbox, p string) opResult {
		target := strings.Replace(tmpl, "{}", p, 1)
		// Which route (if any) does the router select, and what does the handler
		// get as raw parameter? Asked from the router itself, without touching
		// the request that is served below.
		routed, name := false, ""
		if u, err := url.ParseRequestURI(target); err == nil {
			rp := u.RawPath
			if rp == "" {
				rp = u.Path
			}
			rctx := chi.NewRouteContext()
			if sb.routes.Match(rctx, method, rp) && rctx.RoutePattern() == pattern {
				raw := rctx.URLParam(param)
				if v, err := url.PathUnescape(raw); err == nil && raw != "" {
					routed, name = true, v
				}
			}
		}
		res := doHTTP(sb, method, target, body, hdr)
		res.routed, res.name = routed, name
		return res
	}}
}

func buildIndexSurface() *surface {
	dg := tagDigest.String()
	dupPut, _ := json.Marshal(tagclient.DuplicatePutRequest{})
	dupRep, _ := json.Marshal(tagclient.DuplicateReplicateRequest{})
	return &surface{
		name: "build-index", http: true, build: buildBuildIndex,
		prestore: map[string]bool{"a": true},
		ops: []op{
			httpOp("PUT", "/tags/{tag}/digest/{digest}", "tag", "/tags/{}/digest/"+dg, true, nil, nil),
			httpOp("GET", "/tags/{tag}", "tag", "/tags/{}", false, nil, nil),
			httpOp("HEAD", "/tags/{tag}", "tag", "/tags/{}", false, nil, nil),
			httpOp("POST", "/remotes/tags/{tag}", "tag", "/remotes/tags/{}", false, nil, nil),
			httpOp("PUT", "/internal/duplicate/tags/{tag}/digest/{digest}", "tag", "/internal/duplicate/tags/{}/digest/"+dg, true, dupPut, nil),
			httpOp("POST", "/internal/duplicate/remotes/tags/{tag}/digest/{digest}", "tag", "/internal/duplicate/remotes/tags/{}/digest/"+dg, false, dupRep, nil),
			httpOp("GET", "/repositories/{repo}/tags", "repo", "/repositories/{}/tags", false, nil, nil),
			httpOp("GET", "/list/*", "*", "/list/{}", false, nil, nil),
			httpOp("PUT", "/tags/{tag}/digest/{digest}", "digest", "/tags/a/digest/{}", false, nil, nil),
			httpOp("PUT", "/tags/{tag}/digest/{digest}", "digest", "/tags/a/digest/sha256:{}", false, nil, nil),
		},
	}
}

func originSurface() *surface {
	dg := blobADigest.String()
	cr := map[string]string{"Content-Range": fmt.Sprintf("0-%d", len(blobA))}
	dupCommit, _ := json.Marshal(blobclient.DuplicateCommitUploadRequest{})
	return &surface{
		name: "origin", http: true, build: buildOrigin,
		ops: []op{
			// upload id
			httpOp("PATCH", "/namespace/{namespace}/blobs/{digest}/uploads/{uid}", "uid", "/namespace/ns/blobs/"+dg+"/uploads/{}", false, blobA, cr),
			httpOp("PUT", "/namespace/{namespace}/blobs/{digest}/uploads/{uid}", "uid", "/namespace/ns/blobs/"+dg+"/uploads/{}", false, nil, nil),
			httpOp("PATCH", "/internal/blobs/{digest}/uploads/{uid}", "uid", "/internal/blobs/"+dg+"/uploads/{}", false, blobA, cr),
			httpOp("PUT", "/internal/blobs/{digest}/uploads/{uid}", "uid", "/internal/blobs/"+dg+"/uploads/{}", false, nil, nil),
			httpOp("PUT", "/internal/duplicate/namespace/{namespace}/blobs/{digest}/uploads/{uid}", "uid", "/internal/duplicate/namespace/ns/blobs/"+dg+"/uploads/{}", false, dupCommit, nil),
			// blob name
			httpOp("GET", "/blobs/{digest}/locations", "digest", "/blobs/sha256:{}/locations", false, nil, nil),
			httpOp("POST", "/namespace/{namespace}/blobs/{digest}/uploads", "digest", "/namespace/ns/blobs/sha256:{}/uploads", false, nil, nil),
			httpOp("PUT", "/namespace/{namespace}/blobs/{digest}/uploads/{uid}", "digest", "/namespace/ns/blobs/sha256:{}/uploads/a", false, nil, nil),
			httpOp("GET", "/namespace/{namespace}/blobs/{digest}", "digest", "/namespace/ns/blobs/{}", false, nil, nil),
			httpOp("GET", "/namespace/{namespace}/blobs/{digest}", "digest", "/namespace/ns/blobs/sha256:{}", false, nil, nil),
			httpOp("POST", "/internal/blobs/{digest}/uploads", "digest", "/internal/blobs/sha256:{}/uploads", false, nil, nil),
			httpOp("DELETE", "/internal/blobs/{digest}", "digest", "/internal/blobs/{}", false, nil, nil),
			httpOp("DELETE", "/internal/blobs/{digest}", "digest", "/internal/blobs/sha256:{}", false, nil, nil),
			httpOp("POST", "/internal/blobs/{digest}/metainfo", "digest", "/internal/blobs/sha256:{}/metainfo?piece_length=4", false, nil, nil),
			httpOp("HEAD", "/internal/namespace/{namespace}/blobs/{digest}", "digest", "/internal/namespace/ns/blobs/sha256:{}", false, nil, nil),
			httpOp("GET", "/internal/namespace/{namespace}/blobs/{digest}/metainfo", "digest", "/internal/namespace/ns/blobs/sha256:{}/metainfo", false, nil, nil),
			// namespace / remote
			httpOp("GET", "/namespace/{namespace}/blobs/{digest}", "namespace", "/namespace/{}/blobs/"+dg, false, nil, nil),
			httpOp("HEAD", "/internal/namespace/{namespace}/blobs/{digest}", "namespace", "/internal/namespace/{}/blobs/"+dg, false, nil, nil),
			httpOp("PUT", "/namespace/{namespace}/blobs/{digest}/uploads/{uid}", "namespace", "/namespace/{}/blobs/"+dg+"/uploads/a", false, nil, nil),
			httpOp("POST", "/namespace/{namespace}/blobs/{digest}/remote/{remote}", "remote", "/namespace/ns/blobs/"+dg+"/remote/{}", false, nil, nil),
		},
	}
}

func directOp(label string, stores bool, f func(sb *sandbox, name string) ([]byte, error)) op {
	return op{label: label, stores: stores, run: func(sb *sandbox, p string) opResult {
		b, err := f(sb, p)
		res := opResult{status: 200, body: b, routed: true, name: p, input: fmt.Sprintf("%s(%q)", label, p)}
		if err != nil {
			res.status = 500
			res.body = []byte(err.Error())
		}
		return res
	}}
}

func readAllClose(r io.ReadCloser, err error) ([]byte, error) {
	if err != nil {
		return nil, err
	}
	defer r.Close()
	return io.ReadAll(r)
}

func simpleStoreSurface() *surface {
	return &surface{
		name: "SimpleStore",
		build: func(sb *sandbox, planted bool) error {
			if err := buildSimple(sb); err != nil {
				return err
			}
			return prestoreTagA(sb)
		},
		prestore: map[string]bool{"a": true},
		ops: []op{
			directOp("SimpleStore.CreateCacheFile", true, func(sb *sandbox, n string) ([]byte, error) {
				return nil, sb.simple.CreateCacheFile(n, strings.NewReader(tagDigest.String()))
			}),
			directOp("SimpleStore.GetCacheFileReader", false, func(sb *sandbox, n string) ([]byte, error) {
				r, err := sb.simple.GetCacheFileReader(n)
				return readAllClose(r, err)
			}),
			directOp("SimpleStore.GetCacheFileStat", false, func(sb *sandbox, n string) ([]byte, error) {
				_, err := sb.simple.GetCacheFileStat(n)
				return nil, err
			}),
			directOp("SimpleStore.SetCacheFileMetadata", false, func(sb *sandbox, n string) ([]byte, error) {
				_, err := sb.simple.SetCacheFileMetadata(n, metadata.NewPersist(true))
				return nil, err
			}),
			directOp("SimpleStore.DeleteCacheFile", false, func(sb *sandbox, n string) ([]byte, error) {
				return nil, sb.simple.DeleteCacheFile(n)
			}),
		},
	}
}

func casStoreSurface() *surface {
	return &surface{
		name:     "CAStore",
		build:    func(sb *sandbox, planted bool) error { return buildCAS(sb) },
		prestore: map[string]bool{"a": true},
		ops: []op{
			directOp("CAStore.CreateUploadFile", true, func(sb *sandbox, n string) ([]byte, error) {
				return nil, sb.cas.CreateUploadFile(n, 0)
			}),
			directOp("CAStore.GetUploadFileReadWriter+Write", false, func(sb *sandbox, n string) ([]byte, error) {
				w, err := sb.cas.GetUploadFileReadWriter(n)
				if err != nil {
					return nil, err
				}
				defer w.Close()
				_, err = w.Write([]byte("X"))
				return nil, err
			}),
			directOp("CAStore.GetUploadFileReader", false, func(sb *sandbox, n string) ([]byte, error) {
				r, err := sb.cas.GetUploadFileReader(n)
				return readAllClose(r, err)
			}),
			directOp("CAStore.GetUploadFileStat", false, func(sb *sandbox, n string) ([]byte, error) {
				_, err := sb.cas.GetUploadFileStat(n)
				return nil, err
			}),
			directOp("CAStore.SetUploadFileMetadata", false, func(sb *sandbox, n string) ([]byte, error) {
				return nil, sb.cas.SetUploadFileMetadata(n, metadata.NewPersist(false))
			}),
			directOp("CAStore.MoveUploadFileToCache", false, func(sb *sandbox, n string) ([]byte, error) {
				return nil, sb.cas.MoveUploadFileToCache(n, blobADigest.Hex())
			}),
			directOp("CAStore.DeleteUploadFile", false, func(sb *sandbox, n string) ([]byte, error) {
				return nil, sb.cas.DeleteUploadFile(n)
			}),
		},
	}
}

func uploadPath(id, rest string) string {
	return "/docker/registry/v2/repositories/repo/_uploads/" + id + "/" + rest
}

func driverOp(label string, stores bool, rest string, f func(sb *sandbox, path string) ([]byte, error)) op {
	return op{label: label, stores: stores, run: func(sb *sandbox, p string) opResult {
		path := uploadPath(p, rest)
		res := opResult{status: 200, input: fmt.Sprintf("%s(%q)", label, path)}
		if id, err := dockerregistry.GetUploadUUID(path); err == nil {
			res.routed, res.name = true, id
		}
		b, err := f(sb, path)
		res.body = b
		if err != nil {
			res.status = 500
			res.body = []byte(err.Error())
		}
		return res
	}}
}

func proxyDriverSurface() *surface {
	ctx := context.Background()
	blobPath := fmt.Sprintf("/docker/registry/v2/blobs/sha256/%s/%s/data", blobADigest.Hex()[:2], blobADigest.Hex())
	return &surface{
		name: "proxy-driver", build: buildProxyDriver,
		prestore: map[string]bool{"a": true},
		ops: []op{
			driverOp("StorageDriver.PutContent startedat", true, "startedat", func(sb *sandbox, p string) ([]byte, error) {
				return nil, sb.driver.PutContent(ctx, p, nil)
			}),
			driverOp("StorageDriver.GetContent startedat", false, "startedat", func(sb *sandbox, p string) ([]byte, error) {
				return sb.driver.GetContent(ctx, p)
			}),
			driverOp("StorageDriver.Writer data", false, "data", func(sb *sandbox, p string) ([]byte, error) {
				w, err := sb.driver.Writer(ctx, p, true)
				if err != nil {
					return nil, err
				}
				defer w.Close()
				_, err = w.Write([]byte("X"))
				return nil, err
			}),
			driverOp("StorageDriver.Reader data", false, "data", func(sb *sandbox, p string) ([]byte, error) {
				r, err := sb.driver.Reader(ctx, p, 0)
				return readAllClose(r, err)
			}),
			driverOp("StorageDriver.Stat data", false, "data", func(sb *sandbox, p string) ([]byte, error) {
				_, err := sb.driver.Stat(ctx, p)
				return nil, err
			}),
			driverOp("StorageDriver.List hashstates", false, "hashstates", func(sb *sandbox, p string) ([]byte, error) {
				l, err := sb.driver.List(ctx, p)
				return []byte(strings.Join(l, "\n")), err
			}),
			driverOp("StorageDriver.Move data->blob", false, "data", func(sb *sandbox, p string) ([]byte, error) {
				return nil, sb.driver.Move(ctx, p, blobPath)
			}),
		},
	}
}

// ---------------------------------------------------------------------------
// enumeration

var tokens = []string{".", "/", "a", "%2e", "%2f", "%25", "..", "\\"}

// siblingTokens is a second, smaller alphabet that can spell names which
// resolve to SIBLINGS of the store directories whose names start with a store
// directory's own base name ("../cachea/a": a containment check by string prefix
// without a separator boundary accepts those).
var siblingTokens = []string{"..", "/", "cache", "upload", "a", "%2f"}

// traversalTokens spells names that climb out of a store directory and then
// name a planted victim plus one more path segment (an operation that acts on
// the PARENT of the named entry, e.g. pruning empty directories, hits the
// victim itself).
var traversalTokens = []string{"../", "..%2f", "a/a", "aa/a", "a%2fa", "aa%2fa"}

// params returns every distinct string of <= maxLen tokens, plus the
// percent-encoded form of each (url.PathEscape), sorted.
func params(maxLen int) (all []string, nSeq int) {
	set := map[string]struct{}{}
	var alphabet []string
	var rec func(prefix string, depth int)
	rec = func(prefix string, depth int) {
		if depth > 0 {
			nSeq++
			set[prefix] = struct{}{}
			set[url.PathEscape(prefix)] = struct{}{}
		}
		if depth == maxLen {
			return
		}
		for _, t := range alphabet {
			rec(prefix+t, depth+1)
		}
	}
	alphabet = tokens
	rec("", 0)
	full := maxLen
	alphabet = siblingTokens
	if maxLen > 4 {
		maxLen = 4 // the sibling family is only needed up to "../cachea/a"-like names
	}
	rec("", 0)
	// traversal family: compound tokens, so that "<k levels up>/<victim>/<one
	// more segment>" (the victims `a` and `aa` planted beside and above the store
	// directories) is reachable within the bound: "../../aa/a" is 3 tokens,
	// "../../../a/a" (the highest planted level) is 4.
	alphabet = traversalTokens
	maxLen = 3
	if full > 4 {
		maxLen = 4
	}
	rec("", 0)
	for s := range set {
		all = append(all, s)
	}
	sort.Strings(all)
	return
}

// ordinaryTokens spell the names clients normally send: flat names, the
// pre-stored name `a`, and nested names ("a/b", "a/b/a" -- tags of the form
// repo/image:tag), sent with an escaped separator.
var ordinaryTokens = []string{"a", "b", "%2f"}

// configParams returns the sub-alphabet of names used against every store
// directory configuration: all sequences of <= hostileLen hostile tokens, all
// sequences of <= 3 ordinary tokens, all sequences of <= 2 traversal tokens,
// each raw and percent-encoded once more, plus two well-formed hex digests (the
// digest of the upload in progress and a different one).
func configParams(hostileLen int) (all []string, nSeq int) {
	set := map[string]struct{}{}
	var alphabet []string
	var maxLen int
	var rec func(prefix string, depth int)
	rec = func(prefix string, depth int) {
		if depth > 0 {
			nSeq++
			set[prefix] = struct{}{}
			set[url.PathEscape(prefix)] = struct{}{}
		}
		if depth == maxLen {
			return
		}
		for _, t := range alphabet {
			rec(prefix+t, depth+1)
		}
	}
	alphabet, maxLen = tokens, hostileLen
	rec("", 0)
	alphabet, maxLen = ordinaryTokens, 3
	rec("", 0)
	alphabet, maxLen = traversalTokens, 2
	rec("", 0)
	for _, h := range []string{blobADigest.Hex(), tagDigest.Hex()} {
		nSeq++
		set[h] = struct{}{}
	}
	for s := range set {
		all = append(all, s)
	}
	sort.Strings(all)
	return
}

// storeCfgs returns the configurations of the configuration phase: both
// layouts x every spelling, upload and cache directory spelled the same way
// (quick) or independently (thorough: the full product).
func storeCfgs(product bool) []*storeCfg {
	var out []*storeCfg
	for _, l := range []layout{flatLayout, nestedLayout} {
		for _, us := range spellings {
			for _, cs := range spellings {
				if !product && us.name != cs.name {
					continue
				}
				out = append(out, &storeCfg{l, us, cs})
			}
		}
	}
	return out
}

// names for the direct store calls: the strings themselves and what they
// unescape to (what a handler would pass on).
func directNames(ps []string) []string {
	set := map[string]struct{}{}
	for _, p := range ps {
		set[p] = struct{}{}
		if v, err := url.PathUnescape(p); err == nil && v != "" {
			set[v] = struct{}{}
		}
	}
	var out []string
	for s := range set {
		out = append(out, s)
	}
	sort.Strings(out)
	return out
}

// ---------------------------------------------------------------------------
// oracle

type verdict struct {
	outside  []change
	reads    []string // files outside the store directories that were opened / read
	leaks    []string
	unstored bool
	insideN  int
	after    snapshot // tree after the request (only when something mutated)
	rootGone bool     // a store directory itself was removed or replaced
	changed  bool
	// the request mutated something and left no entry in the upload directory
	uploadEmpty bool
}

// A store directory is not a file inside itself: removing it removes an entry
// of its parent directory, which is outside the store.
func (v verdict) bad() bool {
	return len(v.outside) > 0 || len(v.leaks) > 0 || len(v.reads) > 0 || v.unstored || v.rootGone
}

func (v verdict) class() string {
	var parts []string
	kinds := map[string]bool{}
	for _, c := range v.outside {
		kinds[c.Op] = true
	}
	for _, k := range []string{"create", "modify", "delete"} {
		if kinds[k] {
			parts = append(parts, map[string]string{"create": "creates", "modify": "modifies", "delete": "deletes"}[k])
		}
	}
	if len(v.leaks) > 0 || len(v.reads) > 0 {
		parts = append(parts, "reads")
	}
	if len(parts) > 0 {
		return strings.Join(parts, "+") + " files outside the store directories"
	}
	if v.rootGone {
		return classRootGone
	}
	if v.unstored {
		return "answers success without storing the name inside the store directory"
	}
	return ""
}

func judge(sf *surface, o *op, sb *sandbox, res opResult) (verdict, error) {
	var v verdict
	evs, overflow, err := sb.drain()
	if err != nil {
		return v, err
	}
	mutated := overflow
	readSet := map[string]bool{}
	for _, e := range evs {
		if e.mask&mutMask != 0 {
			mutated = true
		}
		if e.mask&readMask != 0 && e.mask&syscall.IN_ISDIR == 0 && !sb.inside(e.rel) && !sb.isRoot(e.rel) {
			readSet[e.rel] = true
		}
	}
	for r := range readSet {
		v.reads = append(v.reads, r)
	}
	sort.Strings(v.reads)
	newFile := false
	if mutated {
		after, err := takeSnapshot(sb.parent, sb.base)
		if err != nil {
			return v, err
		}
		v.after = after
		v.outside, v.insideN, newFile, v.rootGone = diff(&sb.cfg.lay, sb.base, after)
		v.uploadEmpty = true
		for p := range after {
			if strings.HasPrefix(p, sb.cfg.lay.upRel+"/") {
				v.uploadEmpty = false
				break
			}
		}
		v.changed = len(v.outside) > 0 || v.insideN > 0 || v.rootGone
		// the snapshot itself opened the changed files: forget those events
		if _, _, err := sb.drain(); err != nil {
			return v, err
		}
	}
	for _, s := range sb.secrets {
		if bytes.Contains(res.body, []byte(s)) {
			v.leaks = append(v.leaks, s)
		}
	}
	if o.stores && res.routed && res.status >= 200 && res.status < 300 && !newFile && !sf.prestore[res.name] && len(v.outside) == 0 {
		v.unstored = true
	}
	return v, nil
}

const classRootGone = "deletes the store directory itself"

// nameFingerprint is the fingerprint of a case that fails because of the name
// in the request: (surface, effect, name). When the only effect is that the
// store directory itself went away the name is not part of it: the name does
// not denote anything outside the store (every ordinary name that ends an
// upload reaches such a defect), so one class per surface.
func nameFingerprint(sf, class, name string) string {
	if class == classRootGone {
		return fmt.Sprintf("%s: %s", sf, class)
	}
	return fmt.Sprintf("%s: %s (name %q)", sf, class, shortName(name))
}

func shortName(n string) string {
	if len(n) > 12 {
		return n[:12] + "~"
	}
	return n
}

// ---------------------------------------------------------------------------
// driver

type violAgg struct {
	first map[string]interface{}
	n     int
	via   map[string]map[string]bool // route/call [variant] -> inputs
}

type counters struct {
	requests, routed, recycles, parseRejected, accepted, rejected, insideEffects, outsideEffects, leaks, unstored, rootGone, rebuilds, panics int64
	// configuration phase
	cfgRequests, cfgRouted, cfgAccepted, cfgInside, cfgUploadEmptied, cfgViolating int64
}

// cfgViol is one violating case of the configuration phase. Whether the
// configuration or the name is what makes it fail is decided after the run by
// comparing with the same case under the clean spelling of the same layout.
type cfgViol struct {
	sf, label, variant, input, name, class string
	cfg                                    *storeCfg
	detail                                 map[string]interface{}
}

func (c *cfgViol) caseKey(cfgName string) string {
	return strings.Join([]string{c.sf, c.label, c.variant, c.input, cfgName}, "\x00")
}

func main() {
	run := evid.New("C11", "exploration")
	maxLen := 4
	hostileLen := 2
	budget := 240 * time.Second
	if run.Thorough() {
		maxLen = 5
		budget = 14 * time.Minute
	}
	ps, nSeq := params(maxLen)
	names := directNames(ps)
	cps, cSeq := configParams(hostileLen)
	cnames := directNames(cps)
	cfgs := storeCfgs(run.Thorough())
	cfgVariants := []bool{true}
	cfgVariantText := "planted sandbox"
	if run.Thorough() {
		cfgVariants = []bool{false, true}
		cfgVariantText = "bare and planted sandbox"
	}
	cfgProduct := "upload_dir and cache_dir spelled the same way"
	if run.Thorough() {
		cfgProduct = "upload_dir and cache_dir spelled independently (full product)"
	}
	run.Rule = fmt.Sprintf("(1) names: all %d token sequences of length 1..%d over {. / a %%2e %%2f %%25 .. \\} -> %d distinct URL parameter strings (each raw and url.PathEscape'd) substituted into every parameterised route of the real build-index tag server and origin blob server (ServeHTTP; {digest} parameters also with a leading `sha256:`), and %d distinct unescaped names passed to the SimpleStore/CAStore APIs and to the proxy storage driver's _uploads/<id> paths; every case is run in a bare and in a planted sandbox (files named `data`, and victims the alphabets can spell -- a regular file `a` and an empty directory `aa` -- beside, one and two levels above the store directories). (2) configurations: the same routes and calls with a sub-alphabet of %d sequences (<= %d hostile tokens, <= 3 tokens over the ordinary names {a b %%2f}, <= 2 traversal tokens, two well-formed hex digests; %d URL parameter strings, %d direct names) against stores built by the real constructors from %d configurations = {flat: <S>/upload + <S>/cache | nested: <S>/spoolu/deep/upload + <S>/spoolc/deep/cache, each alone under two otherwise empty directories} x spellings {clean, trailing slash, // inside, /./ inside, x/../ inside} of the configured directory strings (%s; %s). A case is counted distinct and non-trivial when the router/API delivered the string to the code under test: key = (surface, route or call, name as seen after unescaping[, configuration]).", nSeq, maxLen, len(ps), len(names), cSeq, hostileLen, len(cps), len(cnames), len(cfgs), cfgProduct, cfgVariantText)
	run.Assume("small-scope: names of at most " + fmt.Sprint(maxLen) + " tokens over the 8-token hostile alphabet plus all sequences of at most 4 tokens over {.. / cache upload a %2f} (names of siblings that share a store directory's base name as prefix) plus all sequences of at most 3 (quick) / 4 (thorough) compound tokens over {../ ..%2f a/a aa/a a%2fa aa%2fa} (climb k levels, name a planted victim, one more segment); longer names and other bytes (NUL, unicode, other percent escapes) are not enumerated")
	run.Assume("configurations: absolute directory strings only, five spellings of the same directory (clean, trailing slash, double slash, ./ segment, x/../ segment), two layouts; relative directories (would need a per-process working directory), symlinked directories and upload/cache directories nested inside one another are not enumerated; in the quick tier both directories use the same spelling and only the planted sandbox is used; one request per freshly built store (start state: build-index/SimpleStore with an empty upload directory and one cached tag `a`; origin/CAStore/proxy with one upload `a` in progress)")
	run.Assume("observer: before/after snapshot (path,type,size,mtime,sha256) of the whole parent tree of the store directories; creation/modification/deletion outside -- including removal of a store directory itself and of its ancestors -- is always seen, a pure read outside is seen only when its content reaches the response (sentinel contents are searched in every response body / returned byte slice)")
	run.Assume("remote services (storage backend, other origins, neighbours, write-back queue, tag replication) are fakes; names handed to them are not files of this server")
	run.Assume("HTTP layer modelled as net/http does: request target parsed by url.ParseRequestURI, no path cleaning before the chi router")
	run.Assume("agent server and the docker-distribution HTTP front of the proxy are not driven: the agent only uses validated digests as file names, the proxy is covered at its storage-driver boundary")

	surfaces := []*surface{buildIndexSurface(), originSurface(), simpleStoreSurface(), casStoreSurface(), proxyDriverSurface()}

	type task struct {
		sf      *surface
		planted bool
		cfg     *storeCfg
		phase2  bool
		inputs  []string
	}
	var tasks []task
	const chunk = 256
	addTasks := func(sf *surface, planted bool, cfg *storeCfg, phase2 bool, in []string) {
		for i := 0; i < len(in); i += chunk {
			j := i + chunk
			if j > len(in) {
				j = len(in)
			}
			tasks = append(tasks, task{sf, planted, cfg, phase2, in[i:j]})
		}
	}
	// the configuration phase is the smaller one: it goes first so that the time
	// budget can only cut the name phase
	for _, cfg := range cfgs {
		for _, sf := range surfaces {
			in := cnames
			if sf.http {
				in = cps
			}
			for _, planted := range cfgVariants {
				addTasks(sf, planted, cfg, true, in)
			}
		}
	}
	for _, sf := range surfaces {
		in := names
		if sf.http {
			in = ps
		}
		for _, planted := range []bool{false, true} {
			addTasks(sf, planted, defaultCfg, false, in)
		}
	}

	var cnt counters
	var mu sync.Mutex
	opStats := map[string]map[string]int64{}  // op label -> outcome -> count
	cfgStats := map[string]map[string]int64{} // configuration -> outcome -> count
	deadline := time.Now().Add(budget)
	var timedOut atomic.Bool
	var next atomic.Int64
	var wg sync.WaitGroup
	sampleSeen := map[string]bool{}
	viols := map[string]*violAgg{}
	var cfgViols []*cfgViol
	var rootGoneCases []string

	variantName := func(p bool) string {
		if p {
			return "planted"
		}
		return "bare"
	}
	addViol := func(fp, via, input string, first map[string]interface{}) {
		ag := viols[fp]
		if ag == nil {
			ag = &violAgg{first: first, via: map[string]map[string]bool{}}
			viols[fp] = ag
		}
		ag.n++
		if ag.via[via] == nil {
			ag.via[via] = map[string]bool{}
		}
		ag.via[via][input] = true
	}

	worker := func() {
		defer wg.Done()
		// one inotify instance per worker (closing an instance is slow in the
		// kernel); every sandbox adds its own watches to it
		ifd, err := syscall.InotifyInit1(syscall.IN_NONBLOCK | syscall.IN_CLOEXEC)
		if err != nil {
			run.Fatal(fmt.Errorf("inotify_init: %v", err))
		}
		defer syscall.Close(ifd)
		local := map[string]map[string]int64{}
		localCfg := map[string]map[string]int64{}
		merge := func(dst, src map[string]map[string]int64) {
			for l, m := range src {
				if dst[l] == nil {
					dst[l] = map[string]int64{}
				}
				for k, v := range m {
					dst[l][k] += v
				}
			}
		}
		defer func() {
			mu.Lock()
			merge(opStats, local)
			merge(cfgStats, localCfg)
			mu.Unlock()
		}()
		for {
			i := int(next.Add(1)) - 1
			if i >= len(tasks) {
				return
			}
			if time.Now().After(deadline) {
				timedOut.Store(true)
				return
			}
			t := tasks[i]
			var sb *sandbox
			fresh := func() *sandbox {
				s, err := newSandbox(t.sf, t.planted, ifd, t.cfg)
				if err != nil {
					run.Fatal(err)
				}
				atomic.AddInt64(&cnt.rebuilds, 1)
				return s
			}
			for oi := range t.sf.ops {
				o := &t.sf.ops[oi]
				for _, p := range t.inputs {
					if sb == nil {
						sb = fresh()
					}
					res, v := execute(run, t.sf, o, sb, p, &cnt)
					atomic.AddInt64(&cnt.requests, 1)
					run.Eval(1)
					outcome := "rejected"
					switch {
					case !res.routed:
						outcome = "not-delivered"
					case v.bad():
						outcome = "VIOLATION"
					case res.status < 300 && v.insideN > 0:
						outcome = "accepted+inside-effect"
					case res.status < 300:
						outcome = "accepted"
					case v.insideN > 0:
						outcome = "rejected+inside-effect"
					}
					if t.phase2 {
						k := t.cfg.String()
						if localCfg[k] == nil {
							localCfg[k] = map[string]int64{}
						}
						localCfg[k][outcome]++
						atomic.AddInt64(&cnt.cfgRequests, 1)
						if v.after != nil && v.changed && v.uploadEmpty {
							atomic.AddInt64(&cnt.cfgUploadEmptied, 1)
						}
					} else {
						key := t.sf.name + " " + o.label
						if local[key] == nil {
							local[key] = map[string]int64{}
						}
						local[key][outcome]++
					}
					if res.routed {
						atomic.AddInt64(&cnt.routed, 1)
						dk := t.sf.name + "\x00" + o.label + "\x00" + res.name
						if t.phase2 {
							dk += "\x00" + t.cfg.String()
							atomic.AddInt64(&cnt.cfgRouted, 1)
						}
						h := sha256.Sum256([]byte(dk))
						run.Distinct(hex.EncodeToString(h[:9]))
						if res.status < 300 {
							atomic.AddInt64(&cnt.accepted, 1)
							if t.phase2 {
								atomic.AddInt64(&cnt.cfgAccepted, 1)
							}
						} else {
							atomic.AddInt64(&cnt.rejected, 1)
						}
					}
					if v.insideN > 0 {
						atomic.AddInt64(&cnt.insideEffects, 1)
						if t.phase2 {
							atomic.AddInt64(&cnt.cfgInside, 1)
						}
					}
					if v.rootGone {
						atomic.AddInt64(&cnt.rootGone, 1)
						mu.Lock()
						if len(rootGoneCases) < 20 {
							rootGoneCases = append(rootGoneCases, res.input+" ["+variantName(t.planted)+"; "+t.cfg.String()+"]")
						}
						mu.Unlock()
					}
					sk := t.sf.name + "|" + outcome
					if t.phase2 {
						sk += "|cfg"
					}
					mu.Lock()
					if !sampleSeen[sk] && res.routed {
						sampleSeen[sk] = true
						run.Sample(map[string]interface{}{"surface": t.sf.name, "variant": variantName(t.planted), "store_dirs": t.cfg.String(), "input": res.input, "name_seen_by_handler": res.name, "status": res.status, "outcome": outcome, "changes_inside_store": v.insideN})
					}
					mu.Unlock()
					if v.bad() {
						// reproduce on a fresh sandbox before reporting
						sb.close()
						sb = fresh()
						res2, v2 := execute(run, t.sf, o, sb, p, &cnt)
						if v2.class() != v.class() || res2.status != res.status {
							run.Fatal(fmt.Errorf("non-reproducible outcome for %s [%s; %s]: %q/%d then %q/%d", res.input, variantName(t.planted), t.cfg, v.class(), res.status, v2.class(), res2.status))
						}
						if len(v.outside) > 0 {
							atomic.AddInt64(&cnt.outsideEffects, 1)
						}
						if len(v.leaks) > 0 {
							atomic.AddInt64(&cnt.leaks, 1)
						}
						if v.unstored {
							atomic.AddInt64(&cnt.unstored, 1)
						}
						up, ca := sb.dirs()
						first := map[string]interface{}{
							"surface": t.sf.name, "sandbox": variantName(t.planted), "input": res.input,
							"store_dirs":        t.cfg.String(),
							"upload_dir_config": "<top>" + strings.TrimPrefix(up, sb.parent), "cache_dir_config": "<top>" + strings.TrimPrefix(ca, sb.parent),
							"name_after_unescape": res.name, "status": res.status, "response": truncate(string(res.body), 200),
							"changes_outside_store_dirs": v.outside, "files_outside_opened_or_read": v.reads, "sentinel_contents_in_response": v.leaks,
							"success_without_file_inside": v.unstored, "store_directory_itself_removed": v.rootGone,
						}
						mu.Lock()
						if t.phase2 {
							cnt.cfgViolating++
							cfgViols = append(cfgViols, &cfgViol{sf: t.sf.name, label: o.label, variant: variantName(t.planted), input: res.input, name: res.name, class: v.class(), cfg: t.cfg, detail: first})
						} else {
							fp := nameFingerprint(t.sf.name, v.class(), res.name)
							addViol(fp, o.label+" ["+variantName(t.planted)+" sandbox]", res.input, first)
						}
						mu.Unlock()
					}
					if v.changed || res.status == 599 || v.bad() {
						if res.status == 599 || v.bad() || !sb.recycle(t.sf, t.planted, v) {
							sb.close()
							sb = nil
						} else {
							atomic.AddInt64(&cnt.recycles, 1)
						}
					}
				}
			}
			if sb != nil {
				sb.close()
			}
		}
	}
	nw := evid.Workers()
	for w := 0; w < nw; w++ {
		wg.Add(1)
		go worker()
	}
	wg.Wait()

	// Configuration phase: a case that fails in the same way when the same
	// layout is configured in clean form fails because of its name and is
	// reported per name like the cases of the name phase; a case that only fails
	// (or fails differently) under a non-clean spelling, or only in the nested
	// layout, fails because of the configuration and is reported per (surface,
	// effect, kind of configuration) with every configuration, route and input
	// listed.
	sort.Slice(cfgViols, func(i, j int) bool {
		a, b := cfgViols[i], cfgViols[j]
		return a.caseKey(a.cfg.String()) < b.caseKey(b.cfg.String())
	})
	classOf := map[string]string{}
	for _, c := range cfgViols {
		classOf[c.caseKey(c.cfg.String())] = c.class
	}
	for _, c := range cfgViols {
		cleanCfg := &storeCfg{c.cfg.lay, spellings[0], spellings[0]}
		var fp string
		switch {
		case !c.cfg.clean() && classOf[c.caseKey(cleanCfg.String())] != c.class:
			fp = fmt.Sprintf("%s: %s [store directories configured in non-clean form, same request harmless with clean directory strings]", c.sf, c.class)
		case c.cfg.lay.name != flatLayout.name && classOf[c.caseKey(defaultCfg.String())] != c.class:
			fp = fmt.Sprintf("%s: %s [store directory alone under empty parent directories, same request harmless in the flat layout]", c.sf, c.class)
		default:
			fp = nameFingerprint(c.sf, c.class, c.name)
		}
		addViol(fp, c.label+" ["+c.variant+" sandbox; "+c.cfg.String()+"]", c.input, c.detail)
	}

	// one report per failure class, listing every route / call and input that reaches it
	var fps []string
	for fp := range viols {
		fps = append(fps, fp)
	}
	sort.Strings(fps)
	for _, fp := range fps {
		ag := viols[fp]
		via := map[string][]string{}
		for k, ins := range ag.via {
			for in := range ins {
				via[k] = append(via[k], in)
			}
			sort.Strings(via[k])
		}
		run.Violation(fp, map[string]interface{}{
			"layout":          "flat: <top>/g3/g2/sandbox/{upload,cache} are the store directories; nested: <top>/g3/g2/sandbox/spoolu/deep/upload and <top>/g3/g2/sandbox/spoolc/deep/cache; paths are relative to <top>",
			"example":         ag.first,
			"violating_cases": ag.n,
			"reached_through": via,
		})
	}
	sort.Strings(rootGoneCases)
	run.Set("store_root_removed_cases", rootGoneCases)
	if timedOut.Load() {
		run.NotExhaustive(fmt.Sprintf("time budget %s hit after %d requests", budget, cnt.requests))
	}

	run.Set("max_tokens", maxLen)
	run.Set("token_sequences", nSeq)
	run.Set("distinct_url_params", len(ps))
	run.Set("distinct_direct_names", len(names))
	run.Set("requests", cnt.requests)
	run.Set("delivered_to_code_under_test", cnt.routed)
	run.Set("delivered_accepted_2xx", cnt.accepted)
	run.Set("delivered_rejected", cnt.rejected)
	run.Set("requests_with_effect_inside_store", cnt.insideEffects)
	run.Set("requests_with_effect_outside_store", cnt.outsideEffects)
	run.Set("requests_leaking_sentinel_content", cnt.leaks)
	run.Set("requests_success_without_store", cnt.unstored)
	run.Set("requests_removing_a_store_root_dir", cnt.rootGone)
	run.Set("sandbox_builds", cnt.rebuilds)
	run.Set("sandbox_store_reinstantiations", cnt.recycles)
	run.Set("handler_panics", cnt.panics)
	run.Set("per_route_outcomes", opStats)
	run.Set("config_phase_configurations", len(cfgs))
	run.Set("config_phase_token_sequences", cSeq)
	run.Set("config_phase_url_params", len(cps))
	run.Set("config_phase_direct_names", len(cnames))
	run.Set("config_phase_requests", cnt.cfgRequests)
	run.Set("config_phase_delivered_to_code_under_test", cnt.cfgRouted)
	run.Set("config_phase_delivered_accepted_2xx", cnt.cfgAccepted)
	run.Set("config_phase_requests_with_effect_inside_store", cnt.cfgInside)
	run.Set("config_phase_requests_leaving_upload_dir_empty", cnt.cfgUploadEmptied)
	run.Set("config_phase_violating_cases", cnt.cfgViolating)
	run.Set("config_phase_outcomes_per_configuration", cfgStats)
	run.Set("workers", nw)
	run.Finish()
}

func truncate(s string, n int) string {
	if len(s) > n {
		return s[:n] + "..."
	}
	return s
}

// execute runs one op on sb and judges it. A panic inside kraken is not a C11
// matter (the property does not speak about it): it is counted and the case is
// treated as rejected, with the file-system oracle still applied.
func execute(run *evid.Run, sf *surface, o *op, sb *sandbox, p string, cnt *counters) (res opResult, v verdict) {
	func() {
		defer func() {
			if r := recover(); r != nil {
				atomic.AddInt64(&cnt.panics, 1)
				res = opResult{status: 599, body: []byte(fmt.Sprint("panic: ", r)), routed: true, name: p, input: o.label + " " + p}
			}
		}()
		res = o.run(sb, p)
	}()
	v, err := judge(sf, o, sb, res)
	if err != nil {
		run.Fatal(fmt.Errorf("snapshot after %s: %v", res.input, err))
	}
	return res, v
}
