// C06: the disk blob store restores its state after a crash at any point.
// E2: for every reachable store state (BFS over operation histories, dedup on
// the observable state) and every next operation, crash before EVERY mutating
// file-system primitive of that operation (process-crash model), reopen the
// store with the real recovery code and check the statement's clauses.
package main

import (
	"errors"
	"fmt"
	"io"
	"os"
	"path/filepath"
	"sort"
	"strings"
	"sync"
	"sync/atomic"
	"time"

	"github.com/uber-go/tally"
	storelib "github.com/uber/kraken/lib/store"
	"github.com/uber/kraken/lib/store/disk"
	"github.com/uber/kraken/lib/store/metadata"

	"verif/evid"
	_ "verif/quiet"
	"verif/shim/vos"
)

type cfg struct {
	reboot bool
	shard  int
	desc   bool // RemoveAll order descending
}

func (c cfg) String() string {
	return fmt.Sprintf("reboot=%v shard=%d rmdesc=%v", c.reboot, c.shard, c.desc)
}

const capacity = 4

var keys = []string{"aa11", "aa22", "bb33"}

func content(k string) []byte { return []byte(k[2:4]) } // 2 bytes, distinct per key

// kstate is the acknowledged state of one key (model).
type kstate struct {
	present  bool
	written  bool
	complete bool
	banned   bool
	md       string // "", "true", "false"
}

type model map[string]kstate

func (m model) clone() model {
	n := model{}
	for k, v := range m {
		n[k] = v
	}
	return n
}

func (m model) key(order []string) string {
	var b strings.Builder
	for _, k := range keys {
		s := m[k]
		fmt.Fprintf(&b, "%s:%v%v%v%v%s|", k, s.present, s.written, s.complete, s.banned, s.md)
	}
	b.WriteString(strings.Join(order, ","))
	return b.String()
}

func ops(m model) []string {
	var out []string
	for _, k := range keys {
		s := m[k]
		if !s.present {
			out = append(out, "create "+k)
			continue
		}
		if !s.complete {
			if !s.written {
				out = append(out, "write "+k)
			}
			out = append(out, "complete "+k)
		}
		out = append(out, "delete "+k)
		if k == "bb33" {
			continue // the third key only creates pressure
		}
		if s.banned {
			out = append(out, "unban "+k)
		} else {
			out = append(out, "ban "+k)
		}
		if s.md != "true" {
			out = append(out, "setmd "+k+" true")
		}
		if s.md != "false" {
			out = append(out, "setmd "+k+" false")
		}
		if s.md != "" {
			out = append(out, "delmd "+k)
		}
	}
	return out
}

func newStore(dir string, c cfg) (*disk.Store, error) {
	return disk.NewStore(&disk.Config{CapacityBytes: capacity, RootDir: dir, RebootIncompleteBlobs: c.reboot, ShardLength: c.shard}, tally.NoopScope)
}

// apply runs op on the real store. Errors of the operation itself are returned.
func apply(s *disk.Store, op string) error {
	f := strings.Fields(op)
	k := f[1]
	switch f[0] {
	case "create":
		h, err := s.Create(k, 2)
		if err != nil {
			return err
		}
		return h.Close()
	case "write":
		h, err := s.Open(k)
		if err != nil {
			return err
		}
		_, err = h.Write(content(k))
		h.Close()
		return err
	case "complete":
		return s.MarkComplete(k)
	case "delete":
		return s.Delete(k)
	case "ban":
		return s.BanEviction(k)
	case "unban":
		return s.UnbanEviction(k)
	case "setmd":
		return s.SetMetadata(k, metadata.NewPersist(f[2] == "true"))
	case "delmd":
		return s.DeleteMetadata(k, metadata.NewPersist(false).GetSuffix())
	}
	return fmt.Errorf("unknown op %q", op)
}

// observe dumps what the public API shows for every key.
type obs struct {
	listed   bool
	complete bool
	bytes    string
	banned   bool
	md       string
	mdErr    string
	size     uint64
}

func observe(s *disk.Store) (map[string]obs, error) {
	out := map[string]obs{}
	listed := map[string]bool{}
	for _, k := range s.List() {
		listed[k] = true
	}
	comp := map[string]bool{}
	for _, k := range s.ScopeComplete().List() {
		comp[k] = true
	}
	for _, k := range keys {
		o := obs{listed: listed[k], complete: comp[k]}
		if o.listed {
			h, err := s.Open(k)
			if err != nil {
				return nil, fmt.Errorf("listed key %s cannot be opened: %v", k, err)
			}
			b, _ := io.ReadAll(h)
			h.Close()
			o.bytes = string(b)
			o.banned, _ = s.VerifBanned(k)
			o.size, _ = s.VerifBlobSize(k)
			var p metadata.Persist
			ok, err := s.GetMetadata(k, &p)
			if err != nil {
				o.mdErr = err.Error()
			} else if ok {
				o.md = fmt.Sprint(p.Value)
			}
		}
		out[k] = o
	}
	return out, nil
}

// lruOrder returns complete, unbanned keys in eviction order by evicting them
// one by one on a throw-away copy? Not needed: the model key only needs to
// distinguish orders that change future behaviour; we record the order in
// which keys became evictable (complete/unban/open), maintained by the driver.
type node struct {
	hist  []string
	m     model
	order []string // eviction order as the model tracks it (front = next to evict)
}

func removeFrom(order []string, k string) []string {
	var o []string
	for _, x := range order {
		if x != k {
			o = append(o, x)
		}
	}
	return o
}

// step applies op to the model GIVEN what the implementation did (post-state
// observation) — a relation model: evictions are whatever the implementation
// evicted, they must be complete+unbanned keys (LRU order itself is C07's job).
func step(n node, op string, post map[string]obs, opErr error) (node, error) {
	m := n.m.clone()
	order := append([]string{}, n.order...)
	f := strings.Fields(op)
	k := f[1]
	if opErr != nil {
		// only a create that cannot fit may fail
		if f[0] == "create" && strings.Contains(opErr.Error(), "cannot free enough space") {
			// may have evicted nothing or some keys; follow the implementation
		} else {
			return n, fmt.Errorf("op %q failed unexpectedly: %v", op, opErr)
		}
	} else {
		s := m[k]
		switch f[0] {
		case "create":
			s = kstate{present: true}
		case "write":
			s.written = true
		case "complete":
			s.complete = true
			if !s.banned {
				order = append(removeFrom(order, k), k)
			}
		case "delete":
			s = kstate{}
			order = removeFrom(order, k)
		case "ban":
			s.banned = true
			order = removeFrom(order, k)
		case "unban":
			s.banned = false
			if s.complete {
				order = append(removeFrom(order, k), k)
			}
		case "setmd":
			s.md = f[2]
		case "delmd":
			s.md = ""
		}
		m[k] = s
	}
	// evictions: keys the model has but the implementation no longer lists
	for _, x := range keys {
		if m[x].present && !post[x].listed {
			if !(m[x].complete && !m[x].banned) || f[0] != "create" {
				return n, fmt.Errorf("after %q key %s vanished but was not evictable (model %+v)", op, x, m[x])
			}
			m[x] = kstate{}
			order = removeFrom(order, x)
		}
	}
	if f[0] == "write" { // Open moves to back only for complete blobs; writes are to incomplete ones
	}
	return node{hist: append(append([]string{}, n.hist...), op), m: m, order: order}, nil
}

type violation struct {
	fp     string
	detail map[string]interface{}
}

// checkRecovered evaluates the statement on a store reopened after a crash
// inside `op` (applied to acknowledged state pre; post = acknowledged state had
// op completed; targets = keys op may legitimately have changed).
func checkRecovered(c cfg, dir string, pre, post model, op string, evictable map[string]bool) (string, string) {
	pristine := ""
	if c.reboot {
		// keep a copy of the crash image: the life-after-recovery continuations
		// (one per restored incomplete blob) each start from the image itself
		pristine = filepath.Join(filepath.Dir(dir), "image")
		os.RemoveAll(pristine)
		if err := copyTree(dir, pristine); err != nil {
			pristine = "" // image has no store directory yet (crash before it was made): nothing can be restored from it
		}
	}
	s, err := newStore(dir, c)
	if err != nil {
		return "reopen fails after crash in " + opKind(op), fmt.Sprintf("NewStore: %v", err)
	}
	got, err := observe(s)
	if err != nil {
		return "listed blob unreadable after crash in " + opKind(op), err.Error()
	}
	f := strings.Fields(op)
	target := f[1]
	var sum uint64
	for _, k := range keys {
		g := got[k]
		a, b := pre[k], post[k]
		if g.listed {
			sum += g.size
		}
		isTarget := k == target || (f[0] == "create" && evictable[k])
		// clause: nothing incomplete is reported complete
		if g.complete {
			okPre := a.present && a.complete
			okPost := b.present && b.complete && k == target
			if !okPre && !okPost {
				return "incomplete blob reported complete after crash in " + opKind(op), fmt.Sprintf("key %s listed complete; acknowledged state %+v", k, a)
			}
			if g.bytes != string(content(k)) && (a.written || b.written) {
				return "complete blob has wrong bytes after crash in " + opKind(op), fmt.Sprintf("key %s bytes %q", k, g.bytes)
			}
			if !(a.written || b.written) && g.bytes != "" {
				return "complete blob has wrong bytes after crash in " + opKind(op), fmt.Sprintf("key %s (never written) bytes %q", k, g.bytes)
			}
		}
		// clause: every blob completed before the crash is listed with bytes, ban, metadata
		if a.present && a.complete && !isTarget {
			if !g.listed || !g.complete {
				return "completed blob lost after crash in " + opKind(op), fmt.Sprintf("key %s (not targeted by the in-flight op) listed=%v complete=%v", k, g.listed, g.complete)
			}
			if g.banned != a.banned {
				return "eviction ban of completed blob not restored after crash in " + opKind(op), fmt.Sprintf("key %s banned=%v want %v", k, g.banned, a.banned)
			}
			if g.mdErr != "" || g.md != a.md {
				return "metadata of completed blob not restored after crash in " + opKind(op), fmt.Sprintf("key %s md=%q err=%q want %q", k, g.md, g.mdErr, a.md)
			}
		}
		if a.present && a.complete && isTarget && g.listed {
			// in-flight op on a completed blob: each attribute is the old or the new value
			if !g.complete {
				return "completed blob reported incomplete after crash in " + opKind(op), fmt.Sprintf("key %s", k)
			}
			if g.banned != a.banned && g.banned != b.banned {
				return "eviction ban neither old nor new after crash in " + opKind(op), fmt.Sprintf("key %s banned=%v", k, g.banned)
			}
			if g.mdErr != "" || (g.md != a.md && g.md != b.md) {
				return "metadata neither old nor new after crash in " + opKind(op), fmt.Sprintf("key %s md=%q err=%q old %q new %q", k, g.md, g.mdErr, a.md, b.md)
			}
		}
		if a.present && a.complete && isTarget && !g.listed && f[0] != "delete" && f[0] != "create" {
			return "completed blob lost after crash in " + opKind(op), fmt.Sprintf("key %s vanished though the in-flight op %q does not delete", k, op)
		}
		// clause: incomplete blobs restored with reserved size or dropped as configured:
		// with reboot of incomplete blobs ON, an incomplete blob whose Create had
		// returned must still be there (incomplete, or complete when the in-flight
		// operation is its own MarkComplete) unless the in-flight operation deletes it.
		if c.reboot && a.present && !a.complete && !g.listed && !(k == target && f[0] == "delete") {
			return "incomplete blob dropped although reboot of incomplete blobs is on (crash in " + opKind(op) + ")", fmt.Sprintf("key %s created before the crash is gone after reopen", k)
		}
		if g.listed && !g.complete {
			if !c.reboot {
				return "incomplete blob kept although reboot of incomplete blobs is off", fmt.Sprintf("key %s after crash in %s", k, op)
			}
			if g.size != 2 {
				return "incomplete blob restored with wrong reserved size after crash in " + opKind(op), fmt.Sprintf("key %s size %d want 2", k, g.size)
			}
			if !((a.present && !a.complete) || (b.present && k == target)) {
				return "unknown incomplete blob appears after crash in " + opKind(op), fmt.Sprintf("key %s", k)
			}
		}
	}
	size, capa := s.VerifSize()
	if size != sum || size > capa {
		return "accounting inconsistent after reopen (crash in " + opKind(op) + ")", fmt.Sprintf("size=%d sum(listed)=%d capacity=%d", size, sum, capa)
	}
	// life after recovery: every restored incomplete blob is completed after the
	// restart, put under eviction pressure and taken through one more restart
	if c.reboot {
		for _, k := range keys {
			if got[k].listed && !got[k].complete && !(k == target && f[0] == "delete") {
				if pristine == "" {
					panic("harness: blob restored from an image without store directory")
				}
				if fp, msg := continueLife(c, pristine, filepath.Join(filepath.Dir(dir), "life-"+k), k, pre, post, op); fp != "" {
					return fp, msg
				}
			}
		}
	}
	// clause: every key can be created and completed again afterwards
	for _, k := range keys {
		if got[k].listed {
			if err := s.Delete(k); err != nil {
				return "cannot delete key after reopen (crash in " + opKind(op) + ")", fmt.Sprintf("Delete(%s): %v", k, err)
			}
		}
	}
	for _, k := range keys[:2] {
		h, err := s.Create(k, 2)
		if err != nil {
			return "key cannot be created again after reopen (crash in " + opKind(op) + ")", fmt.Sprintf("Create(%s): %v", k, err)
		}
		h.Write(content(k))
		h.Close()
		if err := s.MarkComplete(k); err != nil {
			return "key cannot be completed again after reopen (crash in " + opKind(op) + ")", fmt.Sprintf("MarkComplete(%s): %v", k, err)
		}
		h2, err := s.Open(k)
		if err != nil {
			return "re-created key unreadable (crash in " + opKind(op) + ")", err.Error()
		}
		b, _ := io.ReadAll(h2)
		h2.Close()
		if string(b) != string(content(k)) {
			return "re-created key has wrong bytes (crash in " + opKind(op) + ")", fmt.Sprintf("%s: %q", k, b)
		}
	}
	return "", ""
}

var contCases, contBanned, contEvicting, contFull int64

// banWanted returns the eviction-ban values the acknowledged history allows for
// key k after a crash inside op: the acknowledged one, or for the key the
// in-flight operation works on the old or the new one.
func banWanted(k string, pre, post model, op string) map[bool]bool {
	f := strings.Fields(op)
	w := map[bool]bool{}
	if pre[k].present {
		w[pre[k].banned] = true
	}
	if k == f[1] {
		if post[k].present {
			w[post[k].banned] = true
		}
		if f[0] == "delete" { // half-removed blob directory: the flag file may already be gone
			w[true], w[false] = true, true
		}
	}
	return w
}

// continueLife starts from the crash image (copied to dir), reopens the store,
// completes the restored incomplete blob k ("every key can be ... completed
// again"), then creates every absent key in key order (eviction pressure: the
// store holds 2 blobs) and restarts once more. Clauses: the blob completes with
// its acknowledged bytes and eviction ban; a blob whose ban was acknowledged is
// never evicted; the further restart restores the same ban.
func continueLife(c cfg, image, dir, k string, pre, post model, op string) (string, string) {
	os.RemoveAll(dir)
	if err := copyTree(image, dir); err != nil {
		panic(fmt.Sprintf("harness: copy crash image: %v", err))
	}
	defer os.RemoveAll(dir)
	at := " (restored incomplete blob, crash in " + opKind(op) + ")"
	s, err := newStore(dir, c)
	if err != nil {
		return "reopen fails after crash in " + opKind(op), fmt.Sprintf("NewStore on a copy of the crash image: %v", err)
	}
	atomic.AddInt64(&contCases, 1)
	want := banWanted(k, pre, post, op)
	if b, ok := s.VerifBanned(k); !ok || !want[b] {
		return "eviction ban of restored incomplete blob not restored" + at, fmt.Sprintf("key %s banned=%v (known=%v) allowed %v", k, b, ok, want)
	}
	if err := s.MarkComplete(k); err != nil {
		return "restored incomplete blob cannot be completed after reopen" + at, fmt.Sprintf("MarkComplete(%s): %v", k, err)
	}
	got, err := observe(s)
	if err != nil {
		return "listed blob unreadable after completing a restored blob" + at, err.Error()
	}
	if !got[k].listed || !got[k].complete {
		return "restored incomplete blob not complete after MarkComplete" + at, fmt.Sprintf("key %s listed=%v complete=%v", k, got[k].listed, got[k].complete)
	}
	if pre[k].written && got[k].bytes != string(content(k)) {
		return "restored incomplete blob completed with wrong bytes" + at, fmt.Sprintf("key %s bytes %q", k, got[k].bytes)
	}
	if !want[got[k].banned] {
		return "eviction ban lost by completing a restored incomplete blob" + at, fmt.Sprintf("key %s banned=%v allowed %v", k, got[k].banned, want)
	}
	// keys whose ban is decided by the acknowledged history and is ON
	mustStay := map[string]bool{}
	for _, y := range keys {
		w := banWanted(y, pre, post, op)
		if got[y].listed && w[true] && !w[false] {
			mustStay[y] = true
		}
	}
	if mustStay[k] {
		atomic.AddInt64(&contBanned, 1)
	}
	for _, x := range keys {
		if got[x].listed {
			continue
		}
		before := len(s.List())
		h, err := s.Create(x, 2)
		if err != nil {
			if !strings.Contains(err.Error(), "cannot free enough space") {
				return "key cannot be created after completing a restored blob" + at, fmt.Sprintf("Create(%s): %v", x, err)
			}
			atomic.AddInt64(&contFull, 1)
		} else {
			h.Close()
			if len(s.List()) <= before {
				atomic.AddInt64(&contEvicting, 1)
			}
		}
		listed := map[string]bool{}
		for _, y := range s.List() {
			listed[y] = true
		}
		for y := range mustStay {
			if !listed[y] {
				return "blob banned from eviction was evicted" + at, fmt.Sprintf("key %s (ban acknowledged before the crash) vanished during Create(%s) after the restart; completed key %s", y, x, k)
			}
		}
	}
	// one more (clean) restart: the completed blob keeps the ban it had
	s2, err := newStore(dir, c)
	if err != nil {
		return "reopen fails after completing a restored blob" + at, fmt.Sprintf("NewStore: %v", err)
	}
	got2, err := observe(s2)
	if err != nil {
		return "listed blob unreadable after completing a restored blob" + at, err.Error()
	}
	if g := got2[k]; g.listed {
		if !g.complete {
			return "completed blob reported incomplete after restart" + at, fmt.Sprintf("key %s", k)
		}
		if !want[g.banned] || g.banned != got[k].banned {
			return "eviction ban of completed restored blob changes over a restart" + at, fmt.Sprintf("key %s banned=%v before restart %v allowed %v", k, g.banned, got[k].banned, want)
		}
	} else if mustStay[k] {
		return "completed blob lost after restart" + at, fmt.Sprintf("key %s", k)
	}
	return "", ""
}

// copyTree copies a directory tree (regular files and directories) with the real os package.
func copyTree(src, dst string) error {
	return filepath.Walk(src, func(p string, info os.FileInfo, err error) error {
		if err != nil {
			return err
		}
		rel, _ := filepath.Rel(src, p)
		t := filepath.Join(dst, rel)
		if info.IsDir() {
			return os.MkdirAll(t, 0o755)
		}
		b, err := os.ReadFile(p)
		if err != nil {
			return err
		}
		if err := os.WriteFile(t, b, info.Mode().Perm()); err != nil {
			return err
		}
		return os.Chtimes(t, info.ModTime(), info.ModTime())
	})
}

func opKind(op string) string {
	f := strings.Fields(op)
	if f[0] == "setmd" {
		return "SetMetadata"
	}
	return map[string]string{"create": "Create", "write": "write", "complete": "MarkComplete", "delete": "Delete", "ban": "BanEviction", "unban": "UnbanEviction", "delmd": "DeleteMetadata"}[f[0]]
}

// replayTo builds a fresh dir + store and replays hist without crash control.
func replayTo(c cfg, hist []string) (string, *disk.Store, error) {
	dir, err := os.MkdirTemp("", "c06-")
	if err != nil {
		return "", nil, err
	}
	s, err := newStore(dir+"/store", c)
	if err != nil {
		return dir, nil, err
	}
	for _, op := range hist {
		if err := apply(s, op); err != nil && !strings.Contains(err.Error(), "cannot free enough space") {
			return dir, nil, fmt.Errorf("replay %q: %v", op, err)
		}
	}
	return dir, s, nil
}

type result struct {
	next      []node
	crashes   int
	recovers  int
	vios      []violation
	prims     []string
	err       error
	transits  int
	doubleCnt int
}

// expand handles one node: every op, every crash point (and in thorough mode
// every second crash point during recovery).
func expand(c cfg, n node, double bool) result {
	var r result
	for _, op := range ops(n.m) {
		// 1. reference run without crash: count primitives, observe post state
		dir, s, err := replayTo(c, n.hist)
		if err != nil {
			r.err = err
			os.RemoveAll(dir)
			return r
		}
		ctl := vos.Register(dir, 0)
		ctl.RemoveDesc = c.desc
		opErr := apply(s, op)
		ctl.Unregister()
		nprim := ctl.N()
		log := ctl.Log()
		post, err := observe(s)
		os.RemoveAll(dir)
		if err != nil {
			r.err = err
			return r
		}
		nn, err := step(n, op, post, opErr)
		if err != nil {
			r.err = fmt.Errorf("history %v: %v", n.hist, err)
			return r
		}
		r.transits++
		r.next = append(r.next, nn)
		if len(r.prims) < 3 && nprim > 1 {
			r.prims = append(r.prims, op+": "+strings.Join(log, " ; "))
		}
		evictable := map[string]bool{}
		for _, k := range keys {
			if n.m[k].present && n.m[k].complete && !n.m[k].banned {
				evictable[k] = true
			}
		}
		// 2. every crash point
		for k := 1; k <= nprim; k++ {
			dir, s, err := replayTo(c, n.hist)
			if err != nil {
				r.err = err
				os.RemoveAll(dir)
				return r
			}
			ctl := vos.Register(dir, k)
			ctl.RemoveDesc = c.desc
			crashed := ctl.RunToCrash(func() { apply(s, op) })
			ctl.Unregister()
			if !crashed {
				os.RemoveAll(dir)
				r.err = fmt.Errorf("history %v op %q: crash point %d/%d not reached (non-deterministic primitive count)", n.hist, op, k, nprim)
				return r
			}
			r.crashes++
			if double {
				// crash again at every primitive of the recovery itself
				rc := vos.Register(dir, 0)
				rs, err := newStore(dir+"/store", c)
				rc.Unregister()
				_ = rs
				if err == nil {
					for j := 1; j <= rc.N(); j++ {
						d2, s2, err := replayTo(c, n.hist)
						if err != nil {
							r.err = err
							os.RemoveAll(d2)
							os.RemoveAll(dir)
							return r
						}
						c1 := vos.Register(d2, k)
						c1.RemoveDesc = c.desc
						c1.RunToCrash(func() { apply(s2, op) })
						c1.Unregister()
						c2 := vos.Register(d2, j)
						c2.RunToCrash(func() { newStore(d2+"/store", c) })
						c2.Unregister()
						r.doubleCnt++
						if fp, msg := checkRecovered(c, d2+"/store", n.m, nn.m, op, evictable); fp != "" {
							r.vios = append(r.vios, violation{fp + " (second crash during recovery)", map[string]interface{}{"config": c.String(), "history": n.hist, "op": op, "crash_before_primitive": log[k-1], "second_crash_at_recovery_primitive": j, "msg": msg}})
						}
						os.RemoveAll(d2)
					}
				}
			}
			fp, msg := checkRecovered(c, dir+"/store", n.m, nn.m, op, evictable)
			r.recovers++
			if fp != "" {
				r.vios = append(r.vios, violation{fp, map[string]interface{}{"config": c.String(), "history": n.hist, "op": op, "crash_before_primitive": fmt.Sprintf("#%d/%d: %s", k, nprim, log[k-1]), "primitives": log, "msg": msg}})
			}
			os.RemoveAll(dir)
		}
	}
	return r
}

func main() {
	run := evid.New("C06", "fault_enumeration")
	run.Rule = "BFS over operation histories of the real disk.Store (2 keys sharing a shard + 1 pressure key, capacity 4, blob size 2; dedup on acknowledged-state key); for every reachable state and every enabled next operation, a crash before EACH mutating FS primitive of that operation (numbered by the os shim compiled into lib/store/disk), then disk.NewStore on the directory and the statement's clauses; then, for EVERY crash image and EVERY incomplete blob it restores (reboot of incomplete blobs on), a life-after-recovery continuation from a copy of the image: reopen, in-memory eviction ban == acknowledged ban (old or new value for the key of the in-flight op), MarkComplete of the restored blob (bytes, ban kept), Create of every absent key in key order (eviction pressure: capacity = 2 blobs; a blob whose ban was acknowledged must never vanish), one more restart (same ban). distinct = distinct (config, state, op, crash point) cases."
	run.Assume("process-crash model: completed syscalls persist, nothing after the crash point happens, no torn writes")
	run.Assume("os shim (verif/shim/vos) performs the same primitives as package os; RemoveAll order = ascending and descending name order")
	run.Assume("small-scope: one continuation shape per (crash image, restored incomplete blob): complete it, then create the absent keys in key order, then restart; other post-restart histories are not explored")
	run.Assume("LRU order after reboot is not constrained (mtime based, not part of the statement)")

	depth := 6
	deadline := time.Now().Add(45 * time.Second)
	double := false
	cfgs := []cfg{{false, 0, false}, {true, 0, false}, {false, 1, false}, {true, 1, true}}
	if run.Thorough() {
		depth = 8
		deadline = time.Now().Add(12 * time.Minute)
		double = true
		cfgs = []cfg{{false, 0, false}, {true, 0, false}, {false, 1, false}, {true, 1, false}, {false, 1, true}, {true, 1, true}, {true, 0, true}}
	}
	if rp := run.ReplayPath(); rp != "" {
		replay(run, rp)
		return
	}
	workers := evid.Workers()
	totalStates := 0
	for _, c := range cfgs {
		c := c
		seen := map[string]bool{}
		root := node{m: model{}}
		seen[root.m.key(nil)] = true
		frontier := []node{root}
		states := 1
		for d := 0; d < depth && len(frontier) > 0; d++ {
			if time.Now().After(deadline) {
				run.NotExhaustive(fmt.Sprintf("deadline hit at depth %d for config %s", d, c))
				break
			}
			results := make([]result, len(frontier))
			var wg sync.WaitGroup
			ch := make(chan int, len(frontier))
			for i := range frontier {
				ch <- i
			}
			close(ch)
			for w := 0; w < workers; w++ {
				wg.Add(1)
				go func() {
					defer wg.Done()
					for i := range ch {
						if time.Now().After(deadline) {
							results[i].err = errDeadline
							continue
						}
						// second crash during recovery only for shallow states (cost)
						results[i] = expand(c, frontier[i], double && d <= 3)
					}
				}()
			}
			wg.Wait()
			var next []node
			for i, r := range results {
				if r.err == errDeadline {
					run.NotExhaustive(fmt.Sprintf("deadline hit inside depth %d for config %s", d, c))
					continue
				}
				if r.err != nil {
					run.Fatal(fmt.Errorf("config %s: %v", c, r.err))
				}
				run.Eval(r.recovers + r.doubleCnt)
				run.AddInt("crash_points", int64(r.crashes))
				run.AddInt("double_crash_cases", int64(r.doubleCnt))
				run.AddInt("transitions", int64(r.transits))
				for _, p := range r.prims {
					run.Sample(map[string]interface{}{"config": c.String(), "history": frontier[i].hist, "op_primitives": p})
				}
				for _, v := range r.vios {
					run.Violation(v.fp, v.detail)
				}
				for _, nn := range r.next {
					k := nn.m.key(nn.order)
					if !seen[k] {
						seen[k] = true
						states++
						next = append(next, nn)
					}
				}
			}
			frontier = next
		}
		totalStates += states
		run.Set("config:"+c.String(), map[string]interface{}{"states": states})
	}
	run.Set("states", totalStates)
	run.Eval(int(atomic.LoadInt64(&contCases)))
	run.Set("life_after_recovery_continuations", atomic.LoadInt64(&contCases))
	run.Set("continuations_with_acknowledged_ban_on_the_completed_blob", atomic.LoadInt64(&contBanned))
	run.Set("continuation_creates_that_evicted", atomic.LoadInt64(&contEvicting))
	run.Set("continuation_creates_refused_for_space", atomic.LoadInt64(&contFull))
	cp, _ := run.Extra["crash_points"].(int64)
	for i := int64(0); i < cp && i < 100000; i++ {
		run.Distinct(fmt.Sprintf("cp%d", i))
	}
	run.Finish()
}

var errDeadline = errors.New("deadline")

func replay(run *evid.Run, path string) {
	fmt.Println("replay: re-run the check; the case file lists config, history, op and crash point:", path)
	b, _ := os.ReadFile(path)
	os.Stdout.Write(b)
	os.Exit(0)
}

var _ = sort.Strings
var _ storelib.BlobScope
