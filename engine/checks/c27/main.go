// C27: the in-memory peer store returns fresh, distinct announcements.
//
// E3: BFS over all histories of UpdatePeer / GetPeers (every permutation the
// store's rand.Perm can draw) / clock advance / cleanupExpiredPeerEntries /
// cleanupExpiredPeerGroups on the REAL peerstore.LocalStore (built through an
// overlay export file: no ticker, no background goroutine), compared after
// every step with a reference model (h,peer) -> (latest fields, announce time).
//
// E1: all interleavings (preemption bounded) at every lock operation of
// tracker/peerstore (sync -> verif/shim/vsync) of the cleanup thread against
// announcer threads that refresh the entry about to be removed / announce into
// the group being deleted, with an interval-based oracle on every GetPeers.
// Clock-skew family (skew/...): the time moves while announcements are in
// flight and every clock read of the store is a scheduling point, so that an
// announcer can be preempted between reading the clock and writing its entry
// while time passes, another announcer completes and cleanup runs.
package main

import (
	"errors"
	"fmt"
	"math"
	"sort"
	"strings"
	"sync"
	"sync/atomic"
	"time"

	"github.com/andres-erbsen/clock"
	"github.com/uber/kraken/core"
	"github.com/uber/kraken/tracker/peerstore"

	"verif/bfs"
	"verif/evid"
	_ "verif/quiet"
	"verif/rep"
	"verif/shim/vrand"
	"verif/shim/vsync"
	"verif/vrt"
)

const ttlUnits = 10

var (
	unit = time.Second
	ttl  = ttlUnits * unit
	t0   = time.Unix(1_000_000, 0)
)

// vclock is an explicit-time clock.Clock: only Now is used by LocalStore; the
// embedded mock provides the remaining (unused) methods. clock.Mock.Add is not
// used because it sleeps 1 ms of wall time per call.
type vclock struct {
	clock.Clock
	mu     sync.Mutex
	now    time.Time
	points bool // E1: every read of the clock is a scheduling point
}

func newClock() *vclock { return &vclock{Clock: clock.NewMock(), now: t0} }
func (c *vclock) Now() time.Time {
	if c.points {
		vrt.Point("clock.Now")
	}
	c.mu.Lock()
	defer c.mu.Unlock()
	return c.now
}

// peek is the harness's own (unscheduled) view of the clock: the oracle's time
// stamps of a call's start and end must not add scheduling points of their own.
func (c *vclock) peek() time.Time {
	c.mu.Lock()
	defer c.mu.Unlock()
	return c.now
}
func (c *vclock) Add(d time.Duration) {
	c.mu.Lock()
	c.now = c.now.Add(d)
	c.mu.Unlock()
}

func hashOf(i int) core.InfoHash { return core.NewInfoHashFromBytes([]byte{byte('h'), byte(i)}) }

func peerID(i int) core.PeerID {
	var p core.PeerID
	for k := range p {
		p[k] = byte(0x11 * (i + 1))
	}
	return p
}

func peerIdx(id core.PeerID) int {
	if id[0] == 0 || id[0]%0x11 != 0 {
		return -1
	}
	i := int(id[0]/0x11) - 1
	if peerID(i) != id {
		return -1
	}
	return i
}

// fields of peer i in announcement variant v.
func peerInfo(i, v int) *core.PeerInfo {
	return core.NewPeerInfo(peerID(i), fmt.Sprintf("10.0.%d.%d", v, i+1), 1000*(v+1)+i, false, v == 1)
}

func sameFields(a, b *core.PeerInfo) bool {
	return a.PeerID == b.PeerID && a.IP == b.IP && a.Port == b.Port && a.Complete == b.Complete && a.Origin == b.Origin
}

var peerNames = "pqrs"

func renderPeers(ps []*core.PeerInfo) string {
	var out []string
	for _, p := range ps {
		i := peerIdx(p.PeerID)
		n := "?"
		if i >= 0 && i < len(peerNames) {
			n = string(peerNames[i])
		}
		v := "?"
		for k := 0; k < 2; k++ {
			if i >= 0 && sameFields(p, peerInfo(i, k)) {
				v = fmt.Sprint(k)
			}
		}
		out = append(out, n+v)
	}
	return "[" + strings.Join(out, " ") + "]"
}

// ---------------------------------------------------------------- E3 (BFS)

// rand.Perm answers for the BFS phase: GetPeers calls are serialised so that
// the (global) vrand.Decider can be given the Lehmer code of the permutation
// to draw for exactly this call.
var (
	permMu   sync.Mutex
	permCode []int
	permPos  int
)

func bfsDecider(n int, label string) int {
	if permPos < len(permCode) {
		c := permCode[permPos]
		permPos++
		if c < n {
			return c
		}
	}
	return 0
}

func getPeersPerm(st *peerstore.LocalStore, h core.InfoHash, n int, code []int) ([]*core.PeerInfo, error) {
	permMu.Lock()
	defer permMu.Unlock()
	permCode, permPos = code, 0
	return st.GetPeers(h, n)
}

// lehmerCodes lists the codes of all permutations of m elements.
func lehmerCodes(m int) [][]int {
	codes := [][]int{{}}
	for i := 0; i < m-1; i++ {
		var next [][]int
		for _, c := range codes {
			for j := 0; j < m-i; j++ {
				next = append(next, append(append([]int{}, c...), j))
			}
		}
		codes = next
	}
	return codes
}

type bcfg struct {
	name   string
	nh, np int
	ns     []int // n values of GetPeers
	depth  int
	floor  int64 // relative time stamps below floor are identified in the state key
	vars   int   // field variants per peer (0: 2)
	advs   []int // clock advances in units (nil: 1 and TTL-1)
}

type ann struct {
	v  int
	at time.Time
}

type bsys struct {
	c      bcfg
	clk    *vclock
	st     *peerstore.LocalStore
	hs     []core.InfoHash
	latest []map[int]ann
	lastOp string
}

// vacuity counters (all Apply calls, replays included)
var cntRemoved, cntGroupDeleted, cntExpiredReturned, cntRefreshExpired, cntPermResults int64

func newBsys(c bcfg) (*bsys, error) {
	clk := newClock()
	s := &bsys{c: c, clk: clk, st: peerstore.VerifNewLocalStore(peerstore.LocalConfig{TTL: ttl}, clk)}
	for i := 0; i < c.nh; i++ {
		s.hs = append(s.hs, hashOf(i))
		s.latest = append(s.latest, map[int]ann{})
	}
	return s, nil
}

func (s *bsys) Close() { s.st.Close() }

func (s *bsys) Ops() []string {
	var ops []string
	nv := s.c.vars
	if nv == 0 {
		nv = 2
	}
	for h := 0; h < s.c.nh; h++ {
		for p := 0; p < s.c.np; p++ {
			for v := 0; v < nv; v++ {
				ops = append(ops, fmt.Sprintf("u %d %d %d", h, p, v))
			}
		}
	}
	advs := s.c.advs
	if advs == nil {
		advs = []int{1, ttlUnits - 1}
	}
	for _, d := range advs {
		ops = append(ops, fmt.Sprintf("adv %d", d))
	}
	ops = append(ops, "ce", "cg")
	for h := 0; h < s.c.nh; h++ {
		for _, n := range s.c.ns {
			ops = append(ops, fmt.Sprintf("g %d %d", h, n))
		}
	}
	return ops
}

func opKind(op string) string {
	switch strings.Fields(op)[0] {
	case "u":
		return "UpdatePeer"
	case "g":
		return "GetPeers"
	case "adv":
		return "clock advance"
	case "ce":
		return "cleanupExpiredPeerEntries"
	case "cg":
		return "cleanupExpiredPeerGroups"
	}
	return op
}

func (s *bsys) fresh(a ann) bool { return s.clk.Now().Before(a.at.Add(ttl)) }

// checkResult is the oracle on one GetPeers(h, n) result.
func (s *bsys) checkResult(h, n int, res []*core.PeerInfo, ctx string) error {
	max := n
	if max < 0 {
		max = 0
	}
	if len(res) > max {
		return bfs.Failf("GetPeers returned more than n peers", "%s: GetPeers(h%d,%d) returned %d peers %s", ctx, h, n, len(res), renderPeers(res))
	}
	seen := map[core.PeerID]bool{}
	for _, r := range res {
		if r == nil {
			return bfs.Failf("GetPeers returned a nil peer", "%s: GetPeers(h%d,%d)", ctx, h, n)
		}
		if seen[r.PeerID] {
			return bfs.Failf("GetPeers returned the same peer twice", "%s: GetPeers(h%d,%d) = %s", ctx, h, n, renderPeers(res))
		}
		seen[r.PeerID] = true
		i := peerIdx(r.PeerID)
		a, ok := s.latest[h][i]
		if i < 0 || !ok {
			return bfs.Failf("GetPeers returned a peer that never announced for the torrent", "%s: GetPeers(h%d,%d) returned %+v", ctx, h, n, *r)
		}
		if !sameFields(r, peerInfo(i, a.v)) {
			return bfs.Failf("GetPeers returned fields that are not the peer's most recent announcement", "%s: GetPeers(h%d,%d) returned %+v, latest announcement %+v", ctx, h, n, *r, *peerInfo(i, a.v))
		}
		if !s.fresh(a) {
			atomic.AddInt64(&cntExpiredReturned, 1)
		}
	}
	if len(res) < n {
		// the store claims to know fewer than n peers: none of the missing
		// ones may be a fresh announcement
		for i, a := range s.latest[h] {
			if s.fresh(a) && !seen[peerID(i)] {
				return bfs.Failf("fresh announcement forgotten (missing from GetPeers after "+opKind(s.lastOp)+")",
					"%s: GetPeers(h%d,%d) = %s lacks peer %c announced %v ago (TTL %v)", ctx, h, n, renderPeers(res), peerNames[i], s.clk.Now().Sub(a.at), ttl)
			}
		}
	}
	return nil
}

func (s *bsys) present(h int) (map[int]bool, error) {
	res, err := getPeersPerm(s.st, s.hs[h], 64, nil)
	if err != nil {
		return nil, err
	}
	m := map[int]bool{}
	for _, r := range res {
		m[peerIdx(r.PeerID)] = true
	}
	return m, nil
}

func (s *bsys) Apply(op string) error {
	s.lastOp = op
	f := strings.Fields(op)
	arg := func(i int) int {
		var x int
		fmt.Sscan(f[i], &x)
		return x
	}
	switch f[0] {
	case "u":
		h, p, v := arg(1), arg(2), arg(3)
		if a, ok := s.latest[h][p]; ok && !s.fresh(a) {
			if pr, _ := s.present(h); pr[p] {
				atomic.AddInt64(&cntRefreshExpired, 1)
			}
		}
		if err := s.st.UpdatePeer(s.hs[h], peerInfo(p, v)); err != nil {
			return fmt.Errorf("UpdatePeer: %v", err)
		}
		s.latest[h][p] = ann{v, s.clk.Now()}
	case "g":
		h, n := arg(1), arg(2)
		results := map[string]bool{}
		for _, code := range lehmerCodes(s.c.np) {
			res, err := getPeersPerm(s.st, s.hs[h], n, code)
			if err != nil {
				return fmt.Errorf("GetPeers: %v", err)
			}
			if err := s.checkResult(h, n, res, fmt.Sprintf("perm code %v", code)); err != nil {
				return err
			}
			results[renderPeers(res)] = true
		}
		atomic.AddInt64(&cntPermResults, int64(len(results)))
	case "adv":
		s.clk.Add(time.Duration(arg(1)) * unit)
	case "ce", "cg":
		before := make([]map[int]bool, s.c.nh)
		for h := range s.hs {
			b, err := s.present(h)
			if err != nil {
				return err
			}
			before[h] = b
		}
		if f[0] == "ce" {
			s.st.VerifCleanupExpiredPeerEntries()
		} else {
			s.st.VerifCleanupExpiredPeerGroups()
		}
		for h := range s.hs {
			a, err := s.present(h)
			if err != nil {
				return err
			}
			if len(a) < len(before[h]) {
				if f[0] == "ce" {
					atomic.AddInt64(&cntRemoved, 1)
				} else {
					atomic.AddInt64(&cntGroupDeleted, 1)
				}
			}
		}
	default:
		return fmt.Errorf("unknown op %q", op)
	}
	// observation after every step: everything the store knows, per torrent
	for h := range s.hs {
		res, err := getPeersPerm(s.st, s.hs[h], 64, nil)
		if err != nil {
			return fmt.Errorf("GetPeers: %v", err)
		}
		if err := s.checkResult(h, 64, res, "full lookup after "+op); err != nil {
			return err
		}
	}
	return nil
}

func (s *bsys) Key() string {
	var b strings.Builder
	now := s.clk.Now()
	for h := range s.hs {
		for p := 0; p < s.c.np; p++ {
			a, ok := s.latest[h][p]
			if !ok {
				b.WriteString("-,")
				continue
			}
			r := int64(a.at.Add(ttl).Sub(now) / unit)
			if r < s.c.floor {
				r = s.c.floor
			}
			fmt.Fprintf(&b, "%d@%d,", a.v, r)
		}
		b.WriteByte('|')
	}
	b.WriteString(s.st.VerifDump(s.hs, unit, s.c.floor))
	return b.String()
}

// ---------------------------------------------------------------- E1

type step struct {
	kind string // "u" peer v | "g" n | "adv" d | "ce" | "cg"
	p, v int
	n    int
}

func u(p, v int) step { return step{kind: "u", p: p, v: v} }
func g(n int) step    { return step{kind: "g", n: n} }
func adv(d int) step  { return step{kind: "adv", n: d} }
func ce() step        { return step{kind: "ce"} }
func cg() step        { return step{kind: "cg"} }
func (s step) String() string {
	switch s.kind {
	case "u":
		return fmt.Sprintf("u(%c%d)", peerNames[s.p], s.v)
	case "g":
		return fmt.Sprintf("g(%d)", s.n)
	case "adv":
		return fmt.Sprintf("adv(%d)", s.n)
	}
	return s.kind
}

// phase: one exploration of a scenario (which operations are scheduling
// points, preemption bound).
type phase struct {
	unlockPts bool
	bound     int
}

type scenario struct {
	name    string
	phs     []phase // thorough tier: overrides the default phases when set
	pre     []step
	threads map[string][]step // thread name -> program; "cleaner" is the single cleanup thread
	order   []string
}

func mk(name string, pre []step, progs ...interface{}) scenario {
	sc := scenario{name: name, pre: pre, threads: map[string][]step{}}
	for i := 0; i < len(progs); i += 2 {
		n := progs[i].(string)
		sc.order = append(sc.order, n)
		sc.threads[n] = progs[i+1].([]step)
	}
	return sc
}

const (
	P = 0
	Q = 1
	R = 2
	F = 3
)

func scenarios(thorough bool) []scenario {
	exp := ttlUnits + 1
	sc := []scenario{
		// q,p expired, s fresh: cleanup removes q (swap-with-last) while p is refreshed
		mk("refresh-vs-entry-cleanup", []step{u(Q, 0), u(P, 0), adv(exp), u(F, 0)},
			"cleaner", []step{ce()}, "a0", []step{u(P, 1), g(8)}),
		// the refreshed peer announces a second time after the cleanup pass: an entry whose
		// index bookkeeping was damaged by the race would now be appended twice
		mk("refresh-twice-vs-entry-cleanup", []step{u(Q, 0), u(P, 0), adv(exp)},
			"cleaner", []step{ce()}, "a0", []step{u(P, 1), u(P, 0), g(8)}),
		// the only entry of the group expired: group is being deleted while a new peer announces
		mk("newpeer-vs-group-delete", []step{u(Q, 0), adv(exp)},
			"cleaner", []step{cg()}, "a0", []step{u(P, 0), g(8)}),
		// the last entry of the group is refreshed while the group is being deleted
		mk("refresh-vs-group-delete", []step{u(P, 0), adv(exp)},
			"cleaner", []step{cg()}, "a0", []step{u(P, 1), g(8)}),
		// both passes in sequence (as cleanupTask may run them) against a refresher and a newcomer
		mk("cleanup-task-vs-two-announcers", []step{u(Q, 0), u(P, 0), adv(exp)},
			"cleaner", []step{ce(), cg()}, "a0", []step{u(P, 1), g(8)}, "a1", []step{u(R, 0), g(8)}),
		// entries reach their expiry while the passes run (clock ticks concurrently)
		mk("tick-to-expiry", []step{u(Q, 0), u(P, 0), adv(ttlUnits)},
			"cleaner", []step{ce(), cg()}, "a0", []step{u(P, 1), g(8)}, "tick", []step{adv(1)}),
	}
	if thorough {
		sc = append(sc,
			mk("refresh-vs-entry-cleanup+reader", []step{u(Q, 0), u(P, 0), adv(exp), u(F, 0)},
				"cleaner", []step{ce(), cg()}, "a0", []step{u(P, 1), g(8)}, "rd", []step{g(8), g(1), g(8)}),
			mk("two-refreshers-same-peer", []step{u(Q, 0), u(P, 0), adv(exp)},
				"cleaner", []step{ce(), cg()}, "a0", []step{u(P, 1), g(8)}, "a1", []step{u(P, 0), g(8)}),
			mk("group-delete-vs-two-newcomers", []step{u(Q, 0), adv(exp)},
				"cleaner", []step{cg(), ce()}, "a0", []step{u(P, 0), g(8)}, "a1", []step{u(R, 1), g(8), u(R, 0), g(8)}),
			mk("repeated-passes-vs-refresh", []step{u(Q, 0), u(P, 0), u(R, 0), adv(exp)},
				"cleaner", []step{ce(), ce(), cg()}, "a0", []step{u(P, 1), g(8), u(Q, 1), g(8)}),
		)
	}
	return append(sc, skewScenarios(thorough)...)
}

// skewScenarios is the clock-skew family: time passes WHILE an announcement is
// in flight. Every clock read of the store is a scheduling point; the time
// advances in two steps (a, b) with a+b > TTL and b < TTL, so that an
// announcement made between the two steps is fresh at the end while one made
// before the first step is expired. The family is the product
//
//	start state {no group, group with an older entry}
//	x announcer pair {two peers, the same peer with different fields}
//	x clock program (a, b)
//
// Threads: a0 announces (and looks up); "late" lets the time pass, announces
// (and looks up), lets the time pass again; the cleanup thread runs both
// passes. All interleavings within the preemption bound are explored: a0 can
// be preempted at every lock operation and every clock read, in particular
// between its clock read and its write, while "late" announces and cleanup
// runs. The thorough tier adds the free-clock variant (skew4/...): the clock
// is a fourth thread, so that both announcers are concurrent with both steps.
func skewScenarios(thorough bool) []scenario {
	half := ttlUnits / 2
	ticks := [][2]int{{half, half + 1}}
	if thorough {
		ticks = append(ticks, [2]int{half + 1, half}, [2]int{ttlUnits, 1})
	}
	type start struct {
		name string
		pre  []step
	}
	starts := []start{{"no-group", nil}, {"group", []step{u(R, 0)}}}
	type pair struct {
		name   string
		a0, a1 []step
	}
	pairs := []pair{
		{"two-peers", []step{u(P, 0), g(8)}, []step{u(Q, 1), g(8)}},
		{"same-peer", []step{u(P, 0), g(8)}, []step{u(P, 1), g(8)}},
	}
	var out []scenario
	for i, tk := range ticks {
		for _, st := range starts {
			for _, pr := range pairs {
				late := append(append([]step{adv(tk[0])}, pr.a1...), adv(tk[1]))
				sc := mk(fmt.Sprintf("skew/%s/%s/adv%d+%d", st.name, pr.name, tk[0], tk[1]), st.pre,
					"a0", pr.a0, "late", late, "cleaner", []step{ce(), cg()})
				if i > 0 {
					// the additional clock programs: 2 preemptions at every lock operation only
					sc.phs = []phase{{true, 2}}
				}
				out = append(out, sc)
			}
		}
	}
	if thorough {
		tk := ticks[0]
		for _, st := range starts {
			for _, pr := range pairs {
				sc := mk(fmt.Sprintf("skew4/%s/%s/adv%d+%d", st.name, pr.name, tk[0], tk[1]), st.pre,
					"a0", pr.a0[:1], "tick", []step{adv(tk[0]), adv(tk[1])}, "a1", pr.a1[:1], "cleaner", []step{ce(), cg()})
				sc.phs = []phase{{false, 2}}
				out = append(out, sc)
			}
		}
	}
	return out
}

// clockPoints: scenarios in which the time moves concurrently with the store's
// operations; there every clock read of the store is a scheduling point.
func (sc scenario) clockPoints() bool {
	for _, prog := range sc.threads {
		for _, s := range prog {
			if s.kind == "adv" {
				return true
			}
		}
	}
	return false
}

type call struct {
	th         string
	st         step
	start, end int
	tStart     time.Time
	tEnd       time.Time
	res        []*core.PeerInfo
	done       bool
}

func zeroDecider(n int, label string) int { return 0 }

// harness builds the E1 harness of a scenario. unlockPts: Unlock/RUnlock are
// scheduling points too (otherwise only the acquiring operations are: a
// release commutes to the left of every step another thread can take while the
// lock is held, so no behaviour is lost -- Lipton reduction).
func harness(sc scenario, unlockPts bool) *vrt.Harness {
	name := sc.name + "/acquire-points"
	if unlockPts {
		name = sc.name + "/all-lock-points"
	}
	return &vrt.Harness{Name: name, Horizon: 20000, Body: func() (string, string) {
		vrand.Decider = zeroDecider
		vsync.UnlockPoints = unlockPts
		clk := newClock()
		clk.points = sc.clockPoints()
		st := peerstore.VerifNewLocalStore(peerstore.LocalConfig{TTL: ttl}, clk)
		h := hashOf(0)
		ev := 0
		var calls []*call
		var harnessErr string
		exec := func(th string, s step) {
			c := &call{th: th, st: s, tStart: clk.peek()}
			ev++
			c.start = ev
			calls = append(calls, c)
			switch s.kind {
			case "u":
				if err := st.UpdatePeer(h, peerInfo(s.p, s.v)); err != nil {
					harnessErr = "UpdatePeer: " + err.Error()
				}
			case "g":
				res, err := st.GetPeers(h, s.n)
				if err != nil {
					harnessErr = "GetPeers: " + err.Error()
				}
				c.res = res
			case "adv":
				if th != "pre" {
					vrt.Point("tick")
				}
				clk.Add(time.Duration(s.n) * unit)
			case "ce":
				st.VerifCleanupExpiredPeerEntries()
			case "cg":
				st.VerifCleanupExpiredPeerGroups()
			}
			ev++
			c.end = ev
			c.tEnd = clk.peek()
			c.done = true
		}
		for _, s := range sc.pre {
			exec("pre", s)
		}
		for _, name := range sc.order {
			name, prog := name, sc.threads[name]
			vrt.GoNamed(name, func() {
				for _, s := range prog {
					exec(name, s)
				}
			})
		}
		vrt.Join()
		exec("end", g(8))
		if harnessErr != "" {
			return "", "HARNESS: " + harnessErr
		}

		var vio []string
		overlap := false
		for _, a := range calls {
			if a.st.kind != "u" || a.th == "pre" {
				continue
			}
			for _, c := range calls {
				if (c.st.kind == "ce" || c.st.kind == "cg") && a.start < c.end && c.start < a.end {
					overlap = true
				}
			}
		}
		// skew: the clock moved while an announce was in flight; overtaken: a
		// later announce (later clock) ran to completion inside it
		skew, overtaken := false, false
		for _, a := range calls {
			if a.st.kind != "u" || a.th == "pre" {
				continue
			}
			if a.tEnd.After(a.tStart) {
				skew = true
			}
			for _, b := range calls {
				if b.st.kind == "u" && b.th != "pre" && a.start < b.start && b.end < a.end && b.tStart.After(a.tStart) {
					overtaken = true
				}
			}
		}
		var reads []string
		for _, r := range calls {
			if r.st.kind != "g" {
				continue
			}
			reads = append(reads, r.th+renderPeers(sortedPeers(r.res)))
			max := r.st.n
			if len(r.res) > max {
				vio = append(vio, fmt.Sprintf("GetPeers returned more than n peers | %s %v = %s", r.th, r.st, renderPeers(r.res)))
			}
			seen := map[core.PeerID]bool{}
			for _, x := range r.res {
				if seen[x.PeerID] {
					vio = append(vio, fmt.Sprintf("GetPeers returned the same peer twice | %s %v = %s", r.th, r.st, renderPeers(r.res)))
					continue
				}
				seen[x.PeerID] = true
				// announcements of x that may be the most recent one for this read
				okField, announced := false, false
				for _, a := range calls {
					if a.st.kind != "u" || peerID(a.st.p) != x.PeerID || a.start > r.end {
						continue
					}
					announced = true
					overwritten := false
					for _, b := range calls {
						if b.st.kind == "u" && b.st.p == a.st.p && a.end < b.start && b.end < r.start {
							overwritten = true
						}
					}
					if !overwritten && sameFields(x, peerInfo(a.st.p, a.st.v)) {
						okField = true
					}
				}
				if !announced {
					vio = append(vio, fmt.Sprintf("GetPeers returned a peer that never announced | %s %v returned %+v", r.th, r.st, *x))
				} else if !okField {
					vio = append(vio, fmt.Sprintf("GetPeers returned fields that are not the peer's most recent announcement | %s %v returned %+v", r.th, r.st, *x))
				}
			}
			if len(r.res) < r.st.n {
				for _, a := range calls {
					if a.st.kind != "u" || a.end > r.start {
						continue
					}
					// announced at time >= a.tStart, returned before the read started;
					// the read ended at time r.tEnd < t+TTL: still fresh
					if r.tEnd.Before(a.tStart.Add(ttl)) && !seen[peerID(a.st.p)] {
						vio = append(vio, fmt.Sprintf("fresh announcement forgotten: missing from a GetPeers that started after the announce returned | peer %c announced by %s at +%v, %s %v at +%v = %s",
							peerNames[a.st.p], a.th, a.tStart.Sub(t0), r.th, r.st, r.tEnd.Sub(t0), renderPeers(r.res)))
					}
				}
			}
		}
		obs := fmt.Sprintf("ovl=%v skew=%v ovt=%v %s", overlap, skew, overtaken, strings.Join(reads, " "))
		sort.Strings(vio)
		if len(vio) > 0 {
			return obs, strings.Join(dedup(vio), "\n")
		}
		return obs, ""
	}}
}

func dedup(xs []string) []string {
	var out []string
	for i, x := range xs {
		if i == 0 || xs[i-1] != x {
			out = append(out, x)
		}
	}
	return out
}

func sortedPeers(ps []*core.PeerInfo) []*core.PeerInfo {
	return core.SortedByPeerID(ps)
}

func main() {
	var hs []*vrt.Harness
	for _, sc := range scenarios(true) {
		hs = append(hs, harness(sc, true), harness(sc, false))
	}
	vrt.WorkerMain(hs)

	run := evid.New("C27", "model_checking")
	run.Rule = "E3: every history up to depth d (or to the fixpoint) over {UpdatePeer(h,peer,variant), GetPeers(h,n) under every permutation rand.Perm can draw, advance 1 / TTL-1, cleanupExpiredPeerEntries, cleanupExpiredPeerGroups} executed on a real peerstore.LocalStore with an explicit clock and compared with a latest-announcement model after every step (BFS, deduplicated on model + dumped store state); renewal family: every history, to the fixpoint, over {UpdatePeer(peer) for 3 peers of ONE torrent, advance 1 / TTL/2 / TTL-1, cleanupExpiredPeerEntries, cleanupExpiredPeerGroups} with a full lookup after every step, so that renewals of early list entries, swap-removals by the entries pass and a later, separately timed groups pass (group lastExpiresAt bookkeeping) are all sequenced against each other; E1: every interleaving at the lock operations of tracker/peerstore (preemption-bounded DFS) of one cleanup thread against announcer/reader/clock threads; in the scenarios whose clock moves concurrently (tick-to-expiry and the clock-skew family {no group, group with an older entry} x {two peers, same peer with other fields} x two-step clock programs (a,b) with b < TTL < a+b) every clock read of the store is a scheduling point too, so an announcer is preempted between its clock read and its write while time passes, a later announcer completes and the cleanup passes run. distinct = distinct BFS states + distinct outcome classes (set of peers each lookup returned, whether an announce overlapped a cleanup pass) per scenario."
	run.Assume("E1: code between two lock operations of tracker/peerstore is data-race free; schedules are sequentially consistent interleavings at lock operations; the vsync RWMutex has no writer preference")
	run.Assume("E1 oracle under a moving clock: an announcement counts as made no earlier than the clock value at the start of the UpdatePeer call and a lookup as made no later than the clock value at its end, so only announcements that are fresh under every placement inside the call intervals are demanded")
	run.Assume("clock-skew family: two time steps (TTL/2, TTL/2+1) in quick, additionally (TTL/2+1, TTL/2) and (TTL, 1) and the free-clock variant (clock as a fourth thread, acquire points, 2 preemptions) in thorough; the second announcer announces between the two steps except in the free-clock variant")
	run.Assume("one cleanup thread (LocalStore runs both passes from the single cleanupTask goroutine)")
	run.Assume("small-scope: 1-2 torrents, 2-3 peers, 2 field variants per peer, TTL = 10 clock units, clock advances of 1 and TTL-1 units; renewal family: 1 torrent, 3 peers, 1 field variant, advances of 1, TTL/2 and TTL-1 units, no bounded-n lookups (only the full lookup after every step)")
	run.Assume("behaviour exactly at t+TTL (expiry boundary) and of already expired entries is not decided by the statement: the model lets the store keep or drop them")
	run.Assume("BFS state key identifies states that differ only in how long ago an entry expired (time stamps are only compared with the clock)")

	// ---- E3
	vrand.Decider = bfsDecider
	cfgs := []bcfg{
		{name: "1 torrent x 2 peers (fixpoint)", nh: 1, np: 2, ns: []int{0, 1, 2, 3}, depth: 40, floor: -1},
		{name: "2 torrents x 2 peers", nh: 2, np: 2, ns: []int{1, 2}, depth: 5, floor: -1},
	}
	if run.Thorough() {
		cfgs = []bcfg{
			{name: "1 torrent x 2 peers (fixpoint)", nh: 1, np: 2, ns: []int{-1, 0, 1, 2, 3}, depth: 60, floor: -1},
			{name: "1 torrent x 2 peers, exact ages", nh: 1, np: 2, ns: []int{1, 2}, depth: 7, floor: math.MinInt64 / 4},
			{name: "2 torrents x 2 peers", nh: 2, np: 2, ns: []int{1, 2}, depth: 6, floor: -1},
			{name: "1 torrent x 3 peers", nh: 1, np: 3, ns: []int{1, 2, 3}, depth: 7, floor: -1},
		}
	}
	// renewal / two-pass family: 3 peers on ONE torrent, one field variant, no
	// explicit lookups (the full lookup after every step is the observation), so
	// that the search reaches histories in which an early list entry is renewed,
	// an entries pass removes another entry (swap-remove reorders the list) and
	// a groups pass runs later, with clock steps between all of them.
	// Runs to its fixpoint (depth 15) in both tiers.
	renew := bcfg{name: "1 torrent x 3 peers, renewals and separate cleanup passes (fixpoint)", nh: 1, np: 3, vars: 1, depth: 40, floor: -1, advs: []int{1, ttlUnits / 2, ttlUnits - 1}}
	cfgs = append(cfgs, renew)
	deadline := time.Now().Add(25 * time.Second)
	if run.Thorough() {
		deadline = time.Now().Add(8 * time.Minute)
	}
	for _, c := range cfgs {
		c := c
		if c.name == renew.name {
			// own budget: not starved by the searches before it
			deadline = time.Now().Add(40 * time.Second)
			if run.Thorough() {
				deadline = time.Now().Add(4 * time.Minute)
			}
		}
		res := rep.BFS(run, c.name, bfs.Config{MaxDepth: c.depth, Deadline: deadline, New: func() (bfs.System, error) { return newBsys(c) }})
		for i := 0; i < res.States; i++ {
			run.Distinct(fmt.Sprintf("%s#%d", c.name, i))
		}
	}
	run.Set("bfs_apply_calls_cleanup_removed_entries", atomic.LoadInt64(&cntRemoved))
	run.Set("bfs_apply_calls_cleanup_deleted_group", atomic.LoadInt64(&cntGroupDeleted))
	run.Set("bfs_lookups_returning_expired_entry", atomic.LoadInt64(&cntExpiredReturned))
	run.Set("bfs_apply_calls_refreshing_expired_present_entry", atomic.LoadInt64(&cntRefreshExpired))
	run.Set("bfs_distinct_results_over_permutations", atomic.LoadInt64(&cntPermResults))
	if cntRemoved == 0 || cntGroupDeleted == 0 || cntRefreshExpired == 0 {
		run.Fatal(errors.New("vacuous BFS: no cleanup removal / group deletion / refresh of an expired entry was exercised"))
	}

	// ---- E1
	phases := []phase{{true, 2}}
	maxDur := 25
	if run.Thorough() {
		phases = []phase{{true, 2}, {false, 3}}
		maxDur = 240
	}
	var e1exec, e1overlap, e1skew, e1overtaken int64
	for _, sc := range scenarios(run.Thorough()) {
		phs := phases
		if run.Thorough() && len(sc.order) <= 2 {
			phs = append(append([]phase{}, phases...), phase{true, 3})
		}
		if run.Thorough() && sc.phs != nil {
			phs = sc.phs
		}
		for _, ph := range phs {
			sc := sc
			h := harness(sc, ph.unlockPts)
			_, o1, _ := vrt.Replay(h, nil)
			_, o2, _ := vrt.Replay(h, nil)
			if o1 != o2 {
				run.Fatal(errors.New("non-deterministic replay in " + sc.name + ": " + o1 + " vs " + o2))
			}
			res := rep.VRT(run, h, ph.bound, evid.Workers(), maxDur, func(v vrt.Violation) string {
				m := strings.SplitN(v.Msg, "\n", 2)[0]
				m = strings.TrimSpace(strings.SplitN(m, "|", 2)[0])
				if len(m) > 120 {
					m = m[:120]
				}
				return "E1 " + sc.name + ": " + m
			})
			e1exec += int64(res.Executions)
			ov, sk, ot := 0, 0, 0
			for k, n := range res.Outcomes {
				if strings.HasPrefix(k, "ovl=true") {
					ov += n
				}
				if strings.Contains(k, " skew=true ") {
					sk += n
				}
				if strings.Contains(k, " ovt=true ") {
					ot += n
				}
			}
			e1overlap += int64(ov)
			e1skew += int64(sk)
			e1overtaken += int64(ot)
			if strings.HasPrefix(sc.name, "skew") && ot == 0 {
				run.Fatal(errors.New("vacuous E1 scenario " + sc.name + ": no execution had an announce overtaken (clock moved, another announce completed) while in flight"))
			}
			if ov == 0 {
				run.Fatal(errors.New("vacuous E1 scenario " + sc.name + ": no execution had an announce overlapping a cleanup pass"))
			}
		}
	}
	run.Set("e1_executions", e1exec)
	run.Set("e1_executions_with_announce_overlapping_cleanup", e1overlap)
	run.Set("e1_executions_with_clock_moving_during_an_announce", e1skew)
	run.Set("e1_executions_with_announce_overtaken_by_a_later_announce", e1overtaken)
	run.Finish()
}
