// C13: memory caches stay within budget and their accounting balances.
//
// E3 (explicit-state BFS on the real objects, each step compared with a
// reference model):
//   - cache.BlobMemoryCache: reserve / release / add / remove / batch remove /
//     expire histories;
//   - cache.LRUCache (its time.Now is rewritten to checks/c13/vtime, the clock
//     moves only through the "adv" operation); the search merges two histories
//     only when the real object's internal state (implstate.go) is equal too,
//     so hidden bookkeeping (the eviction order) cannot be cut off by the
//     deduplication;
//   - store.CAStore.WriteBlobToCacheWithMetaInfo (write-through path) with
//     write callbacks that deliver exactly / fewer / more bytes than the
//     reserved size, fail midway, fail once, or reuse a name, interleaved with
//     explicit drain steps and TTL sweeps (no background goroutines).
//
// E1 (all interleavings, preemption bounded, at the lock operations of
// utils/cache, lib/store, lib/store/base): concurrent BlobMemoryCache callers
// checked for linearizability (porcupine) against the sequential accounting
// model, and concurrent CAStore writers + drain thread + TTL thread checked
// with an atomic-snapshot observer and an end-state balance.
package main

import (
	"errors"
	"fmt"
	"math"
	"os"
	"sort"
	"strings"
	"sync"
	"time"

	"github.com/andres-erbsen/clock"
	"github.com/anishathalye/porcupine"
	"github.com/uber-go/tally"
	"github.com/uber/kraken/core"
	"github.com/uber/kraken/lib/store"
	"github.com/uber/kraken/lib/store/base"
	"github.com/uber/kraken/utils/cache"

	"verif/bfs"
	"verif/checks/c13/vtime"
	"verif/evid"
	_ "verif/quiet"
	"verif/rep"
	"verif/shim/vsync"
	"verif/shim/vsyncq"
	"verif/vrt"
)

var run *evid.Run

// note records an outcome class (distinct, non-trivial) when running in the
// coordinating process (shard workers have no run).
func note(class string) {
	if run != nil {
		run.Distinct(class)
		classMu.Lock()
		classes[class] = true
		classMu.Unlock()
	}
}

var (
	classMu sync.Mutex
	classes = map[string]bool{}
)

// ===================================================================
// E3-a: BlobMemoryCache histories
// ===================================================================

var t0 = time.Date(2001, 2, 3, 4, 5, 6, 0, time.UTC)

const (
	mcTick = time.Second
	mcTTL  = 1500 * time.Millisecond // never equal to an age: the boundary is undecided by the text
	mcMaxT = 3
)

type mEnt struct {
	l       int
	created int
}

type mcSys struct {
	label  string
	max    uint64
	c      *cache.BlobMemoryCache
	stored map[string]mEnt // model: stored entries
	resv   uint64          // model: outstanding reservations (sum)
	t      int             // model clock (ticks)
}

func newMC(max uint64) *mcSys {
	return &mcSys{
		label:  fmt.Sprintf("mc max=%d", max),
		max:    max,
		c:      cache.NewBlobMemoryCache(cache.BlobMemoryCacheConfig{MaxSize: max}, tally.NoopScope),
		stored: map[string]mEnt{},
	}
}

func (s *mcSys) Close() {}

func (s *mcSys) storedBytes() uint64 {
	var n uint64
	for _, e := range s.stored {
		n += uint64(e.l)
	}
	return n
}

func (s *mcSys) Ops() []string {
	var ops []string
	for _, v := range []int{1, 2, 3, 0} {
		ops = append(ops, fmt.Sprintf("res %d", v))
	}
	ops = append(ops, "res huge")
	for v := uint64(1); v <= 3; v++ {
		if v <= s.resv { // releasing what was not reserved is a caller error the text does not decide
			ops = append(ops, fmt.Sprintf("rel %d", v))
		}
	}
	for _, n := range []string{"a", "b"} {
		for _, l := range []uint64{1, 2, 3, 0} {
			if l <= s.resv { // Add requires a successful reservation for the entry's bytes
				ops = append(ops, fmt.Sprintf("add %s %d", n, l))
			}
		}
	}
	ops = append(ops, "rm a", "rm b", "rmb ab", "rmb aab")
	if s.t < mcMaxT {
		ops = append(ops, "adv")
	}
	ops = append(ops, "exp")
	return ops
}

func (s *mcSys) Apply(op string) error {
	f := strings.Fields(op)
	switch f[0] {
	case "res":
		size := uint64(math.MaxUint64)
		cls := "huge size"
		if f[1] != "huge" {
			var v int
			fmt.Sscan(f[1], &v)
			size = uint64(v)
			cls = "small size"
		}
		acc := s.storedBytes() + s.resv
		fits := acc <= s.max && size <= s.max-acc // overflow-free form of acc+size <= max
		ok := s.c.TryReserve(size)
		if ok && !fits {
			return bfs.Failf("memcache: TryReserve admitted a reservation taking accounted bytes above MaxSize ("+cls+")",
				"%s: accounted=%d size=%d max=%d admitted", s.label, acc, size, s.max)
		}
		if ok {
			s.resv += size
			note("mc|res admitted")
		} else if fits {
			// refusing although it fits is not forbidden by the statement; the model follows
			note("mc|res refused although it fits")
		} else {
			note("mc|res refused (would exceed)")
		}
	case "rel":
		var v uint64
		fmt.Sscan(f[1], &v)
		s.c.ReleaseReservation(v)
		s.resv -= v
	case "add":
		var l int
		fmt.Sscan(f[2], &l)
		_, dup := s.stored[f[1]]
		ok := s.c.Add(&cache.MemoryEntry{Name: f[1], Data: make([]byte, l), CreatedAt: t0.Add(time.Duration(s.t) * mcTick)})
		if ok && dup {
			return bfs.Failf("memcache: Add replaced a stored entry of the same name", "%s: add %s over %v", s.label, f[1], s.stored[f[1]])
		}
		if ok {
			s.resv -= uint64(l) // the reservation becomes the stored entry
			s.stored[f[1]] = mEnt{l, s.t}
			note("mc|add stored")
		} else {
			note(fmt.Sprintf("mc|add refused dup=%v", dup)) // reservation stays outstanding until released
		}
	case "rm":
		s.c.Remove(f[1])
		delete(s.stored, f[1])
	case "rmb":
		var names []string
		for _, ch := range f[1] {
			names = append(names, string(ch))
		}
		s.c.RemoveBatch(names)
		for _, n := range names {
			delete(s.stored, n)
		}
	case "adv":
		s.t++
	case "exp":
		names := s.c.GetExpiredEntries(t0.Add(time.Duration(s.t)*mcTick), mcTTL)
		sort.Strings(names)
		for _, n := range names {
			e, ok := s.stored[n]
			if !ok {
				return fmt.Errorf("GetExpiredEntries returned %q which is not stored", n)
			}
			if time.Duration(s.t-e.created)*mcTick <= mcTTL {
				note("mc|exp returned unexpired entry")
			}
		}
		if len(names) > 0 {
			note("mc|exp removed entries")
		}
		s.c.RemoveBatch(names) // which entries expire is not C13's business: the model follows
		for _, n := range names {
			delete(s.stored, n)
		}
	default:
		return fmt.Errorf("unknown op %q", op)
	}
	return s.check(f[0])
}

func (s *mcSys) check(after string) error {
	want := s.storedBytes() + s.resv
	if got := s.c.TotalBytes(); got != want {
		return bfs.Failf("memcache: TotalBytes != stored entry bytes + outstanding reservations (after "+after+")",
			"%s: TotalBytes=%d stored=%d reservations=%d", s.label, got, s.storedBytes(), s.resv)
	}
	if s.c.TotalBytes() > s.max {
		return bfs.Failf("memcache: accounted bytes above MaxSize (after "+after+")", "%s: TotalBytes=%d", s.label, s.c.TotalBytes())
	}
	names := s.c.ListNames()
	if s.c.NumEntries() != len(s.stored) || len(names) != len(s.stored) {
		return bfs.Failf("memcache: stored entries differ from the entries added and not removed (after "+after+")",
			"%s: NumEntries=%d names=%v model=%v", s.label, s.c.NumEntries(), names, s.stored)
	}
	for n, e := range s.stored {
		g := s.c.Get(n)
		if g == nil || int(g.Size()) != e.l {
			return bfs.Failf("memcache: stored entries differ from the entries added and not removed (after "+after+")",
				"%s: Get(%s)=%v model=%v", s.label, n, g, e)
		}
	}
	return nil
}

func (s *mcSys) Key() string {
	var ks []string
	for n, e := range s.stored {
		ks = append(ks, fmt.Sprintf("%s:%d@%d", n, e.l, e.created))
	}
	sort.Strings(ks)
	names := s.c.ListNames()
	sort.Strings(names)
	return fmt.Sprintf("%v|r%d|t%d|T%d|N%d|%v", ks, s.resv, s.t, s.c.TotalBytes(), s.c.NumEntries(), names)
}

// ===================================================================
// E3-b: LRUCache histories (clock = vtime, single-threaded search)
// ===================================================================

const (
	lruDepth4 = 12 // thorough: depth bound of the Size-4 search
	lruTick   = time.Second
	lruTTL    = 2500 * time.Millisecond // never equal to an age
)

type lEnt struct {
	key string
	exp time.Time
	// refreshed: the key was re-added while cached. Part of the search key only:
	// a state reached through a refresh is kept apart from the same model state
	// reached through fresh adds, because the implementation's internal order
	// (not observable yet) may differ exactly there.
	refreshed bool
}

type lruSys struct {
	label string
	size  int
	keys  []string
	c     *cache.LRUCache
	order []lEnt // model: least recently added/refreshed first
	// modelKeyOnly: deduplicate on the model-level key (see Key); only for the
	// deep thorough-tier search of Size 4 that existed before the key was refined
	modelKeyOnly bool
}

func newLRU(size int) *lruSys {
	vtime.Reset()
	return &lruSys{
		label: fmt.Sprintf("lru size=%d", size),
		size:  size,
		keys:  []string{"a", "b", "c", "d", "e"}[:size+1],
		c:     cache.NewLRUCache(cache.LRUCacheConfig{Size: size, TTL: lruTTL}),
	}
}

func (s *lruSys) Close() {}

func (s *lruSys) Ops() []string {
	var ops []string
	for _, k := range s.keys {
		ops = append(ops, "add "+k)
	}
	ops = append(ops, "adv")
	for _, k := range s.keys {
		ops = append(ops, "del "+k)
	}
	ops = append(ops, "clear")
	return ops
}

func (s *lruSys) find(k string) int {
	for i, e := range s.order {
		if e.key == k {
			return i
		}
	}
	return -1
}

func (s *lruSys) remove(k string) {
	if i := s.find(k); i >= 0 {
		s.order = append(append([]lEnt{}, s.order[:i]...), s.order[i+1:]...)
	}
}

func (s *lruSys) purgeExpired() {
	now := vtime.Current()
	var o []lEnt
	for _, e := range s.order {
		if !now.After(e.exp) {
			o = append(o, e)
		}
	}
	s.order = o
}

func (s *lruSys) Apply(op string) error {
	f := strings.Fields(op)
	reads := vtime.Reads
	switch f[0] {
	case "add":
		s.c.Add(f[1])
		if vtime.Reads == reads {
			return errors.New("LRUCache.Add did not read the vtime clock: the time import was not rewritten")
		}
		refreshed := s.find(f[1]) >= 0
		s.remove(f[1])
		s.purgeExpired()
		s.order = append(s.order, lEnt{f[1], vtime.Current().Add(lruTTL), refreshed})
		// which keys survived? The statement fixes the ORDER of dropping and the
		// maximum, not the number dropped: the model follows the observed number.
		var surv []lEnt
		gap := false // a dropped key seen after (= more recent than) ... see below
		seenSurvivor := false
		for _, e := range s.order {
			if s.c.Has(e.key) {
				seenSurvivor = true
				surv = append(surv, e)
			} else if seenSurvivor {
				gap = true
			}
		}
		if gap {
			return bfs.Failf("lru: dropped a key that is not the least recently added/refreshed",
				"%s: recency order %v, survivors %v", s.label, keysOf(s.order), keysOf(surv))
		}
		if len(surv) > s.size {
			return bfs.Failf("lru: holds more keys than configured", "%s: %d live keys %v", s.label, len(surv), keysOf(surv))
		}
		if len(s.order)-len(surv) > max(0, len(s.order)-s.size) {
			note("lru|dropped more than necessary")
		}
		if len(surv) < len(s.order) {
			note(fmt.Sprintf("lru|evicted oldest size=%d", s.size))
		}
		s.order = surv
	case "del":
		s.c.Delete(f[1])
		s.remove(f[1])
	case "clear":
		s.c.Clear()
		s.order = nil
	case "adv":
		vtime.Advance(lruTick)
	default:
		return fmt.Errorf("unknown op %q", op)
	}
	return s.check(f[0])
}

func keysOf(o []lEnt) []string {
	var ks []string
	for _, e := range o {
		ks = append(ks, e.key)
	}
	return ks
}

func (s *lruSys) check(after string) error {
	now := vtime.Current()
	if n := s.c.Size(); n > s.size {
		return bfs.Failf("lru: holds more keys than configured", "%s: Size()=%d after %s", s.label, n, after)
	}
	for _, k := range s.keys {
		has := s.c.Has(k)
		i := s.find(k)
		switch {
		case has && i >= 0 && now.After(s.order[i].exp):
			return bfs.Failf("lru: reports an expired key", "%s: Has(%s)=true, expired %v ago (after %s)", s.label, k, now.Sub(s.order[i].exp), after)
		case has && i < 0:
			// deleted / cleared / previously dropped key reported: outside the stated clauses
			return fmt.Errorf("%s: model cannot follow: Has(%s)=true for a key that is not cached (after %s)", s.label, k, after)
		case !has && i >= 0 && !now.After(s.order[i].exp):
			// an unexpired key vanished on a non-add operation: outside the stated clauses
			return fmt.Errorf("%s: model cannot follow: Has(%s)=false for a live key (after %s)", s.label, k, after)
		}
		if i >= 0 && now.After(s.order[i].exp) {
			note("lru|expired key not reported")
		}
	}
	return nil
}

func (s *lruSys) Key() string {
	now := vtime.Current()
	var b strings.Builder
	for _, e := range s.order {
		if now.After(e.exp) {
			fmt.Fprintf(&b, "%s+expired,", e.key) // behaviour depends only on expired-or-not
		} else {
			fmt.Fprintf(&b, "%s+%d,", e.key, e.exp.Sub(now)/time.Millisecond)
		}
		if e.refreshed {
			b.WriteString("r,")
		}
	}
	fmt.Fprintf(&b, "|S%d|", s.c.Size())
	for _, k := range s.keys {
		if s.c.Has(k) {
			b.WriteString(k)
		}
	}
	modelKey := b.String()
	// The complete internal state of the real object (implstate.go) is part of
	// the key: a history is merged with an earlier one only when the real cache
	// itself is in the same state, whatever the model and the public API show.
	// Without it, "add a, del a" was merged with the empty history and "add a,
	// add b, del a, add a" with "add b, add a", so no history in which a key is
	// added again after a Delete / Clear / expiry was ever extended: bookkeeping
	// left behind by those operations could not reach an eviction.
	full := modelKey + "|impl:" + implState(s.c, now, lruTTL)
	lruKeyMu.Lock()
	lruModelKeys[s.label+modelKey] = true
	lruFullKeys[s.label+full] = true
	lruKeyMu.Unlock()
	if lruModelKeyOnly || s.modelKeyOnly {
		return modelKey
	}
	return full
}

// vacuity / refinement counters: distinct model-level keys vs distinct keys
// including the implementation state, over everything the LRU searches visited.
var (
	// development knob: deduplicate on the model-level key only (the search as it
	// was before the implementation state became part of the key), to measure
	// what that merging hides
	lruModelKeyOnly = os.Getenv("C13_LRU_MODEL_KEY_ONLY") != ""

	lruKeyMu     sync.Mutex
	lruModelKeys = map[string]bool{}
	lruFullKeys  = map[string]bool{}
)

// ===================================================================
// CAStore fixture (E3-c and E1)
// ===================================================================

// fclock is an explicit clock: Now only moves when the check moves it.
type fclock struct {
	clock.Clock
	now time.Time
}

func (c *fclock) Now() time.Time { return c.now }

type blob struct {
	tag     string
	content []byte
	name    string
}

func mkBlob(tag, content string) blob {
	d, err := core.NewDigester().FromBytes([]byte(content))
	if err != nil {
		panic(err)
	}
	return blob{tag, []byte(content), d.Hex()}
}

var blobs = map[string]blob{"A": mkBlob("A", "ab"), "B": mkBlob("B", "xyz"), "C": mkBlob("C", "q")}

const memTTL = time.Minute

var errInjected = errors.New("injected write failure")

type caSys struct {
	label string
	tags  []string // blobs of the alphabet
	max   uint64
	dir   string
	clk   *fclock
	cas   *store.CAStore
	mem   *cache.BlobMemoryCache
}

func newCA(max uint64, tags ...string) (*caSys, error) {
	if len(tags) == 0 {
		tags = []string{"A", "B"}
	}
	dir, err := os.MkdirTemp("", "c13-")
	if err != nil {
		return nil, err
	}
	clk := &fclock{Clock: clock.New(), now: t0}
	cfg := store.CAStoreConfig{
		UploadDir:     dir + "/upload",
		CacheDir:      dir + "/cache",
		UploadCleanup: store.CleanupConfig{Disabled: true},
		CacheCleanup:  store.CleanupConfig{Disabled: true},
		MemoryCache: store.MemoryCacheConfig{
			Enabled:         true,
			MaxSize:         max,
			DrainWorkers:    1, // not started: see export_store.go.txt
			DrainMaxRetries: 1,
			TTL:             memTTL,
			TTLInterval:     time.Hour,
		},
	}
	var cas *store.CAStore
	// real constructor; its workers are stopped again inside (outside the scheduler)
	vrt.Uncontrolled(func() { cas, err = store.VerifNewCAStoreManualDrain(cfg, tally.NoopScope, clk) })
	if err != nil {
		os.RemoveAll(dir)
		return nil, err
	}
	if time.Duration(cas.VerifMemoryTTL()) != memTTL {
		return nil, fmt.Errorf("unexpected memory TTL %v", time.Duration(cas.VerifMemoryTTL()))
	}
	return &caSys{label: fmt.Sprintf("castore max=%d", max), tags: tags, max: max, dir: dir, clk: clk, cas: cas, mem: cas.VerifMemCache()}, nil
}

func (s *caSys) Close() {
	s.cas.Close()
	os.RemoveAll(s.dir)
}

var writeKinds = []string{"exact", "fewer", "more", "fewerBogus", "moreBogus", "failmid", "failonce"}

var kindClass = map[string]string{
	"exact":      "write of exactly the reserved size",
	"fewer":      "write delivering fewer bytes than the reserved size",
	"fewerBogus": "write delivering fewer bytes than the reserved size",
	"more":       "write delivering more bytes than the reserved size",
	"moreBogus":  "write delivering more bytes than the reserved size",
	"failmid":    "write failing midway",
	"failonce":   "write failing midway once",
}

type wres struct {
	err       error
	memCalls  int // callback invocations on the memory buffer (reservation admitted)
	diskCalls int // callback invocations on an upload file
}

// declared returns the size passed to WriteBlobToCacheWithMetaInfo and the
// bytes the callback delivers for (blob, kind). Names are always valid digests;
// for fewer/more the name is the digest of the delivered bytes (only the
// declared size is wrong), for *Bogus the delivered bytes are wrong.
func declared(b blob, kind string) (uint64, []byte) {
	size := uint64(len(b.content))
	data := append([]byte{}, b.content...)
	switch kind {
	case "fewer":
		size++
	case "more":
		size--
	case "fewerBogus":
		data = data[:len(data)-1]
	case "moreBogus":
		data = append(data, 'L')
	}
	return size, data
}

// write performs one write-through write. hook (may be nil) is called inside
// the callback when it runs on the memory buffer (reservation outstanding).
func (s *caSys) write(b blob, kind string, hook func(enter bool)) wres {
	size, data := declared(b, kind)
	var r wres
	calls := 0
	cb := func(w store.FileReadWriter) error {
		calls++
		if _, isMem := w.(*base.BufferReadWriter); isMem {
			r.memCalls++
			if hook != nil {
				hook(true)
				defer hook(false)
			}
		} else {
			r.diskCalls++
		}
		if kind == "failmid" || (kind == "failonce" && calls == 1) {
			w.Write(data[:1])
			return errInjected
		}
		_, err := w.Write(data)
		return err
	}
	r.err = s.cas.WriteBlobToCacheWithMetaInfo(b.name, size, cb, 2)
	return r
}

func (s *caSys) storedBytes() (uint64, int) {
	var n uint64
	names := s.mem.ListNames()
	for _, name := range names {
		if e := s.mem.Get(name); e != nil {
			n += e.Size()
		}
	}
	return n, len(names)
}

// balance: with no write in flight there is no outstanding reservation, so the
// accounted bytes must equal the bytes of the stored entries.
func (s *caSys) balance(fpPrefix, after string) error {
	total := s.mem.TotalBytes()
	stored, n := s.storedBytes()
	if total != stored {
		return bfs.Failf(fpPrefix+"accounted bytes != stored entry bytes with no write in flight (after "+after+")",
			"%s: TotalBytes=%d, %d entries holding %d bytes", s.label, total, n, stored)
	}
	if total > s.max {
		return bfs.Failf(fpPrefix+"accounted bytes above MaxSize (after "+after+")", "%s: TotalBytes=%d", s.label, total)
	}
	return nil
}

func (s *caSys) Ops() []string {
	var ops []string
	for _, k := range writeKinds {
		for _, b := range s.tags {
			ops = append(ops, "w "+b+" "+k)
		}
	}
	return append(ops, "drain", "adv", "sweep")
}

func (s *caSys) Apply(op string) error {
	f := strings.Fields(op)
	after := f[0]
	switch f[0] {
	case "w":
		b := blobs[f[1]]
		inMem := s.mem.Get(b.name) != nil
		before := s.mem.TotalBytes()
		r := s.write(b, f[2], nil)
		after = kindClass[f[2]]
		if inMem && f[2] == "exact" {
			after = "write of a name already in the memory cache"
		}
		if r.err != nil && r.err != errInjected && !strings.Contains(f[2], "Bogus") && f[2] != "failmid" {
			return fmt.Errorf("%s: unexpected error %v", op, r.err)
		}
		if r.err != nil || (inMem && r.memCalls > 0) {
			// failed or abandoned (duplicate) write: its reservation must be gone
			if got := s.mem.TotalBytes(); got != before {
				return bfs.Failf("write-through: failed or abandoned write did not release its reservation ("+after+")",
					"%s: TotalBytes %d -> %d, err=%v", s.label, before, got, r.err)
			}
		}
		note(fmt.Sprintf("ca|%s mem=%d disk=%d err=%v dup=%v", f[2], r.memCalls, r.diskCalls, r.err != nil, inMem))
	case "drain":
		s.cas.VerifDrainNext()
		after = "drain step"
	case "adv":
		s.clk.now = s.clk.now.Add(memTTL + time.Second)
	case "sweep":
		s.cas.VerifTTLSweep()
		after = "TTL sweep"
	default:
		return fmt.Errorf("unknown op %q", op)
	}
	return s.balance("write-through: ", after)
}

func (s *caSys) Key() string {
	var ks []string
	for _, n := range s.mem.ListNames() {
		e := s.mem.Get(n)
		ks = append(ks, fmt.Sprintf("%s:%d:%v", n[:4], e.Size(), s.clk.now.Sub(e.CreatedAt) > memTTL))
	}
	sort.Strings(ks)
	qn, qr := s.cas.VerifDrainQueue()
	var q []string
	for i := range qn {
		q = append(q, fmt.Sprintf("%s/%d", qn[i][:4], qr[i]))
	}
	disk := ""
	for _, t := range s.tags {
		if s.cas.VerifOnDisk(blobs[t].name) {
			disk += t
		}
	}
	return fmt.Sprintf("%v|T%d|q%v|disk:%s", ks, s.mem.TotalBytes(), q, disk)
}

// ===================================================================
// E1-a: concurrent BlobMemoryCache callers, linearizability (porcupine)
// ===================================================================

type mcIn struct {
	op    string
	name  string
	size  uint64
	names string
}

type mcOut struct {
	ok    bool
	n     uint64
	names string
}

type mcState struct {
	total uint64
	a, b  int // stored length, -1 = absent. Entries named "a" are created old (expired), "b" fresh.
}

func (st mcState) get(n string) int {
	if n == "a" {
		return st.a
	}
	return st.b
}

func (st mcState) set(n string, l int) mcState {
	if n == "a" {
		st.a = l
	} else {
		st.b = l
	}
	return st
}

func (st mcState) drop(n string) mcState {
	l := st.get(n)
	if l < 0 {
		return st
	}
	if uint64(l) > st.total {
		st.total = 0
	} else {
		st.total -= uint64(l)
	}
	return st.set(n, -1)
}

// mcModel is the sequential specification: the accounting model validated by
// the E3 search (accounted = stored + reservations; admit iff it fits).
func mcModel(max uint64) porcupine.Model {
	return porcupine.Model{
		Init: func() interface{} { return mcState{0, -1, -1} },
		Step: func(state, input, output interface{}) (bool, interface{}) {
			st, in, out := state.(mcState), input.(mcIn), output.(mcOut)
			switch in.op {
			case "reserve":
				fits := st.total <= max && in.size <= max-st.total
				if fits {
					st.total += in.size
				}
				return out.ok == fits, st
			case "release":
				if in.size <= st.total {
					st.total -= in.size
				}
				return true, st
			case "add":
				ok := st.get(in.name) < 0
				if ok {
					st = st.set(in.name, int(in.size))
				}
				return out.ok == ok, st
			case "remove":
				return true, st.drop(in.name)
			case "getexpired":
				want := ""
				if st.a >= 0 {
					want = "a"
				}
				return out.names == want, st
			case "removebatch":
				for _, ch := range in.names {
					st = st.drop(string(ch))
				}
				return true, st
			case "total":
				return out.n == st.total, st
			case "num":
				n := uint64(0)
				if st.a >= 0 {
					n++
				}
				if st.b >= 0 {
					n++
				}
				return out.n == n, st
			}
			return false, st
		},
		DescribeOperation: func(i, o interface{}) string { return fmt.Sprintf("%+v -> %+v", i, o) },
	}
}

type mcThread struct {
	kind string // writer | remover | expirer | observer
	name string
	size uint64
}

// plan: preemption bound per tier (0 = not run in that tier).
type plan struct{ quick, thorough int }

func (p plan) bound(thorough bool) int {
	if thorough {
		return p.thorough
	}
	return p.quick
}

type mcScenario struct {
	name    string
	max     uint64
	threads []mcThread
	rounds  int // repetitions of the remover / observer bodies
	plan    plan
}

var mcScenarios = []mcScenario{
	{name: "mc same-name writers+remover", max: 4, rounds: 1, plan: plan{2, 3}, threads: []mcThread{{"writer", "b", 2}, {"writer", "b", 2}, {"remover", "b", 0}}},
	{name: "mc over-budget writers+observer", max: 3, rounds: 1, plan: plan{2, 3}, threads: []mcThread{{"writer", "a", 2}, {"writer", "b", 2}, {"observer", "", 0}}},
	{name: "mc writer+expirer+observer", max: 4, rounds: 1, plan: plan{2, 3}, threads: []mcThread{{"writer", "a", 2}, {"expirer", "", 0}, {"observer", "", 0}}},
	{name: "mc same-name writers+remover x2", max: 4, rounds: 2, plan: plan{0, 3}, threads: []mcThread{{"writer", "b", 2}, {"writer", "b", 2}, {"remover", "b", 0}}},
	{name: "mc two writers+expirer+observer", max: 4, rounds: 1, plan: plan{0, 2}, threads: []mcThread{{"writer", "a", 2}, {"expirer", "", 0}, {"writer", "b", 3}, {"observer", "", 0}}},
	{name: "mc three writers", max: 4, rounds: 1, plan: plan{0, 3}, threads: []mcThread{{"writer", "a", 2}, {"writer", "a", 2}, {"writer", "b", 2}}},
	{name: "mc three writers+remover+observer", max: 4, rounds: 1, plan: plan{0, 1}, threads: []mcThread{{"writer", "a", 2}, {"writer", "a", 2}, {"writer", "b", 2}, {"remover", "a", 0}, {"observer", "", 0}}},
}

func mcHarness(sc mcScenario) *vrt.Harness {
	return &vrt.Harness{Name: sc.name, Horizon: 5000, Body: func() (string, string) {
		vsync.Points, vsync.UnlockPoints = true, true
		c := cache.NewBlobMemoryCache(cache.BlobMemoryCacheConfig{MaxSize: sc.max}, tally.NoopScope)
		var hist []porcupine.Operation
		var ts int64
		var admitted, released, consumed uint64
		rec := func(client int, in mcIn, f func() mcOut) mcOut {
			ts++
			call := ts
			out := f()
			ts++
			hist = append(hist, porcupine.Operation{ClientId: client, Input: in, Call: call, Output: out, Return: ts})
			return out
		}
		now := t0.Add(time.Hour)
		created := map[string]time.Time{"a": t0, "b": now} // "a" entries are expired at now, "b" entries are not
		for i, th := range sc.threads {
			i, th := i, th
			vrt.GoNamed(fmt.Sprintf("%s%d", th.kind, i), func() {
				switch th.kind {
				case "writer": // the calling pattern of CAStore.WriteBlobToCacheWithMetaInfo
					r := rec(i, mcIn{op: "reserve", size: th.size}, func() mcOut { return mcOut{ok: c.TryReserve(th.size)} })
					if !r.ok {
						return
					}
					admitted += th.size
					e := &cache.MemoryEntry{Name: th.name, Data: make([]byte, th.size), CreatedAt: created[th.name]}
					a := rec(i, mcIn{op: "add", name: th.name, size: th.size}, func() mcOut { return mcOut{ok: c.Add(e)} })
					if a.ok {
						consumed += th.size
						return
					}
					rec(i, mcIn{op: "release", size: th.size}, func() mcOut { c.ReleaseReservation(th.size); return mcOut{} })
					released += th.size
				case "remover":
					for k := 0; k < sc.rounds; k++ {
						rec(i, mcIn{op: "remove", name: th.name}, func() mcOut { c.Remove(th.name); return mcOut{} })
					}
				case "expirer":
					var names []string
					g := rec(i, mcIn{op: "getexpired"}, func() mcOut {
						names = c.GetExpiredEntries(now, time.Minute)
						sort.Strings(names)
						return mcOut{names: strings.Join(names, "")}
					})
					rec(i, mcIn{op: "removebatch", names: g.names}, func() mcOut { c.RemoveBatch(names); return mcOut{} })
				case "observer":
					for k := 0; k < sc.rounds; k++ {
						rec(i, mcIn{op: "total"}, func() mcOut { return mcOut{n: c.TotalBytes()} })
						rec(i, mcIn{op: "num"}, func() mcOut { return mcOut{n: uint64(c.NumEntries())} })
					}
				}
			})
		}
		vrt.Join()
		var vio []string
		overMax := false
		var outs []string
		for _, o := range hist {
			in, out := o.Input.(mcIn), o.Output.(mcOut)
			if in.op == "total" && out.n > sc.max {
				overMax = true
			}
			if in.op == "reserve" || in.op == "add" {
				outs = append(outs, fmt.Sprintf("%d:%s=%v", o.ClientId, in.op, out.ok))
			}
		}
		sort.Strings(outs)
		if overMax {
			vio = append(vio, fmt.Sprintf("memcache: accounted bytes above MaxSize observed by a concurrent reader | %v", hist))
		}
		if !porcupine.CheckOperations(mcModel(sc.max), hist) {
			vio = append(vio, fmt.Sprintf("memcache: concurrent history not linearizable w.r.t. the accounting model | %v", describe(hist)))
		}
		acc, stored, _ := c.VerifSnapshot()
		if acc != stored+(admitted-released-consumed) || acc > sc.max {
			vio = append(vio, fmt.Sprintf("memcache: end state accounted bytes != stored entry bytes + outstanding reservations | accounted=%d stored=%d outstanding=%d", acc, stored, admitted-released-consumed))
		}
		obs := fmt.Sprintf("%v acc=%d stored=%d", outs, acc, stored)
		sort.Strings(vio)
		return obs, strings.Join(vio, "\n")
	}}
}

func describe(h []porcupine.Operation) string {
	var b strings.Builder
	for _, o := range h {
		fmt.Fprintf(&b, "[c%d %d-%d %+v->%+v] ", o.ClientId, o.Call, o.Return, o.Input, o.Output)
	}
	return b.String()
}

// ===================================================================
// E1-b: concurrent CAStore writers + drain thread + TTL thread
// ===================================================================

type wspec struct {
	blob string
	kind string // exact | failmid | failonce
}

type caScenario struct {
	name    string
	max     uint64
	writers []wspec
	drains  int // steps of the drain thread (0: no drain thread; the queue is drained after the join)
	ttl     bool
	coarse  plan // scheduling points: memory cache locks + download step
	fine    plan // additionally every lock of lib/store and lib/store/base
}

var caScenarios = []caScenario{
	{name: "ca same-name writers+drain", max: 4, writers: []wspec{{"A", "exact"}, {"A", "exact"}}, drains: 2, coarse: plan{2, 3}, fine: plan{1, 2}},
	{name: "ca over-budget writers+ttl", max: 4, writers: []wspec{{"A", "exact"}, {"B", "exact"}}, ttl: true, coarse: plan{2, 3}, fine: plan{1, 2}},
	{name: "ca failing writer+same-name writer+drain+ttl", max: 4, writers: []wspec{{"A", "failmid"}, {"A", "exact"}}, drains: 1, ttl: true, coarse: plan{1, 2}, fine: plan{0, 1}},
	{name: "ca over-budget writers+drain+ttl", max: 4, writers: []wspec{{"A", "exact"}, {"B", "exact"}}, drains: 1, ttl: true, coarse: plan{0, 2}, fine: plan{0, 1}},
	{name: "ca three writers", max: 4, writers: []wspec{{"A", "exact"}, {"A", "failonce"}, {"B", "exact"}}, coarse: plan{0, 3}, fine: plan{0, 1}},
	{name: "ca three writers+drain+ttl", max: 4, writers: []wspec{{"A", "exact"}, {"A", "failonce"}, {"B", "exact"}}, drains: 1, ttl: true, coarse: plan{0, 1}},
}

func caHarness(sc caScenario, fine bool) *vrt.Harness {
	name := sc.name + "/coarse"
	if fine {
		name = sc.name + "/fine"
	}
	return &vrt.Harness{Name: name, Horizon: 40000, Body: func() (string, string) {
		// Unlock operations are not preemption points here (a preemption right
		// after an unlock is represented by the one before the thread's next lock
		// operation); blocking on a held lock is always modelled.
		vsync.Points, vsync.UnlockPoints = true, false
		vsyncq.Points, vsyncq.UnlockPoints = fine, false
		reservationsSeen := 0
		s, err := newCA(sc.max)
		if err != nil {
			return "", "HARNESS: " + err.Error()
		}
		defer s.Close()
		nw := len(sc.writers)
		inflight := make([]uint64, nw) // size of a write that has started and not returned
		inCb := make([]uint64, nw)     // size of a write whose callback runs on the memory buffer
		res := make([]string, nw)
		var vio []string
		for i, w := range sc.writers {
			i, w := i, w
			vrt.GoNamed(fmt.Sprintf("w%d", i), func() {
				b := blobs[w.blob]
				size, _ := declared(b, w.kind)
				inflight[i] = size
				r := s.write(b, w.kind, func(enter bool) {
					if enter {
						inCb[i] = size
						vrt.Point("download")
					} else {
						inCb[i] = 0
					}
				})
				inflight[i] = 0
				res[i] = fmt.Sprintf("%s/%s:mem%d,disk%d,err=%v", w.blob, w.kind, r.memCalls, r.diskCalls, r.err != nil)
				if r.err != nil && w.kind == "exact" {
					vio = append(vio, fmt.Sprintf("HARNESS: exact write failed: %v", r.err))
				}
			})
		}
		// snapshot: one lock acquisition reads accounted + stored bytes; the
		// in-flight bookkeeping is read in the same scheduler step.
		snapshot := func() {
			acc, stored, _ := s.mem.VerifSnapshot()
			var lo, hi uint64
			for i := range inflight {
				lo += inCb[i]
				hi += inflight[i]
			}
			if acc > s.max {
				vio = append(vio, fmt.Sprintf("write-through: accounted bytes above MaxSize observed during concurrent writes | accounted=%d", acc))
			}
			if acc < stored+lo || acc > stored+hi {
				vio = append(vio, fmt.Sprintf("write-through: accounted bytes outside stored entry bytes + reservations of the writes in flight | accounted=%d stored=%d reservations in [%d,%d]", acc, stored, lo, hi))
			}
			if acc != stored {
				reservationsSeen++
			}
		}
		if sc.drains > 0 {
			vrt.GoNamed("drain", func() {
				for k := 0; k < sc.drains; k++ {
					s.cas.VerifDrainNext()
					snapshot()
				}
			})
		}
		if sc.ttl {
			vrt.GoNamed("ttl", func() {
				s.clk.now = s.clk.now.Add(memTTL + time.Second)
				s.cas.VerifTTLSweep()
				snapshot()
			})
		}
		vrt.Join()
		if err := s.balance("", "all concurrent writers returned"); err != nil {
			vio = append(vio, "write-through: "+strings.Replace(err.Error(), ": ", " | ", 1))
		}
		for k := 0; k < 12; k++ {
			if q, _ := s.cas.VerifDrainQueue(); len(q) == 0 {
				break
			}
			s.cas.VerifDrainNext()
		}
		if err := s.balance("", "draining everything"); err != nil {
			vio = append(vio, "write-through: "+strings.Replace(err.Error(), ": ", " | ", 1))
		}
		_, n := s.storedBytes()
		obs := fmt.Sprintf("%v entries=%d total=%d snapshots-with-reservation=%d", res, n, s.mem.TotalBytes(), reservationsSeen)
		sort.Strings(vio)
		return obs, strings.Join(vio, "\n")
	}}
}

// ===================================================================

func fingerprint(v vrt.Violation) string {
	m := strings.SplitN(v.Msg, "\n", 2)[0]
	if i := strings.Index(m, " | "); i >= 0 {
		m = m[:i]
	}
	if strings.HasPrefix(m, "panic: ") {
		m = strings.SplitN(m, " [", 2)[0]
	}
	if len(m) > 140 {
		m = m[:140]
	}
	return "E1 " + m
}

func main() {
	var hs []*vrt.Harness
	for _, sc := range mcScenarios {
		hs = append(hs, mcHarness(sc))
	}
	for _, sc := range caScenarios {
		hs = append(hs, caHarness(sc, true), caHarness(sc, false))
	}
	vrt.WorkerMain(hs)

	run = evid.New("C13", "model_checking")
	run.Rule = "E3: every operation history up to depth d (BFS, deduplicated on model state + everything the public API shows) over " +
		"(a) BlobMemoryCache {TryReserve 0..3|2^64-1, ReleaseReservation, Add a|b of 0..3 bytes, Remove, RemoveBatch, advance, GetExpiredEntries+RemoveBatch}, MaxSize 2|3; " +
		"(b) LRUCache {Add, Delete, Clear, advance clock} over Size+1 keys with Has/Size probed after every step, Size 1..3 (thorough: 4); two histories are merged only when the REAL cache's complete internal state " +
		"(every field, read by reflection, expiry times relative to the clock) is equal as well, so histories that add a key again after Delete / Clear / expiry are extended to the evictions that follow them; searched to the fixpoint for Size 1..3 (all histories of any length), depth 12 for Size 4; " +
		"(c) CAStore.WriteBlobToCacheWithMetaInfo {2 blobs x callback exact|fewer|more|fewerBogus|moreBogus|failmid|failonce, drain step, advance clock, TTL sweep}; " +
		"each step executed on the real object and compared with the accounting / recency model. " +
		"E1: every interleaving (preemption-bounded DFS at lock operations) of concurrent BlobMemoryCache callers (porcupine linearizability vs the same model) and of 2-3 CAStore writers + drain thread + TTL thread + snapshot observer. " +
		"distinct = BFS states + outcome classes of operations + distinct E1 observations."
	run.Assume("small-scope: sizes 0..3 and 2^64-1, MaxSize 2..5, two blob names, LRU Size 1..3 over Size+1 keys")
	run.Assume("code between two lock operations is data-race free; interleavings are explored at lock operations only (SC)")
	run.Assume("instrumentation by go build -overlay (sync -> vsync/vsyncq, time -> checks/c13/vtime in utils/cache, added export files) preserves semantics")
	run.Assume("expiry ages never equal the TTL exactly (the text does not decide the boundary)")
	run.Assume("LRU state key: the behaviour of the real LRUCache is a function of its fields (rendered by implstate.go; time values older than now-TTL are rendered alike) and the clock")
	run.Assume("CAStore harnesses: Unlock operations are not preemption points (Lock/RLock operations and the download step are)")
	run.Assume("CAStore drain / TTL workers are replaced by explicit calls of their step functions (drainNext, cleanupMemoryCacheExpiredEntries)")

	th := run.Thorough()
	search := func(name string, cfg bfs.Config) {
		st := time.Now()
		res := rep.BFS(run, name, cfg)
		for i := 0; i < res.States; i++ {
			run.Distinct(fmt.Sprintf("%s#%d", name, i))
		}
		fmt.Printf("  %s: %d states, %d transitions, depth reached %d, fixpoint=%v, completed=%v, %.1fs\n", name, res.States, res.Transitions, res.MaxDepth, res.Fixpoint, res.Completed, time.Since(st).Seconds())
	}
	dl := func(sec int) time.Time { return time.Now().Add(time.Duration(sec) * time.Second) }

	phaseStart := time.Now()
	phases0 := map[string]float64{}
	lap := func(name string) {
		phases0[name] = time.Since(phaseStart).Seconds()
		phaseStart = time.Now()
		fmt.Printf("phase %s: %.1fs\n", name, phases0[name])
		run.Set("phase_seconds", phases0)
	}
	// ---- E3-a
	mcDepth, mcCap := 8, 15
	mcMax := []uint64{2, 3}
	if th {
		mcDepth, mcCap = 20, 60
		mcMax = []uint64{2, 3, 4}
	}
	for _, m := range mcMax {
		m := m
		name := fmt.Sprintf("memcache max=%d depth=%d", m, mcDepth)
		search(name, bfs.Config{MaxDepth: mcDepth, Deadline: dl(mcCap), New: func() (bfs.System, error) { return newMC(m), nil }})
	}

	lap("E3 memcache")
	// ---- E3-b (global vtime clock: one worker)
	// The key contains the real cache's internal state, so on the unchanged
	// tree sizes 1..3 reach a fixpoint (depth 8 / 16 / 18): every history of any
	// length over the alphabet is covered. Size 4 (thorough) is depth-bounded.
	lruCap := 20
	lruDepths := map[int]int{1: 20, 2: 20, 3: 20}
	lruSizes := []int{1, 2, 3}
	if th {
		lruCap = 150
		lruDepths = map[int]int{1: 24, 2: 24, 3: 24, 4: lruDepth4}
		lruSizes = []int{1, 2, 3, 4}
	}
	for _, size := range lruSizes {
		size := size
		name := fmt.Sprintf("lru size=%d depth=%d", size, lruDepths[size])
		search(name, bfs.Config{MaxDepth: lruDepths[size], Workers: 1, Deadline: dl(lruCap), New: func() (bfs.System, error) { return newLRU(size), nil }})
	}
	if th {
		// the pre-refinement search of Size 4 is kept as it was (deeper, merged on the model-level key)
		search("lru size=4 depth=20 model-level key", bfs.Config{MaxDepth: 20, Workers: 1, Deadline: dl(60), New: func() (bfs.System, error) {
			s := newLRU(4)
			s.modelKeyOnly = true
			return s, nil
		}})
	}
	lruKeyMu.Lock()
	run.Set("lru_distinct_model_level_keys", len(lruModelKeys))
	run.Set("lru_distinct_keys_with_implementation_state", len(lruFullKeys))
	lruKeyMu.Unlock()

	lap("E3 lru")
	// ---- E3-c
	caDepth, caCap := 12, 20
	caMax := []uint64{4}
	caTags := []string{"A", "B"}
	if th {
		caDepth, caCap = 9, 150
		caMax = []uint64{4, 5}
		caTags = []string{"A", "B", "C"}
	}
	for _, m := range caMax {
		m := m
		name := fmt.Sprintf("write-through max=%d depth=%d", m, caDepth)
		search(name, bfs.Config{MaxDepth: caDepth, Deadline: dl(caCap), New: func() (bfs.System, error) { return newCA(m, caTags...) }})
	}

	lap("E3 write-through")
	// ---- E1
	var e1Exec int64
	explore := func(h *vrt.Harness, bound, maxDur int) {
		_, o1, _ := vrt.Replay(h, nil)
		_, o2, _ := vrt.Replay(h, nil)
		if o1 != o2 {
			run.Fatal(errors.New("non-deterministic replay in " + h.Name + ": " + o1 + " vs " + o2))
		}
		st := time.Now()
		r := rep.VRT(run, h, bound, evid.Workers(), maxDur, fingerprint)
		e1Exec += int64(r.Executions)
		var oc []string
		for k := range r.Outcomes {
			oc = append(oc, k)
		}
		sort.Strings(oc)
		if len(oc) > 12 {
			oc = oc[:12]
		}
		run.Set("outcomes:"+h.Name, oc)
		fmt.Printf("  %s bound=%d: %d executions, %d outcomes, max %d points, completed=%v, %.1fs\n", h.Name, bound, r.Executions, len(r.Outcomes), r.MaxPoints, r.Completed, time.Since(st).Seconds())
	}
	// E1 time budget: every harness may use an equal share of what is left
	// (unused time rolls over); a harness that hits its share marks the run
	// NotExhaustive. Sizes are chosen so that this does not happen on an idle
	// 16-core machine.
	type job struct {
		h     *vrt.Harness
		bound int
	}
	var mcJobs, caJobs []job
	for _, sc := range mcScenarios {
		if b := sc.plan.bound(th); b > 0 {
			mcJobs = append(mcJobs, job{mcHarness(sc), b})
		}
	}
	for _, sc := range caScenarios {
		if b := sc.coarse.bound(th); b > 0 {
			caJobs = append(caJobs, job{caHarness(sc, false), b})
		}
		if b := sc.fine.bound(th); b > 0 {
			caJobs = append(caJobs, job{caHarness(sc, true), b})
		}
	}
	budget := 45 * time.Second
	if th {
		budget = 11 * time.Minute
	}
	if v, err := time.ParseDuration(os.Getenv("C13_E1_BUDGET")); err == nil && v > 0 {
		budget = v // development knob: measure full tree sizes on a loaded machine
	}
	e1End := time.Now().Add(budget)
	left := len(mcJobs) + len(caJobs)
	runJobs := func(js []job) {
		for _, j := range js {
			share := int(time.Until(e1End).Seconds()) / left
			if share < 3 {
				share = 3
			}
			left--
			explore(j.h, j.bound, share)
		}
	}
	runJobs(mcJobs)
	lap("E1 memcache")
	runJobs(caJobs)
	lap("E1 write-through")
	var cl []string
	for c := range classes {
		cl = append(cl, c)
	}
	sort.Strings(cl)
	run.Set("operation_outcome_classes", cl)
	run.Set("e1_executions", e1Exec)
	run.Set("e3_transitions", run.Transitions)
	run.Finish()
}
