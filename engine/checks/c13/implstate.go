package main

// implState renders the complete internal state of a live object (every field,
// exported or not, reached through pointers / slices / maps) as a canonical
// string. It is used ONLY as part of the BFS state key, never by an oracle: two
// histories are merged by the search only when the real object they leave
// behind is in the same internal state, so deduplication cannot hide a history
// whose future differs because of bookkeeping the public API does not show yet
// (e.g. the eviction order of an LRU after delete + re-add).
//
// The walk is generic (reflection; unexported fields are read in place through
// reflect.NewAt), so it follows whatever representation the code under test
// uses: nothing here names a field of the object.
//
//   - time.Time values are rendered relative to `now` (the search's explicit
//     clock) and clamped at -clamp: everything older than that is "old"
//     (behaviour of a TTL structure depends on ages only up to its TTL);
//   - lock types (sync / vsync / vsyncq) are skipped: no operation is in flight
//     when a key is taken;
//   - map entries are sorted, pointers are numbered in visit order (no
//     addresses), slice capacity is ignored; funcs and channels render as "?".

import (
	"fmt"
	"reflect"
	"sort"
	"strings"
	"time"
	"unsafe"
)

var timeType = reflect.TypeOf(time.Time{})

type stateDumper struct {
	now   time.Time
	clamp time.Duration
	seen  map[unsafe.Pointer]int
}

func implState(obj interface{}, now time.Time, clamp time.Duration) string {
	d := &stateDumper{now: now, clamp: clamp, seen: map[unsafe.Pointer]int{}}
	var b strings.Builder
	d.dump(&b, reflect.ValueOf(obj), 0)
	return b.String()
}

// open makes a value obtained through an unexported field fully readable.
func open(v reflect.Value) reflect.Value {
	if !v.IsValid() || v.CanInterface() {
		return v
	}
	if v.CanAddr() {
		return reflect.NewAt(v.Type(), unsafe.Pointer(v.UnsafeAddr())).Elem()
	}
	return v
}

func isLock(t reflect.Type) bool {
	switch t.PkgPath() {
	case "sync", "verif/shim/vsync", "verif/shim/vsyncq", "verif/shim/vsyncm":
		return true
	}
	return false
}

func (d *stateDumper) dump(b *strings.Builder, v reflect.Value, depth int) {
	if !v.IsValid() {
		b.WriteString("nil")
		return
	}
	if depth > 40 {
		b.WriteString("...")
		return
	}
	v = open(v)
	t := v.Type()
	if t == timeType && v.CanInterface() {
		rel := v.Interface().(time.Time).Sub(d.now)
		if rel < -d.clamp {
			b.WriteString("t:old")
		} else {
			fmt.Fprintf(b, "t%+d", rel/time.Millisecond)
		}
		return
	}
	switch v.Kind() {
	case reflect.Bool:
		fmt.Fprintf(b, "%v", v.Bool())
	case reflect.Int, reflect.Int8, reflect.Int16, reflect.Int32, reflect.Int64:
		fmt.Fprintf(b, "%d", v.Int())
	case reflect.Uint, reflect.Uint8, reflect.Uint16, reflect.Uint32, reflect.Uint64, reflect.Uintptr:
		fmt.Fprintf(b, "%d", v.Uint())
	case reflect.Float32, reflect.Float64:
		fmt.Fprintf(b, "%g", v.Float())
	case reflect.Complex64, reflect.Complex128:
		fmt.Fprintf(b, "%g", v.Complex())
	case reflect.String:
		fmt.Fprintf(b, "%q", v.String())
	case reflect.Struct:
		if isLock(t) {
			b.WriteString("lock")
			return
		}
		if !v.CanAddr() && v.CanInterface() {
			// e.g. a struct stored as a map value: copy it so that its unexported fields can be opened
			c := reflect.New(t).Elem()
			c.Set(v)
			v = c
		}
		b.WriteString("{")
		for i := 0; i < v.NumField(); i++ {
			if isLock(t.Field(i).Type) {
				continue
			}
			b.WriteString(t.Field(i).Name)
			b.WriteString(":")
			d.dump(b, v.Field(i), depth+1)
			b.WriteString(";")
		}
		b.WriteString("}")
	case reflect.Ptr:
		if v.IsNil() {
			b.WriteString("nil")
			return
		}
		p := unsafe.Pointer(v.Pointer())
		if n, ok := d.seen[p]; ok {
			fmt.Fprintf(b, "@%d", n)
			return
		}
		d.seen[p] = len(d.seen)
		fmt.Fprintf(b, "&%d", d.seen[p])
		d.dump(b, v.Elem(), depth+1)
	case reflect.Interface:
		if v.IsNil() {
			b.WriteString("nil")
			return
		}
		b.WriteString(v.Elem().Type().String())
		b.WriteString("=")
		d.dump(b, v.Elem(), depth+1)
	case reflect.Slice:
		if v.IsNil() {
			b.WriteString("[]")
			return
		}
		fallthrough
	case reflect.Array:
		b.WriteString("[")
		for i := 0; i < v.Len(); i++ {
			d.dump(b, v.Index(i), depth+1)
			b.WriteString(",")
		}
		b.WriteString("]")
	case reflect.Map:
		// entries in the order of their rendered keys (values are rendered in that
		// order too, so pointer numbering does not depend on map iteration order)
		type ent struct {
			k string
			v reflect.Value
		}
		var es []ent
		it := v.MapRange()
		for it.Next() {
			var k strings.Builder
			d.dump(&k, it.Key(), depth+1)
			es = append(es, ent{k.String(), it.Value()})
		}
		sort.Slice(es, func(i, j int) bool { return es[i].k < es[j].k })
		b.WriteString("map[")
		for _, e := range es {
			b.WriteString(e.k)
			b.WriteString("=")
			d.dump(b, e.v, depth+1)
			b.WriteString(",")
		}
		b.WriteString("]")
	default: // func, chan, unsafe pointer
		b.WriteString("?")
	}
}
