// Package vtime is check C13's stand-in for package time inside
// github.com/uber/kraken/utils/cache (import rewritten by the build overlay):
// LRUCache calls time.Now directly and has no clock seam. The types are aliases
// of the real ones; only the clock reading functions differ. The clock is
// explicit: it moves only when the check calls Advance (a BFS operation).
//
// The clock is process-global, so searches that read it run single-threaded
// (bfs.Config.Workers = 1); BlobMemoryCache never reads the clock.
package vtime

import "time"

type (
	Time     = time.Time
	Duration = time.Duration
	Month    = time.Month
	Weekday  = time.Weekday
	Location = time.Location
)

const (
	Nanosecond  = time.Nanosecond
	Microsecond = time.Microsecond
	Millisecond = time.Millisecond
	Second      = time.Second
	Minute      = time.Minute
	Hour        = time.Hour
)

var UTC = time.UTC

// Epoch is the reading after Reset.
var Epoch = time.Date(2001, 2, 3, 4, 5, 6, 0, time.UTC)

var now = Epoch

// Reads counts clock readings (vacuity: the rewritten code really uses this clock).
var Reads int64

// Reset puts the clock back to Epoch.
func Reset() { now = Epoch; Reads = 0 }

// Advance moves the clock forward by d.
func Advance(d Duration) { now = now.Add(d) }

// Current returns the clock reading without counting it.
func Current() Time { return now }

func Now() Time                                { Reads++; return now }
func Since(t Time) Duration                    { Reads++; return now.Sub(t) }
func Until(t Time) Duration                    { Reads++; return t.Sub(now) }
func Unix(sec int64, nsec int64) Time          { return time.Unix(sec, nsec) }
func UnixMilli(msec int64) Time                { return time.UnixMilli(msec) }
func ParseDuration(s string) (Duration, error) { return time.ParseDuration(s) }
func Date(year int, month Month, day, hour, min, sec, nsec int, loc *Location) Time {
	return time.Date(year, month, day, hour, min, sec, nsec, loc)
}
