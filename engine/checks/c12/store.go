// C12, store-history searches: the blobs of a real memory.Store that has a
// history. A memory.File is only as file-like as the slice the store hands to
// it: every byte between len and cap of that slice is exposed by the next
// write past the end, and its initial length is the blob's initial size. So the
// state a buffer starts from is part of the property's quantifier ("any
// sequence ... the in-memory buffers used for blobs"), and the searches of
// main.go, which give every history a blob of a brand-new store, decide it for
// one start state only. Here the history runs on the STORE: blobs are created
// (with different reserved sizes), written, completed, evicted by capacity,
// deleted, re-opened and created again, under the same and under other keys,
// while every live blob is compared, byte for byte, with its own *os.File that
// was subjected to the same operations (create = a new empty file, open = the
// same file opened again). Writes through the handle of a dead blob are part of
// the alphabet too: a file is not changed by operations on other, removed files.
package main

import (
	"fmt"
	"io"
	"os"
	"strconv"
	"strings"

	"github.com/uber-go/tally"
	"github.com/uber/kraken/lib/store/memory"

	"verif/bfs"
)

// stoParams configures one store-history search.
type stoParams struct {
	capacity uint64
	keys     []string
	sizes    []uint64 // reserved sizes offered to Create
	wlens    []int    // payload lengths of the per-blob (tiny) alphabet
	// focus search: prologue is applied by New; afterwards only the blob under
	// focusKey is operated, over the alphabet focusP (the one of main.go).
	prologue []string
	focusKey string
	focusP   params
}

const (
	absent = iota
	incomplete
	complete
)

type slot struct {
	status   int
	reserved uint64
	b        *sys // handle + reference file + expected size/offset
}

type stoSys struct {
	p     stoParams
	ms    *memory.Store
	slots map[string]*slot
	// lru models the order in which complete blobs were last touched (finer
	// than or equal to the store's eviction order; only part of the state key:
	// WHICH blob a Create evicts is not C12's business and is read back from
	// the store).
	lru []string
	// dead: reserved size, status and final content of every blob that was
	// evicted or deleted, in order of death. Nothing the API offers can observe
	// them any more, but they are exactly the state that could be carried over
	// to a later blob, so histories that differ in them must not be merged.
	dead  []string
	stale *memory.File // handle of the blob that died last

	steps    int
	pending  *bfs.Fail // oracle failure while applying the prologue
	observed bool
	key      string
}

func newSto(p stoParams) (*stoSys, error) {
	ms, err := memory.NewStore(&memory.Config{CapacityBytes: p.capacity}, tally.NoopScope)
	if err != nil {
		return nil, err
	}
	s := &stoSys{p: p, ms: ms, slots: map[string]*slot{}}
	for _, k := range p.keys {
		s.slots[k] = &slot{}
	}
	for _, op := range p.prologue {
		if err := s.apply(op, forceObserve); err != nil {
			if f, ok := err.(*bfs.Fail); ok {
				f.Msg = "prologue " + f.Msg
				s.pending, s.key, s.observed = f, "prologue failed", true
				return s, nil
			}
			s.Close()
			return nil, fmt.Errorf("prologue %q: %v", op, err)
		}
	}
	s.steps = 0
	if p.focusKey != "" && s.slots[p.focusKey].status == absent {
		s.Close()
		return nil, fmt.Errorf("prologue %v did not leave blob %q", p.prologue, p.focusKey)
	}
	if forceObserve || level.Load() == 0 {
		if err := s.observeAll("", "the prologue"); err != nil {
			if f, ok := err.(*bfs.Fail); ok {
				f.Msg = fmt.Sprintf("prologue %v: %s", p.prologue, f.Msg)
				s.pending = f
				return s, nil
			}
			s.Close()
			return nil, fmt.Errorf("initial state: %v", err)
		}
	}
	return s, nil
}

func (s *stoSys) Close() {
	for _, sl := range s.slots {
		if sl.b != nil {
			sl.b.Close()
			sl.b = nil
		}
	}
}

func (s *stoSys) Key() string {
	if !s.observed {
		panic("c12: Key() of an unobserved store state (bfs replay protocol changed?)")
	}
	return s.key
}

const prologueOp = "(prologue)"

func (s *stoSys) Ops() []string {
	level.Store(int64(s.steps))
	if s.pending != nil {
		return []string{prologueOp}
	}
	var ops []string
	if k := s.p.focusKey; k != "" {
		for _, o := range s.slots[k].b.ops() {
			ops = append(ops, k+"."+o)
		}
		return ops
	}
	for _, k := range s.p.keys {
		sl := s.slots[k]
		switch sl.status {
		case absent:
			for _, n := range s.p.sizes {
				ops = append(ops, fmt.Sprintf("Create(%s,%d)", k, n))
			}
			continue
		case incomplete:
			ops = append(ops, "Complete("+k+")")
		}
		ops = append(ops, "Delete("+k+")", "Open("+k+")")
	}
	for _, k := range s.p.keys {
		if sl := s.slots[k]; sl.status != absent {
			for _, o := range sl.b.ops() {
				ops = append(ops, k+"."+o)
			}
		}
	}
	if s.stale != nil {
		ops = append(ops, "stale.Write(2)", "stale.WriteAt(2,0)")
	}
	return ops
}

func (s *stoSys) Apply(op string) error {
	if op == prologueOp {
		if s.pending == nil {
			return fmt.Errorf("no pending prologue failure")
		}
		return s.pending
	}
	return s.apply(op, forceObserve || int64(s.steps) == level.Load())
}

func (s *stoSys) live() int {
	n := 0
	for _, sl := range s.slots {
		if sl.status != absent {
			n++
		}
	}
	return n
}

// die moves a blob that left the store (evicted or deleted) to the dead list.
func (s *stoSys) die(k string) {
	sl := s.slots[k]
	content := make([]byte, sl.b.size)
	if n, err := sl.b.ref.ReadAt(content, 0); n != len(content) || (err != nil && err != io.EOF) {
		panic(fmt.Sprintf("c12: reference content of dead blob: n=%d err=%v", n, err))
	}
	s.dead = append(s.dead, fmt.Sprintf("%d/%d:%s", sl.reserved, sl.status, content))
	s.stale = sl.b.mf
	s.dropLRU(k)
	sl.b.Close()
	*sl = slot{}
}

func (s *stoSys) dropLRU(k string) {
	for i, x := range s.lru {
		if x == k {
			s.lru = append(s.lru[:i:i], s.lru[i+1:]...)
			return
		}
	}
}

// sweep follows the store's own eviction decisions: every blob the store no
// longer has is dead. Returns how many died.
func (s *stoSys) sweep() int {
	n := 0
	for _, k := range s.p.keys {
		if s.slots[k].status == absent {
			continue
		}
		if in, _ := s.ms.Has(k); !in {
			s.die(k)
			n++
		}
	}
	return n
}

func (s *stoSys) apply(op string, final bool) error {
	s.steps++
	s.observed = false
	target, class := "", ""
	var fail error
	switch {
	case strings.HasPrefix(op, "Create("):
		args := strings.Split(op[len("Create("):len(op)-1], ",")
		if len(args) != 2 || s.slots[args[0]] == nil {
			return fmt.Errorf("bad op %q", op)
		}
		k := args[0]
		n, err := strconv.ParseUint(args[1], 10, 32)
		if err != nil || s.slots[k].status != absent {
			return fmt.Errorf("bad op %q", op)
		}
		deadBefore, liveBefore := len(s.dead), s.live()
		var mf *memory.File
		var cerr error
		if pan := guard(func() { mf, cerr = s.ms.Create(k, n) }); pan != nil {
			s.key, s.observed = "panicked", true
			return bfs.Failf(labels["sto"]+": panic in Create", "%s: %v", op, pan)
		}
		evicted := s.sweep()
		if cerr != nil {
			// no room (C12 does not say when): nothing was created
			class = "a Create that found no room"
			break
		}
		f, err := getFile()
		if err != nil {
			return err
		}
		start := "store never held another blob"
		switch {
		case evicted > 0:
			start = "created by evicting"
		case deadBefore > 0:
			start = "created after a blob died"
		case liveBefore > 0:
			start = "created beside live blobs"
		}
		b := &sys{p: params{kind: "sto", cap0: int(n), wlens: s.p.wlens, tiny: true}, ref: f, fd: int(f.Fd()), ms: s.ms, mf: mf, memKey: k, start: start}
		if k == s.p.focusKey {
			b.p = s.p.focusP
			b.p.kind, b.p.cap0 = "sto", int(n)
		}
		b.r, b.w = mf, mf
		*s.slots[k] = slot{status: incomplete, reserved: n, b: b}
		class = "Create"
		if evicted > 0 {
			class = "Create evicting a blob"
		}
	case strings.HasPrefix(op, "Complete("), strings.HasPrefix(op, "Delete("), strings.HasPrefix(op, "Open("):
		i := strings.IndexByte(op, '(')
		name, k := op[:i], op[i+1:len(op)-1]
		sl := s.slots[k]
		if sl == nil || sl.status == absent {
			return fmt.Errorf("bad op %q", op)
		}
		var err error
		var mf *memory.File
		pan := guard(func() {
			switch name {
			case "Complete":
				err = s.ms.MarkComplete(k)
			case "Delete":
				err = s.ms.Delete(k)
			case "Open":
				mf, err = s.ms.Open(k)
			}
		})
		if pan != nil {
			s.key, s.observed = "panicked", true
			return bfs.Failf(labels["sto"]+": panic in "+name, "%s: %v", op, pan)
		}
		if err != nil {
			// not injected, and the blob exists: the store's bookkeeping, not C12
			return fmt.Errorf("%s: %v", op, err)
		}
		class = name
		switch name {
		case "Complete":
			if sl.status == incomplete {
				sl.status = complete
				s.lru = append(s.lru, k)
			}
		case "Delete":
			s.die(k)
		case "Open":
			// the same file opened again: a new description, offset 0
			nf, err := os.OpenFile(fmt.Sprintf("/proc/self/fd/%d", sl.b.fd), os.O_RDWR, 0)
			if err != nil {
				return err
			}
			sl.b.ref.Close()
			sl.b.ref, sl.b.fd, sl.b.off = nf, int(nf.Fd()), 0
			sl.b.mf, sl.b.r, sl.b.w = mf, mf, mf
			if sl.status == complete {
				s.dropLRU(k)
				s.lru = append(s.lru, k)
			}
		}
		s.sweep()
	case strings.HasPrefix(op, "stale."):
		if s.stale == nil {
			return fmt.Errorf("bad op %q", op)
		}
		p := payload(false, 2)
		var pan interface{}
		switch op {
		case "stale.Write(2)":
			pan = guard(func() { s.stale.Write(p) })
		case "stale.WriteAt(2,0)":
			pan = guard(func() { s.stale.WriteAt(p, 0) })
		default:
			return fmt.Errorf("bad op %q", op)
		}
		if pan != nil {
			s.key, s.observed = "panicked", true
			return bfs.Failf(labels["sto"]+": panic in a write through the handle of a dead blob", "%s: %v", op, pan)
		}
		class = "a write through the handle of a dead blob"
		s.sweep()
	default:
		i := strings.IndexByte(op, '.')
		if i < 0 || s.slots[op[:i]] == nil || s.slots[op[:i]].status == absent {
			return fmt.Errorf("bad op %q", op)
		}
		target = op[:i]
		b := s.slots[target].b
		class = "an operation on another blob"
		if err := b.apply(op[i+1:], final); err != nil {
			f, ok := err.(*bfs.Fail)
			if !ok {
				return err
			}
			f.Msg = target + "." + f.Msg
			fail = f
		}
		if b.key == "panicked" && b.observed && fail != nil {
			s.key, s.observed = "panicked", true
			return fail
		}
		s.sweep()
	}
	if final || fail != nil {
		if err := s.observeAll(target, class); err != nil {
			f, ok := err.(*bfs.Fail)
			if !ok {
				return err
			}
			if fail == nil {
				f.Msg = op + ": " + f.Msg
				fail = f
			}
		}
	}
	return fail
}

// observeAll observes every live blob (except skip, which has just observed
// itself) against its file and builds the state key.
func (s *stoSys) observeAll(skip, class string) error {
	var fail error
	var sb strings.Builder
	for _, k := range s.p.keys {
		sl := s.slots[k]
		if sl.status == absent {
			sb.WriteString(k + ":-;")
			continue
		}
		if k != skip || !sl.b.observed {
			if err := sl.b.observe(class); err != nil {
				f, ok := err.(*bfs.Fail)
				if !ok {
					return err
				}
				if sl.b.key == "panicked" {
					s.key, s.observed = "panicked", true
					return f
				}
				if fail == nil {
					f.Msg = "blob " + k + ": " + f.Msg
					fail = f
				}
			}
		}
		fmt.Fprintf(&sb, "%s:%d/%d %s;", k, sl.status, sl.reserved, sl.b.key)
	}
	sb.WriteString("lru=" + strings.Join(s.lru, ","))
	sb.WriteString(";dead=" + strings.Join(s.dead, ","))
	s.key, s.observed = sb.String(), true
	return fail
}

// prologues enumerates the start states of the focus searches: a first blob
// of every reserved size, left empty / filled exactly / filled beyond its
// reserved size, leaves the store by capacity eviction or by Delete, and the
// blob under test is created with every reserved size under another or (after
// Delete) the same key.
func prologues(sizes []uint64) (out [][]string, focus []string) {
	for _, n1 := range sizes {
		for _, fill := range []int64{0, int64(n1), int64(n1) + 1} {
			for _, death := range []string{"evict", "delete", "delete, same key"} {
				for _, n2 := range sizes {
					h := []string{fmt.Sprintf("Create(a,%d)", n1)}
					if fill > 0 {
						h = append(h, fmt.Sprintf("a.Write(%d)", fill))
					}
					k := "b"
					switch death {
					case "evict":
						h = append(h, "Complete(a)")
					case "delete":
						h = append(h, "Delete(a)")
					default:
						h = append(h, "Delete(a)")
						k = "a"
					}
					h = append(h, fmt.Sprintf("Create(%s,%d)", k, n2))
					out, focus = append(out, h), append(focus, k)
				}
			}
		}
	}
	return out, focus
}

// storeSearches lists the store-history searches of a tier: the interleaved
// histories (run first: cheap and the only place where store operations and
// blob operations alternate freely) and the focus searches (run last).
func storeSearches(thorough bool) (histories, focused []search) {
	mk := func(label string, depth int, p stoParams) search {
		return search{name: fmt.Sprintf("sto %s depth=%d", label, depth), depth: depth, sto: &p}
	}
	hist := func(keys string, sizes []uint64, wlens []int, depth int) {
		var sz, wl []string
		for _, n := range sizes {
			sz = append(sz, strconv.FormatUint(n, 10))
		}
		for _, n := range wlens {
			wl = append(wl, strconv.Itoa(n))
		}
		histories = append(histories, mk(fmt.Sprintf("cap=4 keys=%s sizes=%s w=%s histories", keys, strings.Join(sz, ","), strings.Join(wl, ",")), depth,
			stoParams{capacity: 4, keys: strings.Split(keys, ""), sizes: sizes, wlens: wlens}))
	}
	// interleaved histories of store operations and the tiny per-blob alphabet
	if thorough {
		hist("ab", []uint64{1, 2, 4}, []int{1, 3}, 7)
		hist("abc", []uint64{1, 2, 4}, []int{1, 3}, 6)
		hist("abc", []uint64{2, 4}, []int{3}, 7)
	} else {
		hist("abc", []uint64{2, 4}, []int{1, 3}, 6)
	}
	// the full single-buffer alphabet of main.go on a blob created in a used store
	depth := 3
	if thorough {
		depth = 4
	}
	sizes := []uint64{2, 4}
	pro, focus := prologues(sizes)
	for i, h := range pro {
		focused = append(focused, mk("cap=4 after ["+strings.Join(h, " ")+"] full on "+focus[i], depth, stoParams{capacity: 4, keys: []string{"a", "b"}, sizes: sizes,
			prologue: h, focusKey: focus[i], focusP: params{wlens: []int{0, 1, 2, 5}, neg: true}}))
	}
	return histories, focused
}
