// C12: in-memory blob buffers behave like ordinary files.
// E3 differential search: every history (up to a depth) of Write / WriteAt /
// Read / ReadAt / Seek over a small offset/length alphabet is executed on a
// REAL in-memory buffer (base.BufferReadWriter, memory.File obtained from a
// real memory.Store, store.NewBufferFileReader) and, operation by operation,
// on a real *os.File on tmpfs. Compared after every operation: bytes
// returned, byte counts, size, offset, full content. Error values are NOT
// compared (io.EOF placement differs by design and is not in the statement).
// store.go adds the start states of a memory.File: histories of the store
// itself (create / complete / evict by capacity / delete / open / create
// again), every live blob compared with its own file after every operation.
package main

import (
	"bytes"
	"encoding/json"
	"errors"
	"fmt"
	"io"
	"os"
	"runtime/debug"
	"sort"
	"strconv"
	"strings"
	"sync"
	"sync/atomic"
	"syscall"
	"time"

	"github.com/uber-go/tally"
	"github.com/uber/kraken/lib/store"
	"github.com/uber/kraken/lib/store/base"
	"github.com/uber/kraken/lib/store/memory"

	"verif/bfs"
	"verif/evid"
	_ "verif/quiet"
	"verif/rep"
)

// reader is what all three buffers offer (store.FileReader minus Close).
type reader interface {
	io.Reader
	io.ReaderAt
	io.Seeker
	Size() int64
}

type writer interface {
	io.Writer
	io.WriterAt
}

// params is the alphabet of one search.
type params struct {
	kind  string // "brw" | "mem" | "rdr" | "sto" (a blob of a store with a history, see store.go)
	cap0  int    // initial capacity (brw, mem)
	fixed string // fixed content (rdr)
	wlens []int  // payload lengths of Write / WriteAt
	neg   bool   // include the rejected offset -1 for WriteAt / ReadAt
	small bool   // reduced offset / length / seek alphabet (deeper searches)
	tiny  bool   // minimal per-blob alphabet of the store-history searches (store.go)
}

var labels = map[string]string{
	"brw": "base.BufferReadWriter",
	"mem": "memory.File",
	"rdr": "store.NewBufferFileReader",
	"sto": "memory.File in a used memory.Store",
}

type sys struct {
	p   params
	ref *os.File // the operating-system file (unlinked, on tmpfs)
	fd  int
	r   reader
	w   writer // nil for rdr
	brw *base.BufferReadWriter
	mf  *memory.File
	ms  *memory.Store
	// memKey is the blob's key in ms; start says in which kind of store state
	// the blob was created (store-history searches; part of the coverage classes)
	memKey, start string

	steps int // operations applied so far
	// expected size / offset of the file by POSIX rules. Used only to build the
	// alphabet and to classify operations without system calls; every
	// observation checks it against the real file (mismatch = harness error).
	size, off int64
	// last observation of the real file
	observed bool
	content  []byte
	key      string
}

const memKey = "blob"

// level is the BFS level being expanded (= length of the histories of the
// frontier). bfs replays a history on a fresh instance for every transition;
// the operations of the replayed prefix were already validated when they were
// the last operation of a shorter history (Apply is deterministic), so the
// post-state observation (3 system calls + buffer reads) is only made for the
// operation at index == level. bfs calls Ops() on every frontier history
// before applying any successor operation, which is where level is learnt.
// Key() panics if it is ever asked for an unobserved state, so a change of
// this protocol in bfs cannot go unnoticed.
var (
	level        atomic.Int64
	forceObserve bool // --replay: observe after every operation
)

// filePool recycles reference files: a file truncated to 0 with its offset
// reset is indistinguishable from a newly created one and saves
// open(O_CREAT|O_EXCL)+unlink+close per transition. A file is owned by exactly
// one System at a time.
var filePool = make(chan *os.File, 256)

func getFile() (*os.File, error) {
	select {
	case f := <-filePool:
		if err := f.Truncate(0); err != nil {
			return nil, err
		}
		if _, err := f.Seek(0, io.SeekStart); err != nil {
			return nil, err
		}
		return f, nil
	default:
	}
	f, err := os.CreateTemp("", "c12-")
	if err != nil {
		return nil, err
	}
	// keep only the descriptor: nothing is left behind whatever happens
	if err := os.Remove(f.Name()); err != nil {
		f.Close()
		return nil, err
	}
	return f, nil
}

func newSys(p params) (*sys, error) {
	f, err := getFile()
	if err != nil {
		return nil, err
	}
	s := &sys{p: p, ref: f, fd: int(f.Fd())}
	switch p.kind {
	case "brw":
		s.brw = base.NewBufferReadWriter(uint64(p.cap0))
		s.r, s.w = s.brw, s.brw
	case "mem":
		ms, err := memory.NewStore(&memory.Config{CapacityBytes: 1 << 20}, tally.NoopScope)
		if err != nil {
			f.Close()
			return nil, err
		}
		mf, err := ms.Create(memKey, uint64(p.cap0))
		if err != nil {
			f.Close()
			return nil, err
		}
		s.ms, s.mf, s.memKey = ms, mf, memKey
		s.r, s.w = mf, mf
	case "rdr":
		if _, err := f.Write([]byte(p.fixed)); err != nil {
			f.Close()
			return nil, err
		}
		if _, err := f.Seek(0, io.SeekStart); err != nil {
			f.Close()
			return nil, err
		}
		s.size = int64(len(p.fixed))
		s.r = store.NewBufferFileReader([]byte(p.fixed))
	default:
		f.Close()
		return nil, fmt.Errorf("unknown kind %q", p.kind)
	}
	if forceObserve || level.Load() == 0 {
		if err := s.observe("initial state"); err != nil {
			f.Close()
			return nil, fmt.Errorf("initial state: %v", err)
		}
	}
	return s, nil
}

func (s *sys) Close() {
	select {
	case filePool <- s.ref:
	default:
		s.ref.Close()
	}
	s.ref = nil
}

func (s *sys) Key() string {
	if !s.observed {
		panic("c12: Key() of an unobserved state (bfs replay protocol changed?)")
	}
	return s.key
}

func uniq(vs []int64, min int64) []int64 {
	var out []int64
	seen := map[int64]bool{}
	for _, v := range vs {
		if v < min || seen[v] {
			continue
		}
		seen[v] = true
		out = append(out, v)
	}
	return out
}

// offsets of positional operations, relative to the current size.
func (s *sys) offsets() []int64 {
	n := s.size
	if s.p.tiny {
		return uniq([]int64{0, n + 1}, 0)
	}
	if s.p.small {
		return uniq([]int64{0, n - 1, n, n + 2}, 0)
	}
	return uniq([]int64{0, 1, n - 1, n, n + 1, n + 3}, 0)
}

func (s *sys) readLens() []int64 {
	n := s.size
	if s.p.tiny {
		return []int64{n + 2}
	}
	if s.p.small {
		return uniq([]int64{1, n + 2}, 0)
	}
	return uniq([]int64{0, 1, n, n + 2}, 0)
}

func (s *sys) Ops() []string {
	level.Store(int64(s.steps))
	return s.ops()
}

// ops is the alphabet enabled in the current state of this buffer.
func (s *sys) ops() []string {
	var ops []string
	if s.p.tiny {
		for _, n := range s.p.wlens {
			ops = append(ops, fmt.Sprintf("Write(%d)", n))
		}
		for _, n := range s.p.wlens {
			for _, o := range s.offsets() {
				ops = append(ops, fmt.Sprintf("WriteAt(%d,%d)", n, o))
			}
		}
		return append(ops, fmt.Sprintf("Read(%d)", s.size+2), fmt.Sprintf("ReadAt(%d,0)", s.size+2), "Seek(0,0)")
	}
	if s.w != nil {
		for _, n := range s.p.wlens {
			ops = append(ops, fmt.Sprintf("Write(%d)", n))
		}
		for _, n := range s.p.wlens {
			for _, o := range s.offsets() {
				ops = append(ops, fmt.Sprintf("WriteAt(%d,%d)", n, o))
			}
		}
		if s.p.neg {
			ops = append(ops, "WriteAt(1,-1)")
		}
	}
	for _, n := range s.readLens() {
		ops = append(ops, fmt.Sprintf("Read(%d)", n))
	}
	for _, n := range s.readLens() {
		for _, o := range s.offsets() {
			ops = append(ops, fmt.Sprintf("ReadAt(%d,%d)", n, o))
		}
	}
	if s.p.neg {
		ops = append(ops, "ReadAt(1,-1)")
	}
	// seeks within the written extent only: target in [0, size]
	in := func(t int64) bool { return t >= 0 && t <= s.size }
	starts, curs, ends := []int64{0, 1, s.size - 1, s.size}, []int64{0, -1, 1}, []int64{0, 1, s.size}
	if s.p.small {
		starts, curs, ends = []int64{0, s.size - 1}, []int64{-1, 1}, []int64{0, 2}
	}
	for _, t := range uniq(starts, 0) {
		if in(t) {
			ops = append(ops, fmt.Sprintf("Seek(%d,%d)", t, io.SeekStart))
		}
	}
	for _, d := range curs {
		if in(s.off + d) {
			ops = append(ops, fmt.Sprintf("Seek(%d,%d)", d, io.SeekCurrent))
		}
	}
	for _, d := range uniq(ends, 0) {
		if in(s.size - d) {
			ops = append(ops, fmt.Sprintf("Seek(%d,%d)", -d, io.SeekEnd))
		}
	}
	return ops
}

// payload: n distinct letters; upper case for Write, lower case for WriteAt,
// first letter depends on the length, so that every misplaced, dropped or
// duplicated byte is visible in the content (gaps are 0x00).
func payload(positional bool, n int) []byte {
	b := make([]byte, n)
	first := byte('A')
	if positional {
		first = 'a'
	}
	for i := range b {
		b[i] = first + byte((n+i)%26)
	}
	return b
}

// guard runs f and returns a recovered panic value.
func guard(f func()) (p interface{}) {
	defer func() { p = recover() }()
	f()
	return nil
}

func (s *sys) failf(clause, class, format string, a ...interface{}) error {
	return bfs.Failf(fmt.Sprintf("%s: %s differs from os.File after %s", labels[s.p.kind], clause, class), format, a...)
}

// parse splits "Name(a,b)" without fmt (this is the hot path of every replay).
func parse(op string) (name string, a, b int64, ok bool) {
	i := strings.IndexByte(op, '(')
	if i < 0 || !strings.HasSuffix(op, ")") {
		return
	}
	name = op[:i]
	args := op[i+1 : len(op)-1]
	var err error
	if j := strings.IndexByte(args, ','); j >= 0 {
		if b, err = strconv.ParseInt(args[j+1:], 10, 64); err != nil {
			return
		}
		args = args[:j]
		if name == "Write" || name == "Read" {
			return
		}
	} else if name != "Write" && name != "Read" {
		return
	}
	if a, err = strconv.ParseInt(args, 10, 64); err != nil {
		return
	}
	switch name {
	case "Write", "WriteAt", "Read", "ReadAt":
		ok = a >= 0
	case "Seek":
		ok = b >= 0 && b <= 2
	}
	return
}

func (s *sys) Apply(op string) error {
	return s.apply(op, forceObserve || int64(s.steps) == level.Load())
}

// apply executes op on the buffer and on the file; final: also observe and
// compare the state the operation left (see the comment on level).
func (s *sys) apply(op string, final bool) error {
	name, a, b, ok := parse(op)
	if !ok {
		return fmt.Errorf("bad op %q", op)
	}
	s.steps++
	s.observed = false
	size0, off0 := s.size, s.off
	capBefore := int64(s.p.cap0)
	if size0 > capBefore {
		capBefore = size0 // both buffers grow to exactly the needed length
	}
	var class string
	var rn, in int        // byte counts: reference, implementation
	var rbuf, ibuf []byte // bytes returned
	var rpos, ipos int64  // offsets returned by Seek
	var pan interface{}   // panic of the implementation
	grow, gap, cross := false, false, false
	switch name {
	case "Write", "WriteAt":
		if s.w == nil {
			return fmt.Errorf("%s on a read-only buffer", name)
		}
		at := off0
		if name == "WriteAt" {
			at = b
		}
		p := payload(name == "WriteAt", int(a))
		end := at + a
		switch {
		case at < 0:
			class = name + " at a negative offset"
		case a == 0 && at > size0:
			class = "zero-length " + name + " past the end"
		case a == 0:
			class = "zero-length " + name
		case at > size0:
			class = name + " past the end (gap)"
			gap = true
		case end > size0:
			class = name + " extending the extent"
		default:
			class = name + " inside the extent"
		}
		grow = at >= 0 && a > 0 && end > capBefore
		var err error
		if name == "Write" {
			rn, err = s.ref.Write(p)
			pan = guard(func() { in, _ = s.w.Write(p) })
		} else {
			rn, err = s.ref.WriteAt(p, b)
			pan = guard(func() { in, _ = s.w.WriteAt(p, b) })
			if b < 0 && err != nil && rn == 0 {
				err = nil // the file rejects a negative offset; only the count (0) is compared
			}
		}
		if err != nil {
			return fmt.Errorf("reference %s: %v", op, err)
		}
		if at >= 0 && a > 0 {
			if end > s.size {
				s.size = end
			}
			if name == "Write" {
				s.off = end
			}
		}
	case "Read", "ReadAt":
		at := off0
		if name == "ReadAt" {
			at = b
		}
		switch {
		case at < 0:
			class = name + " at a negative offset"
		case a == 0:
			class = "zero-length " + name
		case at >= size0:
			class = name + " at or after the end"
		case at+a > size0:
			class = name + " crossing the end"
			cross = true
		default:
			class = name + " inside the extent"
		}
		rbuf, ibuf = make([]byte, a), make([]byte, a)
		var err error
		if name == "Read" {
			rn, err = s.ref.Read(rbuf)
			pan = guard(func() { in, _ = s.r.Read(ibuf) })
			s.off += int64(rn)
		} else {
			rn, err = s.ref.ReadAt(rbuf, b)
			pan = guard(func() { in, _ = s.r.ReadAt(ibuf, b) })
			if b < 0 && rn == 0 {
				err = nil
			}
		}
		if err != nil && err != io.EOF {
			return fmt.Errorf("reference %s: %v", op, err)
		}
	case "Seek":
		class = "Seek(" + [...]string{"SeekStart", "SeekCurrent", "SeekEnd"}[b] + ")"
		var err error
		rpos, err = s.ref.Seek(a, int(b))
		if err != nil {
			return fmt.Errorf("reference %s: %v", op, err)
		}
		if rpos < 0 || rpos > size0 {
			return fmt.Errorf("%s leaves the written extent [0,%d]: %d", op, size0, rpos)
		}
		s.off = rpos
		pan = guard(func() { ipos, _ = s.r.Seek(a, int(b)) })
	default:
		return fmt.Errorf("bad op %q", op)
	}
	if pan != nil {
		s.key, s.observed = "panicked", true
		return bfs.Failf(fmt.Sprintf("%s: panic in %s", labels[s.p.kind], class), "%s: %v", op, pan)
	}

	// oracle on what the operation returned
	var fail error
	if in != rn {
		fail = s.failf("byte count", class, "at size=%d off=%d: buffer returned n=%d, file n=%d", size0, off0, in, rn)
	} else if rbuf != nil && !bytes.Equal(rbuf[:rn], ibuf[:rn]) {
		fail = s.failf("bytes returned", class, "at size=%d off=%d: buffer returned %q, file %q", size0, off0, ibuf[:rn], rbuf[:rn])
	} else if name == "Seek" && ipos != rpos {
		fail = s.failf("offset returned", class, "at size=%d off=%d: buffer returned %d, file %d", size0, off0, ipos, rpos)
	}
	// oracle on the state the operation left (see the comment on level)
	if final || fail != nil {
		res := "full"
		switch {
		case rn == 0:
			res = "n=0"
		case int64(rn) < a:
			res = "short"
		}
		note(classKey{s.p.kind, s.start, class, grow, res}, gap, grow, cross)
		if err := s.observe(class); err != nil {
			if _, ok := err.(*bfs.Fail); !ok {
				return err
			}
			if fail == nil {
				fail = err
			}
		}
	}
	if f, ok := fail.(*bfs.Fail); ok {
		f.Msg = op + ": " + f.Msg
	}
	return fail
}

// observe reads size, offset and full content of the file and of the buffer
// through their public APIs, stores the state key and compares.
func (s *sys) observe(class string) error {
	var st syscall.Stat_t
	if err := syscall.Fstat(s.fd, &st); err != nil {
		return err
	}
	off, err := s.ref.Seek(0, io.SeekCurrent)
	if err != nil {
		return err
	}
	if st.Size != s.size || off != s.off {
		return fmt.Errorf("harness model of the file is wrong: file size=%d off=%d, expected size=%d off=%d", st.Size, off, s.size, s.off)
	}
	s.content = make([]byte, s.size)
	if n, err := s.ref.ReadAt(s.content, 0); n != len(s.content) || (err != nil && err != io.EOF) {
		return fmt.Errorf("reference content: n=%d err=%v", n, err)
	}

	var isize, ioff int64
	var icontent []byte
	extra := ""
	bad := false
	pan := guard(func() {
		isize = s.r.Size()
		ioff, _ = s.r.Seek(0, io.SeekCurrent)
		buf := make([]byte, s.size+8)
		n, _ := s.r.ReadAt(buf, 0)
		icontent = buf[:n]
		switch s.p.kind {
		case "brw":
			bb := s.brw.Bytes()
			extra = "cap=" + strconv.Itoa(cap(bb))
			if !bytes.Equal(bb, icontent) {
				extra += fmt.Sprintf(" Bytes()=%q", bb)
				bad = true
			}
		case "mem", "sto":
			// capacity is not observable; it is max(cap0, size) by construction
			// (growth allocates exactly the needed length, nothing shrinks)
			if o := s.mf.Off(); o != ioff {
				extra = fmt.Sprintf("Off()=%d", o)
				bad = true
			}
			if sz, err := s.ms.Stat(s.memKey); err != nil || sz != isize {
				extra += fmt.Sprintf(" Stat()=%d,%v", sz, err)
				bad = true
			}
		}
	})
	if pan != nil {
		s.key, s.observed = "panicked", true
		return bfs.Failf(fmt.Sprintf("%s: panic while observing after %s", labels[s.p.kind], class), "%v", pan)
	}
	differs := isize != s.size || ioff != s.off || !bytes.Equal(icontent, s.content) || bad
	if differs {
		s.key = fmt.Sprintf("%d|%s|impl size=%d off=%d %q|%s", s.off, s.content, isize, ioff, icontent, extra)
	} else {
		s.key = strconv.FormatInt(s.off, 10) + "|" + string(s.content) + "|" + extra
	}
	s.observed = true
	switch {
	case isize != s.size:
		return s.failf("size", class, "buffer Size()=%d, file size=%d (file content %q)", isize, s.size, s.content)
	case ioff != s.off:
		return s.failf("offset", class, "buffer offset=%d, file offset=%d", ioff, s.off)
	case !bytes.Equal(icontent, s.content):
		return s.failf("content", class, "buffer content %q, file content %q", icontent, s.content)
	case bad:
		return s.failf("secondary accessor", class, "%s vs size=%d off=%d content %q", extra, s.size, s.off, s.content)
	}
	return nil
}

// ---- coverage statistics (idempotent sets: replays add nothing) -----------

var (
	statMu  sync.RWMutex
	classes = map[classKey][3]bool{}
)

type classKey struct {
	kind, start, class string
	grow               bool
	res                string
}

func (k classKey) String() string {
	if k.start != "" {
		return fmt.Sprintf("%s[%s]|%s|grow=%v|%s", k.kind, k.start, k.class, k.grow, k.res)
	}
	return fmt.Sprintf("%s|%s|grow=%v|%s", k.kind, k.class, k.grow, k.res)
}

func note(k classKey, gap, grow, cross bool) {
	statMu.RLock()
	_, ok := classes[k]
	statMu.RUnlock()
	if ok {
		return
	}
	statMu.Lock()
	classes[k] = [3]bool{gap, grow, cross}
	statMu.Unlock()
}

func onTmpfs() (bool, error) {
	var st syscall.Statfs_t
	if err := syscall.Statfs(os.TempDir(), &st); err != nil {
		return false, err
	}
	return st.Type == 0x01021994, nil
}

type search struct {
	name  string
	p     params
	depth int
	sto   *stoParams // store-history search (store.go) instead of a single-buffer one
}

func (sc search) mk() func() (bfs.System, error) {
	if sc.sto != nil {
		p := *sc.sto
		return func() (bfs.System, error) { return newSto(p) }
	}
	p := sc.p
	return func() (bfs.System, error) { return newSys(p) }
}

// family is the name without the tier-dependent depth suffix.
func family(name string) string {
	if i := strings.LastIndex(name, " depth="); i >= 0 {
		return name[:i]
	}
	return name
}

const smallDepth = 6

func main() {
	run := evid.New("C12", "model_checking")
	// memory.NewStore requires a Go memory limit to be configured
	debug.SetMemoryLimit(1 << 40)

	run.Rule = "explicit-state BFS (dedup on file content+offset+buffer-observable state) over all histories up to depth d of " +
		"Write(|p|), WriteAt(|p|,off), Read(n), ReadAt(n,off), Seek(off,whence) with |p| in a small set, " +
		"off in {0,1,size-1,size,size+1,size+3} (+ rejected -1), n in {0,1,size,size+2}, seeks to targets inside [0,size] via all three whence values " +
		"(thorough adds deeper searches over a reduced alphabet: |p| in {0,1,3}, off in {0,size-1,size,size+2}, n in {1,size+2}); " +
		"every transition executed on the real buffer and on a real *os.File (tmpfs), compared on bytes returned, byte counts, size, offset and full content. " +
		"Start states of a memory.File other than 'only blob of a new store' (sto searches): (1) BFS to depth 6 (thorough 7) over histories of ONE real memory.Store of capacity 4 with keys {a,b,c}: " +
		"Create(k,n) n in {2,4} (thorough {1,2,4}; evicts complete blobs by capacity or finds no room), Complete(k), Delete(k), Open(k) (new handle / the reference file opened again), " +
		"per live blob Write(l), WriteAt(l,0), WriteAt(l,size+1) (gap), Read(size+2), ReadAt(size+2,0), Seek(0,start) with l in {1,3}, and Write(2)/WriteAt(2,0) through the handle of the blob that died last; " +
		"after every operation EVERY live blob is compared with its own os.File (a created blob with a new empty file); dedup key = all live blobs (status, reserved size, content, offset) + touch order of complete blobs + " +
		"(reserved size, status, content) of every dead blob in order of death. (2) the full single-buffer alphabet to depth 3 (thorough 4) on a blob created after each of 36 prologues: " +
		"first blob reserved 2|4, left empty | filled exactly | filled beyond its reserved size, then evicted by capacity | deleted, new blob reserved 2|4 under another key or (after Delete) the same key. " +
		"distinct = distinct (buffer kind, start state of the blob, operation geometry class, capacity growth, result class) combinations exercised."
	run.Assume("small-scope: payload lengths, offsets and read lengths from the stated alphabet; initial capacities {0,1,4}; single handle, single goroutine")
	run.Assume("the reference is Go's *os.File over Linux tmpfs (O_RDWR, no O_APPEND); error values are not compared")
	run.Assume("seeks are restricted to targets inside the written extent [0,size], as the statement says")
	run.Assume("store histories: one memory.Store of capacity 4 bytes, at most 3 keys, one live handle per blob plus the last dead handle, single goroutine; which blob a Create evicts and when it finds no room is read back from the store (Has), not judged")
	run.Assume("the contents of dead blobs are unobservable; they are kept in the dedup key so that histories differing only in what a recycled array / pooled buffer could carry over are not merged")
	run.Assume("memory.File capacity is not observable through the API; it equals max(initial capacity, size) by construction, so (content, offset) determines the hidden state within one search")

	if ok, err := onTmpfs(); err != nil {
		run.Fatal(err)
	} else {
		run.Set("reference_on_tmpfs", ok)
	}

	var searches []search
	full := []int{0, 1, 2, 5}
	depth, rdDepth := 4, 4
	fixed := []string{"", "x", "pqrst"}
	budget := 70 * time.Second
	if run.Thorough() {
		depth, rdDepth = 5, 8
		fixed = append(fixed, "pq", "pqrstuvw")
		budget = 13 * time.Minute
	}
	deadline := time.Now().Add(budget)
	for _, c := range []int{0, 1, 4} {
		for _, k := range []string{"brw", "mem"} {
			searches = append(searches, search{name: fmt.Sprintf("%s cap=%d full depth=%d", k, c, depth), p: params{kind: k, cap0: c, wlens: full, neg: true}, depth: depth})
		}
	}
	if run.Thorough() {
		// deeper histories over a reduced alphabet
		for _, c := range []int{0, 1, 4} {
			for _, k := range []string{"brw", "mem"} {
				searches = append(searches, search{name: fmt.Sprintf("%s cap=%d small depth=%d", k, c, smallDepth), p: params{kind: k, cap0: c, wlens: []int{0, 1, 3}, small: true}, depth: smallDepth})
			}
		}
	}
	for _, fx := range fixed {
		searches = append(searches, search{name: fmt.Sprintf("rdr len=%d full depth=%d", len(fx), rdDepth), p: params{kind: "rdr", fixed: fx, neg: true}, depth: rdDepth})
	}
	histories, focused := storeSearches(run.Thorough())
	searches = append(append(histories, searches...), focused...)

	if rp := run.ReplayPath(); rp != "" {
		replay(run, rp, searches)
		return
	}

	// development aid: C12_ONLY=<prefix> runs only the searches whose name starts with it
	only := os.Getenv("C12_ONLY")
	if only != "" {
		run.NotExhaustive("C12_ONLY=" + only + ": other searches skipped")
		var keep []search
		for _, sc := range searches {
			if strings.HasPrefix(sc.name, only) {
				keep = append(keep, sc)
			}
		}
		searches = keep
	}
	for _, sc := range searches {
		level.Store(0)
		rep.BFS(run, sc.name, bfs.Config{MaxDepth: sc.depth, Deadline: deadline, New: sc.mk()})
	}

	var ks []string
	ngap, ngrow, ncross := 0, 0, 0
	stoGaps := map[string]int{} // classes of writes leaving a gap, per kind of start state of the blob
	for k, f := range classes {
		ks = append(ks, k.String())
		run.Distinct(k.String())
		if k.kind == "sto" && f[0] {
			stoGaps[k.start]++
		}
		if f[0] {
			ngap++
		}
		if f[1] {
			ngrow++
		}
		if f[2] {
			ncross++
		}
	}
	sort.Strings(ks)
	run.Set("classes", ks)
	run.Set("classes_writes_leaving_gap", ngap)
	run.Set("classes_growth_beyond_capacity", ngrow)
	run.Set("classes_reads_crossing_end", ncross)
	run.Set("classes_gap_writes_by_start_state_of_blob", stoGaps)
	if ngap == 0 || ngrow == 0 || ncross == 0 {
		run.Fatal(errors.New("vacuous: no gap write / capacity growth / read crossing the end was exercised"))
	}
	if only == "" && run.NViolations() == 0 {
		for _, st := range []string{"created by evicting", "created after a blob died", "created beside live blobs"} {
			if stoGaps[st] == 0 {
				run.Fatal(fmt.Errorf("vacuous: no write leaving a gap on a blob %s", st))
			}
		}
	}
	run.Finish()
}

// replay re-executes the history of a replay file written by evid.
func replay(run *evid.Run, path string, searches []search) {
	b, err := os.ReadFile(path)
	if err != nil {
		run.Fatal(err)
	}
	var rf struct {
		Case struct {
			Search  string   `json:"search"`
			History []string `json:"history"`
		} `json:"case"`
	}
	if err := json.Unmarshal(b, &rf); err != nil {
		run.Fatal(err)
	}
	for _, sc := range searches {
		// the depth suffix differs between tiers: match on kind + configuration + alphabet
		if family(sc.name) != family(rf.Case.Search) {
			continue
		}
		forceObserve = true
		err := bfs.Replay(bfs.Config{New: sc.mk()}, rf.Case.History)
		run.Eval(len(rf.Case.History))
		run.Distinct("replay")
		run.Distinct("replay2")
		if f, ok := err.(*bfs.Fail); ok {
			run.Violation(f.Fingerprint, map[string]interface{}{"search": sc.name, "history": rf.Case.History, "msg": f.Msg})
		} else if err != nil {
			run.Fatal(err)
		}
		run.Finish()
	}
	run.Fatal(fmt.Errorf("no search matches %q", rf.Case.Search))
}
