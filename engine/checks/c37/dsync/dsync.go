// Package dsync replaces package sync in the backend packages explored by
// check C37 (overlay.spec.json). Every type is the real one except Pool.
//
// sync.Pool's answers are an environment choice of the Go runtime: Get may
// return any item that was Put before or a fresh New() one (items are dropped
// on GC cycles, on P migration, and deliberately under -race). A history of a
// client that recycles objects through a pool is therefore not a function of
// the operations. This Pool fixes the answer to the legal one that maximises
// reuse: Get returns the most recently Put item whenever one exists (LIFO),
// New() otherwise; nothing is ever dropped. "Fresh item" is the answer every
// first Get on an instance receives, so both answers are exercised, and the
// explored histories are deterministic.
package dsync

import "sync"

type (
	Mutex     = sync.Mutex
	RWMutex   = sync.RWMutex
	WaitGroup = sync.WaitGroup
	Once      = sync.Once
	Cond      = sync.Cond
	Locker    = sync.Locker
	Map       = sync.Map
)

func NewCond(l Locker) *Cond { return sync.NewCond(l) }

func OnceFunc(f func()) func() { return sync.OnceFunc(f) }

func OnceValue[T any](f func() T) func() T { return sync.OnceValue(f) }

func OnceValues[T1, T2 any](f func() (T1, T2)) func() (T1, T2) { return sync.OnceValues(f) }

// Pool is a drop-in for sync.Pool that never drops an item.
type Pool struct {
	New func() any

	mu    sync.Mutex
	items []any
}

// recycled counts Gets (process-wide) answered with a recycled item: vacuity
// counter of the check (0 on a tree whose backends use no pool).
var recycled int64
var recycledMu sync.Mutex

// RecycledCount reads the counter.
func RecycledCount() int64 {
	recycledMu.Lock()
	defer recycledMu.Unlock()
	return recycled
}

func (p *Pool) Get() any {
	p.mu.Lock()
	if n := len(p.items); n > 0 {
		x := p.items[n-1]
		p.items[n-1] = nil
		p.items = p.items[:n-1]
		p.mu.Unlock()
		recycledMu.Lock()
		recycled++
		recycledMu.Unlock()
		return x
	}
	p.mu.Unlock()
	if p.New != nil {
		return p.New()
	}
	return nil
}

func (p *Pool) Put(x any) {
	if x == nil {
		return
	}
	p.mu.Lock()
	p.items = append(p.items, x)
	p.mu.Unlock()
}
