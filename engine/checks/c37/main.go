// C37: backend clients honour the storage contract.
// E3: BFS to fixpoint over Upload/Download/Stat/List histories on the REAL
// backend clients (testfs client <-> testfs.Server handler over httptest,
// sqlbackend on in-memory sqlite, s3backend.Client over the in-memory S3 of
// fake_s3.go, shadowbackend over two of those), reference model = map
// name -> content. After every operation everything the backend.Client API can
// observe (Download and Stat of every name, List of every prefix in every
// listing mode, continuation tokens followed to the end) is compared with the
// model.
//
// Long-lived client dimension: every client is built by the package's real
// constructor where one exists that can run in-process (s3backend.NewClient +
// WithS3), sync.Pool in the backend packages is the deterministic always-reuse
// pool of ./dsync, the state key carries the history variable "longest object
// this instance has transferred into a non-WriterAt destination", and on
// configurations with the in-memory S3 the alphabet has transfer faults
// (Download cut after j chunks), so that state a client keeps between calls
// (recycled buffers, caches) is exercised by longer-then-shorter and
// failed-then-successful downloads on ONE instance.
package main

import (
	"bytes"
	"encoding/json"
	"errors"
	"fmt"
	"io"
	"net"
	"net/http"
	"os"
	"sort"
	"strconv"
	"strings"
	"sync"
	"sync/atomic"
	"time"

	"github.com/uber-go/tally"
	"github.com/uber/kraken/core"
	"github.com/uber/kraken/lib/backend"
	"github.com/uber/kraken/lib/backend/backenderrors"
	"github.com/uber/kraken/lib/backend/namepath"
	"github.com/uber/kraken/lib/backend/s3backend"
	"github.com/uber/kraken/lib/backend/shadowbackend"
	"github.com/uber/kraken/lib/backend/sqlbackend"
	"github.com/uber/kraken/lib/backend/testfs"
	"github.com/uber/kraken/utils/httputil"

	"verif/bfs"
	"verif/checks/c37/dsync"
	"verif/evid"
	_ "verif/quiet"
	"verif/rep"
)

const ns = "ns"

// ------------------------------------------------------------ name spaces

type prefixSpec struct {
	prefix string
	under  []int // indices (into universe.names) of the names under it
}

// universe: names valid for one pather + prefixes for which "under the
// prefix" is unambiguous (whole path components; no name is a string
// extension of a prefix without being in its directory, no prefix equals a
// name), so that directory-style (testfs, sql) and string-prefix (S3)
// listings agree on what the statement asks for.
type universe struct {
	names    []string
	prefixes []prefixSpec
}

func identityUniverse(n int) universe {
	u := universe{names: []string{"a/x", "b/x", "a/y", "a/z"}[:n]}
	u.prefixes = []prefixSpec{{"", nil}, {"a", nil}, {"b", nil}}
	for i, nm := range u.names {
		u.prefixes[0].under = append(u.prefixes[0].under, i)
		if strings.HasPrefix(nm, "a/") {
			u.prefixes[1].under = append(u.prefixes[1].under, i)
		} else {
			u.prefixes[2].under = append(u.prefixes[2].under, i)
		}
	}
	return u
}

func dockerTagUniverse(n int) universe {
	u := universe{names: []string{"r:t1", "q:t1", "r:t2", "r:t3"}[:n]}
	// the prefix form build-index's tagserver passes: <repo>/_manifests/tags
	u.prefixes = []prefixSpec{{"", nil}, {"r/_manifests/tags", nil}, {"q/_manifests/tags", nil}}
	for i, nm := range u.names {
		u.prefixes[0].under = append(u.prefixes[0].under, i)
		if strings.HasPrefix(nm, "r:") {
			u.prefixes[1].under = append(u.prefixes[1].under, i)
		} else {
			u.prefixes[2].under = append(u.prefixes[2].under, i)
		}
	}
	return u
}

func shardedUniverse(n int) universe {
	u := universe{names: []string{"aa01", "bb03", "aa02", "aa04"}[:n]}
	u.prefixes = []prefixSpec{{"", nil}, {"sha256/aa", nil}, {"sha256/bb", nil}}
	for i, nm := range u.names {
		u.prefixes[0].under = append(u.prefixes[0].under, i)
		if strings.HasPrefix(nm, "aa") {
			u.prefixes[1].under = append(u.prefixes[1].under, i)
		} else {
			u.prefixes[2].under = append(u.prefixes[2].under, i)
		}
	}
	return u
}

// contents: empty, one byte, two bytes (two download chunks in the fake S3);
// binary (NUL, non-UTF-8, newline) in the thorough tier.
var contents3 = []string{"", "x", "yy"}
var contents4 = []string{"", "x", "yy", "\x00\xff\n"}

// ------------------------------------------------------------ listing modes

// listMode: how a complete listing is obtained. paginated: every call carries
// ListWithPagination + ListWithMaxKeys(k) (+ the token of the previous page).
// unpaginated: the first call carries no option; when it answers with a
// continuation token the listing is continued the way build-index's tagclient
// does it (offset only): ListWithPagination + ListWithContinuationToken.
type listMode struct {
	label     string
	paginated bool
	maxKeys   int
}

var unpaginated = listMode{label: "u"}

func pagedModes(ks ...int) []listMode {
	var ms []listMode
	for _, k := range ks {
		ms = append(ms, listMode{label: "p" + strconv.Itoa(k), paginated: true, maxKeys: k})
	}
	return ms
}

// ------------------------------------------------------------ backends

type built struct {
	c       backend.Client
	cleanup func()
	// fake: the in-memory S3 that serves this client's Downloads (nil when
	// Download is not served by one): transfer faults are injected there
	fake *fakeS3
}

type backendSpec struct {
	label string // search name
	// contents: the content alphabet (default contents3)
	contents []string
	kind     string // fingerprint prefix: root causes live in one client each
	uni      universe
	// tracksSize: Stat reports the stored size (sqlbackend.Stat always
	// answers size 0: it does not track sizes).
	tracksSize bool
	modes      []listMode
	// catalog: List("") of sqlbackend is documented to answer one
	// "<repo>:dummy" entry per repository instead of the stored names; the
	// oracle for that prefix is "every repository that has a stored name,
	// exactly once".
	catalog bool
	// emptyListMayFail: testfs lists by walking a directory that exists only
	// once something was uploaded below it; the statement does not decide
	// what a listing with nothing to list answers, so an error is accepted
	// there (and counted).
	emptyListMayFail bool
	// faults: numbers of chunks after which an injected S3 transfer fault cuts
	// a Download (configurations whose Download is served by the in-memory S3)
	faults []int
	// faultInKey: the history variable "a Download of this instance was cut by
	// a fault" is part of the state key (thorough tier: doubles the states of
	// the S3-served configurations); otherwise the state after a fault is merged
	// with the one before it: the observation round right after the fault is
	// what is checked
	faultInKey bool
	build      func() (*built, error)
}

func buildTestfs(root, np string) func() (*built, error) {
	return func() (*built, error) {
		dir, err := os.MkdirTemp("", "c37-testfs-")
		if err != nil {
			return nil, err
		}
		srv := testfs.VerifNewServerAt(dir)
		// not httptest.Server: its Close calls CloseIdleConnections on
		// http.DefaultTransport, which breaks requests of parallel workers
		l, err := net.Listen("tcp", "127.0.0.1:0")
		if err != nil {
			os.RemoveAll(dir)
			return nil, err
		}
		hs := &http.Server{Handler: srv.Handler()}
		go hs.Serve(l)
		c, err := testfs.NewClient(testfs.Config{Addr: l.Addr().String(), Root: root, NamePath: np}, tally.NoopScope)
		if err != nil {
			hs.Close()
			os.RemoveAll(dir)
			return nil, err
		}
		return &built{c: c, cleanup: func() {
			c.Close()
			hs.Close()
			os.RemoveAll(dir)
		}}, nil
	}
}

func buildSQL() (*built, error) {
	c, err := sqlbackend.NewClient(sqlbackend.Config{Dialect: "sqlite3", ConnectionString: ":memory:"}, sqlbackend.UserAuthConfig{}, tally.NoopScope)
	if err != nil {
		return nil, err
	}
	return &built{c: c, cleanup: func() { c.Close() }}, nil
}

// buildS3: every S3 client is built by the package's public constructor
// (s3backend.NewClient + WithS3), so whatever NewClient initialises in a Client
// is initialised here too. (An earlier version used an export-file copy of the
// constructor to save the AWS session set-up; a field NewClient started to
// initialise was then nil in the harness's clients. The set-up costs ~1 ms once
// AWS_CA_BUNDLE is out of the environment, see main.)
func buildS3(np string, listMaxKeys int, short bool) func() (*built, error) {
	return func() (*built, error) {
		fake := newFakeS3("bkt", short)
		cfg := s3backend.Config{Username: "u", Region: "us-east-1", Bucket: "bkt", RootDirectory: "/root", NamePath: np, ListMaxKeys: listMaxKeys}
		c, err := s3backend.NewClient(cfg, s3backend.UserAuthConfig{"u": s3backend.AuthConfig{}}, tally.NoopScope, s3backend.WithS3(fake))
		if err != nil {
			return nil, err
		}
		return &built{c: c, fake: fake, cleanup: func() { c.Close() }}, nil
	}
}

func buildShadow(active, shadow func() (*built, error)) func() (*built, error) {
	return func() (*built, error) {
		a, err := active()
		if err != nil {
			return nil, err
		}
		s, err := shadow()
		if err != nil {
			a.cleanup()
			return nil, err
		}
		c := shadowbackend.VerifNewClient(a.c, s.c)
		// shadow Client.Close closes both; the cleanups release the servers.
		// shadow Download/Stat are served by the active client: its fake (if any)
		return &built{c: c, fake: a.fake, cleanup: func() { a.cleanup(); s.cleanup() }}, nil
	}
}

func specs(thorough bool) []*backendSpec {
	n := 3
	id, dt, sh := identityUniverse(n), dockerTagUniverse(n), shardedUniverse(n)
	u := []listMode{unpaginated}
	all := append([]listMode{unpaginated}, pagedModes(1, 2, 3)...)
	// cheapest searches first (in-memory S3), loopback-HTTP testfs last: a
	// deadline hit under load cuts the most expensive ones
	s := []*backendSpec{
		{label: "s3 identity", kind: "s3", uni: identityUniverse(3), tracksSize: true, modes: all, build: buildS3(namepath.Identity, 0, false)},
		{label: "s3 docker_tag short-pages list_max_keys=2", kind: "s3", uni: dockerTagUniverse(3), tracksSize: true, modes: all, build: buildS3(namepath.DockerTag, 2, true)},
		{label: "shadow(s3 docker_tag, sql)", kind: "shadow", uni: dt, tracksSize: true, modes: all, build: buildShadow(buildS3(namepath.DockerTag, 0, false), buildSQL)},
		{label: "testfs identity", kind: "testfs", uni: id, tracksSize: true, modes: u, emptyListMayFail: true, build: buildTestfs("root", namepath.Identity)},
		{label: "testfs docker_tag", kind: "testfs", uni: dt, tracksSize: true, modes: u, emptyListMayFail: true, build: buildTestfs("tags", namepath.DockerTag)},
		{label: "sql", kind: "sql", uni: dt, tracksSize: false, modes: []listMode{unpaginated, pagedModes(1)[0]}, catalog: true, build: buildSQL},
	}
	if thorough {
		id4 := identityUniverse(4)
		all4 := append([]listMode{unpaginated}, pagedModes(1, 2, 3, 4)...)
		s = append(s,
			&backendSpec{label: "s3 identity short-pages", kind: "s3", uni: id, tracksSize: true, modes: all, build: buildS3(namepath.Identity, 0, true)},
			&backendSpec{label: "s3 identity list_max_keys=1", kind: "s3", uni: id, tracksSize: true, modes: all, build: buildS3(namepath.Identity, 1, false)},
			&backendSpec{label: "s3 docker_tag binary", kind: "s3", uni: dt, contents: contents4, tracksSize: true, modes: all, build: buildS3(namepath.DockerTag, 0, false)},
			&backendSpec{label: "s3 sharded_docker_blob list_max_keys=2", kind: "s3", uni: sh, tracksSize: true, modes: all, build: buildS3(namepath.ShardedDockerBlob, 2, false)},
			&backendSpec{label: "s3 identity 4 names list_max_keys=3", kind: "s3", uni: id4, tracksSize: true, modes: all4, build: buildS3(namepath.Identity, 3, false)},
			&backendSpec{label: "s3 identity 4 names short-pages list_max_keys=3", kind: "s3", uni: id4, tracksSize: true, modes: all4, build: buildS3(namepath.Identity, 3, true)},
			&backendSpec{label: "testfs identity 4 names", kind: "testfs", uni: id4, tracksSize: true, modes: u, emptyListMayFail: true, build: buildTestfs("root", namepath.Identity)},
			&backendSpec{label: "sql 4 names", kind: "sql", uni: dockerTagUniverse(4), tracksSize: false, modes: []listMode{unpaginated, pagedModes(2)[0]}, catalog: true, build: buildSQL},
			&backendSpec{label: "testfs sharded_docker_blob", kind: "testfs", uni: sh, tracksSize: true, modes: u, emptyListMayFail: true, build: buildTestfs("blobs", namepath.ShardedDockerBlob)},
			&backendSpec{label: "testfs identity binary", kind: "testfs", uni: id, contents: contents4, tracksSize: true, modes: u, emptyListMayFail: true, build: buildTestfs("blobs", namepath.Identity)},
			&backendSpec{label: "sql binary", kind: "sql", uni: dt, contents: contents4, tracksSize: false, modes: []listMode{unpaginated, pagedModes(1)[0]}, catalog: true, build: buildSQL},
			&backendSpec{label: "shadow(sql, testfs docker_tag)", kind: "shadow", uni: dt, tracksSize: false, modes: []listMode{unpaginated, pagedModes(1)[0]}, catalog: true, build: buildShadow(buildSQL, buildTestfs("tags", namepath.DockerTag))},
			&backendSpec{label: "shadow(testfs identity, s3 identity)", kind: "shadow", uni: id, tracksSize: true, modes: u, emptyListMayFail: true, build: buildShadow(buildTestfs("root", namepath.Identity), buildS3(namepath.Identity, 0, false))},
		)
	}
	for _, x := range s {
		if x.contents == nil {
			x.contents = contents3
		}
		// transfer faults (used where the in-memory S3 serves Download): cut
		// before the first chunk / after the first chunk; thorough: also after
		// the second (chunks arrive first-then-reverse, so a 3-byte object cut
		// after two chunks leaves a hole in the middle)
		x.faults = []int{0, 1}
		if thorough {
			x.faults = []int{0, 1, 2}
			x.faultInKey = true
		}
	}
	return s
}

// ------------------------------------------------------------ vacuity counters

var (
	cOverwrites    int64 // uploads onto a name that already had other content
	cMultiPage     int64 // listings that needed >= 2 client calls
	cNotFound      int64 // Download/Stat of a never-uploaded name answered ErrBlobNotFound
	cEmptyListErr  int64 // accepted: error from a listing with nothing to list
	cListings      int64
	cMaxPagesInOne int64
	cPlainDl       int64 // successful Downloads into a non-WriterAt destination
	cFaults        int64 // injected transfer faults delivered to a Download
	cFaultErr      int64 // ... that the client reported as an error
	cPanics        int64

	// per configuration: Downloads into a non-WriterAt destination of an object
	// SHORTER than one the same client instance had transferred that way before
	longThenShortMu sync.Mutex
	longThenShort   = map[string]int64{}
)

// guard runs one call of the client API; a panic of the client is a contract
// violation of that call (it returns neither the bytes nor an error), never a
// crash of the check.
func (s *sys) guard(method string, call func() error) (err error) {
	defer func() {
		if r := recover(); r != nil {
			atomic.AddInt64(&cPanics, 1)
			err = bfs.Failf(s.fp(method+" panics"), "%v", r)
		}
	}()
	return call()
}

// isFail: err is a violation raised by guard (as opposed to the client's error).
func isFail(err error) bool { _, ok := err.(*bfs.Fail); return ok }

// ------------------------------------------------------------ system

type sys struct {
	spec   *backendSpec
	b      *built
	model  map[string]string
	rewrit map[string]bool // name was uploaded more than once
	// hw: history variable, part of the state key: length of the longest object
	// this client instance has transferred (completely or cut by a fault) into
	// a non-WriterAt destination. The model state alone forgets it (the long
	// object may have been overwritten since); a client that keeps anything
	// between calls does not.
	hw int
	// faulted: second history variable of the key: a Download of this instance
	// was cut by an injected transfer fault (what the client keeps from a
	// failed call may outlive the observations that follow it)
	faulted bool
	obs     string
	// initFail: the freshly built (empty) store already violates the contract
	initFail *bfs.Fail
}

func newSys(spec *backendSpec) (*sys, error) {
	b, err := spec.build()
	if err != nil {
		return nil, err
	}
	s := &sys{spec: spec, b: b, model: map[string]string{}, rewrit: map[string]bool{}}
	if err := s.observe(); err != nil {
		f, isFail := err.(*bfs.Fail)
		if !isFail {
			b.cleanup()
			return nil, fmt.Errorf("initial state: %v", err)
		}
		// a violation in the empty store: reported by main before the search
		s.initFail = f
	}
	return s, nil
}

func (s *sys) Close() { s.b.cleanup() }

func (s *sys) Ops() []string {
	var ops []string
	for i := range s.spec.uni.names {
		for c := range s.spec.contents {
			ops = append(ops, fmt.Sprintf("up %d %d", i, c))
		}
	}
	for i := range s.spec.uni.names {
		ops = append(ops, fmt.Sprintf("dl %d", i), fmt.Sprintf("st %d", i))
	}
	if s.b.fake != nil {
		// transfer faults: only on stored names (a missing key fails before any
		// transfer) and only cuts that exist for the stored length
		for i, nm := range s.spec.uni.names {
			if c, ok := s.model[nm]; ok {
				for _, j := range s.spec.faults {
					if j <= len(c) {
						ops = append(ops, fmt.Sprintf("dlf %d %d", i, j))
					}
				}
			}
		}
	}
	for p := range s.spec.uni.prefixes {
		for m := range s.spec.modes {
			ops = append(ops, fmt.Sprintf("ls %d %d", p, m))
		}
	}
	return ops
}

func (s *sys) fp(clause string) string { return s.spec.kind + ": " + clause }

func (s *sys) Apply(op string) error {
	if s.initFail != nil {
		return s.initFail
	}
	f := strings.Fields(op)
	arg := func(i int) int { n, _ := strconv.Atoi(f[i]); return n }
	switch f[0] {
	case "up":
		name, content := s.spec.uni.names[arg(1)], s.spec.contents[arg(2)]
		// bytes.Reader: shadowbackend requires an io.ReadSeeker
		if err := s.guard("Upload", func() error { return s.b.c.Upload(ns, name, bytes.NewReader([]byte(content))) }); err != nil {
			if isFail(err) {
				return err
			}
			return fmt.Errorf("Upload(%q,%q): %v", name, content, err)
		}
		if old, ok := s.model[name]; ok {
			s.rewrit[name] = true
			if old != content {
				atomic.AddInt64(&cOverwrites, 1)
			}
		}
		s.model[name] = content
	case "dl":
		if _, err := s.download(s.spec.uni.names[arg(1)], false); err != nil {
			return err
		}
	case "dlf":
		if err := s.faultedDownload(s.spec.uni.names[arg(1)], arg(2)); err != nil {
			return err
		}
	case "st":
		if _, err := s.stat(s.spec.uni.names[arg(1)]); err != nil {
			return err
		}
	case "ls":
		if _, err := s.list(s.spec.uni.prefixes[arg(1)], s.spec.modes[arg(2)]); err != nil {
			return err
		}
	default:
		return fmt.Errorf("unknown op %q", op)
	}
	return s.observe()
}

// memWriterAt is a download destination that offers io.WriterAt (the S3
// client then hands it to the downloader instead of its own capped buffer).
type memWriterAt struct{ b []byte }

func (w *memWriterAt) Write(p []byte) (int, error) { w.b = append(w.b, p...); return len(p), nil }
func (w *memWriterAt) WriteAt(p []byte, off int64) (int, error) {
	if end := int(off) + len(p); end > len(w.b) {
		w.b = append(w.b, make([]byte, end-len(w.b))...)
	}
	copy(w.b[off:], p)
	return len(p), nil
}

func (s *sys) kindOfUpload(name string) string {
	q := "first upload"
	if s.rewrit[name] {
		q = "re-upload"
	}
	if s.model[name] == "" {
		q += ", empty content"
	}
	if s.faulted {
		q += ", after a Download of this instance was cut by a transfer fault"
	}
	return q
}

func (s *sys) download(name string, writerAt bool) (string, error) {
	var dst io.Writer
	var get func() []byte
	if writerAt {
		w := &memWriterAt{}
		dst, get = w, func() []byte { return w.b }
	} else {
		w := &bytes.Buffer{}
		dst, get = w, w.Bytes
	}
	err := s.guard("Download", func() error { return s.b.c.Download(ns, name, dst) })
	if isFail(err) {
		return "", err
	}
	want, stored := s.model[name]
	if stored && !writerAt {
		s.notePlainTransfer(len(want))
		if err == nil {
			atomic.AddInt64(&cPlainDl, 1)
		}
	}
	if !stored {
		switch {
		case err == nil:
			return "", bfs.Failf(s.fp("Download of a never-uploaded name succeeds"), "Download(%q) returned nil and %q", name, get())
		case httputil.IsNetworkError(err):
			return "", fmt.Errorf("Download(%q): %v", name, err)
		case !errors.Is(err, backenderrors.ErrBlobNotFound):
			return "", bfs.Failf(s.fp("Download of a never-uploaded name does not answer ErrBlobNotFound"), "Download(%q): %v", name, err)
		}
		atomic.AddInt64(&cNotFound, 1)
		return "nf", nil
	}
	if err != nil {
		if errors.Is(err, backenderrors.ErrBlobNotFound) {
			return "", bfs.Failf(s.fp("Download of an uploaded name answers ErrBlobNotFound"), "Download(%q) after upload of %q", name, want)
		}
		return "", fmt.Errorf("Download(%q): %v", name, err)
	}
	if got := string(get()); got != want {
		return "", bfs.Failf(s.fp("Download differs from the bytes last uploaded ("+s.kindOfUpload(name)+")"), "Download(%q) = %q, last uploaded %q", name, got, want)
	}
	return "=" + want, nil
}

// notePlainTransfer maintains hw and counts longer-then-shorter pairs.
func (s *sys) notePlainTransfer(n int) {
	if n < s.hw {
		longThenShortMu.Lock()
		longThenShort[s.spec.label]++
		longThenShortMu.Unlock()
	}
	if n > s.hw {
		s.hw = n
	}
}

// faultedDownload: Download(name) into a non-WriterAt destination while the S3
// transfer is cut after `chunks` chunks. The statement's clause for this call:
// if the client reports success the destination holds exactly the bytes last
// uploaded (a client that retries may succeed); an error is the expected
// answer, but it must not be the not-found error for a stored name. What the
// client keeps from the failed call is judged by the observations that follow.
func (s *sys) faultedDownload(name string, chunks int) error {
	want, stored := s.model[name]
	if !stored || s.b.fake == nil {
		return fmt.Errorf("dlf on %q: not applicable in this state", name)
	}
	before := s.b.fake.disarm()
	s.b.fake.failNextDownload(chunks)
	dst := &bytes.Buffer{}
	err := s.guard("Download", func() error { return s.b.c.Download(ns, name, dst) })
	delivered := s.b.fake.disarm() - before
	if isFail(err) {
		return err
	}
	s.notePlainTransfer(len(want))
	if delivered == 0 {
		// the client answered without a transfer from S3 (nothing was cut):
		// the plain Download clause applies
		if err != nil {
			return fmt.Errorf("Download(%q): %v", name, err)
		}
		if got := dst.String(); got != want {
			return bfs.Failf(s.fp("Download differs from the bytes last uploaded ("+s.kindOfUpload(name)+")"), "Download(%q) = %q, last uploaded %q", name, got, want)
		}
		return nil
	}
	atomic.AddInt64(&cFaults, 1)
	s.faulted = true
	switch {
	case err == nil:
		if got := dst.String(); got != want {
			return bfs.Failf(s.fp("Download reports success with bytes that differ from the bytes last uploaded (S3 transfer cut by a fault)"),
				"Download(%q) with the transfer cut after %d chunks = nil, %q; last uploaded %q", name, chunks, got, want)
		}
	case errors.Is(err, backenderrors.ErrBlobNotFound):
		return bfs.Failf(s.fp("Download of an uploaded name answers ErrBlobNotFound (S3 transfer cut by a fault)"),
			"Download(%q) with the transfer cut after %d chunks, last uploaded %q", name, chunks, want)
	default:
		atomic.AddInt64(&cFaultErr, 1)
	}
	return nil
}

func (s *sys) stat(name string) (string, error) {
	var info *core.BlobInfo
	err := s.guard("Stat", func() (e error) { info, e = s.b.c.Stat(ns, name); return })
	if isFail(err) {
		return "", err
	}
	want, stored := s.model[name]
	if !stored {
		switch {
		case err == nil:
			return "", bfs.Failf(s.fp("Stat of a never-uploaded name succeeds"), "Stat(%q) returned %+v", name, info)
		case httputil.IsNetworkError(err):
			return "", fmt.Errorf("Stat(%q): %v", name, err)
		case !errors.Is(err, backenderrors.ErrBlobNotFound):
			return "", bfs.Failf(s.fp("Stat of a never-uploaded name does not answer ErrBlobNotFound"), "Stat(%q): %v", name, err)
		}
		atomic.AddInt64(&cNotFound, 1)
		return "nf", nil
	}
	if err != nil {
		if errors.Is(err, backenderrors.ErrBlobNotFound) {
			return "", bfs.Failf(s.fp("Stat of an uploaded name answers ErrBlobNotFound"), "Stat(%q) after upload of %q", name, want)
		}
		return "", fmt.Errorf("Stat(%q): %v", name, err)
	}
	if info == nil {
		return "", bfs.Failf(s.fp("Stat returns neither info nor error"), "Stat(%q)", name)
	}
	if s.spec.tracksSize && info.Size != int64(len(want)) {
		return "", bfs.Failf(s.fp("Stat size differs from the size last uploaded ("+s.kindOfUpload(name)+")"), "Stat(%q).Size = %d, last uploaded %q", name, info.Size, want)
	}
	return "ok", nil
}

// list obtains one complete listing (all pages) and compares it with the model.
func (s *sys) list(p prefixSpec, m listMode) (string, error) {
	// expected
	var want []string
	if s.spec.catalog && p.prefix == "" {
		seen := map[string]bool{}
		for _, i := range p.under {
			nm := s.spec.uni.names[i]
			if _, ok := s.model[nm]; ok {
				repo := nm[:strings.Index(nm, ":")]
				if !seen[repo] {
					seen[repo] = true
					want = append(want, repo+":dummy")
				}
			}
		}
	} else {
		for _, i := range p.under {
			if _, ok := s.model[s.spec.uni.names[i]]; ok {
				want = append(want, s.spec.uni.names[i])
			}
		}
	}
	modeClass := "unpaginated first call"
	if m.paginated {
		modeClass = "paginated"
	}
	got := map[string]int{}
	token := ""
	calls := 0
	var pageSizes []string
	for {
		var opts []backend.ListOption
		if m.paginated {
			opts = append(opts, backend.ListWithPagination(), backend.ListWithMaxKeys(m.maxKeys))
		}
		if token != "" {
			if !m.paginated {
				opts = append(opts, backend.ListWithPagination())
			}
			opts = append(opts, backend.ListWithContinuationToken(token))
		}
		var res *backend.ListResult
		err := s.guard("List", func() (e error) { res, e = s.b.c.List(p.prefix, opts...); return })
		calls++
		if isFail(err) {
			return "", err
		}
		if err != nil {
			if len(want) == 0 && s.spec.emptyListMayFail && calls == 1 {
				atomic.AddInt64(&cEmptyListErr, 1)
				return "err-nothing-to-list", nil
			}
			return "", fmt.Errorf("List(%q, %s) call %d: %v", p.prefix, m.label, calls, err)
		}
		if res == nil {
			return "", bfs.Failf(s.fp("List returns neither result nor error"), "List(%q, %s)", p.prefix, m.label)
		}
		for _, n := range res.Names {
			got[n]++
		}
		pageSizes = append(pageSizes, strconv.Itoa(len(res.Names)))
		token = res.ContinuationToken
		if token == "" {
			break
		}
		if calls > len(s.spec.uni.names)+3 {
			return "", bfs.Failf(s.fp("List keeps answering continuation tokens after every stored name could have been returned ("+modeClass+")"),
				"List(%q, %s): %d calls, page sizes %v, names so far %v, stored under prefix %v", p.prefix, m.label, calls, pageSizes, got, want)
		}
	}
	atomic.AddInt64(&cListings, 1)
	if calls > 1 {
		atomic.AddInt64(&cMultiPage, 1)
	}
	for {
		old := atomic.LoadInt64(&cMaxPagesInOne)
		if int64(calls) <= old || atomic.CompareAndSwapInt64(&cMaxPagesInOne, old, int64(calls)) {
			break
		}
	}
	detail := fmt.Sprintf("List(%q, %s): pages %v, got %v, stored under prefix %v", p.prefix, m.label, pageSizes, got, want)
	wantSet := map[string]bool{}
	for _, w := range want {
		wantSet[w] = true
		if got[w] == 0 {
			return "", bfs.Failf(s.fp("List misses a stored name under the prefix ("+modeClass+")"), "%s", detail)
		}
	}
	for n, k := range got {
		if !wantSet[n] {
			return "", bfs.Failf(s.fp("List returns a name that is not stored under the prefix ("+modeClass+")"), "%s", detail)
		}
		if k > 1 {
			return "", bfs.Failf(s.fp("List returns a stored name more than once ("+modeClass+")"), "%s", detail)
		}
	}
	sort.Strings(want)
	return strings.Join(want, ",") + "/" + strings.Join(pageSizes, "+"), nil
}

// observe reads everything the API can observe and compares it with the model.
func (s *sys) observe() error {
	var b strings.Builder
	for _, nm := range s.spec.uni.names {
		for _, wa := range []bool{false, true} {
			o, err := s.download(nm, wa)
			if err != nil {
				return err
			}
			b.WriteString(o + ";")
		}
		o, err := s.stat(nm)
		if err != nil {
			return err
		}
		b.WriteString(o + ";")
	}
	for _, p := range s.spec.uni.prefixes {
		for _, m := range s.spec.modes {
			o, err := s.list(p, m)
			if err != nil {
				return err
			}
			b.WriteString(o + ";")
		}
	}
	s.obs = b.String()
	return nil
}

func (s *sys) Key() string {
	k := bfs.SortedKey(s.model) + "|hw=" + strconv.Itoa(s.hw)
	if s.spec.faultInKey {
		k += "|faulted=" + strconv.FormatBool(s.faulted)
	}
	return k + "|" + s.obs
}

// ------------------------------------------------------------ main

// replay re-runs the case of a replay file (search label + history) without
// the explorer and reports what it finds.
func replay(run *evid.Run, path string) {
	raw, err := os.ReadFile(path)
	if err != nil {
		run.Fatal(err)
	}
	var doc struct {
		Case struct {
			Search  string   `json:"search"`
			History []string `json:"history"`
		} `json:"case"`
	}
	if err := json.Unmarshal(raw, &doc); err != nil {
		run.Fatal(err)
	}
	for _, spec := range specs(true) {
		if spec.label != doc.Case.Search {
			continue
		}
		sy, err := newSys(spec)
		if err != nil {
			run.Fatal(err)
		}
		defer sy.Close()
		run.Eval(1)
		run.Distinct("replay")
		run.Distinct(spec.label)
		for i, op := range doc.Case.History {
			if err := sy.Apply(op); err != nil {
				f, isFail := err.(*bfs.Fail)
				if !isFail {
					run.Fatal(err)
				}
				run.Violation(f.Fingerprint, map[string]interface{}{"search": spec.label, "history": doc.Case.History[:i+1], "msg": f.Msg})
				break
			}
		}
		run.Finish()
	}
	run.Fatal(fmt.Errorf("replay: unknown search %q", doc.Case.Search))
}

func main() {
	// AWS_CA_BUNDLE makes every session.NewSession (inside s3backend.NewClient)
	// parse the whole system CA bundle (~20 ms); no connection is ever made
	os.Unsetenv("AWS_CA_BUNDLE")
	run := evid.New("C37", "model_checking")
	run.Rule = "per backend configuration: BFS to fixpoint over all histories of Upload(name, content) / Download(name) / Stat(name) / List(prefix, mode) on ONE long-lived real client built by its real constructor (3 names per pather, 4 in some thorough S3 configurations; contents {\"\", \"x\", \"yy\"} plus a 3-byte binary one in thorough; prefixes {\"\", common directory, single-name directory}, modes unpaginated and paginated with MaxKeys 1..3 (1..4 with 4 names), tokens followed to the end) plus, where the in-memory S3 serves Download, DownloadWithFault(name, j): a Download into a non-WriterAt destination whose S3 transfer is cut after j chunks (j in {0,1}, thorough {0,1,2}, j <= stored length); state = map name->content, the history variables hw = longest object this instance has transferred into a non-WriterAt destination (thorough: and faulted = one of its Downloads was cut by a fault), and every API observation; after every operation all observations (Download of every name into a bytes.Buffer and into a WriterAt, Stat, every listing) are compared with the model, so every instance performs many Downloads of objects of different lengths (longer then shorter, failed then successful) through the same client. distinct = distinct reachable states per configuration."
	run.Assume("small-scope: 3-4 names per pather, contents of length 0..3, page sizes 1..4, S3 list_max_keys in {1,2,3,default 250}, at most one transfer fault per Download (cut before chunk 1, after chunk 1, thorough: after chunk 2)")
	run.Assume("trusted base: the in-memory S3 (checks/c37/fake_s3.go: sorted keys, string prefix, MaxKeys, continuation tokens, short pages, leading '/' of a key dropped, chunked out-of-order WriteAt, one-shot transfer fault answered with the SDK's generic RequestError) stands in for S3 + aws-sdk-go; s3backend clients are built by s3backend.NewClient + WithS3; testfs runs over loopback HTTP (httptest), sql on in-memory sqlite")
	run.Assume("sync.Pool in the backend packages (lib/backend, namepath, s3backend, sqlbackend, testfs, shadowbackend, utils/rwutil, utils/httputil) is replaced through the overlay by checks/c37/dsync.Pool: Get answers the most recently Put item whenever one exists, New() otherwise, nothing is dropped (the legal runtime answer that maximises reuse; the fresh-item answer is what every first Get of an instance receives); files ADDED by a patch are not rewritten")
	run.Assume("a Download that was cut by an injected fault may answer an error (no claim on the destination then) or succeed with exactly the uploaded bytes; it must not answer ErrBlobNotFound for a stored name; a panic of a client call is a violation of that call's clause")
	run.Assume("prefixes are whole path components and never equal to a name (where directory-style and string-prefix listing could disagree the statement does not decide)")
	run.Assume("sqlbackend List(\"\") is documented to answer <repo>:dummy per repository; oracle there: every repository with a stored name exactly once. sqlbackend does not track sizes (Stat size not compared)")
	run.Assume("a listing with nothing to list may fail on testfs (directory does not exist yet); not decided by the statement, counted in empty_list_errors")

	if rp := run.ReplayPath(); rp != "" {
		replay(run, rp)
		return
	}
	// cap, not a target: ~10 s of work on 16 idle cores; the cap only cuts a
	// run on a heavily overloaded machine
	deadline := time.Now().Add(170 * time.Second)
	if run.Thorough() {
		deadline = time.Now().Add(12 * time.Minute)
	}
	completed := map[string]bool{}
	for _, spec := range specs(run.Thorough()) {
		spec := spec
		t0 := time.Now()
		// the empty store is a state too: check it before searching from it
		sy0, err := newSys(spec)
		if err != nil {
			run.Fatal(err)
		}
		f0 := sy0.initFail
		sy0.Close()
		if f0 != nil {
			run.Eval(1)
			run.Violation(f0.Fingerprint, map[string]interface{}{"search": spec.label, "history": []string{}, "msg": f0.Msg})
			continue
		}
		res := rep.BFS(run, spec.label, bfs.Config{MaxDepth: 12, Deadline: deadline, New: func() (bfs.System, error) { return newSys(spec) }})
		run.Set("wall_s:"+spec.label, float64(int(time.Since(t0).Seconds()*10))/10)
		completed[spec.label] = res.Completed
		if res.Completed && !res.Fixpoint {
			run.NotExhaustive(spec.label + ": no fixpoint within depth 12")
		}
		for i := 0; i < res.States; i++ {
			run.Distinct(fmt.Sprintf("%s#%d", spec.label, i))
		}
	}
	run.Set("overwrites_executed", atomic.LoadInt64(&cOverwrites))
	run.Set("listings_checked", atomic.LoadInt64(&cListings))
	run.Set("multi_page_listings", atomic.LoadInt64(&cMultiPage))
	run.Set("max_client_calls_in_one_listing", atomic.LoadInt64(&cMaxPagesInOne))
	run.Set("not_found_answers_checked", atomic.LoadInt64(&cNotFound))
	run.Set("empty_list_errors", atomic.LoadInt64(&cEmptyListErr))
	run.Set("plain_destination_downloads", atomic.LoadInt64(&cPlainDl))
	run.Set("transfer_faults_delivered", atomic.LoadInt64(&cFaults))
	run.Set("transfer_faults_reported_as_error", atomic.LoadInt64(&cFaultErr))
	run.Set("client_panics", atomic.LoadInt64(&cPanics))
	run.Set("pool_gets_answered_with_recycled_item", dsync.RecycledCount())
	var ltsTotal int64
	for _, spec := range specs(run.Thorough()) {
		n := longThenShort[spec.label]
		ltsTotal += n
		run.Set("longer_then_shorter_plain_downloads:"+spec.label, n)
		if n == 0 && completed[spec.label] && run.NViolations() == 0 {
			run.Fatal(fmt.Errorf("vacuous: %s: no Download into a non-WriterAt destination of an object shorter than an earlier one on the same client instance", spec.label))
		}
	}
	run.Set("longer_then_shorter_plain_downloads", ltsTotal)
	if atomic.LoadInt64(&cFaults) == 0 && completed["s3 identity"] && run.NViolations() == 0 {
		run.Fatal(errors.New("vacuous: no transfer fault was delivered"))
	}
	if atomic.LoadInt64(&cOverwrites) == 0 || atomic.LoadInt64(&cMultiPage) == 0 || atomic.LoadInt64(&cNotFound) == 0 {
		if run.NViolations() == 0 {
			run.Fatal(errors.New("vacuous: no overwrite / multi-page listing / not-found answer was exercised"))
		}
	}
	run.Finish()
}
