// C04: an agent crash at any point never yields a wrong cached blob.
// E2: download histories on the real agentstorage.TorrentArchive/Torrent over a
// real CADownloadStore; a crash before EVERY mutating file-system primitive of
// the history (numbered by the os shim compiled into lib/store and
// lib/store/base), then a restart on the same directories with the real code.
package main

import (
	"bytes"
	"fmt"
	"io"
	"strings"

	"github.com/uber-go/tally"
	"github.com/uber/kraken/core"
	"github.com/uber/kraken/lib/store"
	"github.com/uber/kraken/lib/torrent/storage"
	"github.com/uber/kraken/lib/torrent/storage/agentstorage"
	"github.com/uber/kraken/lib/torrent/storage/piecereader"
	"github.com/uber/kraken/tracker/metainfoclient"

	"verif/crash"
	"verif/evid"
	_ "verif/quiet"
)

type blobSpec struct {
	content []byte
	pl      int64
}

func (b blobSpec) n() int { return int((int64(len(b.content)) + b.pl - 1) / b.pl) }
func (b blobSpec) piece(i int) []byte {
	s := int64(i) * b.pl
	e := min(s+b.pl, int64(len(b.content)))
	return b.content[s:e]
}
func (b blobSpec) metainfo() *core.MetaInfo {
	d, err := core.NewDigester().FromBytes(b.content)
	if err != nil {
		panic(err)
	}
	mi, err := core.NewMetaInfo(d, bytes.NewReader(b.content), b.pl)
	if err != nil {
		panic(err)
	}
	return mi
}

// session is one agent process lifetime on dir.
type session struct {
	cads    *store.CADownloadStore
	archive *agentstorage.TorrentArchive
	mi      *core.MetaInfo
}

func open(dir string, spec blobSpec) (*session, error) {
	cads, err := store.NewCADownloadStore(store.CADownloadStoreConfig{
		DownloadDir:     dir + "/download",
		CacheDir:        dir + "/cache",
		DownloadCleanup: store.CleanupConfig{Disabled: true},
		CacheCleanup:    store.CleanupConfig{Disabled: true},
	}, tally.NoopScope)
	if err != nil {
		return nil, err
	}
	mi := spec.metainfo()
	tc := metainfoclient.NewTestClient()
	if err := tc.Upload(mi); err != nil {
		return nil, err
	}
	return &session{cads: cads, archive: agentstorage.NewTorrentArchive(tally.NoopScope, cads, tc), mi: mi}, nil
}

// step kinds of a history
type step struct {
	kind string // "create", "w" (piece i, payload kind), "reopen"
	i    int
	bad  bool
}

type variant struct {
	name  string
	spec  blobSpec
	steps []step
}

func w(i int) step    { return step{kind: "w", i: i} }
func wbad(i int) step { return step{kind: "w", i: i, bad: true} }

func variants(thorough bool) []variant {
	b0 := blobSpec{[]byte(""), 2}
	b1 := blobSpec{[]byte("a"), 2}
	b2 := blobSpec{[]byte("abc"), 2}
	b3 := blobSpec{[]byte("abcde"), 2}
	cr := step{kind: "create"}
	re := step{kind: "reopen"}
	vs := []variant{
		{"2 pieces in order", b2, []step{cr, w(0), w(1)}},
		{"2 pieces reverse", b2, []step{cr, w(1), w(0)}},
		{"3 pieces, reopen after first", b3, []step{cr, w(2), re, w(0), w(1)}},
		{"empty blob", b0, []step{cr}},
		{"1 piece with corrupt attempt and duplicate", b1, []step{cr, wbad(0), w(0), w(0)}},
	}
	if thorough {
		vs = append(vs,
			variant{"3 pieces 1,0,2", b3, []step{cr, w(1), w(0), w(2)}},
			variant{"3 pieces, reopen twice", b3, []step{cr, re, w(0), re, w(1), w(2)}},
			variant{"2 pieces, corrupt then good, reopen, finish", b2, []step{cr, wbad(1), w(1), re, w(0)}},
			variant{"create twice then download", b2, []step{cr, cr, w(0), w(1)}},
			variant{"exact multiple 4/2", blobSpec{[]byte("abcd"), 2}, []step{cr, w(0), w(1)}},
		)
	}
	return vs
}

func runHistory(dir string, v variant) error {
	s, err := open(dir, v.spec)
	if err != nil {
		return err
	}
	var t storage.Torrent
	for _, st := range v.steps {
		switch st.kind {
		case "create":
			t, err = s.archive.CreateTorrent("ns", s.mi.Digest())
			if err != nil {
				return fmt.Errorf("CreateTorrent: %v", err)
			}
		case "reopen":
			s.cads.Close()
			s, err = open(dir, v.spec)
			if err != nil {
				return err
			}
			t, err = s.archive.CreateTorrent("ns", s.mi.Digest())
			if err != nil {
				return fmt.Errorf("CreateTorrent after reopen: %v", err)
			}
		case "w":
			data := append([]byte{}, v.spec.piece(st.i)...)
			if st.bad {
				data[0] ^= 0x55
			}
			err := t.WritePiece(piecereader.NewBuffer(data), st.i)
			if st.bad && err == nil {
				return fmt.Errorf("corrupt piece accepted")
			}
			if !st.bad && err != nil && err != storage.ErrPieceComplete {
				return fmt.Errorf("WritePiece(%d): %v", st.i, err)
			}
		}
	}
	s.cads.Close()
	return nil
}

func errClass(err error) string {
	m := err.Error()
	for _, k := range []string{"unexpected end of JSON input", "invalid character", "no such file", "file exists", "EOF"} {
		if strings.Contains(m, k) {
			return k
		}
	}
	if len(m) > 60 {
		m = m[:60]
	}
	return m
}

func cacheBytes(s *session) ([]byte, bool) {
	r, err := s.cads.Cache().GetFileReader(s.mi.Digest().Hex())
	if err != nil {
		return nil, false
	}
	defer r.Close()
	b, _ := io.ReadAll(r)
	return b, true
}

// restart performs the restart + continued download; with assert it evaluates
// the statement's clauses on the way.
func restart(dir string, spec blobSpec, assert bool) (string, string) {
	s, err := open(dir, spec)
	if err != nil {
		return "agent store does not open after restart", err.Error()
	}
	defer s.cads.Close()
	d := s.mi.Digest()
	wrong := func(where string) (string, string) {
		b, ok := cacheBytes(s)
		if !ok {
			return "restart reports blob complete but it is not in the cache (" + where + ")", ""
		}
		if !bytes.Equal(b, spec.content) {
			return "restart reports blob complete with wrong cached bytes (" + where + ")", fmt.Sprintf("cache has %q want %q", b, spec.content)
		}
		return "", ""
	}
	if assert {
		if b, ok := cacheBytes(s); ok && !bytes.Equal(b, spec.content) {
			return "restart serves wrong bytes from the cache", fmt.Sprintf("cache has %q want %q", b, spec.content)
		}
		if info, err := s.archive.Stat("ns", d); err == nil && info.Bitfield().Len() == uint(spec.n()) && info.Bitfield().All() && spec.n() > 0 {
			// Stat reports every piece complete: only a claim of completeness if the blob is in cache
			if _, ok := cacheBytes(s); ok {
				if fp, m := wrong("Stat"); fp != "" {
					return fp, m
				}
			}
		}
		if t, err := s.archive.GetTorrent("ns", d); err == nil && t.Complete() {
			if fp, m := wrong("GetTorrent"); fp != "" {
				return fp, m
			}
		}
	}
	t, err := s.archive.CreateTorrent("ns", d)
	if err != nil {
		if assert {
			return "download cannot be started again after restart: " + errClass(err), err.Error()
		}
		return "", ""
	}
	if assert && t.Complete() {
		if fp, m := wrong("CreateTorrent"); fp != "" {
			return fp, m
		}
	}
	if assert && t.NumPieces() != spec.n() {
		return "restarted torrent has wrong number of pieces", fmt.Sprintf("%d want %d", t.NumPieces(), spec.n())
	}
	for _, i := range t.MissingPieces() {
		if i >= spec.n() {
			continue
		}
		err := t.WritePiece(piecereader.NewBuffer(spec.piece(i)), i)
		if err != nil && err != storage.ErrPieceComplete && assert {
			return "continued download fails after restart: " + errClass(err), fmt.Sprintf("WritePiece(%d): %v", i, err)
		}
	}
	if assert {
		if !t.Complete() {
			return "continued download does not complete after restart", fmt.Sprintf("missing %v", t.MissingPieces())
		}
		b, ok := cacheBytes(s)
		if !ok || !bytes.Equal(b, spec.content) {
			return "continued download completes with wrong bytes", fmt.Sprintf("cache has %q (present=%v) want %q", b, ok, spec.content)
		}
	}
	// "The download can be started again": the blob later leaves the cache
	// (eviction / DeleteTorrent) and is downloaded once more on the same
	// directories -- whatever the crash left behind must not poison that either.
	if err := s.archive.DeleteTorrent(d); err != nil {
		if assert {
			return "cached blob cannot be deleted after restart", err.Error()
		}
		return "", ""
	}
	t2, err := s.archive.CreateTorrent("ns", d)
	if err != nil {
		if assert {
			return "download cannot be started again after the blob left the cache: " + errClass(err), err.Error()
		}
		return "", ""
	}
	if assert && spec.n() > 0 && t2.Complete() {
		if b, ok := cacheBytes(s); !ok || !bytes.Equal(b, spec.content) {
			return "re-download after eviction reports complete with wrong cached bytes", fmt.Sprintf("cache has %q (present=%v) want %q", b, ok, spec.content)
		}
	}
	for _, i := range t2.MissingPieces() {
		if i >= spec.n() {
			continue
		}
		if err := t2.WritePiece(piecereader.NewBuffer(spec.piece(i)), i); err != nil && err != storage.ErrPieceComplete && assert {
			return "re-download after eviction fails: " + errClass(err), fmt.Sprintf("WritePiece(%d): %v", i, err)
		}
	}
	if assert {
		b, ok := cacheBytes(s)
		if !t2.Complete() || !ok || !bytes.Equal(b, spec.content) {
			return "re-download after eviction does not complete with the exact bytes", fmt.Sprintf("complete=%v cache has %q (present=%v) want %q", t2.Complete(), b, ok, spec.content)
		}
	}
	return "", ""
}

func main() {
	run := evid.New("C04", "fault_enumeration")
	run.Rule = "download histories (create torrent, piece writes in several orders, corrupt/duplicate writes, reopen between pieces, commit) on the real agentstorage over a real CADownloadStore; one case per mutating FS primitive of the history (crash before it; os shim numbers mkdir/create/write/pwrite/truncate/rename/unlink/rmdir), then restart with the real code: Stat/GetTorrent/CreateTorrent, cache read, continued download. thorough adds a second crash before every primitive of the restart+continuation. distinct = distinct (history, crash point[, second crash point]) cases."
	run.Assume("process-crash model: completed syscalls persist, nothing after the crash point happens, no torn writes")
	run.Assume("os shim performs the same primitives as package os; RemoveAll child order ascending (quick) and descending (thorough)")
	total := 0
	for _, desc := range []bool{false, true} {
		if desc && !run.Thorough() {
			continue
		}
		for _, v := range variants(run.Thorough()) {
			v := v
			c := crash.Case{
				Name:       fmt.Sprintf("%s [blob %q pl=%d rmdesc=%v]", v.name, v.spec.content, v.spec.pl, desc),
				Run:        func(dir string) error { return runHistory(dir, v) },
				Check:      func(dir string) (string, string) { return restart(dir, v.spec, true) },
				Recover:    func(dir string) { restart(dir, v.spec, false) },
				RemoveDesc: desc,
			}
			st, err := crash.Enumerate(run, c, run.Thorough(), evid.Workers())
			if err != nil {
				run.Fatal(err)
			}
			for k := 0; k < st.CrashPoints+st.DoubleCases; k++ {
				run.Distinct(fmt.Sprintf("%s#%d", c.Name, k))
			}
			total += st.CrashPoints
			run.Set("history:"+c.Name, map[string]interface{}{"primitives": st.Primitives, "crash_points": st.CrashPoints, "double_crash_cases": st.DoubleCases})
			run.Sample(map[string]interface{}{"history": c.Name, "primitives": st.Log})
		}
	}
	run.Set("crash_points", total)
	run.Finish()
}
