// C01: content-addressed stores never serve bytes that do not hash to their name.
//
// E4 (small-scope input enumeration, executed sequentially on the real code):
// every claimed digest d = sha256(c) for c over {a,b}^(0..n), every delivered
// stream in {c, c with one byte flipped, each proper prefix of c, c+a, c+b,
// empty}, every backend Stat size in {|c|, |stream|, |c|+1, |c|-1}, every
// memory write-through configuration {off, MaxSize 0, |c|-1, |c|, |c|+1, 2|c|},
// through every write path of the origin blob store:
//
//	upload          CreateUploadFile / write / MoveUploadFileToCache
//	create          CAStore.CreateCacheFile
//	writefn         CAStore.WriteCacheFile
//	transfer        origin server POST/PATCH/PUT /internal/blobs/{d}/uploads (uploader start/patch/commit)
//	cluster-upload  origin server POST/PATCH/PUT /namespace/{ns}/blobs/{d}/uploads (two chunks)
//	wt-direct       CAStore.WriteBlobToCacheWithMetaInfo with a callback delivering the stream
//	refresh         blobrefresh.Refresher.Refresh with a fake backend.Client (Stat size, Download stream)
//	get-refresh     origin server GET /namespace/{ns}/blobs/{d} (202, refresh in the background)
//
// After the write, after every drain step and after the TTL sweep, everything
// the store exposes under d is read back (CAStore reader / stat / TorrentMeta /
// list, origin GET blob / HEAD stat / GET metainfo handlers through ServeHTTP,
// originstorage torrent pieces) and compared with c.
//
// E1 (all interleavings, preemption bounded, at the lock operations of
// utils/cache and optionally lib/store + lib/store/base): writer thread(s),
// a reader thread doing all of the observations above, a drain thread calling
// the real drainNext and a TTL thread; same oracle on every observation and at
// quiescence.
package main

import (
	"bytes"
	"crypto/sha256"
	"encoding/hex"
	"encoding/json"
	"errors"
	"fmt"
	"hash/crc32"
	"io"
	"net/http"
	"net/http/httptest"
	"os"
	"runtime"
	"sort"
	"strings"
	"sync"
	"sync/atomic"
	"time"

	"github.com/andres-erbsen/clock"
	"github.com/c2h5oh/datasize"
	"github.com/uber-go/tally"
	"github.com/uber/kraken/core"
	"github.com/uber/kraken/lib/backend"
	"github.com/uber/kraken/lib/backend/backenderrors"
	"github.com/uber/kraken/lib/blobrefresh"
	"github.com/uber/kraken/lib/metainfogen"
	"github.com/uber/kraken/lib/persistedretry"
	"github.com/uber/kraken/lib/store"
	"github.com/uber/kraken/lib/store/metadata"
	"github.com/uber/kraken/lib/torrent/storage/originstorage"
	"github.com/uber/kraken/origin/blobserver"
	"github.com/uber/kraken/utils/stringset"

	"verif/evid"
	_ "verif/quiet"
	"verif/rep"
	"verif/shim/vsync"
	"verif/shim/vsyncq"
	"verif/vrt"
)

// ===================================================================
// fixture
// ===================================================================

var t0 = time.Date(2001, 2, 3, 4, 5, 6, 0, time.UTC)

const (
	memTTL  = time.Minute
	selfAdr = "origin-self:80"
	rNS     = "rns" // namespace of readers: its backend has no blobs (a read never starts a download)
)

// fclock is an explicit clock: Now only moves when the check moves it.
type fclock struct {
	clock.Clock
	now time.Time
}

func (c *fclock) Now() time.Time { return c.now }

// fakeBackend is the storage backend of namespace wNS: Stat reports the chosen
// size, Download delivers the chosen stream (in two writes, with a scheduling
// point before each under E1).
type fakeBackend struct {
	name      string
	stat      int64
	stream    []byte
	downloads int
	stats     int
}

func (b *fakeBackend) Stat(namespace, name string) (*core.BlobInfo, error) {
	b.stats++
	if name != b.name {
		return nil, backenderrors.ErrBlobNotFound
	}
	return core.NewBlobInfo(b.stat), nil
}

func (b *fakeBackend) Download(namespace, name string, dst io.Writer) error {
	b.downloads++
	if name != b.name {
		return backenderrors.ErrBlobNotFound
	}
	return deliver(dst, b.stream)
}

func (b *fakeBackend) Upload(namespace, name string, src io.Reader) error {
	return errors.New("fake backend: upload not supported")
}

func (b *fakeBackend) List(prefix string, opts ...backend.ListOption) (*backend.ListResult, error) {
	return nil, errors.New("fake backend: list not supported")
}

func (b *fakeBackend) Close() error { return nil }

// deliver writes stream to w in two parts.
func deliver(w io.Writer, stream []byte) error {
	h := len(stream) / 2
	vrt.Point("deliver-1")
	if h > 0 {
		if _, err := w.Write(stream[:h]); err != nil {
			return err
		}
	}
	vrt.Point("deliver-2")
	if len(stream)-h > 0 {
		if _, err := w.Write(stream[h:]); err != nil {
			return err
		}
	}
	return nil
}

// router is the one backend.Client registered (once per process: building a
// backend.Manager constructs a zap logger, which is expensive) for every
// namespace. It dispatches on the namespace: each sys owns a unique write
// namespace; every other namespace (the readers' rNS) has no blobs.
type router struct{ m sync.Map }

func (r *router) get(ns string) *fakeBackend {
	if b, ok := r.m.Load(ns); ok {
		return b.(*fakeBackend)
	}
	return nil
}

func (r *router) Stat(namespace, name string) (*core.BlobInfo, error) {
	if b := r.get(namespace); b != nil {
		return b.Stat(namespace, name)
	}
	return nil, backenderrors.ErrBlobNotFound
}

func (r *router) Download(namespace, name string, dst io.Writer) error {
	if b := r.get(namespace); b != nil {
		return b.Download(namespace, name, dst)
	}
	return backenderrors.ErrBlobNotFound
}

func (r *router) Upload(namespace, name string, src io.Reader) error {
	return errors.New("fake backend: upload not supported")
}

func (r *router) List(prefix string, opts ...backend.ListOption) (*backend.ListResult, error) {
	return nil, errors.New("fake backend: list not supported")
}

func (r *router) Close() error { return nil }

var (
	theRouter  = &router{}
	theManager *backend.Manager
	mgrOnce    sync.Once
	nsCounter  atomic.Int64
)

func manager() *backend.Manager {
	mgrOnce.Do(func() {
		theManager = backend.ManagerFixture()
		if err := theManager.Register(".*", theRouter, false); err != nil {
			panic(err)
		}
	})
	return theManager
}

type fakeRing struct{}

func (fakeRing) Locations(core.Digest) []string { return []string{selfAdr} }
func (fakeRing) Contains(string) bool           { return true }
func (fakeRing) WaitForContains(string) error   { return nil }
func (fakeRing) Members() stringset.Set         { return stringset.New(selfAdr) }
func (fakeRing) Monitor(<-chan struct{})        {}
func (fakeRing) Refresh()                       {}

// fakeWriteBack accepts every write-back task (the write-back to the storage
// backend is not part of C01).
type fakeWriteBack struct{}

func (fakeWriteBack) Add(persistedretry.Task) error                   { return nil }
func (fakeWriteBack) SyncExec(persistedretry.Task) error              { return nil }
func (fakeWriteBack) Close()                                          {}
func (fakeWriteBack) Find(interface{}) ([]persistedretry.Task, error) { return nil, nil }

// sys is one fresh origin blob store with everything that reads and writes it.
type sys struct {
	dir     string
	wNS     string // namespace whose backend delivers the enumerated stream (unique per sys)
	clk     *fclock
	memMax  int64 // -1: memory cache disabled
	cas     *store.CAStore
	mg      *metainfogen.Generator
	be      *fakeBackend
	refr    *blobrefresh.Refresher
	handler http.Handler
	archive *originstorage.TorrentArchive

	c      []byte // the content the digest is claimed for
	d      string // hex sha256(c), computed with crypto/sha256
	digest core.Digest
}

func hexDigest(c []byte) string {
	h := sha256.Sum256(c)
	return hex.EncodeToString(h[:])
}

func newSys(c []byte, memMax int64) (*sys, error) {
	dir, err := os.MkdirTemp("", "c01-")
	if err != nil {
		return nil, err
	}
	s := &sys{dir: dir, memMax: memMax, c: c, d: hexDigest(c)}
	ok := false
	defer func() {
		if !ok {
			os.RemoveAll(dir)
		}
	}()
	s.digest, err = core.NewSHA256DigestFromHex(s.d)
	if err != nil {
		return nil, err
	}
	s.clk = &fclock{Clock: clock.New(), now: t0}
	cfg := store.CAStoreConfig{
		UploadDir:     dir + "/upload",
		CacheDir:      dir + "/cache",
		Capacity:      64,
		UploadCleanup: store.CleanupConfig{Disabled: true},
		CacheCleanup:  store.CleanupConfig{Disabled: true},
	}
	if memMax >= 0 {
		cfg.MemoryCache = store.MemoryCacheConfig{
			Enabled:         true,
			MaxSize:         uint64(memMax),
			DrainWorkers:    1, // not started: see export_store.go.txt
			DrainMaxRetries: 1,
			TTL:             memTTL,
			TTLInterval:     time.Hour,
		}
	}
	// the real constructor starts the drain / TTL workers, which are stopped
	// again before it returns; that part runs outside the controlled scheduler
	vrt.Uncontrolled(func() { s.cas, err = store.VerifNewCAStoreManualDrain(cfg, tally.NoopScope, s.clk) })
	if err != nil {
		return nil, err
	}
	if memMax >= 0 && (time.Duration(s.cas.VerifMemoryTTL()) != memTTL || s.cas.VerifDrainMaxRetries() != 1) {
		return nil, fmt.Errorf("unexpected memory cache configuration")
	}
	s.mg, err = metainfogen.New(metainfogen.Config{PieceLengths: map[datasize.ByteSize]datasize.ByteSize{0: 1, 3: 2}}, s.cas)
	if err != nil {
		return nil, err
	}
	bm := manager()
	s.be = &fakeBackend{name: s.d}
	s.wNS = fmt.Sprintf("wns-%d", nsCounter.Add(1))
	theRouter.m.Store(s.wNS, s.be)
	s.refr = blobrefresh.New(blobrefresh.Config{}, tally.NoopScope, s.cas, bm, s.mg)
	srv, err := blobserver.New(blobserver.Config{}, tally.NoopScope, s.clk, selfAdr, fakeRing{}, s.cas,
		nil, nil, core.PeerContext{}, bm, s.refr, s.mg, fakeWriteBack{})
	if err != nil {
		return nil, err
	}
	s.handler = srv.Handler()
	s.archive = originstorage.NewTorrentArchive(s.cas, s.refr)
	ok = true
	return s, nil
}

func (s *sys) Close() {
	theRouter.m.Delete(s.wNS)
	s.cas.Close()
	os.RemoveAll(s.dir)
}

func (s *sys) do(method, path string, body []byte, contentRange string) *httptest.ResponseRecorder {
	var rd io.Reader
	if body != nil {
		rd = bytes.NewReader(body)
	}
	req := httptest.NewRequest(method, "http://"+selfAdr+path, rd)
	if contentRange != "" {
		req.Header.Set("Content-Range", contentRange)
	}
	rec := httptest.NewRecorder()
	s.handler.ServeHTTP(rec, req)
	return rec
}

// ===================================================================
// write paths
// ===================================================================

type wspec struct {
	Path   string `json:"path"`
	Stream string `json:"stream"`
	Stat   int64  `json:"stat"` // backend Stat size / declared size (write-through paths), else -1
}

var wtPaths = map[string]bool{"wt-direct": true, "refresh": true, "get-refresh": true}

// family names the commit mechanism of a write path for fingerprints: the
// write-through entry point (memory entry or disk fallback) or an upload file
// committed by MoveUploadFileToCache (upload, create, writefn, transfer,
// cluster-upload). The path itself is in the violation detail.
func family(path string) string {
	if wtPaths[path] {
		return "write-through"
	}
	return "upload commit"
}

type harnessErr struct{ error }

func hfail(format string, a ...interface{}) error {
	return harnessErr{fmt.Errorf(format, a...)}
}

// waitRefresh waits for the asynchronous download of a refresh and returns its
// result. Under E1 the download runs in a controlled thread of its own and the
// caller reads the result after the join instead (wait=false).
func (s *sys) refreshOutcome(wait bool) (error, error) {
	deadline := time.Now().Add(60 * time.Second)
	for i := 0; ; i++ {
		pending, err := s.refr.VerifOutcome(s.d)
		if !pending {
			return err, nil
		}
		if !wait {
			return nil, hfail("refresh still pending after the join")
		}
		if time.Now().After(deadline) {
			return nil, hfail("refresh did not finish")
		}
		if i < 200 {
			runtime.Gosched()
		} else {
			time.Sleep(20 * time.Microsecond)
		}
	}
}

// write performs one write of w.Stream under digest d through w.Path. It
// returns the error the write path reported (nil: the write was accepted) and
// a harness error. async=true (E1): for the refresh paths only the synchronous
// part is returned; the caller collects the result after the join.
func (s *sys) write(w wspec, async bool) (werr error, herr error) {
	stream := []byte(w.Stream)
	switch w.Path {
	case "upload":
		uid := "up-" + s.d[:8] + "-" + w.Path
		if err := s.cas.CreateUploadFile(uid, 0); err != nil {
			return nil, hfail("CreateUploadFile: %v", err)
		}
		f, err := s.cas.GetUploadFileReadWriter(uid)
		if err != nil {
			return nil, hfail("GetUploadFileReadWriter: %v", err)
		}
		if err := deliver(f, stream); err != nil {
			return nil, hfail("upload write: %v", err)
		}
		if err := f.Close(); err != nil {
			return nil, hfail("upload close: %v", err)
		}
		return s.cas.MoveUploadFileToCache(uid, s.d), nil
	case "create":
		return s.cas.CreateCacheFile(s.d, bytes.NewReader(stream)), nil
	case "writefn":
		return s.cas.WriteCacheFile(s.d, func(f store.FileReadWriter) error { return deliver(f, stream) }), nil
	case "transfer", "cluster-upload":
		base := "/internal/blobs/sha256:" + s.d + "/uploads"
		if w.Path == "cluster-upload" {
			base = "/namespace/" + s.wNS + "/blobs/sha256:" + s.d + "/uploads"
		}
		rec := s.do("POST", base, nil, "")
		if rec.Code != 200 {
			return fmt.Errorf("start upload: status %d %s", rec.Code, rec.Body.String()), nil
		}
		uid := rec.Header().Get("Location")
		if uid == "" {
			return nil, hfail("start upload: no Location")
		}
		var chunks [][2]int
		if n := len(stream); n > 0 {
			if w.Path == "cluster-upload" && n > 1 {
				chunks = [][2]int{{0, n / 2}, {n / 2, n}}
			} else {
				chunks = [][2]int{{0, n}}
			}
		}
		for _, ch := range chunks {
			vrt.Point("patch")
			rec := s.do("PATCH", base+"/"+uid, stream[ch[0]:ch[1]], fmt.Sprintf("%d-%d", ch[0], ch[1]))
			if rec.Code != 200 {
				return fmt.Errorf("patch upload: status %d %s", rec.Code, rec.Body.String()), nil
			}
		}
		vrt.Point("commit")
		rec = s.do("PUT", base+"/"+uid, nil, "")
		if rec.Code != 200 {
			return fmt.Errorf("commit upload: status %d %s", rec.Code, rec.Body.String()), nil
		}
		return nil, nil
	case "wt-direct":
		pl := s.mg.GetPieceLength(w.Stat)
		return s.cas.WriteBlobToCacheWithMetaInfo(s.d, uint64(w.Stat), func(f store.FileReadWriter) error {
			return deliver(f, stream)
		}, pl), nil
	case "refresh", "get-refresh":
		s.be.stat, s.be.stream = w.Stat, stream
		if w.Path == "refresh" {
			if err := s.refr.Refresh(s.wNS, s.digest); err != nil {
				return err, nil
			}
		} else {
			rec := s.do("GET", "/namespace/"+s.wNS+"/blobs/sha256:"+s.d, nil, "")
			if rec.Code != http.StatusAccepted {
				return nil, hfail("GET of an absent blob: status %d %s", rec.Code, rec.Body.String())
			}
		}
		if async {
			return nil, nil
		}
		return s.refreshOutcome(true)
	}
	return nil, hfail("unknown write path %q", w.Path)
}

// ===================================================================
// observations
// ===================================================================

var obsKinds = []string{"reader", "stat", "metainfo", "list", "http-blob", "http-stat", "http-metainfo", "torrent"}

// checkMeta compares a torrent metainfo served under d with an independent
// description of c (length, number of pieces and CRC32 of every piece for the
// metainfo's own piece length; the piece length is the implementation's choice).
func (s *sys) checkMeta(mi *core.MetaInfo) string {
	if mi == nil {
		return "nil metainfo"
	}
	if mi.Digest().Hex() != s.d {
		return fmt.Sprintf("metainfo names digest %s", mi.Digest().Hex())
	}
	if mi.Length() != int64(len(s.c)) {
		return fmt.Sprintf("metainfo length %d, content hashing to d has length %d", mi.Length(), len(s.c))
	}
	pl := mi.PieceLength()
	if pl <= 0 {
		return fmt.Sprintf("metainfo piece length %d", pl)
	}
	n := (int64(len(s.c)) + pl - 1) / pl
	if int64(mi.NumPieces()) != n {
		return fmt.Sprintf("metainfo has %d pieces, want %d", mi.NumPieces(), n)
	}
	for i := int64(0); i < n; i++ {
		end := (i + 1) * pl
		if end > int64(len(s.c)) {
			end = int64(len(s.c))
		}
		if want := crc32.ChecksumIEEE(s.c[i*pl : end]); mi.GetPieceSum(int(i)) != want {
			return fmt.Sprintf("metainfo piece %d sum %08x, want %08x", i, mi.GetPieceSum(int(i)), want)
		}
	}
	return ""
}

func (s *sys) checkData(data []byte) string {
	if hexDigest(data) != s.d {
		return fmt.Sprintf("served bytes %q hash to %s", data, hexDigest(data)[:12])
	}
	return ""
}

// observe performs one observation under d. visible: the store returned
// something under d; bad: what it returned does not belong to content hashing
// to d; herr: harness error (an I/O error the check did not cause).
func (s *sys) observe(kind string) (visible bool, bad string, herr error) {
	notFound := func(err error) (bool, string, error) {
		if os.IsNotExist(err) {
			return false, "", nil
		}
		return false, "", hfail("%s: unexpected error %v", kind, err)
	}
	switch kind {
	case "reader":
		f, err := s.cas.GetCacheFileReader(s.d)
		if err != nil {
			return notFound(err)
		}
		defer f.Close()
		data, err := io.ReadAll(f)
		if err != nil {
			return false, "", hfail("reader: read: %v", err)
		}
		return true, s.checkData(data), nil
	case "stat":
		fi, err := s.cas.GetCacheFileStat(s.d)
		if err != nil {
			return notFound(err)
		}
		if fi.Size() != int64(len(s.c)) {
			return true, fmt.Sprintf("size %d, content hashing to d has size %d", fi.Size(), len(s.c)), nil
		}
		return true, "", nil
	case "metainfo":
		var tm metadata.TorrentMeta
		if err := s.cas.GetCacheFileMetadata(s.d, &tm); err != nil {
			return notFound(err)
		}
		return true, s.checkMeta(tm.MetaInfo), nil
	case "list":
		names, err := s.cas.ListCacheFiles()
		if err != nil {
			return false, "", hfail("list: %v", err)
		}
		for _, n := range names {
			if n == s.d {
				return true, "", nil
			}
		}
		return false, "", nil
	case "http-blob":
		rec := s.do("GET", "/namespace/"+rNS+"/blobs/sha256:"+s.d, nil, "")
		switch rec.Code {
		case 200:
			return true, s.checkData(rec.Body.Bytes()), nil
		case 404:
			return false, "", nil
		}
		return false, "", hfail("http-blob: status %d %s", rec.Code, rec.Body.String())
	case "http-stat":
		rec := s.do("HEAD", "/internal/namespace/"+rNS+"/blobs/sha256:"+s.d+"?local=true", nil, "")
		switch rec.Code {
		case 200:
			if got := rec.Header().Get("Content-Length"); got != fmt.Sprint(len(s.c)) {
				return true, fmt.Sprintf("Content-Length %s, content hashing to d has size %d", got, len(s.c)), nil
			}
			return true, "", nil
		case 404:
			return false, "", nil
		}
		return false, "", hfail("http-stat: status %d %s", rec.Code, rec.Body.String())
	case "http-metainfo":
		rec := s.do("GET", "/internal/namespace/"+rNS+"/blobs/sha256:"+s.d+"/metainfo", nil, "")
		switch rec.Code {
		case 200:
			mi, err := core.DeserializeMetaInfo(rec.Body.Bytes())
			if err != nil {
				return true, "undecodable metainfo: " + err.Error(), nil
			}
			return true, s.checkMeta(mi), nil
		case 404:
			return false, "", nil
		}
		return false, "", hfail("http-metainfo: status %d %s", rec.Code, rec.Body.String())
	case "torrent":
		t, err := s.archive.GetTorrent(rNS, s.digest)
		if err != nil {
			// "blob refresh: blob not found" when there is no metainfo.
			if strings.Contains(err.Error(), blobrefresh.ErrNotFound.Error()) {
				return false, "", nil
			}
			return false, "", hfail("torrent: %v", err)
		}
		if t.Length() != int64(len(s.c)) {
			return true, fmt.Sprintf("torrent length %d, content hashing to d has length %d", t.Length(), len(s.c)), nil
		}
		var all []byte
		for i := 0; i < t.NumPieces(); i++ {
			pr, err := t.GetPieceReader(i)
			if err != nil {
				return true, "", hfail("torrent: piece reader: %v", err)
			}
			p, err := io.ReadAll(pr)
			pr.Close()
			if err != nil {
				if strings.Contains(err.Error(), "no such file") || strings.Contains(err.Error(), "not exist") {
					return true, "", nil // blob gone between metainfo and piece read: nothing served
				}
				return true, "", hfail("torrent: piece read: %v", err)
			}
			all = append(all, p...)
		}
		return true, s.checkData(all), nil
	}
	return false, "", hfail("unknown observation %q", kind)
}

type obsRec struct {
	Phase   string `json:"phase"`
	Kind    string `json:"kind"`
	Visible bool   `json:"visible"`
	Bad     string `json:"bad,omitempty"`
}

// storeKinds are the observations made directly on the CAStore.
var storeKinds = obsKinds[:4]

// observeAll performs every observation kind once.
func (s *sys) observeAll(phase string, point bool) ([]obsRec, error) {
	return s.observeKinds(phase, obsKinds, point)
}

func (s *sys) observeKinds(phase string, kinds []string, point bool) ([]obsRec, error) {
	var out []obsRec
	for _, k := range kinds {
		if point {
			vrt.Point("observe " + k)
		}
		v, bad, err := s.observe(k)
		if err != nil {
			return out, err
		}
		out = append(out, obsRec{phase, k, v, bad})
	}
	return out, nil
}

func visibleKinds(o []obsRec) string {
	var v []string
	for _, r := range o {
		if r.Visible {
			v = append(v, r.Kind)
		}
	}
	return strings.Join(v, ",")
}

func badOnes(o []obsRec) []obsRec {
	var b []obsRec
	for _, r := range o {
		if r.Bad != "" {
			b = append(b, r)
		}
	}
	return b
}

// quiesce runs drain steps until the queue is empty, observing after each.
func (s *sys) quiesce(phase string) ([]obsRec, error) { return s.quiesceKinds(phase, obsKinds) }

func (s *sys) quiesceKinds(phase string, kinds []string) ([]obsRec, error) {
	var out []obsRec
	for k := 0; s.cas.VerifDrainQueueLen() > 0; k++ {
		if k >= 16 {
			return out, hfail("drain queue does not empty")
		}
		s.cas.VerifDrainNext()
		o, err := s.observeKinds(fmt.Sprintf("%s drain step %d", phase, k+1), kinds, false)
		if err != nil {
			return out, err
		}
		out = append(out, o...)
	}
	return out, nil
}

// ===================================================================
// E4: input enumeration
// ===================================================================

type e4case struct {
	C      string `json:"content"`
	Kind   string `json:"stream_kind"`
	Mem    int64  `json:"memory_cache_max_size"` // -1: disabled
	W      wspec  `json:"write"`
	Replay string `json:"replay_with,omitempty"`
}

func contents(n int) []string {
	out := []string{""}
	prev := []string{""}
	for l := 1; l <= n; l++ {
		var cur []string
		for _, p := range prev {
			cur = append(cur, p+"a", p+"b")
		}
		out = append(out, cur...)
		prev = cur
	}
	return out
}

type streamCase struct{ kind, stream string }

func streamsOf(c string) []streamCase {
	out := []streamCase{{"exact", c}}
	for i := range c {
		b := []byte(c)
		b[i] ^= 'a' ^ 'b'
		out = append(out, streamCase{"flip", string(b)})
	}
	for k := 1; k < len(c); k++ {
		out = append(out, streamCase{"prefix", c[:k]})
	}
	if len(c) > 0 {
		out = append(out, streamCase{"empty", ""})
	}
	out = append(out, streamCase{"suffix", c + "a"}, streamCase{"suffix", c + "b"})
	return out
}

func dedup(xs []int64) []int64 {
	var out []int64
	seen := map[int64]bool{}
	for _, x := range xs {
		if x >= 0 && !seen[x] {
			seen[x] = true
			out = append(out, x)
		}
	}
	return out
}

func e4cases(maxLen int) []e4case {
	var out []e4case
	for _, c := range contents(maxLen) {
		n := int64(len(c))
		memAll := append([]int64{-1}, dedup([]int64{0, n - 1, n, n + 1, 2 * n})...)
		memTwo := []int64{-1, 2*n + 2}
		for _, sc := range streamsOf(c) {
			for _, p := range []string{"upload", "create", "writefn", "transfer", "cluster-upload"} {
				for _, m := range memTwo {
					out = append(out, e4case{C: c, Kind: sc.kind, Mem: m, W: wspec{p, sc.stream, -1}})
				}
			}
			stats := dedup([]int64{n, int64(len(sc.stream)), n + 1, n - 1})
			for _, p := range []string{"wt-direct", "refresh", "get-refresh"} {
				if p == "get-refresh" && n > 3 {
					continue // the handler adds nothing size-dependent to "refresh"
				}
				for _, st := range stats {
					for _, m := range memAll {
						out = append(out, e4case{C: c, Kind: sc.kind, Mem: m, W: wspec{p, sc.stream, st}})
					}
				}
			}
		}
	}
	return out
}

type vio struct {
	fp     string
	detail interface{}
}

type e4result struct {
	class  string // outcome class (distinct / vacuity)
	vios   []vio
	memHit bool // the memory entry was created (write-through admitted)
}

func memLabel(m int64) string {
	if m < 0 {
		return "memory cache off"
	}
	return "memory cache on"
}

// runE4 executes one case and applies the oracle.
func runE4(cs e4case) (res e4result, herr error) {
	s, err := newSys([]byte(cs.C), cs.Mem)
	if err != nil {
		return res, err
	}
	defer s.Close()
	match := cs.W.Stream == cs.C
	werr, herr := s.write(cs.W, false)
	if herr != nil {
		return res, herr
	}
	res.memHit = s.cas.VerifInMemory(s.d)
	var all []obsRec
	o0, err := s.observeAll("after the write returned", false)
	if err != nil {
		return res, err
	}
	all = append(all, o0...)
	od, err := s.quiesce("")
	if err != nil {
		return res, err
	}
	all = append(all, od...)
	q1, err := s.observeAll("quiescence (drain queue empty)", false)
	if err != nil {
		return res, err
	}
	all = append(all, q1...)
	var q2 []obsRec
	if cs.Mem >= 0 {
		s.clk.now = s.clk.now.Add(memTTL + time.Second)
		s.cas.VerifTTLSweep()
		q2, err = s.observeAll("quiescence (after TTL sweep)", false)
		if err != nil {
			return res, err
		}
		all = append(all, q2...)
	}
	tag := fmt.Sprintf(" [%s, %s]", family(cs.W.Path), memLabel(cs.Mem))
	detail := func(extra interface{}) interface{} {
		e := ""
		if werr != nil {
			e = werr.Error()
		}
		return map[string]interface{}{"e4": cs, "digest": s.d, "write_error": e, "observations": extra}
	}
	if b := badOnes(all); len(b) > 0 {
		res.vios = append(res.vios, vio{"E4 content readable under d does not hash to d" + tag, detail(b)})
	}
	if !match {
		if werr == nil {
			res.vios = append(res.vios, vio{"E4 write of bytes not matching d reported success" + tag, detail(nil)})
		}
		if v := visibleKinds(q1) + visibleKinds(q2); v != "" {
			res.vios = append(res.vios, vio{"E4 write of bytes not matching d left something visible under d at quiescence" + tag, detail(append(q1, q2...))})
		}
	}
	statRel := "-"
	if cs.W.Stat >= 0 {
		switch {
		case cs.W.Stat == int64(len(cs.W.Stream)) && cs.W.Stat == int64(len(cs.C)):
			statRel = "stat=|c|=|stream|"
		case cs.W.Stat == int64(len(cs.W.Stream)):
			statRel = "stat=|stream|"
		case cs.W.Stat == int64(len(cs.C)):
			statRel = "stat=|c|"
		default:
			statRel = "stat=other"
		}
	}
	res.class = fmt.Sprintf("%s|%s|%s|%s|mem-entry=%v|err=%v|visible-after-write=%v|visible-at-quiescence=%v",
		cs.W.Path, cs.Kind, statRel, memLabel(cs.Mem), res.memHit, werr != nil, visibleKinds(o0) != "", visibleKinds(q1) != "")
	return res, nil
}

// ===================================================================
// E1: interleavings
// ===================================================================

type plan struct{ quick, thorough int }

func (p plan) bound(thorough bool) int {
	if thorough {
		return p.thorough
	}
	return p.quick
}

type scenario struct {
	Name    string  `json:"name"`
	C       string  `json:"content"`
	Mem     int64   `json:"memory_cache_max_size"`
	Writers []wspec `json:"writers"`
	Drains  int     `json:"drain_steps"` // steps of the drain thread (0: none; the queue is drained after the join)
	TTL     bool    `json:"ttl_thread"`
	small   bool    // few hundred executions: explored in this process (no shard workers)
	coarse  plan    // scheduling points: memory cache locks + explicit harness points
	fine    plan    // additionally every lock of lib/store and lib/store/base
}

// bound 0 in a plan = not run in that tier. The quick tier runs 3-thread
// scenarios (a finished thread hands over for free, so the number of
// schedules grows with the factorial of the thread count); the thorough tier
// adds the 4-thread versions (writer, reader, drain, TTL) and the refresh
// scenarios, whose download runs in a thread of its own.
var scenarios = []scenario{
	// --- the write-through path with a same-length corrupted stream
	{Name: "wt flip mem: writer+reader+drain", C: "ab", Mem: 4, Writers: []wspec{{"wt-direct", "bb", 2}}, Drains: 2, coarse: plan{2, 3}, fine: plan{1, 2}},
	{Name: "wt flip mem: writer+reader+ttl", C: "ab", Mem: 4, Writers: []wspec{{"wt-direct", "bb", 2}}, TTL: true, coarse: plan{1, 2}, fine: plan{0, 1}},
	{Name: "wt flip mem: writer+reader+drain+ttl", C: "ab", Mem: 4, Writers: []wspec{{"wt-direct", "bb", 2}}, Drains: 2, TTL: true, coarse: plan{0, 1}, fine: plan{0, 1}},
	// truncated / extended stream, declared size = delivered length
	{Name: "wt prefix size=|stream| mem: writer+reader+drain", C: "ab", Mem: 4, Writers: []wspec{{"wt-direct", "a", 1}}, Drains: 2, coarse: plan{0, 2}, fine: plan{0, 1}},
	{Name: "wt suffix size=|stream| mem: writer+reader+drain", C: "ab", Mem: 4, Writers: []wspec{{"wt-direct", "aba", 3}}, Drains: 2, coarse: plan{0, 2}, fine: plan{0, 1}},
	// truncated stream, declared size |c|: the memory path rejects, the disk fallback must reject too
	{Name: "wt prefix size=|c| mem: writer+reader+drain", C: "ab", Mem: 4, Writers: []wspec{{"wt-direct", "a", 2}}, Drains: 1, coarse: plan{1, 3}, fine: plan{1, 1}},
	// --- matching content through memory: readers must see c (or nothing) at every point of write, drain and TTL
	{Name: "wt exact mem: writer+reader+drain", C: "ab", Mem: 2, Writers: []wspec{{"wt-direct", "ab", 2}}, Drains: 1, coarse: plan{2, 3}, fine: plan{1, 2}},
	{Name: "wt exact mem: writer+reader+ttl", C: "ab", Mem: 2, Writers: []wspec{{"wt-direct", "ab", 2}}, TTL: true, coarse: plan{1, 3}, fine: plan{0, 1}},
	{Name: "wt exact mem: writer+reader+drain+ttl", C: "ab", Mem: 2, Writers: []wspec{{"wt-direct", "ab", 2}}, Drains: 1, TTL: true, coarse: plan{0, 2}, fine: plan{0, 1}},
	{Name: "wt exact 3 bytes mem: writer+reader+drain+ttl", C: "aba", Mem: 6, Writers: []wspec{{"wt-direct", "aba", 3}}, Drains: 1, TTL: true, coarse: plan{0, 1}, fine: plan{0, 1}},
	// --- the real Refresher (Refresh caller + download thread)
	{Name: "refresh flip mem: refresh+reader+drain", C: "ab", Mem: 4, Writers: []wspec{{"refresh", "bb", 2}}, Drains: 2, coarse: plan{1, 2}, fine: plan{0, 1}},
	{Name: "refresh exact mem: refresh+reader+drain+ttl", C: "ab", Mem: 4, Writers: []wspec{{"refresh", "ab", 2}}, Drains: 1, TTL: true, coarse: plan{0, 1}},
	{Name: "refresh flip nomem: refresh+reader", C: "ab", Mem: -1, Writers: []wspec{{"refresh", "bb", 2}}, small: true, coarse: plan{0, 3}, fine: plan{1, 2}},
	{Name: "refresh exact nomem: refresh+reader", C: "ab", Mem: -1, Writers: []wspec{{"refresh", "ab", 2}}, small: true, coarse: plan{0, 3}, fine: plan{1, 2}},
	// --- client upload / internal transfer
	{Name: "transfer flip nomem: writer+reader", C: "ab", Mem: -1, Writers: []wspec{{"transfer", "bb", -1}}, small: true, coarse: plan{2, 3}, fine: plan{1, 2}},
	{Name: "transfer exact nomem: writer+reader", C: "ab", Mem: -1, Writers: []wspec{{"transfer", "ab", -1}}, small: true, coarse: plan{2, 3}, fine: plan{1, 2}},
	{Name: "upload flip mem: writer+reader+ttl", C: "ab", Mem: 4, Writers: []wspec{{"upload", "aa", -1}}, TTL: true, coarse: plan{0, 3}, fine: plan{1, 1}},
	{Name: "cluster-upload exact nomem: writer+reader", C: "ab", Mem: -1, Writers: []wspec{{"cluster-upload", "ab", -1}}, small: true, coarse: plan{0, 3}, fine: plan{1, 2}},
	// --- two writers of one digest
	// a matching write through memory racing a mismatching internal transfer
	{Name: "wt exact mem + transfer flip: 2 writers+reader", C: "ab", Mem: 4, Writers: []wspec{{"wt-direct", "ab", 2}, {"transfer", "bb", -1}}, coarse: plan{1, 2}, fine: plan{0, 1}},
	{Name: "wt exact mem + transfer flip: 2 writers+reader+drain", C: "ab", Mem: 4, Writers: []wspec{{"wt-direct", "ab", 2}, {"transfer", "bb", -1}}, Drains: 1, coarse: plan{0, 1}},
	// a matching disk write racing a mismatching write-through
	{Name: "create exact + wt flip mem: 2 writers+reader", C: "ab", Mem: 4, Writers: []wspec{{"create", "ab", -1}, {"wt-direct", "bb", 2}}, coarse: plan{1, 2}, fine: plan{0, 1}},
	{Name: "create exact + wt flip mem: 2 writers+reader+drain", C: "ab", Mem: 4, Writers: []wspec{{"create", "ab", -1}, {"wt-direct", "bb", 2}}, Drains: 2, coarse: plan{0, 1}},
	// two matching writers, memory and disk
	{Name: "wt exact mem + create exact: 2 writers+reader+drain", C: "ab", Mem: 4, Writers: []wspec{{"wt-direct", "ab", 2}, {"create", "ab", -1}}, Drains: 1, coarse: plan{0, 1}, fine: plan{0, 1}},
}

func harnessName(sc scenario, fine bool) string {
	if fine {
		return sc.Name + "/fine"
	}
	return sc.Name + "/coarse"
}

func e1Harness(sc scenario, fine bool) *vrt.Harness {
	return &vrt.Harness{Name: harnessName(sc, fine), Horizon: 60000, Body: func() (string, string) {
		// Unlock operations are not preemption points (a preemption right after
		// an unlock is represented by the one before the thread's next lock
		// operation); blocking on a held lock is always modelled.
		vsync.Points, vsync.UnlockPoints = true, false
		vsyncq.Points, vsyncq.UnlockPoints = fine, false
		s, err := newSys([]byte(sc.C), sc.Mem)
		if err != nil {
			return "", "HARNESS: " + err.Error()
		}
		defer s.Close()
		var herrs []string
		note := func(err error) {
			if err != nil {
				herrs = append(herrs, "HARNESS: "+err.Error())
			}
		}
		nw := len(sc.Writers)
		werrs := make([]error, nw)
		anyMatch := false
		for i, w := range sc.Writers {
			i, w := i, w
			if w.Stream == sc.C {
				anyMatch = true
			}
			vrt.GoNamed(fmt.Sprintf("w%d", i), func() {
				var herr error
				werrs[i], herr = s.write(w, true)
				note(herr)
			})
		}
		var seen []obsRec
		vrt.GoNamed("reader", func() {
			o, err := s.observeAll("concurrent", sc.Mem < 0 && !fine)
			note(err)
			seen = append(seen, o...)
		})
		if sc.Drains > 0 {
			vrt.GoNamed("drain", func() {
				for k := 0; k < sc.Drains; k++ {
					vrt.Point("drain step")
					s.cas.VerifDrainNext()
				}
			})
		}
		if sc.TTL {
			vrt.GoNamed("ttl", func() {
				vrt.Point("ttl")
				s.clk.now = s.clk.now.Add(memTTL + time.Second)
				s.cas.VerifTTLSweep()
			})
		}
		vrt.Join()
		// from here on the main thread runs alone
		for i, w := range sc.Writers {
			if w.Path == "refresh" || w.Path == "get-refresh" {
				if werrs[i] == nil {
					var herr error
					werrs[i], herr = s.refreshOutcome(false)
					note(herr)
				}
			}
		}
		// End state: the store-level observations only (the HTTP handlers and the
		// torrent read are functions of these; the reader thread and E4 cover them).
		var q0 []obsRec
		if s.cas.VerifDrainQueueLen() > 0 {
			q0, err = s.observeKinds("after the join", storeKinds, false)
			note(err)
		}
		qd, err := s.quiesceKinds("final", storeKinds)
		note(err)
		q1, err := s.observeKinds("quiescence (drain queue empty)", storeKinds, false)
		note(err)
		if q0 == nil {
			q0 = q1
		}
		nReader := len(seen)
		seen = append(seen, q0...)
		seen = append(seen, qd...)
		seen = append(seen, q1...)
		if len(herrs) > 0 {
			return "", strings.Join(herrs, "\n")
		}
		fams := map[string]bool{}
		for _, w := range sc.Writers {
			fams[family(w.Path)] = true
		}
		var fl []string
		for f := range fams {
			fl = append(fl, f)
		}
		sort.Strings(fl)
		tag := fmt.Sprintf(" [%s, %s]", strings.Join(fl, " + "), memLabel(sc.Mem))
		var vs []string
		if b := badOnes(seen); len(b) > 0 {
			j, _ := json.Marshal(b)
			vs = append(vs, "content readable under d does not hash to d"+tag+" | "+string(j))
		}
		var ws []string
		for i, w := range sc.Writers {
			ws = append(ws, fmt.Sprintf("%s(%q):err=%v", w.Path, w.Stream, werrs[i] != nil))
			if w.Stream != sc.C && werrs[i] == nil {
				vs = append(vs, fmt.Sprintf("write of bytes not matching d reported success [%s, %s] | writer %d", family(w.Path), memLabel(sc.Mem), i))
			}
		}
		if !anyMatch {
			if v := visibleKinds(q1); v != "" {
				vs = append(vs, "write of bytes not matching d left something visible under d at quiescence"+tag+" | "+v)
			}
		}
		sort.Strings(vs)
		obs := fmt.Sprintf("%v reader-saw=[%s] after-join=[%s] quiescent=[%s]", ws, visibleKinds(seen[:nReader]), visibleKinds(q0), visibleKinds(q1))
		return obs, strings.Join(vs, "\n")
	}}
}

func fingerprint(v vrt.Violation) string {
	m := strings.SplitN(v.Msg, "\n", 2)[0]
	if i := strings.Index(m, " | "); i >= 0 {
		m = m[:i]
	}
	if strings.HasPrefix(m, "panic: ") {
		m = strings.SplitN(m, " [", 2)[0]
	}
	if len(m) > 160 {
		m = m[:160]
	}
	return "E1 " + m
}

// ===================================================================

func allHarnesses() []*vrt.Harness {
	var hs []*vrt.Harness
	for _, sc := range holdScenarios {
		hs = append(hs, holdHarness(sc, false), holdHarness(sc, true))
	}
	for _, sc := range scenarios {
		hs = append(hs, e1Harness(sc, false), e1Harness(sc, true))
	}
	return hs
}

func replay(run *evid.Run, path string) {
	b, err := os.ReadFile(path)
	if err != nil {
		run.Fatal(err)
	}
	var f struct {
		Fingerprint string          `json:"fingerprint"`
		Case        json.RawMessage `json:"case"`
	}
	if err := json.Unmarshal(b, &f); err != nil {
		run.Fatal(err)
	}
	var e4 struct {
		E4 *e4case `json:"e4"`
	}
	if json.Unmarshal(f.Case, &e4) == nil && e4.E4 != nil {
		res, herr := runE4(*e4.E4)
		if herr != nil {
			run.Fatal(herr)
		}
		run.Eval(1)
		run.Distinct(res.class)
		run.Distinct("replay")
		for _, v := range res.vios {
			run.Violation(v.fp, v.detail)
		}
		run.Finish()
	}
	var e4h struct {
		E4H *e4hCase `json:"e4h"`
	}
	if json.Unmarshal(f.Case, &e4h) == nil && e4h.E4H != nil {
		res, herr := runE4H(*e4h.E4H)
		if herr != nil {
			run.Fatal(herr)
		}
		run.Eval(1)
		run.Distinct(res.class)
		run.Distinct("replay")
		for _, v := range res.vios {
			run.Violation(v.fp, v.detail)
		}
		run.Finish()
	}
	var v vrt.Violation
	if err := json.Unmarshal(f.Case, &v); err != nil || v.Harness == "" {
		run.Fatal(fmt.Errorf("replay file has neither an e4 case nor a schedule"))
	}
	for _, h := range allHarnesses() {
		if h.Name == v.Harness {
			x, obs, msg := vrt.Replay(h, v.Choices)
			run.Eval(1)
			run.Distinct(obs)
			run.Distinct("replay")
			if x.Panic != "" {
				msg = "panic: " + x.Panic
			}
			if msg != "" {
				run.Violation(fingerprint(vrt.Violation{Msg: msg}), vrt.Violation{Harness: h.Name, Choices: v.Choices, Msg: msg, Obs: obs})
			}
			run.Finish()
		}
	}
	run.Fatal(fmt.Errorf("unknown harness %q", v.Harness))
}

func main() {
	vrt.WorkerMain(allHarnesses())
	run := evid.New("C01", "exploration")
	run.Rule = "E4: every (content c over {a,b}^(0..n), delivered stream in {c, each single-byte flip, each proper prefix, empty, c+a, c+b}, " +
		"write path in {upload, create, writefn, transfer, cluster-upload} x memory cache {off,on}) and every (c, stream, write-through path in {wt-direct, refresh, get-refresh}, " +
		"Stat size in {|c|,|stream|,|c|+1,|c|-1}, memory cache in {off, MaxSize 0,|c|-1,|c|,|c|+1,2|c|}) is executed on a fresh real CAStore + origin server; " +
		"after the write, after every drain step and after the TTL sweep all 8 observation kinds under d are compared with c. " +
		"E1: every interleaving (preemption-bounded DFS at lock operations) of writer thread(s), a reader thread doing the 8 observations, a drain thread and a TTL thread. " +
		"E4-H: every order of {open a reader on A, read half, finish reading, drain step, drain step, TTL sweep, write-through of another blob B with |A|/2<=|B|<=|A|} (open<half<finish) x (A,B) pairs x {CAStore reader, origin GET body consumed in two parts} after A went through the memory path; the held reader must return exactly A or an error. " +
		"E1-H: holder thread (open, scheduling point, read half, scheduling point, read rest) + writer of B + drain and/or TTL thread. " +
		"distinct = outcome classes (path, stream kind, Stat relation, memory on/off, memory entry created, error, visibility) of E4 + distinct E1 observations."
	run.Assume("small-scope: contents over a 2-symbol alphabet up to length 3 (quick) / 6 (thorough); one digest per store; piece lengths 1 (size<3) and 2")
	run.Assume("SkipHashVerification=false only (the flag is an explicit opt-out of the property)")
	run.Assume("code between two lock operations is data-race free; interleavings are explored at lock operations of utils/cache (+ lib/store, lib/store/base in the fine harnesses) and at explicit harness points (download chunks, patch/commit requests, observations, drain steps) only (SC)")
	run.Assume("Unlock operations are not preemption points (Lock/RLock operations are)")
	run.Assume("instrumentation by go build -overlay (sync -> vsync/vsyncq, go statement of dedup.RequestCache.Start -> vrt.Go, added read-only export files) preserves semantics")
	run.Assume("CAStore drain / TTL workers are replaced by explicit calls of their step functions (drainNext, cleanupMemoryCacheExpiredEntries); DrainMaxRetries=1")
	run.Assume("held readers: one reader per history, opened on the blob that went through the memory path; a ResponseWriter may consume the slice passed to Write over time (slow socket) but never after Write returned")
	run.Assume("each writer is one sequential client (start, patch..., commit of one upload are not concurrent with each other)")
	run.Assume("the fake backend delivers the same stream on every Download of a refresh (memory attempt and disk fallback)")

	if p := run.ReplayPath(); p != "" {
		replay(run, p)
		return
	}
	th := run.Thorough()

	// ---- E4
	maxLen := 3
	if th {
		maxLen = 6
	}
	cases := e4cases(maxLen)
	if os.Getenv("C01_SKIP_E4") != "" { // development knob
		cases = cases[:0]
	}
	st := time.Now()
	var mu sync.Mutex
	classes := map[string]int{}
	vioCount := map[string]int{}
	firstVio := map[string]interface{}{} // per fingerprint: the violating case with the lowest index
	firstIdx := map[string]int{}
	memHits, mismatching := 0, 0
	var herr error
	type e4job struct {
		idx int
		cs  e4case
	}
	jobs := make(chan e4job, 256)
	var wg sync.WaitGroup
	for w := 0; w < evid.Workers(); w++ {
		wg.Add(1)
		go func() {
			defer wg.Done()
			for jb := range jobs {
				cs := jb.cs
				res, err := runE4(cs)
				mu.Lock()
				if err != nil {
					if herr == nil {
						j, _ := json.Marshal(cs)
						herr = fmt.Errorf("E4 case %s: %v", j, err)
					}
					mu.Unlock()
					continue
				}
				classes[res.class]++
				if res.memHit {
					memHits++
				}
				if cs.W.Stream != cs.C {
					mismatching++
				}
				for _, v := range res.vios {
					vioCount[v.fp]++
					if i, ok := firstIdx[v.fp]; !ok || jb.idx < i {
						firstIdx[v.fp] = jb.idx
						firstVio[v.fp] = v.detail
					}
				}
				mu.Unlock()
			}
		}()
	}
	for i, cs := range cases {
		jobs <- e4job{i, cs}
	}
	close(jobs)
	wg.Wait()
	if herr != nil {
		run.Fatal(herr)
	}
	run.Eval(len(cases))
	for c := range classes {
		run.Distinct("e4|" + c)
	}
	var fps []string
	for fp := range vioCount {
		fps = append(fps, fp)
	}
	sort.Strings(fps)
	for _, fp := range fps {
		run.Violation(fp, firstVio[fp])
	}
	run.Set("e4_cases", len(cases))
	run.Set("e4_outcome_classes", len(classes))
	run.Set("e4_cases_with_memory_entry", memHits)
	run.Set("e4_cases_with_mismatching_stream", mismatching)
	run.Set("e4_violating_cases_by_fingerprint", vioCount)
	run.Set("e4_seconds", time.Since(st).Seconds())
	if len(cases) > 0 {
		run.Sample(cases[len(cases)/3])
		run.Sample(cases[2*len(cases)/3])
	}
	fmt.Printf("E4: %d cases (|c|<=%d), %d outcome classes, %d with a memory entry, %d with a mismatching stream, %d violating fingerprints, %.1fs\n",
		len(cases), maxLen, len(classes), memHits, mismatching, len(vioCount), time.Since(st).Seconds())

	// ---- E4-H: held readers
	{
		hcases := e4hCases(th)
		if os.Getenv("C01_SKIP_E4") != "" {
			hcases = hcases[:0]
		}
		st := time.Now()
		hclasses := map[string]int{}
		hvio := map[string]int{}
		hfirst := map[string]interface{}{}
		hidx := map[string]int{}
		reuse := 0
		var herr error
		type hjob struct {
			idx int
			cs  e4hCase
		}
		hjobs := make(chan hjob, 256)
		var wg sync.WaitGroup
		for w := 0; w < evid.Workers(); w++ {
			wg.Add(1)
			go func() {
				defer wg.Done()
				for jb := range hjobs {
					res, err := runE4H(jb.cs)
					mu.Lock()
					if err != nil {
						if herr == nil {
							j, _ := json.Marshal(jb.cs)
							herr = fmt.Errorf("E4-H case %s: %v", j, err)
						}
						mu.Unlock()
						continue
					}
					hclasses[res.class]++
					if res.reuse {
						reuse++
					}
					for _, v := range res.vios {
						hvio[v.fp]++
						if i, ok := hidx[v.fp]; !ok || jb.idx < i {
							hidx[v.fp] = jb.idx
							hfirst[v.fp] = v.detail
						}
					}
					mu.Unlock()
				}
			}()
		}
		for i, cs := range hcases {
			hjobs <- hjob{i, cs}
		}
		close(hjobs)
		wg.Wait()
		if herr != nil {
			run.Fatal(herr)
		}
		run.Eval(len(hcases))
		for c := range hclasses {
			run.Distinct("e4h|" + c)
		}
		var hf []string
		for fp := range hvio {
			hf = append(hf, fp)
		}
		sort.Strings(hf)
		for _, fp := range hf {
			run.Violation(fp, hfirst[fp])
		}
		run.Set("e4h_cases", len(hcases))
		run.Set("e4h_outcome_classes", len(hclasses))
		run.Set("e4h_cases_B_written_while_reader_held_after_A_left_memory", reuse)
		run.Set("e4h_violating_cases_by_fingerprint", hvio)
		if len(hcases) > 0 {
			run.Sample(hcases[len(hcases)/2])
		}
		fmt.Printf("E4-H: %d held-reader histories (%d orders x %d (A,B) pairs x 2 reader kinds), %d outcome classes, %d with B written while the reader was held after A left memory, %d violating fingerprints, %.1fs\n",
			len(hcases), len(heldOrders()), len(heldPairs(th)), len(hclasses), reuse, len(hvio), time.Since(st).Seconds())
	}

	// ---- E1
	type job struct {
		h     *vrt.Harness
		bound int
		small bool
	}
	var js []job
	for _, sc := range holdScenarios {
		if b := sc.coarse.bound(th); b > 0 {
			js = append(js, job{holdHarness(sc, false), b, false})
		}
		if b := sc.fine.bound(th); b > 0 {
			js = append(js, job{holdHarness(sc, true), b, false})
		}
	}
	for _, sc := range scenarios {
		if b := sc.coarse.bound(th); b > 0 {
			js = append(js, job{e1Harness(sc, false), b, sc.small && b <= 2})
		}
		if b := sc.fine.bound(th); b > 0 {
			js = append(js, job{e1Harness(sc, true), b, sc.small && b <= 1})
		}
	}
	budget, reserve := 40*time.Second, 1
	if th {
		budget, reserve = 11*time.Minute, 4
	}
	if v, err := time.ParseDuration(os.Getenv("C01_E1_BUDGET")); err == nil && v > 0 {
		budget = v // development knob: measure full tree sizes on a loaded machine
	}
	only := os.Getenv("C01_E1_ONLY") // development knob: substring of the harness name
	e1End := time.Now().Add(budget)
	left := len(js)
	var e1Exec int64
	for _, j := range js {
		// Time share of this harness: everything that is left except a small
		// reserve for each harness still to come (unused time rolls over; when
		// the machine is too loaded for the whole list the later harnesses are
		// the ones cut short, and the run is marked NotExhaustive).
		share := int(time.Until(e1End).Seconds()) - reserve*(left-1)
		if share < 3 {
			share = 3
		}
		left--
		if only != "" && !strings.Contains(j.h.Name, only) {
			continue
		}
		_, o1, v1 := vrt.Replay(j.h, nil)
		_, o2, v2 := vrt.Replay(j.h, nil)
		if o1 != o2 || v1 != v2 {
			run.Fatal(errors.New("non-deterministic replay in " + j.h.Name + ": " + o1 + " vs " + o2))
		}
		if strings.HasPrefix(v1, "HARNESS: ") {
			run.Fatal(errors.New(j.h.Name + ": " + v1))
		}
		st := time.Now()
		workers := evid.Workers()
		if j.small {
			workers = 1
		}
		r := rep.VRT(run, j.h, j.bound, workers, share, func(v vrt.Violation) string {
			if strings.HasPrefix(v.Msg, "HARNESS: ") {
				run.Fatal(errors.New(j.h.Name + ": " + v.Msg))
			}
			return fingerprint(v)
		})
		e1Exec += int64(r.Executions)
		var oc []string
		for k := range r.Outcomes {
			oc = append(oc, k)
		}
		sort.Strings(oc)
		if len(oc) > 8 {
			oc = oc[:8]
		}
		run.Set("outcomes:"+j.h.Name, oc)
		fmt.Printf("  %s bound=%d: %d executions, %d outcomes, max %d points, completed=%v, %.1fs\n", j.h.Name, j.bound, r.Executions, len(r.Outcomes), r.MaxPoints, r.Completed, time.Since(st).Seconds())
	}
	run.Set("e1_executions", e1Exec)
	run.Finish()
}
