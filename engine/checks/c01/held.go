// Held readers: a reader on digest A that is OPENED at one point and READ
// later, with drain steps, TTL sweeps and write-through writes of another blob
// B (len(B) <= len(A)) in between. The atomic observations of main.go never
// hold a reader across such a step. Oracle unchanged: every byte sequence
// obtained under digest A hashes to A (a held reader returns exactly A's bytes
// or an error, never other bytes).
//
// Two kinds of held reader:
//
//	cas   store.FileReader from CAStore.GetCacheFileReader(A): open, read
//	      |A|/2 bytes, read the rest, close.
//	http  response body of the origin's GET /namespace/{ns}/blobs/{A} handler:
//	      the ResponseWriter receives the body in Write(p) and consumes p in two
//	      parts (a socket that accepts the body slowly); "open" = the handler
//	      has called Write, nothing consumed yet.
package main

import (
	"encoding/json"
	"fmt"
	"io"
	"net/http"
	"net/http/httptest"
	"os"
	"sort"
	"strings"
	"time"

	"github.com/uber/kraken/lib/store"

	"verif/shim/vsync"
	"verif/shim/vsyncq"
	"verif/vrt"
)

const heldMemMax = 16 // room for A and B together

// writeOther writes blob b under its own digest through the write-through path.
func (s *sys) writeOther(b []byte) error {
	pl := s.mg.GetPieceLength(int64(len(b)))
	return s.cas.WriteBlobToCacheWithMetaInfo(hexDigest(b), uint64(len(b)), func(f store.FileReadWriter) error {
		return deliver(f, b)
	}, pl)
}

// checkOther reads blob b back atomically: visible => must hash to its name.
func (s *sys) checkOther(b []byte) (bad string, herr error) {
	f, err := s.cas.GetCacheFileReader(hexDigest(b))
	if err != nil {
		if os.IsNotExist(err) {
			return "", nil
		}
		return "", hfail("read B: %v", err)
	}
	defer f.Close()
	data, err := io.ReadAll(f)
	if err != nil {
		return "", hfail("read B: %v", err)
	}
	if hexDigest(data) != hexDigest(b) {
		return fmt.Sprintf("bytes %q served under the digest of %q", data, b), nil
	}
	return "", nil
}

// heldResult is what a held reader obtained under digest A.
type heldResult struct {
	Opened bool   `json:"opened"`
	Got    string `json:"got"`
	Err    string `json:"read_error,omitempty"`
}

func (s *sys) judgeHeld(r heldResult) string {
	if !r.Opened || r.Err != "" {
		return ""
	}
	if r.Got != string(s.c) {
		return fmt.Sprintf("held reader on d obtained %q (hashes to %s)", r.Got, hexDigest([]byte(r.Got))[:12])
	}
	return ""
}

// ---- cas reader, stepwise ------------------------------------------------

type casHeld struct {
	s   *sys
	f   store.FileReader
	res heldResult
}

func (h *casHeld) open() error {
	f, err := h.s.cas.GetCacheFileReader(h.s.d)
	if err != nil {
		if os.IsNotExist(err) {
			return nil
		}
		return hfail("held open: %v", err)
	}
	h.f, h.res.Opened = f, true
	return nil
}

func (h *casHeld) part() {
	if h.f == nil || h.res.Err != "" {
		return
	}
	buf := make([]byte, len(h.s.c)/2)
	n, err := io.ReadFull(h.f, buf)
	h.res.Got += string(buf[:n])
	if err != nil {
		h.res.Err = err.Error()
	}
}

func (h *casHeld) fin() heldResult {
	if h.f == nil {
		return h.res
	}
	if h.res.Err == "" {
		rest, err := io.ReadAll(h.f)
		h.res.Got += string(rest)
		if err != nil {
			h.res.Err = err.Error()
		}
	}
	h.f.Close()
	h.f = nil
	return h.res
}

// ---- http body, stepwise (handler runs in a goroutine of its own; E4 only) --

type httpHeld struct {
	s    *sys
	hdr  http.Header
	code int
	k    int
	at   chan string   // handler -> history: "write" (body handed over), "part", "done"
	step chan struct{} // history -> handler: go on
	body bool          // a 200 body has been handed over
	res  heldResult
	held bool
}

func (h *httpHeld) Header() http.Header { return h.hdr }
func (h *httpHeld) WriteHeader(c int)   { h.code = c }
func (h *httpHeld) Write(p []byte) (int, error) {
	if h.code != 0 && h.code != 200 {
		return len(p), nil // error message of handler.Wrap
	}
	if h.body {
		h.res.Got += string(p) // later chunks of a file-backed body
		return len(p), nil
	}
	h.body = true
	h.at <- "write"
	<-h.step
	k := h.k
	if k > len(p) {
		k = len(p)
	}
	h.res.Got += string(p[:k])
	h.at <- "part"
	<-h.step
	h.res.Got += string(p[k:])
	return len(p), nil
}

func (h *httpHeld) open() error {
	h.hdr, h.at, h.step, h.k = http.Header{}, make(chan string), make(chan struct{}), len(h.s.c)/2
	req := httptest.NewRequest("GET", "http://"+selfAdr+"/namespace/"+rNS+"/blobs/sha256:"+h.s.d, nil)
	go func() {
		h.s.handler.ServeHTTP(h, req)
		h.at <- "done"
	}()
	switch m := <-h.at; m {
	case "write":
		h.held, h.res.Opened = true, true
	case "done":
		if h.code != 404 && !(h.code == 0 || h.code == 200) {
			return hfail("held http: status %d", h.code)
		}
		if h.code == 0 || h.code == 200 {
			h.res.Opened = true // empty body
		}
	}
	return nil
}

func (h *httpHeld) part() {
	if !h.held || h.k < 0 {
		return
	}
	h.step <- struct{}{}
	<-h.at // "part"
	h.k = -1
}

func (h *httpHeld) fin() heldResult {
	if !h.held {
		return h.res
	}
	if h.k >= 0 {
		h.part()
	}
	h.step <- struct{}{}
	<-h.at // "done"
	h.held = false
	return h.res
}

type stepReader interface {
	open() error
	part()
	fin() heldResult
}

// ===================================================================
// E4-H: all orders of the history actions
// ===================================================================

type e4hCase struct {
	A     string   `json:"content_A"`
	B     string   `json:"content_B"`
	Kind  string   `json:"held_reader"` // cas | http
	Order []string `json:"order"`
}

// orders enumerates every order of {open, part, fin, drain, drain, ttl, writeB}
// with open < part < fin (the two drain steps are interchangeable).
func heldOrders() [][]string {
	var out [][]string
	var rec func(cur []string, r, d int, t, w bool)
	rec = func(cur []string, r, d int, t, w bool) {
		if r == 3 && d == 2 && t && w {
			out = append(out, append([]string{}, cur...))
			return
		}
		if r < 3 {
			rec(append(cur, []string{"open", "part", "fin"}[r]), r+1, d, t, w)
		}
		if d < 2 {
			rec(append(cur, "drain"), r, d+1, t, w)
		}
		if !t {
			rec(append(cur, "ttl"), r, d, true, w)
		}
		if !w {
			rec(append(cur, "writeB"), r, d, t, true)
		}
	}
	rec(nil, 0, 0, false, false)
	return out
}

// heldPairs: A and the blobs B whose length fits A's buffer (|A|/2 <= |B| <= |A|).
func heldPairs(thorough bool) [][2]string {
	if !thorough {
		return [][2]string{{"abab", "baba"}, {"abab", "bbb"}, {"ab", "ba"}}
	}
	var out [][2]string
	for _, a := range []string{"ab", "aba", "abab"} {
		for _, b := range contents(len(a)) {
			if b != a && 2*len(b) >= len(a) && len(b) > 0 {
				out = append(out, [2]string{a, b})
			}
		}
	}
	return out
}

func e4hCases(thorough bool) []e4hCase {
	var out []e4hCase
	ords := heldOrders()
	for _, p := range heldPairs(thorough) {
		for _, k := range []string{"cas", "http"} {
			for _, o := range ords {
				out = append(out, e4hCase{p[0], p[1], k, o})
			}
		}
	}
	return out
}

type e4hResult struct {
	class string
	vios  []vio
	reuse bool // the reader was still held when B was written after A had left the memory cache
}

func runE4H(cs e4hCase) (res e4hResult, herr error) {
	s, err := newSys([]byte(cs.A), heldMemMax)
	if err != nil {
		return res, err
	}
	defer s.Close()
	werr, herr := s.write(wspec{"wt-direct", cs.A, int64(len(cs.A))}, false)
	if herr != nil {
		return res, herr
	}
	if werr != nil || !s.cas.VerifInMemory(s.d) {
		return res, hfail("setup: A not in the memory cache (err %v)", werr)
	}
	var rd stepReader
	if cs.Kind == "cas" {
		rd = &casHeld{s: s}
	} else {
		rd = &httpHeld{s: s}
	}
	var hr heldResult
	holding, fromMem, bErr := false, false, ""
	for _, a := range cs.Order {
		switch a {
		case "open":
			fromMem = s.cas.VerifInMemory(s.d)
			if err := rd.open(); err != nil {
				return res, err
			}
			holding = true
		case "part":
			rd.part()
		case "fin":
			hr = rd.fin()
			holding = false
		case "drain":
			s.cas.VerifDrainNext()
		case "ttl":
			s.clk.now = s.clk.now.Add(memTTL + time.Second)
			s.cas.VerifTTLSweep()
		case "writeB":
			if holding && fromMem && !s.cas.VerifInMemory(s.d) {
				res.reuse = true
			}
			if err := s.writeOther([]byte(cs.B)); err != nil {
				bErr = err.Error()
			}
		}
	}
	if bErr != "" {
		return res, hfail("write-through of B failed: %s", bErr)
	}
	detail := map[string]interface{}{"e4h": cs, "digest_A": s.d, "held_reader": hr}
	if bad := s.judgeHeld(hr); bad != "" {
		res.vios = append(res.vios, vio{"E4 held reader under d yields bytes that do not hash to d [write-through, memory cache on]", detail})
	}
	// end state: both blobs, read atomically
	if _, bad, err := s.observe("reader"); err != nil {
		return res, err
	} else if bad != "" {
		detail["end_state_A"] = bad
		res.vios = append(res.vios, vio{"E4 content readable under d does not hash to d [write-through, memory cache on]", detail})
	}
	if bad, err := s.checkOther([]byte(cs.B)); err != nil {
		return res, err
	} else if bad != "" {
		detail["end_state_B"] = bad
		res.vios = append(res.vios, vio{"E4 content readable under d does not hash to d [write-through, memory cache on]", detail})
	}
	res.class = fmt.Sprintf("held|%s|opened=%v|from-memory=%v|err=%v|B-written-while-held-after-A-left-memory=%v|sameLen=%v",
		cs.Kind, hr.Opened, fromMem, hr.Err != "", res.reuse, len(cs.A) == len(cs.B))
	return res, nil
}

// ===================================================================
// E1-H: holder thread + drain / TTL thread + writer of B
// ===================================================================

type holdScenario struct {
	Name   string
	A, B   string
	Kind   string // cas | http
	Drains int
	TTL    bool
	coarse plan
	fine   plan
}

var holdScenarios = []holdScenario{
	{Name: "held cas reader: holder+drain+writer of B (same length)", A: "abab", B: "baba", Kind: "cas", Drains: 2, coarse: plan{2, 3}, fine: plan{1, 2}},
	{Name: "held cas reader: holder+ttl+writer of B (shorter)", A: "abab", B: "bbb", Kind: "cas", TTL: true, coarse: plan{2, 3}, fine: plan{0, 1}},
	{Name: "held http body: holder+drain+writer of B (same length)", A: "abab", B: "baba", Kind: "http", Drains: 2, coarse: plan{2, 3}, fine: plan{0, 1}},
	{Name: "held http body: holder+ttl+writer of B (shorter)", A: "abab", B: "bbb", Kind: "http", TTL: true, coarse: plan{0, 3}, fine: plan{0, 1}},
	{Name: "held cas reader: holder+drain+ttl+writer of B (same length)", A: "abab", B: "baba", Kind: "cas", Drains: 2, TTL: true, coarse: plan{0, 2}, fine: plan{0, 1}},
}

// pointBody is the ResponseWriter of the held http body under E1: the body
// handed to Write is consumed in two parts with a scheduling point before each.
type pointBody struct {
	hdr  http.Header
	code int
	k    int
	res  heldResult

	holding *bool
}

func (h *pointBody) Header() http.Header { return h.hdr }
func (h *pointBody) WriteHeader(c int)   { h.code = c }
func (h *pointBody) Write(p []byte) (int, error) {
	if h.code != 0 && h.code != 200 {
		return len(p), nil
	}
	h.res.Opened = true
	if h.holding != nil {
		*h.holding = true
	}
	k := h.k
	if k > len(p) {
		k = len(p)
	}
	vrt.Point("body part 1")
	h.res.Got += string(p[:k])
	vrt.Point("body part 2")
	h.res.Got += string(p[k:])
	h.k = 0
	return len(p), nil
}

func holdHarness(sc holdScenario, fine bool) *vrt.Harness {
	name := sc.Name + "/coarse"
	if fine {
		name = sc.Name + "/fine"
	}
	return &vrt.Harness{Name: name, Horizon: 60000, Body: func() (string, string) {
		vsync.Points, vsync.UnlockPoints = true, false
		vsyncq.Points, vsyncq.UnlockPoints = fine, false
		s, err := newSys([]byte(sc.A), heldMemMax)
		if err != nil {
			return "", "HARNESS: " + err.Error()
		}
		defer s.Close()
		var herrs []string
		note := func(err error) {
			if err != nil {
				herrs = append(herrs, "HARNESS: "+err.Error())
			}
		}
		// setup (main thread alone): A goes through the memory path and is queued for the drain
		werr, herr := s.write(wspec{"wt-direct", sc.A, int64(len(sc.A))}, false)
		note(herr)
		if werr != nil || !s.cas.VerifInMemory(s.d) {
			return "", fmt.Sprintf("HARNESS: setup: A not in the memory cache (err %v)", werr)
		}
		var hr heldResult
		var bErr error
		holding, collide := false, false
		vrt.GoNamed("holder", func() {
			defer func() { holding = false }()
			if sc.Kind == "cas" {
				h := &casHeld{s: s}
				vrt.Point("open")
				note(h.open())
				holding = h.res.Opened
				vrt.Point("hold 1")
				h.part()
				vrt.Point("hold 2")
				hr = h.fin()
				return
			}
			pb := &pointBody{hdr: http.Header{}, k: len(sc.A) / 2, holding: &holding}
			vrt.Point("open")
			req := httptest.NewRequest("GET", "http://"+selfAdr+"/namespace/"+rNS+"/blobs/sha256:"+s.d, nil)
			s.handler.ServeHTTP(pb, req)
			if pb.code != 0 && pb.code != 200 && pb.code != 404 {
				note(hfail("held http: status %d", pb.code))
			}
			hr = pb.res
		})
		vrt.GoNamed("wB", func() {
			// vacuity: B written while the reader is held and A has left the memory cache
			if holding && !s.cas.VerifInMemory(s.d) {
				collide = true
			}
			bErr = s.writeOther([]byte(sc.B))
		})
		if sc.Drains > 0 {
			vrt.GoNamed("drain", func() {
				for k := 0; k < sc.Drains; k++ {
					vrt.Point("drain step")
					s.cas.VerifDrainNext()
				}
			})
		}
		if sc.TTL {
			vrt.GoNamed("ttl", func() {
				vrt.Point("ttl")
				s.clk.now = s.clk.now.Add(memTTL + time.Second)
				s.cas.VerifTTLSweep()
			})
		}
		vrt.Join()
		if bErr != nil {
			note(hfail("write-through of B failed: %v", bErr))
		}
		_, err = s.quiesceKinds("final", storeKinds[:1])
		note(err)
		_, badA, err := s.observe("reader")
		note(err)
		badB, err := s.checkOther([]byte(sc.B))
		note(err)
		if len(herrs) > 0 {
			return "", strings.Join(herrs, "\n")
		}
		var vs []string
		if bad := s.judgeHeld(hr); bad != "" {
			j, _ := json.Marshal(hr)
			vs = append(vs, "held reader under d yields bytes that do not hash to d [write-through, memory cache on] | "+bad+" "+string(j))
		}
		if badA != "" || badB != "" {
			vs = append(vs, "content readable under d does not hash to d [write-through, memory cache on] | end state: "+badA+" "+badB)
		}
		sort.Strings(vs)
		obs := fmt.Sprintf("held=%s opened=%v got=%q err=%v B-written-while-held-after-A-left-memory=%v", sc.Kind, hr.Opened, hr.Got, hr.Err != "", collide)
		return obs, strings.Join(vs, "\n")
	}}
}
