//go:build go1.25

// C29: request deduplication runs at most one execution per key.
//
// E1  (vrt, overlay sync -> vsync in utils/dedup): every interleaving, up to a
//     preemption bound, of callers of the real dedup.Limiter / dedup.IntervalTrap
//     and a thread that advances an explicit clock past the task TTL / the GC
//     interval (so limiterTaskGC races with a caller that holds a task).
// E1q (testing/synctest bubble, go1.26.8): every order of the pending actions
//     {client issues its next Start, a parked request completes, the clock
//     advances} of the real dedup.RequestCache (goroutine per request, worker
//     semaphore channel, clk.After), directly and through blobrefresh.Refresher.
package main

import (
	"encoding/json"
	"errors"
	"fmt"
	"io"
	"os"
	"sort"
	"strings"
	"sync"
	"testing"
	"time"

	"github.com/andres-erbsen/clock"
	"github.com/c2h5oh/datasize"
	"github.com/uber-go/tally"
	"github.com/uber/kraken/core"
	"github.com/uber/kraken/lib/backend"
	"github.com/uber/kraken/lib/backend/backenderrors"
	"github.com/uber/kraken/lib/blobrefresh"
	"github.com/uber/kraken/lib/metainfogen"
	"github.com/uber/kraken/lib/store"
	"github.com/uber/kraken/utils/dedup"

	"verif/e1q"
	"verif/evid"
	_ "verif/quiet"
	"verif/rep"
	"verif/shim/vsync"
	"verif/vrt"
)

// The overlay maps utils/dedup's "sync" to checks/c29/psync = vsync + a point
// AFTER every release; vsync's own point before a release is switched off
// (a release is a left mover; the point after it is the one that lets another
// thread take the lock before the releasing thread's next plain statement).
func init() { vsync.UnlockPoints = false }

// ============================================================== E1: Limiter, IntervalTrap

var t0 = time.Date(2020, 1, 1, 0, 0, 0, 0, time.UTC)

// stepClock is explicit time: Now returns a variable that only the harness'
// clock thread moves. With points=true every read is a scheduling point.
type stepClock struct {
	clock.Clock // nil: the dedup package only calls Now on this clock
	now         time.Time
	points      bool
}

func (c *stepClock) Now() time.Time {
	if c.points {
		vrt.Point("clk.Now")
	}
	return c.now
}

// lrunner is the dedup.TaskRunner handed to the real Limiter. enter and exit
// are separated by a scheduling point; the in-flight count per key is the monitor.
type lrunner struct {
	ttl      time.Duration
	inflight map[string]int
	runs     map[string]int
	vio      []string
}

func (r *lrunner) Run(input interface{}) (interface{}, time.Duration) {
	k := input.(string)
	r.inflight[k]++
	r.runs[k]++
	n := r.runs[k]
	if r.inflight[k] > 1 {
		r.vio = append(r.vio, fmt.Sprintf("Limiter: two executions of one key in flight :: key %s: run #%d entered while another run of %s had not returned", k, n, k))
	}
	vrt.Point("run " + k)
	r.inflight[k]--
	return fmt.Sprintf("%s#%d", k, n), r.ttl
}

type lscen struct {
	name        string
	pre         []string        // sequential Run calls before the threads start
	threads     [][]string      // keys each caller thread runs
	advances    []time.Duration // the clock thread: point, advance, point, advance ...
	ttl         time.Duration
	clockPoints bool
	thorough    bool // only explored in the thorough tier
	maxBound    int  // cap on the preemption bound (0: the tier's bound)
}

// gc reports whether the clock can pass the limiter's GC interval in this scenario.
func (sc lscen) gc() bool {
	var s time.Duration
	for _, d := range sc.advances {
		s += d
	}
	return s > dedup.TaskGCInterval
}

func limiterScenarios() []lscen {
	gcAdv := dedup.TaskGCInterval + time.Second
	return []lscen{
		{name: "gc-vs-holder", threads: [][]string{{"a"}, {"a"}}, advances: []time.Duration{gcAdv}, ttl: 10 * time.Second},
		{name: "three-callers", threads: [][]string{{"a"}, {"a"}, {"a"}}, ttl: 10 * time.Second},
		{name: "expiry-rerun", pre: []string{"a"}, threads: [][]string{{"a"}, {"a"}}, advances: []time.Duration{11 * time.Second}, ttl: 10 * time.Second},
		// (GC scenarios keep one key: limiterTaskGC ranges over a Go map, whose order with 2+ tasks is not replayable)
		{name: "two-keys", pre: []string{"a"}, threads: [][]string{{"a", "b"}, {"b", "a"}}, advances: []time.Duration{11 * time.Second}, ttl: 10 * time.Second, maxBound: 2},
		{name: "two-callers-twice", threads: [][]string{{"a", "a"}, {"a", "a"}}, advances: []time.Duration{11 * time.Second}, ttl: 10 * time.Second},
		{name: "gc-vs-holder-3", threads: [][]string{{"a"}, {"a"}, {"a"}}, advances: []time.Duration{gcAdv}, ttl: 10 * time.Second, thorough: true, maxBound: 2},
		{name: "gc-vs-holder-clockpoints", threads: [][]string{{"a"}, {"a"}}, advances: []time.Duration{gcAdv}, ttl: 10 * time.Second, clockPoints: true, thorough: true},
		{name: "gc-twice", pre: []string{"a"}, threads: [][]string{{"a", "a"}, {"a"}}, advances: []time.Duration{gcAdv, gcAdv}, ttl: 10 * time.Second, thorough: true},
	}
}

func limiterHarness(sc lscen) *vrt.Harness {
	return &vrt.Harness{Name: "limiter/" + sc.name, Horizon: 20000, Body: func() (string, string) {
		clk := &stepClock{now: t0, points: sc.clockPoints}
		r := &lrunner{ttl: sc.ttl, inflight: map[string]int{}, runs: map[string]int{}}
		l := dedup.NewLimiter(clk, r)
		for _, k := range sc.pre {
			l.Run(k)
		}
		outs := make([][]string, len(sc.threads))
		for ti, prog := range sc.threads {
			ti, prog := ti, prog
			vrt.GoNamed(fmt.Sprintf("w%d", ti), func() {
				for _, k := range prog {
					outs[ti] = append(outs[ti], fmt.Sprint(l.Run(k)))
				}
			})
		}
		if len(sc.advances) > 0 {
			vrt.GoNamed("clk", func() {
				for _, d := range sc.advances {
					vrt.Point("advance")
					clk.now = clk.now.Add(d)
				}
			})
		}
		vrt.Join()
		var ks []string
		for k := range r.runs {
			ks = append(ks, fmt.Sprintf("%s:%d", k, r.runs[k]))
		}
		sort.Strings(ks)
		obs := fmt.Sprintf("runs=%v outs=%v", ks, outs)
		if len(r.vio) > 0 {
			return obs, r.vio[0]
		}
		return obs, ""
	}}
}

// ttask is the IntervalTask handed to the real IntervalTrap.
type ttask struct {
	clk      *stepClock
	inflight int
	starts   []time.Time
	vio      []string
}

func (t *ttask) Run() {
	t.inflight++
	if t.inflight > 1 {
		t.vio = append(t.vio, "IntervalTrap: two executions of the task in flight :: a second Run entered while the first had not returned")
	}
	t.starts = append(t.starts, t.clk.now)
	vrt.Point("task")
	t.inflight--
}

type tscen struct {
	name     string
	interval time.Duration
	threads  []int // number of Trap calls per caller thread
	advances []time.Duration
	thorough bool
}

func trapScenarios() []tscen {
	return []tscen{
		{name: "two-callers", interval: 10 * time.Second, threads: []int{1, 1}, advances: []time.Duration{11 * time.Second}},
		{name: "three-callers", interval: 10 * time.Second, threads: []int{1, 1, 1}, advances: []time.Duration{11 * time.Second}},
		{name: "two-rounds", interval: 10 * time.Second, threads: []int{2, 2}, advances: []time.Duration{11 * time.Second, 11 * time.Second}},
		{name: "three-callers-two-rounds", interval: 10 * time.Second, threads: []int{2, 1, 1}, advances: []time.Duration{11 * time.Second, 11 * time.Second}, thorough: true},
	}
}

func trapHarness(sc tscen) *vrt.Harness {
	return &vrt.Harness{Name: "trap/" + sc.name, Horizon: 20000, Body: func() (string, string) {
		clk := &stepClock{now: t0}
		task := &ttask{clk: clk}
		trap := dedup.NewIntervalTrap(sc.interval, clk, task)
		for ti, n := range sc.threads {
			n := n
			vrt.GoNamed(fmt.Sprintf("w%d", ti), func() {
				for i := 0; i < n; i++ {
					trap.Trap()
				}
			})
		}
		vrt.GoNamed("clk", func() {
			for _, d := range sc.advances {
				vrt.Point("advance")
				clk.now = clk.now.Add(d)
			}
		})
		vrt.Join()
		var at []string
		for _, s := range task.starts {
			at = append(at, s.Sub(t0).String())
		}
		obs := fmt.Sprintf("runs=%d at=%v", len(task.starts), at)
		if len(task.vio) > 0 {
			return obs, task.vio[0]
		}
		for i := 1; i < len(task.starts); i++ {
			if gap := task.starts[i].Sub(task.starts[i-1]); gap < sc.interval {
				return obs, fmt.Sprintf("IntervalTrap: task ran twice within one interval :: runs at +%v and +%v, interval %v", task.starts[i-1].Sub(t0), task.starts[i].Sub(t0), sc.interval)
			}
		}
		return obs, ""
	}}
}

// ============================================================== E1q: RequestCache, Refresher

var (
	errBoom = errors.New("boom")
	errNF   = backenderrors.ErrBlobNotFound
)

type startOp struct {
	key     string
	outcome string // ok | err | nf : what the request function returns when the explorer lets it complete
}

type rscen struct {
	name      string
	cfg       dedup.RequestCacheConfig
	notFound  bool // install the not-found matcher (err == ErrBlobNotFound)
	clients   [][]startOp
	advances  []time.Duration // sizes the explorer may advance the clock by
	maxAdv    int             // total number of advances per execution
	refresher bool            // drive the cache through a real blobrefresh.Refresher (its own config, matcher, clock.New())
	maxSteps  int
	quickB    int // deviation bound in the quick tier (0: all orders)
	thorough  bool
}

const (
	advShort = 6*time.Second + time.Millisecond  // past BusyTimeout (5s) and CleanupInterval (5s), not past a TTL
	advLong  = 13*time.Second + time.Millisecond // past ErrorTTL (10s) as well
)

func directCfg(workers int) dedup.RequestCacheConfig {
	return dedup.RequestCacheConfig{NotFoundTTL: 20 * time.Second, ErrorTTL: 10 * time.Second, CleanupInterval: 5 * time.Second, NumWorkers: workers, BusyTimeout: 5 * time.Second}
}

// noCleanup: the periodic removal of expired errors never runs, so expiry is decided by reserve's own check.
func noCleanup(c dedup.RequestCacheConfig) dedup.RequestCacheConfig {
	c.CleanupInterval = time.Hour
	return c
}

// the configuration blobrefresh.New passes (all defaults)
var refresherCfg = dedup.RequestCacheConfig{NotFoundTTL: 15 * time.Second, ErrorTTL: 15 * time.Second, CleanupInterval: 5 * time.Second, NumWorkers: 10000, BusyTimeout: 5 * time.Second}

func ops(s string) []startOp {
	var o []startOp
	for _, f := range strings.Fields(s) {
		p := strings.SplitN(f, "/", 2)
		o = append(o, startOp{p[0], p[1]})
	}
	return o
}

func rcScenarios() []rscen {
	both := []time.Duration{advShort, advLong}
	return []rscen{
		{name: "same-key-2workers", cfg: directCfg(2), clients: [][]startOp{ops("a/err a/ok"), ops("a/ok a/ok")}, advances: both, maxAdv: 1, maxSteps: 12},
		{name: "one-worker-busy", cfg: directCfg(1), clients: [][]startOp{ops("a/ok"), ops("b/ok b/ok"), ops("b/ok")}, advances: []time.Duration{advShort}, maxAdv: 2, maxSteps: 12},
		{name: "error-ttls-no-cleanup", cfg: noCleanup(directCfg(2)), notFound: true, clients: [][]startOp{ops("a/nf a/err a/ok a/ok")}, advances: both, maxAdv: 3, maxSteps: 12},
		{name: "error-ttl-two-keys", cfg: directCfg(2), notFound: true, clients: [][]startOp{ops("a/nf a/ok"), ops("b/err b/ok")}, advances: both, maxAdv: 2, maxSteps: 12},
		{name: "refresher", cfg: refresherCfg, notFound: true, refresher: true, clients: [][]startOp{ops("a/nf a/ok"), ops("a/ok")}, advances: both, maxAdv: 2, maxSteps: 12},
		{name: "two-workers-three-keys", cfg: directCfg(2), clients: [][]startOp{ops("a/ok a/ok"), ops("b/err b/ok"), ops("c/ok a/ok")}, advances: []time.Duration{advShort}, maxAdv: 2, maxSteps: 16, quickB: 6},
		{name: "one-worker-errors", cfg: directCfg(1), notFound: true, clients: [][]startOp{ops("a/err a/ok"), ops("a/ok b/nf"), ops("b/ok")}, advances: both, maxAdv: 2, maxSteps: 16, quickB: 6},
	}
}

const (
	expPending = iota
	expCached
	expRun
)
const (
	phIssued = iota
	phWaiting
	phRunning
	phDone
)

type rcall struct {
	label   string
	client  int
	key     string
	outcome string
	// written by the system's goroutines
	returned bool
	ret      error
	entered  int
	exited   bool
	exitAt   time.Time
	// model
	expect   int
	expErr   error
	expired  error // an expired cached error of the key at issue time (for classification)
	afterBsy bool  // the previous Start of this key ended with ErrWorkersBusy
	phase    int
	result   string
}

type cerr struct {
	err       error
	expiresAt time.Time
}

type rmodel struct {
	mu       sync.Mutex
	sc       rscen
	c        *e1q.Ctl
	start    func(call *rcall) error
	inflight map[string]int
	vio      []string
	calls    []*rcall
	pending  map[string]*rcall
	cached   map[string]*cerr
	lastBusy map[string]bool
	next     []int    // per client: index of its next op
	last     []*rcall // per client: its latest call
	nAdv     int
	tags     map[string]bool // vacuity: which situations this execution contained
}

func (m *rmodel) ttl(outcome string) time.Duration {
	if outcome == "nf" && m.sc.notFound {
		return m.sc.cfg.NotFoundTTL
	}
	return m.sc.cfg.ErrorTTL
}

func outcomeErr(o string) error {
	switch o {
	case "err":
		return errBoom
	case "nf":
		return errNF
	}
	return nil
}

// enter is called at the start of a request execution (any goroutine).
func (m *rmodel) enter(key string, call *rcall) (park string) {
	m.mu.Lock()
	defer m.mu.Unlock()
	m.inflight[key]++
	if m.inflight[key] > 1 {
		m.vio = append(m.vio, fmt.Sprintf("RequestCache: two executions of one key in flight :: key %s", key))
	}
	if call != nil {
		call.entered++
		if call.entered > 1 {
			m.vio = append(m.vio, fmt.Sprintf("RequestCache: one Start executed its request twice :: %s", call.label))
		}
	}
	if call != nil {
		return "complete " + call.label
	}
	return "complete ?" + key
}

func (m *rmodel) exit(key string, call *rcall) error {
	m.mu.Lock()
	defer m.mu.Unlock()
	m.inflight[key]--
	if call == nil {
		return nil
	}
	call.exited = true
	call.exitAt = time.Now()
	return outcomeErr(call.outcome)
}

// owner returns the call the model admitted for key (refresher mode: the seam only knows the key).
func (m *rmodel) owner(key string) *rcall {
	m.mu.Lock()
	defer m.mu.Unlock()
	if c := m.pending[key]; c != nil && c.entered == 0 {
		return c
	}
	return nil
}

func errName(err error) string {
	switch err {
	case nil:
		return "nil"
	case dedup.ErrRequestPending:
		return "ErrRequestPending"
	case dedup.ErrWorkersBusy:
		return "ErrWorkersBusy"
	case errBoom:
		return "cached(boom)"
	case errNF:
		return "cached(not-found)"
	}
	return "error(" + err.Error() + ")"
}

func (m *rmodel) got(c *rcall) string {
	if !c.returned {
		return "Start has not returned"
	}
	return errName(c.ret)
}

// issue is the explorer action "client ci calls Start for its next op".
func (m *rmodel) issue(ci int) {
	m.mu.Lock()
	op := m.sc.clients[ci][m.next[ci]]
	call := &rcall{label: fmt.Sprintf("c%d#%d:%s/%s", ci, m.next[ci], op.key, op.outcome), client: ci, key: op.key, outcome: op.outcome}
	m.next[ci]++
	m.last[ci] = call
	m.calls = append(m.calls, call)
	now := time.Now()
	ce := m.cached[op.key]
	switch {
	case m.pending[op.key] != nil:
		call.expect = expPending
		m.tags["start-while-pending"] = true
		if m.pending[op.key].phase == phWaiting {
			m.tags["start-while-other-waits-for-worker"] = true
		}
	case ce != nil && !now.After(ce.expiresAt):
		if now.Equal(ce.expiresAt) {
			m.vio = append(m.vio, "HARNESS: Start exactly at the expiry instant of a cached error (boundary the statement does not decide)")
		}
		call.expect = expCached
		call.expErr = ce.err
		m.tags["start-with-cached-error"] = true
	default:
		call.expect = expRun
		if ce != nil {
			call.expired = ce.err
			m.tags["start-after-error-expired"] = true
		}
		if m.lastBusy[op.key] {
			call.afterBsy = true
			m.tags["start-after-busy"] = true
		}
		m.pending[op.key] = call
	}
	m.mu.Unlock()
	go func() {
		err := m.start(call)
		m.mu.Lock()
		call.returned = true
		call.ret = err
		m.mu.Unlock()
	}()
}

// settle is called at quiescence: it compares what the real cache did with the model.
func (m *rmodel) settle() string {
	m.mu.Lock()
	defer m.mu.Unlock()
	if len(m.vio) > 0 {
		return m.vio[0]
	}
	finish := func(c *rcall, res string) {
		c.phase = phDone
		c.result = res
	}
	// completions first, then workers handed to waiting Starts / timeouts, then new Starts
	for _, c := range m.calls {
		if c.phase == phRunning && c.exited {
			if m.pending[c.key] == c {
				m.pending[c.key] = nil
			}
			m.lastBusy[c.key] = false
			if e := outcomeErr(c.outcome); e != nil {
				m.cached[c.key] = &cerr{e, c.exitAt.Add(m.ttl(c.outcome))}
			}
			finish(c, "ran:"+c.outcome)
		}
	}
	for _, c := range m.calls {
		switch c.phase {
		case phWaiting:
			if !c.returned {
				continue
			}
			switch {
			case c.ret == nil:
				if c.entered != 1 {
					return fmt.Sprintf("RequestCache: Start returned nil but its request was not started :: %s", c.label)
				}
				c.phase = phRunning
				m.tags["waiting-start-got-worker"] = true
			case c.ret == dedup.ErrWorkersBusy:
				m.pending[c.key] = nil
				m.lastBusy[c.key] = true
				m.tags["busy"] = true
				finish(c, "busy")
			default:
				return fmt.Sprintf("RequestCache: Start that waited for a worker ended with an unexpected result :: %s: %s", c.label, m.got(c))
			}
		case phIssued:
			switch c.expect {
			case expPending:
				if c.entered > 0 {
					return fmt.Sprintf("RequestCache: Start while a request of the key is pending ran the request again :: %s (%s)", c.label, m.got(c))
				}
				if !c.returned || c.ret != dedup.ErrRequestPending {
					return fmt.Sprintf("RequestCache: Start while a request of the key is pending did not report ErrRequestPending :: %s: %s", c.label, m.got(c))
				}
				finish(c, "pending")
			case expCached:
				if c.entered > 0 {
					return fmt.Sprintf("RequestCache: Start with a cached unexpired error ran the request again :: %s (%s), cached %s", c.label, m.got(c), errName(c.expErr))
				}
				if !c.returned || c.ret != c.expErr {
					return fmt.Sprintf("RequestCache: Start with a cached unexpired error did not report that error :: %s: %s, cached %s", c.label, m.got(c), errName(c.expErr))
				}
				finish(c, errName(c.expErr))
			case expRun:
				if !c.returned {
					c.phase = phWaiting
					m.tags["start-waits-for-worker"] = true
					continue
				}
				if c.ret == nil {
					if c.entered != 1 {
						return fmt.Sprintf("RequestCache: Start returned nil but its request was not started :: %s", c.label)
					}
					c.phase = phRunning
					if c.afterBsy {
						m.tags["start-after-busy-ran"] = true
					}
					continue
				}
				ctx := "no earlier Start of the key is unfinished"
				if c.afterBsy {
					ctx = "the previous Start of the key ended with ErrWorkersBusy"
				}
				switch {
				case c.ret == dedup.ErrRequestPending && c.afterBsy:
					return fmt.Sprintf("RequestCache: ErrWorkersBusy left the key pending (a later Start reports ErrRequestPending) :: %s", c.label)
				case c.ret == dedup.ErrRequestPending:
					return fmt.Sprintf("RequestCache: Start reported ErrRequestPending with nothing pending :: %s; %s", c.label, ctx)
				case c.expired != nil && c.ret == c.expired:
					return fmt.Sprintf("RequestCache: Start reported a cached error after it expired :: %s: %s", c.label, errName(c.ret))
				default:
					return fmt.Sprintf("RequestCache: Start with nothing pending and no cached error neither ran nor waited for a worker :: %s: %s; %s", c.label, m.got(c), ctx)
				}
			}
		}
	}
	for _, c := range m.calls {
		if c.phase == phDone && !strings.HasPrefix(c.result, "ran:") && c.entered > 0 {
			return fmt.Sprintf("RequestCache: request executed although its Start reported %s :: %s", c.result, c.label)
		}
	}
	return ""
}

// actions lists the harness actions enabled at this quiescent point.
func (m *rmodel) actions() []e1q.Action {
	m.mu.Lock()
	defer m.mu.Unlock()
	var a []e1q.Action
	for ci := range m.sc.clients {
		ci := ci
		if m.next[ci] >= len(m.sc.clients[ci]) {
			continue
		}
		if l := m.last[ci]; l != nil && !l.returned {
			continue // the client is still inside Start (waiting for a worker)
		}
		op := m.sc.clients[ci][m.next[ci]]
		a = append(a, e1q.Action{Label: fmt.Sprintf("c%d Start(%s,%s)", ci, op.key, op.outcome), Run: func() { m.issue(ci) }})
	}
	if m.nAdv < m.sc.maxAdv {
		for _, d := range m.sc.advances {
			d := d
			a = append(a, e1q.Action{Label: "advance " + d.String(), Run: func() {
				m.mu.Lock()
				m.nAdv++
				m.mu.Unlock()
				e1q.Sleep(d)
			}})
		}
	}
	return a
}

func (m *rmodel) obs() string {
	var parts []string
	for ci := range m.sc.clients {
		var r []string
		for _, c := range m.calls {
			if c.client == ci {
				res := c.result
				if c.phase != phDone {
					res = "unfinished"
				}
				r = append(r, res)
			}
		}
		parts = append(parts, fmt.Sprintf("c%d%v", ci, r))
	}
	var tg []string
	for t := range m.tags {
		tg = append(tg, t)
	}
	sort.Strings(tg)
	return strings.Join(parts, " ") + " tags=" + strings.Join(tg, ",")
}

// ---- refresher mode

type fakeBackend struct {
	m       *rmodel
	content map[string][]byte // blob name -> bytes
	keyOf   map[string]string // blob name -> scenario key
}

func (f *fakeBackend) Stat(namespace, name string) (*core.BlobInfo, error) {
	b, ok := f.content[name]
	if !ok {
		return nil, backenderrors.ErrBlobNotFound
	}
	return core.NewBlobInfo(int64(len(b))), nil
}
func (f *fakeBackend) Upload(namespace, name string, src io.Reader) error { return errors.New("unused") }
func (f *fakeBackend) Download(namespace, name string, dst io.Writer) error {
	key := f.keyOf[name]
	call := f.m.owner(key)
	if l := f.m.enter(key, call); l != "" {
		f.m.c.Park(l)
	}
	if err := f.m.exit(key, call); err != nil {
		return err
	}
	_, err := dst.Write(f.content[name])
	return err
}
func (f *fakeBackend) List(prefix string, opts ...backend.ListOption) (*backend.ListResult, error) {
	return nil, errors.New("unused")
}
func (f *fakeBackend) Close() error { return nil }

func buildRefresher(m *rmodel) (cleanup func(), err error) {
	dir, err := os.MkdirTemp("", "c29-")
	if err != nil {
		return nil, err
	}
	cas, err := store.NewCAStore(store.CAStoreConfig{
		UploadDir: dir + "/upload", CacheDir: dir + "/cache",
		UploadCleanup: store.CleanupConfig{Disabled: true}, CacheCleanup: store.CleanupConfig{Disabled: true},
	}, tally.NoopScope)
	if err != nil {
		os.RemoveAll(dir)
		return nil, err
	}
	cleanup = func() { cas.Close(); os.RemoveAll(dir) }
	gen, err := metainfogen.New(metainfogen.Config{PieceLengths: map[datasize.ByteSize]datasize.ByteSize{0: 4}}, cas)
	if err != nil {
		cleanup()
		return nil, err
	}
	fb := &fakeBackend{m: m, content: map[string][]byte{}, keyOf: map[string]string{}}
	digests := map[string]core.Digest{}
	for _, cl := range m.sc.clients {
		for _, op := range cl {
			if _, ok := digests[op.key]; ok {
				continue
			}
			b := []byte("blob-" + op.key)
			d, err := core.NewDigester().FromBytes(b)
			if err != nil {
				cleanup()
				return nil, err
			}
			digests[op.key] = d
			fb.content[d.Hex()] = b
			fb.keyOf[d.Hex()] = op.key
		}
	}
	mgr, err := backend.NewManager(backend.ManagerConfig{}, nil, backend.AuthConfig{}, tally.NoopScope)
	if err != nil {
		cleanup()
		return nil, err
	}
	if err := mgr.Register("ns", fb, false); err != nil {
		cleanup()
		return nil, err
	}
	r := blobrefresh.New(blobrefresh.Config{}, tally.NoopScope, cas, mgr, gen)
	m.start = func(call *rcall) error {
		err := r.Refresh("ns", digests[call.key])
		switch err {
		case blobrefresh.ErrPending:
			return dedup.ErrRequestPending
		case blobrefresh.ErrNotFound:
			return errNF
		case blobrefresh.ErrWorkersBusy:
			return dedup.ErrWorkersBusy
		}
		return err
	}
	return cleanup, nil
}

func rcHarness(sc rscen) *vrt.Harness {
	return e1q.Harness("reqcache/"+sc.name, sc.maxSteps, func(c *e1q.Ctl) (string, string) {
		m := &rmodel{sc: sc, c: c, inflight: map[string]int{}, pending: map[string]*rcall{}, cached: map[string]*cerr{},
			lastBusy: map[string]bool{}, next: make([]int, len(sc.clients)), last: make([]*rcall, len(sc.clients)), tags: map[string]bool{}}
		cleanup := func() {}
		if sc.refresher {
			cl, err := buildRefresher(m)
			if err != nil {
				return "", "HARNESS: " + err.Error()
			}
			cleanup = cl
		} else {
			rc := dedup.NewRequestCache(sc.cfg, clock.New(), tally.NoopScope)
			if sc.notFound {
				rc.SetNotFound(func(err error) bool { return err == errNF })
			}
			m.start = func(call *rcall) error {
				return rc.Start(call.key, func() error {
					if l := m.enter(call.key, call); l != "" {
						c.Park(l)
					}
					return m.exit(call.key, call)
				})
			}
		}
		vio := ""
		for {
			c.Wait()
			if vio = m.settle(); vio != "" {
				break
			}
			if !c.Step(m.actions) {
				break
			}
		}
		// teardown: seams keep parking unconditionally; whatever is parked at a
		// quiescent point is released until nothing parks any more. Every goroutine
		// of the cache must then have ended (a leftover one makes synctest panic).
		for {
			c.Wait()
			if len(c.Pending()) == 0 {
				break
			}
			c.ReleaseAll()
		}
		if vio == "" {
			m.mu.Lock()
			for _, call := range m.calls {
				if !call.returned {
					vio = "RequestCache: a Start never returned :: " + call.label
				}
			}
			m.mu.Unlock()
		}
		cleanup()
		return m.obs(), vio
	})
}

// ============================================================== main

func allHarnesses() []*vrt.Harness {
	var hs []*vrt.Harness
	for _, sc := range limiterScenarios() {
		hs = append(hs, limiterHarness(sc))
	}
	for _, sc := range trapScenarios() {
		hs = append(hs, trapHarness(sc))
	}
	for _, sc := range rcScenarios() {
		hs = append(hs, rcHarness(sc))
	}
	return hs
}

func class(msg string) string {
	m := strings.SplitN(msg, "\n", 2)[0]
	if i := strings.Index(m, " :: "); i >= 0 {
		m = m[:i]
	}
	if len(m) > 140 {
		m = m[:140]
	}
	return m
}

func replay(run *evid.Run, path string) {
	b, err := os.ReadFile(path)
	if err != nil {
		run.Fatal(err)
	}
	var f struct {
		Case vrt.Violation `json:"case"`
	}
	if err := json.Unmarshal(b, &f); err != nil {
		run.Fatal(err)
	}
	for _, h := range allHarnesses() {
		if h.Name == f.Case.Harness {
			x, obs, vio := vrt.Replay(h, f.Case.Choices)
			for i, p := range x.Points {
				fmt.Printf("  %2d  choice %d/%d  %s\n", i, p.Chosen, p.NEnabled, p.Label)
			}
			fmt.Printf("observation: %s\nviolation: %s\n", obs, vio)
			if x.Deadlock {
				fmt.Printf("deadlock: %v\n", x.Blocked)
			}
			if vio != "" || x.Deadlock || x.Panic != "" {
				os.Exit(1)
			}
			os.Exit(0)
		}
	}
	run.Fatal(fmt.Errorf("replay: unknown harness %q", f.Case.Harness))
}

func main() {
	e1q.Main(func(t *testing.T) {
		vrt.WorkerMain(allHarnesses())

		run := evid.New("C29", "exploration")
		if p := run.ReplayPath(); p != "" {
			replay(run, p)
		}
		run.Rule = "E1: every interleaving at the sync operations of utils/dedup (preemption-bounded DFS) of 2-3 threads calling the real Limiter.Run / IntervalTrap.Trap plus a thread moving an explicit clock past the task TTL or the GC interval; E1q: every order (deviation-bounded DFS over the enabled set found by synctest quiescence) of {client issues its next Start, a parked request completes, clock advance} on the real RequestCache (directly and behind blobrefresh.Refresher) compared at every quiescent point with a pending/cached-error model. distinct = distinct outcome classes (per-call results + situations met) per scenario."
		run.Assume("code between two sync operations of utils/dedup is data-race free; the Limiter/IntervalTrap clock moves only at scheduling points (E1)")
		run.Assume("RequestCache critical sections (one mutex) are atomic steps: orders are explored at the granularity of request start/completion, Start blocking on the worker semaphore, and timer expiry (E1q)")
		run.Assume("small-scope: 1-3 keys, 2-3 callers, 1-2 workers, clock advances of 6s/13s (TTL boundaries themselves are not in the alphabet)")

		fpE1 := func(cls string) func(v vrt.Violation) string {
			return func(v vrt.Violation) string { return class(v.Msg) + " [" + cls + "]" }
		}
		bound, maxDur := 2, 20
		if run.Thorough() {
			bound, maxDur = 3, 240
		}
		times := map[string]float64{}
		timed := func(name string) func() {
			st := time.Now()
			return func() { times[name] = float64(time.Since(st).Milliseconds()) / 1000 }
		}
		// determinism self-test: the default schedule, every schedule that deviates
		// from it at exactly one point (capped), and later the explorer's sample
		// schedules are each executed twice; the two runs must agree on the whole
		// sequence of (label, number enabled) and on the observation.
		nSelf := 0
		sig := func(x *vrt.Exec, obs string) string {
			var b strings.Builder
			for _, p := range x.Points {
				fmt.Fprintf(&b, "%s/%d;", p.Label, p.NEnabled)
			}
			return b.String() + " => " + obs
		}
		twice := func(h *vrt.Harness, sched []int) *vrt.Exec {
			x1, o1, _ := vrt.Replay(h, sched)
			x2, o2, _ := vrt.Replay(h, sched)
			nSelf++
			if s1, s2 := sig(x1, o1), sig(x2, o2); s1 != s2 {
				run.Fatal(fmt.Errorf("non-deterministic replay in %s schedule %v:\n%s\nvs\n%s", h.Name, sched, s1, s2))
			}
			return x1
		}
		determinism := func(h *vrt.Harness) {
			x := twice(h, nil)
			n := 0
			for i, p := range x.Points {
				for alt := 1; alt < p.NEnabled && n < 40; alt++ {
					sched := append(append([]int{}, x.Choices()[:i]...), alt)
					twice(h, sched)
					n++
				}
			}
		}
		samples := func(h *vrt.Harness, res *vrt.Result) {
			for _, sm := range res.Samples {
				twice(h, sm)
			}
			for _, v := range res.Violations {
				twice(h, v.Choices)
			}
		}
		for _, sc := range limiterScenarios() {
			if sc.thorough && !run.Thorough() {
				continue
			}
			h := limiterHarness(sc)
			determinism(h)
			cls := "clock stays below the GC interval"
			if sc.gc() {
				cls = "clock passes the GC interval"
			}
			done := timed(h.Name)
			b := bound
			if sc.maxBound > 0 && b > sc.maxBound {
				b = sc.maxBound
			}
			samples(h, rep.VRT(run, h, b, evid.Workers(), maxDur, fpE1(cls)))
			done()
		}
		for _, sc := range trapScenarios() {
			if sc.thorough && !run.Thorough() {
				continue
			}
			h := trapHarness(sc)
			determinism(h)
			done := timed(h.Name)
			samples(h, rep.VRT(run, h, bound, evid.Workers(), maxDur, func(v vrt.Violation) string { return class(v.Msg) }))
			done()
		}
		tagCount := map[string]int{}
		for _, sc := range rcScenarios() {
			if sc.thorough && !run.Thorough() {
				continue
			}
			h := rcHarness(sc)
			determinism(h)
			b := sc.maxSteps + 1 // every order
			if !run.Thorough() && sc.quickB > 0 {
				b = sc.quickB
			}
			done := timed(h.Name)
			res := rep.VRT(run, h, b, evid.Workers(), maxDur, func(v vrt.Violation) string {
				if strings.HasPrefix(v.Msg, "HARNESS") {
					run.Fatal(errors.New(h.Name + ": " + v.Msg))
				}
				if v.Deadlock && strings.HasPrefix(v.Msg, "goroutines still blocked") {
					return "RequestCache: goroutines still blocked after every request was released"
				}
				return class(v.Msg)
			})
			samples(h, res)
			done()
			for o, n := range res.Outcomes {
				if i := strings.Index(o, " tags="); i >= 0 {
					for _, tg := range strings.Split(o[i+6:], ",") {
						if tg != "" {
							tagCount[tg] += n
						}
					}
				}
			}
		}
		run.Set("executions_containing", tagCount)
		run.Set("seconds_per_harness", times)
		run.Set("schedules_replayed_twice_identically", nSelf)
		run.Finish()
	})
}
