//go:build go1.25

// C29: request deduplication runs at most one execution per key.
//
//   - E1 (vrt, overlay sync -> psync in utils/dedup): every interleaving, up to a
//     preemption bound, of callers of the real dedup.Limiter / dedup.IntervalTrap
//     and a thread that advances an explicit clock past the task TTL / the GC
//     interval (so limiterTaskGC races with a caller that holds a task).
//   - E1q (testing/synctest bubble, go1.26.8): every order of the pending actions
//     {client issues its next Start, a parked request completes, the clock
//     advances} of the real dedup.RequestCache (goroutine per request, worker
//     semaphore channel, clk.After), directly and through blobrefresh.Refresher.
//   - E1 on the RequestCache at lock granularity (its `go` statement becomes a
//     vrt thread through the overlay, its mutex psync): every interleaving, up
//     to a preemption bound, of 2-3 clients' Starts, the cache's request
//     goroutines (request / release / ErrorMatcher / store-error steps) and a
//     clock thread, for every pair of client programs of 1-2 Starts with
//     outcome ok / err / not-found.
package main

import (
	"encoding/json"
	"errors"
	"fmt"
	"io"
	"os"
	"os/exec"
	"sort"
	"strings"
	"sync"
	"syscall"
	"testing"
	"time"

	"github.com/andres-erbsen/clock"
	"github.com/c2h5oh/datasize"
	"github.com/uber-go/tally"
	"github.com/uber/kraken/core"
	"github.com/uber/kraken/lib/backend"
	"github.com/uber/kraken/lib/backend/backenderrors"
	"github.com/uber/kraken/lib/blobrefresh"
	"github.com/uber/kraken/lib/metainfogen"
	"github.com/uber/kraken/lib/store"
	"github.com/uber/kraken/utils/dedup"

	"verif/e1q"
	"verif/evid"
	_ "verif/quiet"
	"verif/rep"
	"verif/shim/vsync"
	"verif/vrt"
)

// The overlay maps utils/dedup's "sync" to checks/c29/psync = vsync + a point
// AFTER every release; vsync's own point before a release is switched off
// (a release is a left mover; the point after it is the one that lets another
// thread take the lock before the releasing thread's next plain statement).
func init() { vsync.UnlockPoints = false }

// ============================================================== E1: Limiter, IntervalTrap

var t0 = time.Date(2020, 1, 1, 0, 0, 0, 0, time.UTC)

// stepClock is explicit time: Now returns a variable that only the harness'
// clock thread moves. With points=true every read is a scheduling point.
type stepClock struct {
	clock.Clock // nil: the dedup package only calls Now on this clock
	now         time.Time
	points      bool
}

func (c *stepClock) Now() time.Time {
	if c.points {
		vrt.Point("clk.Now")
	}
	return c.now
}

// lrunner is the dedup.TaskRunner handed to the real Limiter. enter and exit
// are separated by a scheduling point; the in-flight count per key is the monitor.
type lrunner struct {
	ttl      time.Duration
	inflight map[string]int
	runs     map[string]int
	vio      []string
}

func (r *lrunner) Run(input interface{}) (interface{}, time.Duration) {
	k := input.(string)
	r.inflight[k]++
	r.runs[k]++
	n := r.runs[k]
	if r.inflight[k] > 1 {
		r.vio = append(r.vio, fmt.Sprintf("Limiter: two executions of one key in flight :: key %s: run #%d entered while another run of %s had not returned", k, n, k))
	}
	vrt.Point("run " + k)
	r.inflight[k]--
	return fmt.Sprintf("%s#%d", k, n), r.ttl
}

type lscen struct {
	name        string
	pre         []string        // sequential Run calls before the threads start
	threads     [][]string      // keys each caller thread runs
	advances    []time.Duration // the clock thread: point, advance, point, advance ...
	ttl         time.Duration
	clockPoints bool
	thorough    bool // only explored in the thorough tier
	maxBound    int  // cap on the preemption bound (0: the tier's bound)
}

// gc reports whether the clock can pass the limiter's GC interval in this scenario.
func (sc lscen) gc() bool {
	var s time.Duration
	for _, d := range sc.advances {
		s += d
	}
	return s > dedup.TaskGCInterval
}

func limiterScenarios() []lscen {
	gcAdv := dedup.TaskGCInterval + time.Second
	return []lscen{
		{name: "gc-vs-holder", threads: [][]string{{"a"}, {"a"}}, advances: []time.Duration{gcAdv}, ttl: 10 * time.Second},
		{name: "three-callers", threads: [][]string{{"a"}, {"a"}, {"a"}}, ttl: 10 * time.Second},
		{name: "expiry-rerun", pre: []string{"a"}, threads: [][]string{{"a"}, {"a"}}, advances: []time.Duration{11 * time.Second}, ttl: 10 * time.Second},
		// (GC scenarios keep one key: limiterTaskGC ranges over a Go map, whose order with 2+ tasks is not replayable)
		{name: "two-keys", pre: []string{"a"}, threads: [][]string{{"a", "b"}, {"b", "a"}}, advances: []time.Duration{11 * time.Second}, ttl: 10 * time.Second, maxBound: 2},
		{name: "two-callers-twice", threads: [][]string{{"a", "a"}, {"a", "a"}}, advances: []time.Duration{11 * time.Second}, ttl: 10 * time.Second},
		{name: "gc-vs-holder-3", threads: [][]string{{"a"}, {"a"}, {"a"}}, advances: []time.Duration{gcAdv}, ttl: 10 * time.Second, thorough: true, maxBound: 2},
		{name: "gc-vs-holder-clockpoints", threads: [][]string{{"a"}, {"a"}}, advances: []time.Duration{gcAdv}, ttl: 10 * time.Second, clockPoints: true, thorough: true},
		{name: "gc-twice", pre: []string{"a"}, threads: [][]string{{"a", "a"}, {"a"}}, advances: []time.Duration{gcAdv, gcAdv}, ttl: 10 * time.Second, thorough: true},
	}
}

func limiterHarness(sc lscen) *vrt.Harness {
	return &vrt.Harness{Name: "limiter/" + sc.name, Horizon: 20000, Body: func() (string, string) {
		clk := &stepClock{now: t0, points: sc.clockPoints}
		r := &lrunner{ttl: sc.ttl, inflight: map[string]int{}, runs: map[string]int{}}
		l := dedup.NewLimiter(clk, r)
		for _, k := range sc.pre {
			l.Run(k)
		}
		outs := make([][]string, len(sc.threads))
		for ti, prog := range sc.threads {
			ti, prog := ti, prog
			vrt.GoNamed(fmt.Sprintf("w%d", ti), func() {
				for _, k := range prog {
					outs[ti] = append(outs[ti], fmt.Sprint(l.Run(k)))
				}
			})
		}
		if len(sc.advances) > 0 {
			vrt.GoNamed("clk", func() {
				for _, d := range sc.advances {
					vrt.Point("advance")
					clk.now = clk.now.Add(d)
				}
			})
		}
		vrt.Join()
		var ks []string
		for k := range r.runs {
			ks = append(ks, fmt.Sprintf("%s:%d", k, r.runs[k]))
		}
		sort.Strings(ks)
		obs := fmt.Sprintf("runs=%v outs=%v", ks, outs)
		if len(r.vio) > 0 {
			return obs, r.vio[0]
		}
		return obs, ""
	}}
}

// ttask is the IntervalTask handed to the real IntervalTrap.
type ttask struct {
	clk      *stepClock
	inflight int
	starts   []time.Time
	vio      []string
}

func (t *ttask) Run() {
	t.inflight++
	if t.inflight > 1 {
		t.vio = append(t.vio, "IntervalTrap: two executions of the task in flight :: a second Run entered while the first had not returned")
	}
	t.starts = append(t.starts, t.clk.now)
	vrt.Point("task")
	t.inflight--
}

type tscen struct {
	name     string
	interval time.Duration
	threads  []int // number of Trap calls per caller thread
	advances []time.Duration
	thorough bool
}

func trapScenarios() []tscen {
	return []tscen{
		{name: "two-callers", interval: 10 * time.Second, threads: []int{1, 1}, advances: []time.Duration{11 * time.Second}},
		{name: "three-callers", interval: 10 * time.Second, threads: []int{1, 1, 1}, advances: []time.Duration{11 * time.Second}},
		{name: "two-rounds", interval: 10 * time.Second, threads: []int{2, 2}, advances: []time.Duration{11 * time.Second, 11 * time.Second}},
		{name: "three-callers-two-rounds", interval: 10 * time.Second, threads: []int{2, 1, 1}, advances: []time.Duration{11 * time.Second, 11 * time.Second}, thorough: true},
	}
}

func trapHarness(sc tscen) *vrt.Harness {
	return &vrt.Harness{Name: "trap/" + sc.name, Horizon: 20000, Body: func() (string, string) {
		clk := &stepClock{now: t0}
		task := &ttask{clk: clk}
		trap := dedup.NewIntervalTrap(sc.interval, clk, task)
		for ti, n := range sc.threads {
			n := n
			vrt.GoNamed(fmt.Sprintf("w%d", ti), func() {
				for i := 0; i < n; i++ {
					trap.Trap()
				}
			})
		}
		vrt.GoNamed("clk", func() {
			for _, d := range sc.advances {
				vrt.Point("advance")
				clk.now = clk.now.Add(d)
			}
		})
		vrt.Join()
		var at []string
		for _, s := range task.starts {
			at = append(at, s.Sub(t0).String())
		}
		obs := fmt.Sprintf("runs=%d at=%v", len(task.starts), at)
		if len(task.vio) > 0 {
			return obs, task.vio[0]
		}
		for i := 1; i < len(task.starts); i++ {
			if gap := task.starts[i].Sub(task.starts[i-1]); gap < sc.interval {
				return obs, fmt.Sprintf("IntervalTrap: task ran twice within one interval :: runs at +%v and +%v, interval %v", task.starts[i-1].Sub(t0), task.starts[i].Sub(t0), sc.interval)
			}
		}
		return obs, ""
	}}
}

// ============================================================== E1q: RequestCache, Refresher

var (
	errBoom = errors.New("boom")
	errNF   = backenderrors.ErrBlobNotFound
)

type startOp struct {
	key     string
	outcome string // ok | err | nf : what the request function returns when the explorer lets it complete
}

type rscen struct {
	name      string
	cfg       dedup.RequestCacheConfig
	notFound  bool // install the not-found matcher (err == ErrBlobNotFound)
	clients   [][]startOp
	advances  []time.Duration // sizes the explorer may advance the clock by
	maxAdv    int             // total number of advances per execution
	refresher bool            // drive the cache through a real blobrefresh.Refresher (its own config, matcher, clock.New())
	maxSteps  int
	quickB    int // deviation bound in the quick tier (0: all orders)
	thorough  bool
}

const (
	advShort = 6*time.Second + time.Millisecond  // past BusyTimeout (5s) and CleanupInterval (5s), not past a TTL
	advLong  = 13*time.Second + time.Millisecond // past ErrorTTL (10s) as well
)

func directCfg(workers int) dedup.RequestCacheConfig {
	return dedup.RequestCacheConfig{NotFoundTTL: 20 * time.Second, ErrorTTL: 10 * time.Second, CleanupInterval: 5 * time.Second, NumWorkers: workers, BusyTimeout: 5 * time.Second}
}

// noCleanup: the periodic removal of expired errors never runs, so expiry is decided by reserve's own check.
func noCleanup(c dedup.RequestCacheConfig) dedup.RequestCacheConfig {
	c.CleanupInterval = time.Hour
	return c
}

// the configuration blobrefresh.New passes (all defaults)
var refresherCfg = dedup.RequestCacheConfig{NotFoundTTL: 15 * time.Second, ErrorTTL: 15 * time.Second, CleanupInterval: 5 * time.Second, NumWorkers: 10000, BusyTimeout: 5 * time.Second}

func ops(s string) []startOp {
	var o []startOp
	for _, f := range strings.Fields(s) {
		p := strings.SplitN(f, "/", 2)
		o = append(o, startOp{p[0], p[1]})
	}
	return o
}

func rcScenarios() []rscen {
	both := []time.Duration{advShort, advLong}
	return []rscen{
		{name: "same-key-2workers", cfg: directCfg(2), clients: [][]startOp{ops("a/err a/ok"), ops("a/ok a/ok")}, advances: both, maxAdv: 1, maxSteps: 12},
		{name: "one-worker-busy", cfg: directCfg(1), clients: [][]startOp{ops("a/ok"), ops("b/ok b/ok"), ops("b/ok")}, advances: []time.Duration{advShort}, maxAdv: 2, maxSteps: 12},
		{name: "error-ttls-no-cleanup", cfg: noCleanup(directCfg(2)), notFound: true, clients: [][]startOp{ops("a/nf a/err a/ok a/ok")}, advances: both, maxAdv: 3, maxSteps: 12},
		{name: "error-ttl-two-keys", cfg: directCfg(2), notFound: true, clients: [][]startOp{ops("a/nf a/ok"), ops("b/err b/ok")}, advances: both, maxAdv: 2, maxSteps: 12},
		{name: "refresher", cfg: refresherCfg, notFound: true, refresher: true, clients: [][]startOp{ops("a/nf a/ok"), ops("a/ok")}, advances: both, maxAdv: 2, maxSteps: 12},
		{name: "two-workers-three-keys", cfg: directCfg(2), clients: [][]startOp{ops("a/ok a/ok"), ops("b/err b/ok"), ops("c/ok a/ok")}, advances: []time.Duration{advShort}, maxAdv: 2, maxSteps: 16, quickB: 6},
		{name: "one-worker-errors", cfg: directCfg(1), notFound: true, clients: [][]startOp{ops("a/err a/ok"), ops("a/ok b/nf"), ops("b/ok")}, advances: both, maxAdv: 2, maxSteps: 16, quickB: 6},
	}
}

const (
	expPending = iota
	expCached
	expRun
)
const (
	phIssued = iota
	phWaiting
	phRunning
	phDone
)

type rcall struct {
	label   string
	client  int
	key     string
	outcome string
	// written by the system's goroutines
	returned bool
	ret      error
	entered  int
	exited   bool
	exitAt   time.Time
	// model
	expect   int
	expErr   error
	expired  error // an expired cached error of the key at issue time (for classification)
	afterBsy bool  // the previous Start of this key ended with ErrWorkersBusy
	phase    int
	result   string
}

type cerr struct {
	err       error
	expiresAt time.Time
}

type rmodel struct {
	mu       sync.Mutex
	sc       rscen
	c        *e1q.Ctl
	start    func(call *rcall) error
	inflight map[string]int
	vio      []string
	calls    []*rcall
	pending  map[string]*rcall
	cached   map[string]*cerr
	lastBusy map[string]bool
	next     []int    // per client: index of its next op
	last     []*rcall // per client: its latest call
	nAdv     int
	tags     map[string]bool // vacuity: which situations this execution contained
}

func (m *rmodel) ttl(outcome string) time.Duration {
	if outcome == "nf" && m.sc.notFound {
		return m.sc.cfg.NotFoundTTL
	}
	return m.sc.cfg.ErrorTTL
}

func outcomeErr(o string) error {
	switch o {
	case "err":
		return errBoom
	case "nf":
		return errNF
	}
	return nil
}

// enter is called at the start of a request execution (any goroutine).
func (m *rmodel) enter(key string, call *rcall) (park string) {
	m.mu.Lock()
	defer m.mu.Unlock()
	m.inflight[key]++
	if m.inflight[key] > 1 {
		m.vio = append(m.vio, fmt.Sprintf("RequestCache: two executions of one key in flight :: key %s", key))
	}
	if call != nil {
		call.entered++
		if call.entered > 1 {
			m.vio = append(m.vio, fmt.Sprintf("RequestCache: one Start executed its request twice :: %s", call.label))
		}
	}
	if call != nil {
		return "complete " + call.label
	}
	return "complete ?" + key
}

func (m *rmodel) exit(key string, call *rcall) error {
	m.mu.Lock()
	defer m.mu.Unlock()
	m.inflight[key]--
	if call == nil {
		return nil
	}
	call.exited = true
	call.exitAt = time.Now()
	return outcomeErr(call.outcome)
}

// owner returns the call the model admitted for key (refresher mode: the seam only knows the key).
func (m *rmodel) owner(key string) *rcall {
	m.mu.Lock()
	defer m.mu.Unlock()
	if c := m.pending[key]; c != nil && c.entered == 0 {
		return c
	}
	return nil
}

func errName(err error) string {
	switch err {
	case nil:
		return "nil"
	case dedup.ErrRequestPending:
		return "ErrRequestPending"
	case dedup.ErrWorkersBusy:
		return "ErrWorkersBusy"
	case errBoom:
		return "cached(boom)"
	case errNF:
		return "cached(not-found)"
	}
	return "error(" + err.Error() + ")"
}

func (m *rmodel) got(c *rcall) string {
	if !c.returned {
		return "Start has not returned"
	}
	return errName(c.ret)
}

// issue is the explorer action "client ci calls Start for its next op".
func (m *rmodel) issue(ci int) {
	m.mu.Lock()
	op := m.sc.clients[ci][m.next[ci]]
	call := &rcall{label: fmt.Sprintf("c%d#%d:%s/%s", ci, m.next[ci], op.key, op.outcome), client: ci, key: op.key, outcome: op.outcome}
	m.next[ci]++
	m.last[ci] = call
	m.calls = append(m.calls, call)
	now := time.Now()
	ce := m.cached[op.key]
	switch {
	case m.pending[op.key] != nil:
		call.expect = expPending
		m.tags["start-while-pending"] = true
		if m.pending[op.key].phase == phWaiting {
			m.tags["start-while-other-waits-for-worker"] = true
		}
	case ce != nil && !now.After(ce.expiresAt):
		if now.Equal(ce.expiresAt) {
			m.vio = append(m.vio, "HARNESS: Start exactly at the expiry instant of a cached error (boundary the statement does not decide)")
		}
		call.expect = expCached
		call.expErr = ce.err
		m.tags["start-with-cached-error"] = true
	default:
		call.expect = expRun
		if ce != nil {
			call.expired = ce.err
			m.tags["start-after-error-expired"] = true
		}
		if m.lastBusy[op.key] {
			call.afterBsy = true
			m.tags["start-after-busy"] = true
		}
		m.pending[op.key] = call
	}
	m.mu.Unlock()
	go func() {
		err := m.start(call)
		m.mu.Lock()
		call.returned = true
		call.ret = err
		m.mu.Unlock()
	}()
}

// settle is called at quiescence: it compares what the real cache did with the model.
func (m *rmodel) settle() string {
	m.mu.Lock()
	defer m.mu.Unlock()
	if len(m.vio) > 0 {
		return m.vio[0]
	}
	finish := func(c *rcall, res string) {
		c.phase = phDone
		c.result = res
	}
	// completions first, then workers handed to waiting Starts / timeouts, then new Starts
	for _, c := range m.calls {
		if c.phase == phRunning && c.exited {
			if m.pending[c.key] == c {
				m.pending[c.key] = nil
			}
			m.lastBusy[c.key] = false
			if e := outcomeErr(c.outcome); e != nil {
				m.cached[c.key] = &cerr{e, c.exitAt.Add(m.ttl(c.outcome))}
			}
			finish(c, "ran:"+c.outcome)
		}
	}
	for _, c := range m.calls {
		switch c.phase {
		case phWaiting:
			if !c.returned {
				continue
			}
			switch {
			case c.ret == nil:
				if c.entered != 1 {
					return fmt.Sprintf("RequestCache: Start returned nil but its request was not started :: %s", c.label)
				}
				c.phase = phRunning
				m.tags["waiting-start-got-worker"] = true
			case c.ret == dedup.ErrWorkersBusy:
				m.pending[c.key] = nil
				m.lastBusy[c.key] = true
				m.tags["busy"] = true
				finish(c, "busy")
			default:
				return fmt.Sprintf("RequestCache: Start that waited for a worker ended with an unexpected result :: %s: %s", c.label, m.got(c))
			}
		case phIssued:
			switch c.expect {
			case expPending:
				if c.entered > 0 {
					return fmt.Sprintf("RequestCache: Start while a request of the key is pending ran the request again :: %s (%s)", c.label, m.got(c))
				}
				if !c.returned || c.ret != dedup.ErrRequestPending {
					return fmt.Sprintf("RequestCache: Start while a request of the key is pending did not report ErrRequestPending :: %s: %s", c.label, m.got(c))
				}
				finish(c, "pending")
			case expCached:
				if c.entered > 0 {
					return fmt.Sprintf("RequestCache: Start with a cached unexpired error ran the request again :: %s (%s), cached %s", c.label, m.got(c), errName(c.expErr))
				}
				if !c.returned || c.ret != c.expErr {
					return fmt.Sprintf("RequestCache: Start with a cached unexpired error did not report that error :: %s: %s, cached %s", c.label, m.got(c), errName(c.expErr))
				}
				finish(c, errName(c.expErr))
			case expRun:
				if !c.returned {
					c.phase = phWaiting
					m.tags["start-waits-for-worker"] = true
					continue
				}
				if c.ret == nil {
					if c.entered != 1 {
						return fmt.Sprintf("RequestCache: Start returned nil but its request was not started :: %s", c.label)
					}
					c.phase = phRunning
					if c.afterBsy {
						m.tags["start-after-busy-ran"] = true
					}
					continue
				}
				ctx := "no earlier Start of the key is unfinished"
				if c.afterBsy {
					ctx = "the previous Start of the key ended with ErrWorkersBusy"
				}
				switch {
				case c.ret == dedup.ErrRequestPending && c.afterBsy:
					return fmt.Sprintf("RequestCache: ErrWorkersBusy left the key pending (a later Start reports ErrRequestPending) :: %s", c.label)
				case c.ret == dedup.ErrRequestPending:
					return fmt.Sprintf("RequestCache: Start reported ErrRequestPending with nothing pending :: %s; %s", c.label, ctx)
				case c.expired != nil && c.ret == c.expired:
					return fmt.Sprintf("RequestCache: Start reported a cached error after it expired :: %s: %s", c.label, errName(c.ret))
				default:
					return fmt.Sprintf("RequestCache: Start with nothing pending and no cached error neither ran nor waited for a worker :: %s: %s; %s", c.label, m.got(c), ctx)
				}
			}
		}
	}
	for _, c := range m.calls {
		if c.phase == phDone && !strings.HasPrefix(c.result, "ran:") && c.entered > 0 {
			return fmt.Sprintf("RequestCache: request executed although its Start reported %s :: %s", c.result, c.label)
		}
	}
	return ""
}

// actions lists the harness actions enabled at this quiescent point.
func (m *rmodel) actions() []e1q.Action {
	m.mu.Lock()
	defer m.mu.Unlock()
	var a []e1q.Action
	for ci := range m.sc.clients {
		ci := ci
		if m.next[ci] >= len(m.sc.clients[ci]) {
			continue
		}
		if l := m.last[ci]; l != nil && !l.returned {
			continue // the client is still inside Start (waiting for a worker)
		}
		op := m.sc.clients[ci][m.next[ci]]
		a = append(a, e1q.Action{Label: fmt.Sprintf("c%d Start(%s,%s)", ci, op.key, op.outcome), Run: func() { m.issue(ci) }})
	}
	if m.nAdv < m.sc.maxAdv {
		for _, d := range m.sc.advances {
			d := d
			a = append(a, e1q.Action{Label: "advance " + d.String(), Run: func() {
				m.mu.Lock()
				m.nAdv++
				m.mu.Unlock()
				e1q.Sleep(d)
			}})
		}
	}
	return a
}

func (m *rmodel) obs() string {
	var parts []string
	for ci := range m.sc.clients {
		var r []string
		for _, c := range m.calls {
			if c.client == ci {
				res := c.result
				if c.phase != phDone {
					res = "unfinished"
				}
				r = append(r, res)
			}
		}
		parts = append(parts, fmt.Sprintf("c%d%v", ci, r))
	}
	var tg []string
	for t := range m.tags {
		tg = append(tg, t)
	}
	sort.Strings(tg)
	return strings.Join(parts, " ") + " tags=" + strings.Join(tg, ",")
}

// ---- refresher mode

type fakeBackend struct {
	m       *rmodel
	content map[string][]byte // blob name -> bytes
	keyOf   map[string]string // blob name -> scenario key
}

func (f *fakeBackend) Stat(namespace, name string) (*core.BlobInfo, error) {
	b, ok := f.content[name]
	if !ok {
		return nil, backenderrors.ErrBlobNotFound
	}
	return core.NewBlobInfo(int64(len(b))), nil
}
func (f *fakeBackend) Upload(namespace, name string, src io.Reader) error {
	return errors.New("unused")
}
func (f *fakeBackend) Download(namespace, name string, dst io.Writer) error {
	key := f.keyOf[name]
	call := f.m.owner(key)
	if l := f.m.enter(key, call); l != "" {
		f.m.c.Park(l)
	}
	if err := f.m.exit(key, call); err != nil {
		return err
	}
	_, err := dst.Write(f.content[name])
	return err
}
func (f *fakeBackend) List(prefix string, opts ...backend.ListOption) (*backend.ListResult, error) {
	return nil, errors.New("unused")
}
func (f *fakeBackend) Close() error { return nil }

func buildRefresher(m *rmodel) (cleanup func(), err error) {
	dir, err := os.MkdirTemp("", "c29-")
	if err != nil {
		return nil, err
	}
	cas, err := store.NewCAStore(store.CAStoreConfig{
		UploadDir: dir + "/upload", CacheDir: dir + "/cache",
		UploadCleanup: store.CleanupConfig{Disabled: true}, CacheCleanup: store.CleanupConfig{Disabled: true},
	}, tally.NoopScope)
	if err != nil {
		os.RemoveAll(dir)
		return nil, err
	}
	cleanup = func() { cas.Close(); os.RemoveAll(dir) }
	gen, err := metainfogen.New(metainfogen.Config{PieceLengths: map[datasize.ByteSize]datasize.ByteSize{0: 4}}, cas)
	if err != nil {
		cleanup()
		return nil, err
	}
	fb := &fakeBackend{m: m, content: map[string][]byte{}, keyOf: map[string]string{}}
	digests := map[string]core.Digest{}
	for _, cl := range m.sc.clients {
		for _, op := range cl {
			if _, ok := digests[op.key]; ok {
				continue
			}
			b := []byte("blob-" + op.key)
			d, err := core.NewDigester().FromBytes(b)
			if err != nil {
				cleanup()
				return nil, err
			}
			digests[op.key] = d
			fb.content[d.Hex()] = b
			fb.keyOf[d.Hex()] = op.key
		}
	}
	mgr, err := backend.NewManager(backend.ManagerConfig{}, nil, backend.AuthConfig{}, tally.NoopScope)
	if err != nil {
		cleanup()
		return nil, err
	}
	if err := mgr.Register("ns", fb, false); err != nil {
		cleanup()
		return nil, err
	}
	r := blobrefresh.New(blobrefresh.Config{}, tally.NoopScope, cas, mgr, gen)
	m.start = func(call *rcall) error {
		err := r.Refresh("ns", digests[call.key])
		switch err {
		case blobrefresh.ErrPending:
			return dedup.ErrRequestPending
		case blobrefresh.ErrNotFound:
			return errNF
		case blobrefresh.ErrWorkersBusy:
			return dedup.ErrWorkersBusy
		}
		return err
	}
	return cleanup, nil
}

func rcHarness(sc rscen) *vrt.Harness {
	return e1q.Harness("reqcache/"+sc.name, sc.maxSteps, func(c *e1q.Ctl) (string, string) {
		m := &rmodel{sc: sc, c: c, inflight: map[string]int{}, pending: map[string]*rcall{}, cached: map[string]*cerr{},
			lastBusy: map[string]bool{}, next: make([]int, len(sc.clients)), last: make([]*rcall, len(sc.clients)), tags: map[string]bool{}}
		cleanup := func() {}
		if sc.refresher {
			cl, err := buildRefresher(m)
			if err != nil {
				return "", "HARNESS: " + err.Error()
			}
			cleanup = cl
		} else {
			rc := dedup.NewRequestCache(sc.cfg, clock.New(), tally.NoopScope)
			if sc.notFound {
				rc.SetNotFound(func(err error) bool { return err == errNF })
			}
			m.start = func(call *rcall) error {
				return rc.Start(call.key, func() error {
					if l := m.enter(call.key, call); l != "" {
						c.Park(l)
					}
					return m.exit(call.key, call)
				})
			}
		}
		vio := ""
		for {
			c.Wait()
			if vio = m.settle(); vio != "" {
				break
			}
			if !c.Step(m.actions) {
				break
			}
		}
		// teardown: seams keep parking unconditionally; whatever is parked at a
		// quiescent point is released until nothing parks any more. Every goroutine
		// of the cache must then have ended (a leftover one makes synctest panic).
		for {
			c.Wait()
			if len(c.Pending()) == 0 {
				break
			}
			c.ReleaseAll()
		}
		if vio == "" {
			m.mu.Lock()
			for _, call := range m.calls {
				if !call.returned {
					vio = "RequestCache: a Start never returned :: " + call.label
				}
			}
			m.mu.Unlock()
		}
		cleanup()
		return m.obs(), vio
	})
}

// ============================================================== E1: RequestCache at lock granularity
//
// The E1q part above treats every critical section of the cache (and whatever
// follows it up to the next blocking operation) as one atomic step. This part
// runs the same real RequestCache under the cooperative scheduler instead: the
// overlay turns its `go` statement into a vrt thread and its mutex into psync,
// so every Lock, every point after an Unlock, the user-supplied ErrorMatcher
// and the request body are scheduling points, and a Start of another client can
// land between any two critical sections of a finishing (or failing) request.
// The worker semaphore is kept out of the way (more workers than Starts; the
// busy path is E1q's subject).

// rcClock is explicit time for the cache. After never fires: with a free worker
// the select in reserveWorker always takes the (ready) semaphore send.
type rcClock struct {
	clock.Clock // nil: RequestCache only calls Now and After
	now         time.Time
}

func (c *rcClock) Now() time.Time                         { return c.now }
func (c *rcClock) After(d time.Duration) <-chan time.Time { return make(chan time.Time) }

var r1cfg = dedup.RequestCacheConfig{NotFoundTTL: 20 * time.Second, ErrorTTL: 10 * time.Second, CleanupInterval: 5 * time.Second, NumWorkers: 64, BusyTimeout: 5 * time.Second}

const r1Adv = 11 * time.Second // past ErrorTTL and CleanupInterval, not past NotFoundTTL; two of them pass NotFoundTTL

type r1scen struct {
	name     string
	clients  [][]startOp
	advances []time.Duration
	quickB   int // preemption bound in the quick tier (0: not explored in that tier)
	thorB    int // preemption bound in the thorough tier
}

func r1name(clients [][]startOp, adv int) string {
	var cs []string
	for _, cl := range clients {
		var o []string
		for _, op := range cl {
			o = append(o, op.key+"."+op.outcome)
		}
		cs = append(cs, strings.Join(o, ","))
	}
	return fmt.Sprintf("%s/clk%d", strings.Join(cs, "+"), adv)
}

// r1Scenarios enumerates the client programs: every unordered pair of programs
// of 1-2 Starts of key a with scripted outcome ok / err / not-found (12
// programs, 78 pairs), each without a clock thread and with a clock thread
// whose single step passes ErrorTTL and CleanupInterval; plus three-client,
// two-key and two-step-clock (past NotFoundTTL) systems. The preemption bound
// shrinks with the size of the system (thread ends and blocked threads switch
// for free, so even bound 1 places one preemption anywhere in every order of
// thread completions).
func r1Scenarios() []r1scen {
	alpha := []string{"a/ok", "a/err", "a/nf"}
	var progs [][]startOp
	for _, x := range alpha {
		progs = append(progs, ops(x))
	}
	for _, x := range alpha {
		for _, y := range alpha {
			progs = append(progs, ops(x+" "+y))
		}
	}
	advs := func(n int) []time.Duration {
		var a []time.Duration
		for k := 0; k < n; k++ {
			a = append(a, r1Adv)
		}
		return a
	}
	var out []r1scen
	for i := 0; i < len(progs); i++ {
		for j := i; j < len(progs); j++ {
			cl := [][]startOp{progs[i], progs[j]}
			n := len(progs[i]) + len(progs[j]) // 2..4 Starts
			out = append(out, r1scen{name: r1name(cl, 0), clients: cl, quickB: []int{2, 2, 1}[n-2], thorB: []int{3, 2, 2}[n-2]})
			out = append(out, r1scen{name: r1name(cl, 1), clients: cl, advances: advs(1), quickB: []int{1, 0, 0}[n-2], thorB: []int{2, 1, 1}[n-2]})
		}
	}
	extra := func(quickB, thorB, adv int, cl ...string) {
		var cs [][]startOp
		for _, c := range cl {
			cs = append(cs, ops(c))
		}
		out = append(out, r1scen{name: r1name(cs, adv), clients: cs, advances: advs(adv), quickB: quickB, thorB: thorB})
	}
	extra(1, 2, 0, "a/err", "a/ok", "a/ok")
	extra(1, 2, 0, "a/err b/ok", "b/nf a/ok")
	extra(0, 1, 1, "a/nf", "a/err", "a/ok")
	extra(0, 1, 2, "a/nf a/ok", "a/ok")
	extra(0, 1, 2, "a/err a/nf", "a/ok a/ok")
	return out
}

type r1call struct {
	label    string
	key      string
	outcome  string
	invokeEv int
	returned bool
	ret      error
	retEv    int
	entered  int
	enterEv  int
	exited   bool
	exitEv   int
	exitNow  time.Time
}

// r1mon records what the harness can see of the cache: Start invocations and
// returns, request executions. Only one vrt thread runs at a time: no locks.
type r1mon struct {
	clk      *rcClock
	rc       *dedup.RequestCache
	ev       int
	calls    []*r1call
	inflight map[string]int
	vio      []string
}

func r1ttl(outcome string) time.Duration {
	if outcome == "nf" {
		return r1cfg.NotFoundTTL
	}
	return r1cfg.ErrorTTL
}

func (m *r1mon) fail(f string, a ...interface{}) { m.vio = append(m.vio, fmt.Sprintf(f, a...)) }

func (m *r1mon) request(c *r1call) error {
	m.ev++
	c.entered++
	c.enterEv = m.ev
	if c.entered > 1 {
		m.fail("RequestCache: one Start executed its request twice :: %s", c.label)
	}
	if m.inflight[c.key] > 0 {
		m.fail("RequestCache: two executions of one key in flight (Starts racing between critical sections) :: key %s, second is %s", c.key, c.label)
	}
	// the statement: from the moment a request is admitted until its cached error
	// expires, no other request of the key runs. An earlier execution of the key
	// that returned an error at clock t has its error cached until at least
	// t+TTL (the cache stamps it at or after t), and the key stays pending until
	// the error is stored.
	for _, e := range m.calls {
		if e != c && e.key == c.key && e.exited && outcomeErr(e.outcome) != nil && !m.clk.now.After(e.exitNow.Add(r1ttl(e.outcome))) {
			m.fail("RequestCache: request ran again although an earlier request of the key failed and its error cannot have expired :: %s ran at +%v; %s returned %s at +%v (TTL %v)",
				c.label, m.clk.now.Sub(t0), e.label, e.outcome, e.exitNow.Sub(t0), r1ttl(e.outcome))
			break
		}
	}
	m.inflight[c.key]++
	vrt.Point("request " + c.key)
	m.ev++
	m.inflight[c.key]--
	c.exited = true
	c.exitEv = m.ev
	c.exitNow = m.clk.now
	return outcomeErr(c.outcome)
}

func (m *r1mon) start(c *r1call) {
	m.ev++
	c.invokeEv = m.ev
	m.calls = append(m.calls, c)
	err := m.rc.Start(c.key, func() error { return m.request(c) })
	m.ev++
	c.returned = true
	c.ret = err
	c.retEv = m.ev
}

func r1result(c *r1call) string {
	switch {
	case !c.returned:
		return "unreturned"
	case c.ret == nil:
		return "ran:" + c.outcome
	}
	return errName(c.ret)
}

// check is evaluated after every thread (clients, request goroutines) ended.
func (m *r1mon) check() {
	for _, c := range m.calls {
		switch {
		case !c.returned:
			m.fail("RequestCache: a Start never returned :: %s", c.label)
		case c.ret == nil:
			if c.entered != 1 || !c.exited {
				m.fail("RequestCache: Start returned nil but its request did not run exactly once :: %s ran %d times", c.label, c.entered)
			}
		default:
			if c.entered > 0 {
				m.fail("RequestCache: request executed although its Start reported %s :: %s", errName(c.ret), c.label)
			}
			switch c.ret {
			case dedup.ErrRequestPending:
				ok := false
				for _, o := range m.calls {
					if o != c && o.key == c.key && o.invokeEv < c.retEv && o.returned && o.ret == nil {
						ok = true
					}
				}
				if !ok {
					m.fail("RequestCache: Start reported ErrRequestPending although no other Start of the key was ever admitted before it returned :: %s", c.label)
				}
			case errBoom, errNF:
				ok := false
				for _, o := range m.calls {
					if o != c && o.key == c.key && o.exited && o.exitEv < c.retEv && outcomeErr(o.outcome) == c.ret {
						ok = true
					}
				}
				if !ok {
					m.fail("RequestCache: Start reported a cached error that no finished request of the key returned :: %s: %s", c.label, errName(c.ret))
				}
			default:
				m.fail("RequestCache: Start with free workers neither ran its request nor reported a pending request or a cached error :: %s: %s", c.label, errName(c.ret))
			}
		}
	}
}

// probe: with nothing in flight any more, one more Start per key must see the
// state the history left: the last execution's error while it cannot have
// expired, otherwise it runs (nothing may still be pending).
func (m *r1mon) probe(key string) string {
	var last *r1call
	for _, c := range m.calls {
		if c.key == key && c.entered > 0 && (last == nil || c.enterEv > last.enterEv) {
			last = c
		}
	}
	nvio := len(m.vio)
	p := &r1call{label: "probe:" + key, key: key, outcome: "ok"}
	m.start(p)
	vrt.Join()
	if len(m.vio) > nvio {
		return "probe " + key + "=" + r1result(p) // the execution monitor already objected to the probe's run
	}
	switch {
	case p.ret == dedup.ErrRequestPending:
		m.fail("RequestCache: key still pending after every request of it finished :: probe Start(%s) reported ErrRequestPending", key)
	case last != nil && outcomeErr(last.outcome) != nil && !m.clk.now.After(last.exitNow.Add(r1ttl(last.outcome))):
		if p.ret != outcomeErr(last.outcome) {
			m.fail("RequestCache: error of the last failed request of the key is not reported while it cannot have expired :: probe Start(%s): %s, want %s from %s", key, r1result(p), errName(outcomeErr(last.outcome)), last.label)
		}
	case last != nil && outcomeErr(last.outcome) != nil:
		// the error may or may not have expired (it was stamped between the
		// request's return and the clock's last step): both answers are allowed
		if p.ret != nil && p.ret != outcomeErr(last.outcome) {
			m.fail("RequestCache: Start with nothing pending reported neither the last error of the key nor ran :: probe Start(%s): %s", key, r1result(p))
		}
	default:
		if p.ret != nil {
			m.fail("RequestCache: Start with nothing pending and no cached error did not run :: probe Start(%s): %s", key, r1result(p))
		}
	}
	return "probe " + key + "=" + r1result(p)
}

func r1Harness(sc r1scen) *vrt.Harness {
	return &vrt.Harness{Name: "reqcache-locks/" + sc.name, Horizon: 20000, Body: func() (string, string) {
		clk := &rcClock{now: t0}
		m := &r1mon{clk: clk, inflight: map[string]int{}}
		m.rc = dedup.NewRequestCache(r1cfg, clk, tally.NoopScope)
		// user code called by the cache: a scheduling point of its own
		m.rc.SetNotFound(func(err error) bool { vrt.Point("matcher"); return err == errNF })
		perClient := make([][]*r1call, len(sc.clients))
		keys := map[string]bool{}
		for ci, prog := range sc.clients {
			ci, prog := ci, prog
			for _, op := range prog {
				keys[op.key] = true
			}
			vrt.GoNamed(fmt.Sprintf("c%d", ci), func() {
				for i, op := range prog {
					c := &r1call{label: fmt.Sprintf("c%d#%d:%s/%s", ci, i, op.key, op.outcome), key: op.key, outcome: op.outcome}
					perClient[ci] = append(perClient[ci], c)
					m.start(c)
				}
			})
		}
		if len(sc.advances) > 0 {
			vrt.GoNamed("clk", func() {
				for _, d := range sc.advances {
					vrt.Point("advance")
					clk.now = clk.now.Add(d)
				}
			})
		}
		vrt.Join()
		m.check()
		var parts []string
		for ci, cs := range perClient {
			var r []string
			for _, c := range cs {
				r = append(r, r1result(c))
			}
			parts = append(parts, fmt.Sprintf("c%d%v", ci, r))
		}
		var ks []string
		for k := range keys {
			ks = append(ks, k)
		}
		sort.Strings(ks)
		if len(m.vio) == 0 {
			for _, k := range ks {
				parts = append(parts, m.probe(k))
			}
		}
		obs := strings.Join(parts, " ")
		if len(m.vio) > 0 {
			return obs, m.vio[0]
		}
		return obs, ""
	}}
}

// ---- scenario pool: the lock-granularity scenarios are many and small, so each
// is explored in-process by one worker process (vrt's own sharding starts a set
// of processes per harness); the engine's reporting (rep.VRT) is repeated here
// for a result that was computed elsewhere.

type r1job struct {
	Name   string
	Bound  int
	MaxSec int
	weight int
}

type r1jobResult struct {
	Name      string
	Bound     int
	Res       *vrt.Result
	SelfTests int
	Seconds   float64
}

func execSig(x *vrt.Exec, obs string) string {
	var b strings.Builder
	for _, p := range x.Points {
		fmt.Fprintf(&b, "%s/%d;", p.Label, p.NEnabled)
	}
	return b.String() + " => " + obs
}

// r1SelfTest: the default schedule and every schedule deviating from it at one
// point (capped at 40) are executed twice and must agree point by point.
func r1SelfTest(h *vrt.Harness) (n int, err string) {
	twice := func(sched []int) *vrt.Exec {
		x1, o1, _ := vrt.Replay(h, sched)
		x2, o2, _ := vrt.Replay(h, sched)
		n++
		if s1, s2 := execSig(x1, o1), execSig(x2, o2); s1 != s2 && err == "" {
			err = fmt.Sprintf("non-deterministic replay in %s schedule %v:\n%s\nvs\n%s", h.Name, sched, s1, s2)
		}
		return x1
	}
	x := twice(nil)
	k := 0
	for i, p := range x.Points {
		for alt := 1; alt < p.NEnabled && k < 40; alt++ {
			twice(append(append([]int{}, x.Choices()[:i]...), alt))
			k++
		}
	}
	return n, err
}

// r1WorkerMain turns the process into a scenario worker when C29_R1_WORKER is set.
func r1WorkerMain() {
	if os.Getenv("C29_R1_WORKER") == "" {
		return
	}
	hs := map[string]*vrt.Harness{}
	for _, sc := range r1Scenarios() {
		h := r1Harness(sc)
		hs[h.Name] = h
	}
	fd, err := syscall.Dup(1)
	if err != nil {
		os.Exit(2)
	}
	enc := json.NewEncoder(os.NewFile(uintptr(fd), "results"))
	os.Stdout = os.Stderr
	dec := json.NewDecoder(os.Stdin)
	for {
		var j r1job
		if err := dec.Decode(&j); err != nil {
			os.Exit(0)
		}
		h := hs[j.Name]
		if h == nil {
			fmt.Fprintf(os.Stderr, "c29 scenario worker: unknown harness %q\n", j.Name)
			os.Exit(2)
		}
		st := time.Now()
		out := r1jobResult{Name: j.Name, Bound: j.Bound}
		var serr string
		out.SelfTests, serr = r1SelfTest(h)
		if serr != "" {
			out.Res = &vrt.Result{Err: serr}
		} else {
			out.Res = vrt.Explore(h, j.Bound, time.Duration(j.MaxSec)*time.Second)
		}
		out.Seconds = time.Since(st).Seconds()
		enc.Encode(out)
	}
}

// r1Pool runs the jobs on `workers` processes (largest weight first) and returns
// the results in the order of jobs; a job not started within cap has Res == nil.
func r1Pool(run *evid.Run, jobs []r1job, workers int, cap time.Duration) []r1jobResult {
	deadline := time.Now().Add(cap)
	order := make([]int, len(jobs))
	for i := range order {
		order[i] = i
	}
	sort.SliceStable(order, func(a, b int) bool { return jobs[order[a]].weight > jobs[order[b]].weight })
	results := make([]r1jobResult, len(jobs))
	if workers > len(jobs) {
		workers = len(jobs)
	}
	if workers == 0 {
		return results
	}
	jobc := make(chan int, len(jobs))
	for _, i := range order {
		jobc <- i
	}
	close(jobc)
	exe, _ := os.Executable()
	var mu sync.Mutex
	var wg sync.WaitGroup
	var firstErr error
	for w := 0; w < workers; w++ {
		wg.Add(1)
		go func() {
			defer wg.Done()
			fail := func(err error) {
				mu.Lock()
				if firstErr == nil {
					firstErr = err
				}
				mu.Unlock()
			}
			cmd := exec.Command(exe)
			cmd.Env = append(os.Environ(), "C29_R1_WORKER=1", "GOMAXPROCS=1")
			cmd.Stderr = os.Stderr
			in, _ := cmd.StdinPipe()
			out, _ := cmd.StdoutPipe()
			if err := cmd.Start(); err != nil {
				fail(fmt.Errorf("scenario worker start: %v", err))
				return
			}
			enc, dec := json.NewEncoder(in), json.NewDecoder(out)
			for i := range jobc {
				if time.Now().After(deadline) {
					continue // reported as not exhaustive by the caller
				}
				if err := enc.Encode(jobs[i]); err != nil {
					fail(fmt.Errorf("scenario worker write: %v", err))
					break
				}
				var r r1jobResult
				if err := dec.Decode(&r); err != nil {
					fail(fmt.Errorf("scenario worker died on %s: %v", jobs[i].Name, err))
					break
				}
				mu.Lock()
				results[i] = r
				mu.Unlock()
			}
			in.Close()
			cmd.Wait()
		}()
	}
	wg.Wait()
	if firstErr != nil {
		run.Fatal(firstErr)
	}
	return results
}

// r1Report is rep.VRT's reporting for a result explored by a scenario worker.
func r1Report(run *evid.Run, h *vrt.Harness, bound int, res *vrt.Result) {
	if res.Err != "" {
		run.Fatal(fmt.Errorf("%s: %s", h.Name, res.Err))
	}
	run.Eval(res.Executions)
	for k := range res.Outcomes {
		run.Distinct(h.Name + "|" + k)
	}
	if !res.Completed {
		run.NotExhaustive(fmt.Sprintf("%s: time cap hit (bound %d)", h.Name, bound))
	}
	if res.Capped > 0 {
		run.NotExhaustive(fmt.Sprintf("%s: %d executions hit the step horizon", h.Name, res.Capped))
	}
	for _, sm := range res.Samples {
		run.Sample(map[string]interface{}{"harness": h.Name, "schedule": sm})
	}
	for _, v := range res.Violations {
		run.Violation(class(v.Msg), v)
	}
	run.Set("harness:"+h.Name, map[string]interface{}{"executions": res.Executions, "preemption_bound": bound, "completed": res.Completed, "outcomes": len(res.Outcomes), "deadlocks": res.Deadlocks, "max_points": res.MaxPoints, "with_deviation": res.Preempted})
}

// ============================================================== main

func allHarnesses() []*vrt.Harness {
	var hs []*vrt.Harness
	for _, sc := range limiterScenarios() {
		hs = append(hs, limiterHarness(sc))
	}
	for _, sc := range trapScenarios() {
		hs = append(hs, trapHarness(sc))
	}
	for _, sc := range rcScenarios() {
		hs = append(hs, rcHarness(sc))
	}
	for _, sc := range r1Scenarios() {
		hs = append(hs, r1Harness(sc))
	}
	return hs
}

func class(msg string) string {
	m := strings.SplitN(msg, "\n", 2)[0]
	if i := strings.Index(m, " :: "); i >= 0 {
		m = m[:i]
	}
	if len(m) > 140 {
		m = m[:140]
	}
	return m
}

func replay(run *evid.Run, path string) {
	b, err := os.ReadFile(path)
	if err != nil {
		run.Fatal(err)
	}
	var f struct {
		Case vrt.Violation `json:"case"`
	}
	if err := json.Unmarshal(b, &f); err != nil {
		run.Fatal(err)
	}
	for _, h := range allHarnesses() {
		if h.Name == f.Case.Harness {
			x, obs, vio := vrt.Replay(h, f.Case.Choices)
			for i, p := range x.Points {
				fmt.Printf("  %2d  choice %d/%d  %s\n", i, p.Chosen, p.NEnabled, p.Label)
			}
			fmt.Printf("observation: %s\nviolation: %s\n", obs, vio)
			if x.Deadlock {
				fmt.Printf("deadlock: %v\n", x.Blocked)
			}
			if vio != "" || x.Deadlock || x.Panic != "" {
				os.Exit(1)
			}
			os.Exit(0)
		}
	}
	run.Fatal(fmt.Errorf("replay: unknown harness %q", f.Case.Harness))
}

func main() {
	e1q.Main(func(t *testing.T) {
		r1WorkerMain()
		vrt.WorkerMain(allHarnesses())

		run := evid.New("C29", "exploration")
		if p := run.ReplayPath(); p != "" {
			replay(run, p)
		}
		run.Rule = "E1: every interleaving at the sync operations of utils/dedup (preemption-bounded DFS) of 2-3 threads calling the real Limiter.Run / IntervalTrap.Trap plus a thread moving an explicit clock past the task TTL or the GC interval; E1q: every order (deviation-bounded DFS over the enabled set found by synctest quiescence) of {client issues its next Start, a parked request completes, clock advance} on the real RequestCache (directly and behind blobrefresh.Refresher) compared at every quiescent point with a pending/cached-error model; E1 on the RequestCache at lock granularity: for every unordered pair of client programs of 1-2 Starts of one key with scripted outcome ok/err/not-found (78 pairs; plus 3-client and 2-key systems), without and with a clock thread stepping past ErrorTTL, every interleaving (preemption-bounded DFS; thread ends and blocked threads switch for free) of the clients, the cache's own request goroutines (vrt threads through the overlay) and the clock at every Lock, after every Unlock, inside the user ErrorMatcher and inside the request, checked against the statement: never two requests of a key in flight, no request of a key runs from the admission of an earlier one until that one's error (if it failed) can have expired, a Start runs its request exactly once iff it returned nil, reported states have a witness, and a final probe Start per key sees the last error / nothing pending. distinct = distinct outcome classes (per-call results + situations met) per scenario."
		run.Assume("code between two sync operations of utils/dedup is data-race free; the Limiter/IntervalTrap clock moves only at scheduling points (E1)")
		run.Assume("E1q part: RequestCache critical sections (one mutex) are atomic steps: orders are explored at the granularity of request start/completion, Start blocking on the worker semaphore, and timer expiry")
		run.Assume("lock-granularity RequestCache part: more workers than Starts (the semaphore never blocks; the busy path is the E1q part's), clock steps of 11s (past ErrorTTL 10s and CleanupInterval 5s, two steps past NotFoundTTL 20s), preemption bound 1-3 shrinking with the size of the system")
		run.Assume("small-scope: 1-3 keys, 2-3 callers, 1-2 workers, clock advances of 6s/13s (TTL boundaries themselves are not in the alphabet)")

		fpE1 := func(cls string) func(v vrt.Violation) string {
			return func(v vrt.Violation) string { return class(v.Msg) + " [" + cls + "]" }
		}
		bound, maxDur := 2, 20
		if run.Thorough() {
			bound, maxDur = 3, 240
		}
		times := map[string]float64{}
		timed := func(name string) func() {
			st := time.Now()
			return func() { times[name] = float64(time.Since(st).Milliseconds()) / 1000 }
		}
		// determinism self-test: the default schedule, every schedule that deviates
		// from it at exactly one point (capped), and later the explorer's sample
		// schedules are each executed twice; the two runs must agree on the whole
		// sequence of (label, number enabled) and on the observation.
		nSelf := 0
		sig := func(x *vrt.Exec, obs string) string {
			var b strings.Builder
			for _, p := range x.Points {
				fmt.Fprintf(&b, "%s/%d;", p.Label, p.NEnabled)
			}
			return b.String() + " => " + obs
		}
		twice := func(h *vrt.Harness, sched []int) *vrt.Exec {
			x1, o1, _ := vrt.Replay(h, sched)
			x2, o2, _ := vrt.Replay(h, sched)
			nSelf++
			if s1, s2 := sig(x1, o1), sig(x2, o2); s1 != s2 {
				run.Fatal(fmt.Errorf("non-deterministic replay in %s schedule %v:\n%s\nvs\n%s", h.Name, sched, s1, s2))
			}
			return x1
		}
		determinism := func(h *vrt.Harness) {
			x := twice(h, nil)
			n := 0
			for i, p := range x.Points {
				for alt := 1; alt < p.NEnabled && n < 40; alt++ {
					sched := append(append([]int{}, x.Choices()[:i]...), alt)
					twice(h, sched)
					n++
				}
			}
		}
		samples := func(h *vrt.Harness, res *vrt.Result) {
			for _, sm := range res.Samples {
				twice(h, sm)
			}
			for _, v := range res.Violations {
				twice(h, v.Choices)
			}
		}
		for _, sc := range limiterScenarios() {
			if sc.thorough && !run.Thorough() {
				continue
			}
			h := limiterHarness(sc)
			determinism(h)
			cls := "clock stays below the GC interval"
			if sc.gc() {
				cls = "clock passes the GC interval"
			}
			done := timed(h.Name)
			b := bound
			if sc.maxBound > 0 && b > sc.maxBound {
				b = sc.maxBound
			}
			samples(h, rep.VRT(run, h, b, evid.Workers(), maxDur, fpE1(cls)))
			done()
		}
		for _, sc := range trapScenarios() {
			if sc.thorough && !run.Thorough() {
				continue
			}
			h := trapHarness(sc)
			determinism(h)
			done := timed(h.Name)
			samples(h, rep.VRT(run, h, bound, evid.Workers(), maxDur, func(v vrt.Violation) string { return class(v.Msg) }))
			done()
		}
		tagCount := map[string]int{}
		for _, sc := range rcScenarios() {
			if sc.thorough && !run.Thorough() {
				continue
			}
			h := rcHarness(sc)
			determinism(h)
			b := sc.maxSteps + 1 // every order
			if !run.Thorough() && sc.quickB > 0 {
				b = sc.quickB
			}
			done := timed(h.Name)
			res := rep.VRT(run, h, b, evid.Workers(), maxDur, func(v vrt.Violation) string {
				if strings.HasPrefix(v.Msg, "HARNESS") {
					run.Fatal(errors.New(h.Name + ": " + v.Msg))
				}
				if v.Deadlock && strings.HasPrefix(v.Msg, "goroutines still blocked") {
					return "RequestCache: goroutines still blocked after every request was released"
				}
				return class(v.Msg)
			})
			samples(h, res)
			done()
			for o, n := range res.Outcomes {
				if i := strings.Index(o, " tags="); i >= 0 {
					for _, tg := range strings.Split(o[i+6:], ",") {
						if tg != "" {
							tagCount[tg] += n
						}
					}
				}
			}
		}
		// RequestCache at lock granularity (E1): one in-process exploration per
		// scenario, the scenarios spread over worker processes
		r1Outcomes := map[string]int{}
		r1Exec, r1N := 0, 0
		r1Bounds := map[string]int{}
		st := time.Now()
		var jobs []r1job
		byName := map[string]*vrt.Harness{}
		for _, sc := range r1Scenarios() {
			b := sc.quickB
			if run.Thorough() {
				b = sc.thorB
			}
			if b == 0 {
				continue
			}
			h := r1Harness(sc)
			byName[h.Name] = h
			// order: the clock-less two-client systems first, then the rest; larger first within each
			nOps := 0
			for _, cl := range sc.clients {
				nOps += len(cl)
			}
			w := nOps*100 + b*10 + len(sc.clients)
			if len(sc.advances) == 0 && len(sc.clients) == 2 {
				w += 1000000
			} else {
				w += len(sc.advances) * 1000
			}
			jobs = append(jobs, r1job{Name: h.Name, Bound: b, MaxSec: maxDur, weight: w})
		}
		poolCap := 90 * time.Second
		if run.Thorough() {
			poolCap = 600 * time.Second
		}
		for i, jr := range r1Pool(run, jobs, evid.Workers(), poolCap) {
			if jr.Res == nil {
				run.NotExhaustive(fmt.Sprintf("%s: not started before the %v cap of the lock-granularity part", jobs[i].Name, poolCap))
				continue
			}
			h := byName[jr.Name]
			res := jr.Res
			nSelf += jr.SelfTests
			r1Report(run, h, jr.Bound, res)
			samples(h, res)
			r1N++
			r1Exec += res.Executions
			r1Bounds[fmt.Sprintf("bound %d", jr.Bound)]++
			for o, n := range res.Outcomes {
				for _, f := range strings.Fields(o) {
					for _, kind := range []string{"ErrRequestPending", "cached(boom)", "cached(not-found)", "ran:err", "ran:nf", "ran:ok"} {
						if strings.Contains(f, kind) {
							r1Outcomes[kind] += n
						}
					}
				}
			}
		}
		times["reqcache-locks/*"] = float64(time.Since(st).Milliseconds()) / 1000
		run.Set("reqcache_locks", map[string]interface{}{"scenarios": r1N, "scenarios_per_preemption_bound": r1Bounds, "executions": r1Exec, "executions_whose_outcome_contains": r1Outcomes})
		run.Set("executions_containing", tagCount)
		run.Set("seconds_per_harness", times)
		run.Set("schedules_replayed_twice_identically", nSelf)
		run.Finish()
	})
}
