// Package psync is verif/shim/vsync plus a scheduling point AFTER every lock
// release (vsync's release point is before the release takes effect, so plain
// code that follows an Unlock is glued to it: "Unlock(); flag = true" could
// never be separated). C29's Limiter protocol hands a task between callers
// through exactly such flag updates around t.cond.L, so the check wants the
// other threads to be able to run between a release and what follows it.
// Everything else is vsync (the Cond calls back into these lockers).
package psync

import (
	"sync"

	"verif/shim/vsync"
	"verif/vrt"
)

type Locker = sync.Locker
type Map = sync.Map
type Pool = sync.Pool
type WaitGroup = vsync.WaitGroup
type Once = vsync.Once
type Cond = vsync.Cond

func NewCond(l Locker) *Cond { return vsync.NewCond(l) }

type Mutex struct{ m vsync.Mutex }

func (m *Mutex) Lock()         { m.m.Lock() }
func (m *Mutex) TryLock() bool { return m.m.TryLock() }
func (m *Mutex) Unlock() {
	m.m.Unlock()
	vrt.Point("released")
}

type RWMutex struct{ m vsync.RWMutex }

func (m *RWMutex) Lock()          { m.m.Lock() }
func (m *RWMutex) RLock()         { m.m.RLock() }
func (m *RWMutex) TryLock() bool  { return m.m.TryLock() }
func (m *RWMutex) TryRLock() bool { return m.m.TryRLock() }
func (m *RWMutex) Unlock() {
	m.m.Unlock()
	vrt.Point("released")
}
func (m *RWMutex) RUnlock() {
	m.m.RUnlock()
	vrt.Point("rreleased")
}

type rlocker RWMutex

func (r *rlocker) Lock()   { (*RWMutex)(r).RLock() }
func (r *rlocker) Unlock() { (*RWMutex)(r).RUnlock() }

func (m *RWMutex) RLocker() Locker { return (*rlocker)(m) }
