// C39: identifiers and metadata serialize and parse losslessly.
// E4: small-scope exhaustive enumeration of values (round-trip laws) and of
// malformed inputs (accept iff well-formed, against an independently written
// recogniser) on the real parse/print functions of core.Digest, DigestList,
// InfoHash, PeerID, agentstorage piece-status metadata, metadata.LastAccessTime,
// metadata.Persist, metadata.TorrentMeta and the conn handshake (bitfield,
// remote bitfields, full message over the real length-prefixed framing).
package main

import (
	"bytes"
	"encoding/json"
	"fmt"
	"net"
	"reflect"
	"sort"
	"strings"
	"sync"
	"sync/atomic"
	"time"

	"github.com/uber/kraken/core"
	"github.com/uber/kraken/gen/go/proto/p2p"
	"github.com/uber/kraken/lib/store/metadata"
	"github.com/uber/kraken/lib/torrent/scheduler/conn"
	"github.com/uber/kraken/lib/torrent/storage/agentstorage"
	"github.com/willf/bitset"

	"verif/evid"
	_ "verif/quiet"
)

// ---------------------------------------------------------------------------
// Accumulator / runner.

type fail struct {
	fp     string
	detail interface{}
}

type acc struct {
	evals    int64
	counts   map[string]int64
	fails    []fail
	distinct []string
}

func (a *acc) n(k string, d int64) {
	if a.counts == nil {
		a.counts = map[string]int64{}
	}
	a.counts[k] += d
}
func (a *acc) fail(fp string, detail interface{}) {
	if len(a.fails) < 2000 {
		a.fails = append(a.fails, fail{fp, detail})
	}
}
func (a *acc) dist(format string, args ...interface{}) {
	a.distinct = append(a.distinct, fmt.Sprintf(format, args...))
}

// guard runs f; a panic in the code under test is a violation of fp.
func guard(a *acc, what string, detail interface{}, f func()) {
	defer func() {
		if r := recover(); r != nil {
			a.fail("panic in "+what, map[string]interface{}{"input": detail, "panic": fmt.Sprint(r)})
		}
	}()
	a.evals++
	f()
}

type task func(a *acc)

// ---------------------------------------------------------------------------
// Independent recognisers.

func isHex(c byte) bool {
	return (c >= '0' && c <= '9') || (c >= 'a' && c <= 'f') || (c >= 'A' && c <= 'F')
}

func allHex(s string, n int) bool {
	if len(s) != n {
		return false
	}
	for i := 0; i < len(s); i++ {
		if !isHex(s[i]) {
			return false
		}
	}
	return true
}

// wellFormedDigest: 'sha256:' followed by 64 hexadecimal characters.
func wellFormedDigest(s string) bool {
	return len(s) == 71 && s[:7] == "sha256:" && allHex(s[7:], 64)
}

func malformedReason(s string) string {
	if !strings.HasPrefix(s, "sha256:") {
		return "prefix is not 'sha256:'"
	}
	if len(s) != 71 {
		return "body is not 64 characters"
	}
	return "non-hexadecimal character in body"
}

func q(s string) string { return fmt.Sprintf("%q", s) }

// ---------------------------------------------------------------------------
// Digest.

const lower64 = "0123456789abcdef0123456789abcdef0123456789abcdef0123456789abcdef"
const hexChars = "0123456789abcdefABCDEF"

// characters for each class a parser may distinguish, including the
// neighbours of the hex ranges in ASCII.
var classChars = []string{"0", "9", "a", "f", "A", "F", "g", "G", ":", " ", "\x00", "/", "@", "`", "é", "\xff", "x", "-"}
var nonHexChars = []string{"g", "G", ":", " ", "\x00", "/", "@", "`", "é", "\xff", "x", "-"}

func validDigest(a *acc, body string) {
	raw := "sha256:" + body
	guard(a, "digest parse/print", raw, func() {
		a.n("digest_valid_values", 1)
		a.dist("DV%s", body)
		d, err := core.ParseSHA256Digest(raw)
		if err != nil {
			a.fail("digest: ParseSHA256Digest rejects well-formed input", map[string]interface{}{"input": raw, "err": err.Error()})
			return
		}
		if d.String() != raw || d.Hex() != body || d.Algo() != "sha256" {
			a.fail("digest: String/ParseSHA256Digest round trip", map[string]interface{}{"input": raw, "String": d.String(), "Hex": d.Hex(), "Algo": d.Algo()})
			return
		}
		if d2, err := core.ParseSHA256Digest(d.String()); err != nil || d2 != d {
			a.fail("digest: String/ParseSHA256Digest round trip", map[string]interface{}{"input": raw, "reparsed": fmt.Sprint(d2), "err": fmt.Sprint(err)})
		}
		if d3, err := core.NewSHA256DigestFromHex(d.Hex()); err != nil || d3 != d {
			a.fail("digest: Hex/NewSHA256DigestFromHex round trip", map[string]interface{}{"input": raw, "got": fmt.Sprint(d3), "err": fmt.Sprint(err)})
		}
		b, err := json.Marshal(d)
		var d4 core.Digest
		if err == nil {
			err = json.Unmarshal(b, &d4)
		}
		if err != nil || d4 != d {
			a.fail("digest: JSON round trip", map[string]interface{}{"input": raw, "json": string(b), "got": fmt.Sprint(d4), "err": fmt.Sprint(err)})
		}
		// as a struct field and a map value (how kraken embeds digests)
		type holder struct {
			D core.Digest
			M map[string]core.Digest
		}
		hb, err := json.Marshal(holder{d, map[string]core.Digest{"k": d}})
		var h holder
		if err == nil {
			err = json.Unmarshal(hb, &h)
		}
		if err != nil || h.D != d || h.M["k"] != d {
			a.fail("digest: JSON round trip", map[string]interface{}{"input": raw, "json": string(hb), "err": fmt.Sprint(err)})
		}
		v, err := d.Value()
		var d5 core.Digest
		if err == nil {
			bs, ok := v.([]byte)
			if !ok {
				err = fmt.Errorf("Value() returned %T", v)
			} else {
				err = d5.Scan(bs)
			}
		}
		if err != nil || d5 != d {
			a.fail("digest: SQL Value/Scan round trip", map[string]interface{}{"input": raw, "got": fmt.Sprint(d5), "err": fmt.Sprint(err)})
		}
	})
}

// candidateDigest feeds an arbitrary string to every digest parser and
// compares acceptance with the recogniser.
func candidateDigest(a *acc, s string, trivial bool) {
	wf := wellFormedDigest(s)
	if wf {
		a.n("digest_candidates_well_formed", 1)
	} else {
		a.n("digest_candidates_malformed", 1)
	}
	if !trivial {
		a.dist("DC%s", s)
	}
	guard(a, "ParseSHA256Digest", q(s), func() {
		d, err := core.ParseSHA256Digest(s)
		switch {
		case err == nil && !wf:
			a.fail("digest: ParseSHA256Digest accepts malformed input ("+malformedReason(s)+")", map[string]interface{}{"input": q(s), "parsed_as": d.String()})
		case err != nil && wf:
			a.fail("digest: ParseSHA256Digest rejects well-formed input", map[string]interface{}{"input": q(s), "err": err.Error()})
		case err == nil && d.String() != s:
			a.fail("digest: String/ParseSHA256Digest round trip", map[string]interface{}{"input": q(s), "String": d.String()})
		}
	})
	guard(a, "Digest.UnmarshalJSON/Scan", q(s), func() {
		qb, err := json.Marshal(s)
		if err != nil {
			return
		}
		var back string
		if err := json.Unmarshal(qb, &back); err != nil {
			return
		}
		wfj := wellFormedDigest(back)
		var d core.Digest
		err = json.Unmarshal(qb, &d)
		var d2 core.Digest
		err2 := d2.Scan(qb)
		if (err == nil) != (err2 == nil) {
			a.fail("digest: Scan and UnmarshalJSON disagree", map[string]interface{}{"input": q(s)})
		}
		switch {
		case err == nil && !wfj:
			a.fail("digest: UnmarshalJSON accepts malformed input ("+malformedReason(back)+")", map[string]interface{}{"input": q(s), "parsed_as": d.String()})
		case err != nil && wfj:
			a.fail("digest: UnmarshalJSON rejects well-formed input", map[string]interface{}{"input": q(s), "err": err.Error()})
		case err == nil && d.String() != back:
			a.fail("digest: JSON round trip", map[string]interface{}{"input": q(s), "String": d.String()})
		}
	})
}

func candidateHexBody(a *acc, body string) {
	wf := allHex(body, 64)
	guard(a, "NewSHA256DigestFromHex", q(body), func() {
		d, err := core.NewSHA256DigestFromHex(body)
		switch {
		case err == nil && !wf:
			why := "non-hexadecimal character in body"
			if len(body) != 64 {
				why = "body is not 64 characters"
			}
			a.fail("digest: NewSHA256DigestFromHex accepts malformed input ("+why+")", map[string]interface{}{"input": q(body)})
		case err != nil && wf:
			a.fail("digest: NewSHA256DigestFromHex rejects well-formed input", map[string]interface{}{"input": q(body), "err": err.Error()})
		case err == nil && (d.Hex() != body || d.String() != "sha256:"+body):
			a.fail("digest: Hex/NewSHA256DigestFromHex round trip", map[string]interface{}{"input": q(body), "String": d.String()})
		}
	})
}

func replaceAt(s string, p int, c string) string { return s[:p] + c + s[p+1:] }

func bodiesOfLen(l int) string {
	b := lower64 + lower64
	return b[:l]
}

var digestPrefixes = []string{"sha256:", "sha256", "SHA256:", "Sha256:", "sha255:", "sha25:", "sha2566:", " sha256:", "sha256 :", "sha256: ", "sha256::", ":", "", "sha512:", "sha1:", "md5:", "sha256;", "sha256:sha256:", "\x00sha256:", "sha256:\x00", "sha256："}
var digestSuffixes = []string{"", " ", "\n", ":", ":ab", "\x00", "0", "g"}

func shortStrings(maxLen int) []string {
	alpha := []string{"s", "h", "a", "2", ":", "g", "G", " "}
	out := []string{""}
	prev := []string{""}
	for l := 1; l <= maxLen; l++ {
		var cur []string
		for _, p := range prev {
			for _, c := range alpha {
				cur = append(cur, p+c)
			}
		}
		out = append(out, cur...)
		prev = cur
	}
	return out
}

func digestTasks(thorough bool) []task {
	var ts []task
	// valid values
	var bodies []string
	bodies = append(bodies, lower64, strings.ToUpper(lower64), strings.Repeat("0", 64), strings.Repeat("f", 64), strings.Repeat("F", 64), strings.Repeat("aB3", 21)+"d")
	for _, in := range []string{"", "a", "kraken"} {
		d, err := core.NewDigester().FromBytes([]byte(in))
		if err != nil {
			panic(err)
		}
		bodies = append(bodies, d.Hex())
	}
	for p := 0; p < 64; p++ {
		for i := 0; i < len(hexChars); i++ {
			bodies = append(bodies, replaceAt(lower64, p, hexChars[i:i+1]))
		}
	}
	for i := 0; i < len(bodies); i += 100 {
		chunk := bodies[i:min(i+100, len(bodies))]
		ts = append(ts, func(a *acc) {
			for _, b := range chunk {
				validDigest(a, b)
			}
		})
	}
	// short strings (all trivially malformed)
	k := 2
	if thorough {
		k = 3
	}
	short := shortStrings(k)
	ts = append(ts, func(a *acc) {
		for _, s := range short {
			candidateDigest(a, s, true)
			candidateHexBody(a, s)
			a.n("short_strings", 1)
		}
	})
	// every single byte value at every position of a 64-character body (the
	// character-class list below cannot anticipate which bytes a hand-written
	// hex test confuses with digits or letters)
	ts = append(ts, func(a *acc) {
		base := bodiesOfLen(64)
		for p := 0; p < 64; p++ {
			for c := 0; c < 256; c++ {
				b := base[:p] + string([]byte{byte(c)}) + base[p+1:]
				candidateDigest(a, "sha256:"+b, false)
				candidateHexBody(a, b)
				a.n("all_bytes_at_every_position", 1)
			}
		}
	})
	// prefix x body x suffix
	lens := []int{64}
	for _, l := range []int{63, 65, 0, 1, 62, 66, 128} {
		lens = append(lens, l)
	}
	for _, pre := range digestPrefixes {
		for _, l := range lens {
			pre, l := pre, l
			if !thorough && l != 64 && pre != "sha256:" && pre != "sha256" && pre != "" && pre != "sha256::" {
				continue
			}
			ts = append(ts, func(a *acc) {
				base := bodiesOfLen(l)
				var bs []string
				bs = append(bs, base)
				if l >= 62 && l <= 66 {
					for p := 0; p < l; p++ {
						for _, c := range classChars {
							bs = append(bs, replaceAt(base, p, c))
						}
					}
				}
				for _, b := range bs {
					for _, suf := range digestSuffixes {
						candidateDigest(a, pre+b+suf, false)
					}
					if pre == "sha256:" {
						for _, suf := range digestSuffixes {
							candidateHexBody(a, b+suf)
						}
					}
				}
			})
		}
	}
	return ts
}

// ---------------------------------------------------------------------------
// DigestList.

func digestListTasks(thorough bool) []task {
	mk := func(body string) core.Digest {
		d, err := core.NewSHA256DigestFromHex(body)
		if err != nil {
			panic(err)
		}
		return d
	}
	ds := []core.Digest{mk(lower64), mk(strings.ToUpper(lower64)), mk(strings.Repeat("0", 64))}
	maxLen := 3
	if thorough {
		maxLen = 5
	}
	var lists []core.DigestList
	lists = append(lists, nil, core.DigestList{})
	var rec func(cur core.DigestList)
	rec = func(cur core.DigestList) {
		if len(cur) > 0 {
			lists = append(lists, append(core.DigestList{}, cur...))
		}
		if len(cur) == maxLen {
			return
		}
		for _, d := range ds {
			rec(append(cur, d))
		}
	}
	rec(nil)
	var ts []task
	ts = append(ts, func(a *acc) {
		for _, l := range lists {
			l := l
			guard(a, "DigestList Value/Scan", fmt.Sprint(l), func() {
				a.n("digest_lists", 1)
				a.dist("DL%v/%v", l == nil, l)
				v, err := l.Value()
				if err != nil {
					a.fail("digest list: Value fails", map[string]interface{}{"list": fmt.Sprint(l), "err": err.Error()})
					return
				}
				bs, ok := v.([]byte)
				if !ok {
					a.fail("digest list: Value is not []byte", fmt.Sprintf("%T", v))
					return
				}
				var back core.DigestList
				if err := back.Scan(bs); err != nil {
					a.fail("digest list: Scan rejects what Value printed", map[string]interface{}{"list": fmt.Sprint(l), "printed": string(bs), "err": err.Error()})
					return
				}
				if !reflect.DeepEqual(back, l) {
					a.fail("digest list: SQL Value/Scan round trip", map[string]interface{}{"list": fmt.Sprint(l), "printed": string(bs), "got": fmt.Sprint(back)})
				}
				jb, err := json.Marshal(l)
				var jback core.DigestList
				if err == nil {
					err = json.Unmarshal(jb, &jback)
				}
				if err != nil || !reflect.DeepEqual(jback, l) {
					a.fail("digest list: JSON round trip", map[string]interface{}{"list": fmt.Sprint(l), "json": string(jb), "err": fmt.Sprint(err)})
				}
			})
		}
	})
	// malformed: a list whose element at position p is a malformed digest, and
	// non-list documents.
	bad := []string{"", "sha256:", "sha256:" + lower64[:63], "sha256:" + lower64 + "0", "sha256:" + replaceAt(lower64, 5, "g"), lower64, "sha512:" + lower64, "sha256:" + lower64 + ":x"}
	ts = append(ts, func(a *acc) {
		for n := 1; n <= 3; n++ {
			for p := 0; p < n; p++ {
				for _, b := range bad {
					elems := make([]string, n)
					for i := range elems {
						elems[i] = ds[i%len(ds)].String()
					}
					elems[p] = b
					doc, _ := json.Marshal(elems)
					guard(a, "DigestList.Scan", string(doc), func() {
						a.n("digest_lists_malformed", 1)
						a.dist("DLM%d/%d/%s", n, p, b)
						var l core.DigestList
						if err := l.Scan(doc); err == nil {
							a.fail("digest list: Scan accepts a list with a malformed digest ("+malformedReason(b)+")", map[string]interface{}{"input": string(doc), "parsed_as": fmt.Sprint(l)})
						}
					})
				}
			}
		}
		for _, doc := range []string{"", "[", "{}", "3", `"` + ds[0].String() + `"`, "[1]", "[null", `[["` + ds[0].String() + `"]]`, `["` + ds[0].String() + `"`} {
			doc := doc
			guard(a, "DigestList.Scan", doc, func() {
				a.n("digest_lists_malformed", 1)
				a.dist("DLN%s", doc)
				var l core.DigestList
				if err := l.Scan([]byte(doc)); err == nil {
					a.fail("digest list: Scan accepts a document that is not a list of digests", map[string]interface{}{"input": doc, "parsed_as": fmt.Sprint(l)})
				}
			})
		}
	})
	return ts
}

// ---------------------------------------------------------------------------
// InfoHash / PeerID (20 bytes, printed as 40 lowercase hex characters).

func twentyByteValues() [][20]byte {
	var out [][20]byte
	var z, f, c [20]byte
	for i := range f {
		f[i] = 0xff
		c[i] = byte(i*13 + 7)
	}
	out = append(out, z, f, c)
	for p := 0; p < 20; p++ {
		for b := 1; b < 256; b++ {
			var v [20]byte
			v[p] = byte(b)
			out = append(out, v)
		}
	}
	for i := 0; i < 32; i++ {
		out = append(out, core.NewInfoHashFromBytes([]byte{byte(i)}))
	}
	return out
}

const lower40 = "0123456789abcdef0123456789abcdef01234567"

// malformed 40-ish hex strings: wrong lengths and one non-hex character.
func malformedHex20() []string {
	var out []string
	for _, l := range []int{0, 1, 2, 19, 20, 38, 39, 41, 42, 60, 80} {
		out = append(out, (lower40 + lower40)[:l])
	}
	for p := 0; p < 40; p++ {
		for _, c := range nonHexChars {
			out = append(out, replaceAt(lower40, p, c))
		}
	}
	// right byte length, wrong content: 39 hex + 1 two-byte rune replaced -> 40 bytes
	out = append(out, lower40[:38]+"é", " "+lower40[:39], lower40[:39]+" ", lower40+"\n", "0x"+lower40[:38])
	return out
}

func idTasks() []task {
	vals := twentyByteValues()
	var ts []task
	for i := 0; i < len(vals); i += 500 {
		chunk := vals[i:min(i+500, len(vals))]
		ts = append(ts, func(a *acc) {
			for _, v := range chunk {
				v := v
				guard(a, "InfoHash print/parse", fmt.Sprintf("%x", v), func() {
					a.n("infohash_values", 1)
					a.dist("IH%x", v)
					h := core.InfoHash(v)
					back, err := core.NewInfoHashFromHex(h.Hex())
					if err != nil || back != h {
						a.fail("info hash: Hex/NewInfoHashFromHex round trip", map[string]interface{}{"value": fmt.Sprintf("%x", v), "printed": h.Hex(), "err": fmt.Sprint(err)})
					}
					back2, err := core.NewInfoHashFromHex(h.String())
					if err != nil || back2 != h {
						a.fail("info hash: String/NewInfoHashFromHex round trip", map[string]interface{}{"value": fmt.Sprintf("%x", v), "printed": h.String(), "err": fmt.Sprint(err)})
					}
					var back3 core.InfoHash
					if n := copy(back3[:], h.Bytes()); n != 20 || back3 != h {
						a.fail("info hash: Bytes round trip", map[string]interface{}{"value": fmt.Sprintf("%x", v)})
					}
				})
				guard(a, "PeerID print/parse", fmt.Sprintf("%x", v), func() {
					a.n("peerid_values", 1)
					a.dist("PI%x", v)
					p := core.PeerID(v)
					back, err := core.NewPeerID(p.String())
					if err != nil || back != p {
						a.fail("peer id: String/NewPeerID round trip", map[string]interface{}{"value": fmt.Sprintf("%x", v), "printed": p.String(), "err": fmt.Sprint(err)})
					}
				})
			}
		})
	}
	bad := malformedHex20()
	ts = append(ts, func(a *acc) {
		for _, s := range bad {
			s := s
			if allHex(s, 40) {
				panic("harness: malformed list contains a well-formed string")
			}
			why := "non-hexadecimal character"
			if len(s) != 40 {
				why = "not 40 characters"
			}
			guard(a, "NewInfoHashFromHex", q(s), func() {
				a.n("infohash_malformed", 1)
				a.dist("IHM%s", s)
				if h, err := core.NewInfoHashFromHex(s); err == nil {
					a.fail("info hash: NewInfoHashFromHex accepts malformed input ("+why+")", map[string]interface{}{"input": q(s), "parsed_as": h.Hex()})
				}
			})
			guard(a, "NewPeerID", q(s), func() {
				a.n("peerid_malformed", 1)
				a.dist("PIM%s", s)
				if p, err := core.NewPeerID(s); err == nil {
					a.fail("peer id: NewPeerID accepts malformed input ("+why+")", map[string]interface{}{"input": q(s), "parsed_as": p.String()})
				}
			})
		}
	})
	return ts
}

// ---------------------------------------------------------------------------
// Piece-status vectors.

func pieceStatusTasks(thorough bool) []task {
	maxLen := 9
	if thorough {
		maxLen = 14
	}
	var ts []task
	for l := 0; l <= maxLen; l++ {
		l := l
		ts = append(ts, func(a *acc) {
			for bits := 0; bits < 1<<uint(l); bits++ {
				st := make([]int, l)
				for i := range st {
					st[i] = (bits >> uint(i)) & 1
				}
				guard(a, "piece status Serialize/Deserialize", fmt.Sprint(st), func() {
					a.n("piece_status_vectors", 1)
					a.dist("PS%d/%d", l, bits)
					b, err := agentstorage.VerifPieceStatusSerialize(st)
					if err != nil {
						a.fail("piece status: Serialize fails", map[string]interface{}{"vector": st, "err": err.Error()})
						return
					}
					back, err := agentstorage.VerifPieceStatusDeserialize(b)
					if err != nil {
						a.fail("piece status: Deserialize rejects what Serialize wrote", map[string]interface{}{"vector": st, "bytes": fmt.Sprintf("%x", b), "err": err.Error()})
						return
					}
					if len(back) != len(st) || (len(st) > 0 && !reflect.DeepEqual(back, st)) {
						a.fail("piece status: Serialize/Deserialize round trip", map[string]interface{}{"vector": st, "bytes": fmt.Sprintf("%x", b), "got": back})
					}
				})
			}
		})
	}
	return ts
}

// ---------------------------------------------------------------------------
// LastAccessTime.

func freshMD(suffix string) metadata.Metadata { return metadata.CreateFromSuffix(suffix) }

func latRoundTrip(a *acc, t time.Time, label string) {
	guard(a, "LastAccessTime Serialize/Deserialize", label, func() {
		a.n("access_times", 1)
		lat := metadata.NewLastAccessTime(t)
		b, err := lat.Serialize()
		if err != nil {
			a.fail("last access time: Serialize fails", map[string]interface{}{"unix": t.Unix(), "err": err.Error()})
			return
		}
		md := freshMD(lat.GetSuffix())
		back, ok := md.(*metadata.LastAccessTime)
		if !ok {
			a.fail("last access time: registry does not create LastAccessTime", fmt.Sprintf("%T", md))
			return
		}
		if err := back.Deserialize(b); err != nil {
			a.fail("last access time: Deserialize rejects what Serialize wrote", map[string]interface{}{"unix": t.Unix(), "bytes": fmt.Sprintf("%x", b), "err": err.Error()})
			return
		}
		if back.Time.Unix() != t.Unix() || back.Time.Nanosecond() != 0 {
			a.fail("last access time: Serialize/Deserialize round trip (second granularity)", map[string]interface{}{"unix": t.Unix(), "bytes": fmt.Sprintf("%x", b), "got_unix": back.Time.Unix(), "got_nsec": back.Time.Nanosecond()})
		}
	})
}

func accessTimeTasks(thorough bool) []task {
	var ts []task
	year9999 := time.Date(9999, 12, 31, 23, 59, 59, 0, time.UTC).Unix()
	specials := []int64{0, 1, -1, 1<<31 - 1, 1 << 31, 1<<31 + 1, -(1 << 31), 1<<32 - 1, 1 << 32, year9999, year9999 - 1, time.Time{}.Unix(), time.Time{}.Unix() + 1}
	zones := []*time.Location{time.UTC, time.Local, time.FixedZone("x", 5*3600+1800), time.FixedZone("y", -11*3600)}
	ts = append(ts, func(a *acc) {
		for _, s := range specials {
			for _, ns := range []int64{0, 1, 500000000, 999999999} {
				for zi, z := range zones {
					a.dist("LATs%d/%d/%d", s, ns, zi)
					latRoundTrip(a, time.Unix(s, ns).In(z), fmt.Sprintf("unix=%d nsec=%d zone=%d", s, ns, zi))
				}
			}
		}
		a.dist("LATzero")
		latRoundTrip(a, time.Time{}, "zero time.Time")
	})
	// dense sweeps around the varint byte boundaries (zig-zag: value v >= 0 is
	// encoded as 2v, so lengths change at 2^6, 2^13, 2^20, 2^27, 2^34), both
	// signs, and around a present-day timestamp.
	w := int64(1500)
	if thorough {
		w = 10000
	}
	centers := []int64{1 << 6, 1 << 13, 1 << 20, 1 << 27, 1 << 34, 1790000000}
	for _, c := range centers {
		for _, sign := range []int64{1, -1} {
			c, sign := c, sign
			for lo := c - w; lo < c+w; lo += 1000 {
				lo := lo
				hi := min(lo+1000, c+w)
				ts = append(ts, func(a *acc) {
					for s := lo; s < hi; s++ {
						v := sign * s
						if v < (time.Time{}).Unix() {
							continue
						}
						a.dist("LAT%d", v)
						latRoundTrip(a, time.Unix(v, 0), fmt.Sprintf("unix=%d", v))
					}
				})
			}
		}
	}
	// malformed: no complete varint.
	ts = append(ts, func(a *acc) {
		bad := [][]byte{nil, {}, {0x80}, {0x80, 0x80}, {0xff, 0xff, 0xff}, bytes.Repeat([]byte{0xff}, 10), bytes.Repeat([]byte{0xff}, 11), bytes.Repeat([]byte{0x80}, 12)}
		for _, b := range bad {
			b := b
			guard(a, "LastAccessTime.Deserialize", fmt.Sprintf("%x", b), func() {
				a.n("access_times_malformed", 1)
				a.dist("LATM%x/%v", b, b == nil)
				md := freshMD(metadata.NewLastAccessTime(time.Time{}).GetSuffix())
				if err := md.Deserialize(b); err == nil {
					a.fail("last access time: Deserialize accepts bytes that are not a complete varint", map[string]interface{}{"bytes": fmt.Sprintf("%x", b), "parsed_as_unix": md.(*metadata.LastAccessTime).Time.Unix()})
				}
			})
		}
	})
	return ts
}

// ---------------------------------------------------------------------------
// Persist.

func persistTasks() []task {
	return []task{func(a *acc) {
		for _, v := range []bool{true, false} {
			for _, start := range []bool{true, false} {
				v, start := v, start
				guard(a, "Persist Serialize/Deserialize", v, func() {
					a.n("persist_values", 1)
					a.dist("P%v/%v", v, start)
					p := metadata.NewPersist(v)
					b, err := p.Serialize()
					if err != nil {
						a.fail("persist: Serialize fails", err.Error())
						return
					}
					md := freshMD(p.GetSuffix())
					back, ok := md.(*metadata.Persist)
					if !ok {
						a.fail("persist: registry does not create Persist", fmt.Sprintf("%T", md))
						return
					}
					back.Value = start // prior content of the receiver must not matter
					if err := back.Deserialize(b); err != nil {
						a.fail("persist: Deserialize rejects what Serialize wrote", map[string]interface{}{"value": v, "bytes": string(b), "err": err.Error()})
						return
					}
					if back.Value != v {
						a.fail("persist: Serialize/Deserialize round trip", map[string]interface{}{"value": v, "bytes": string(b), "got": back.Value})
					}
				})
			}
		}
		// strings that are not a boolean in any spelling
		bad := []string{"", " ", "x", "tru", "truee", "true ", " true", "true\n", "yes", "no", "2", "-1", "10", "truefalse", "\x00", "true\x00", "nil", "null", "fals", "falsee", "tr ue", "\"true\""}
		for _, s := range bad {
			for _, start := range []bool{true, false} {
				s, start := s, start
				guard(a, "Persist.Deserialize", q(s), func() {
					a.n("persist_malformed", 1)
					a.dist("PM%s/%v", s, start)
					p := &metadata.Persist{Value: start}
					if err := p.Deserialize([]byte(s)); err == nil {
						a.fail("persist: Deserialize accepts bytes that are not a boolean", map[string]interface{}{"input": q(s), "parsed_as": p.Value})
					}
				})
			}
		}
	}}
}

// ---------------------------------------------------------------------------
// TorrentMeta.

func torrentMetaTasks() []task {
	return []task{func(a *acc) {
		for n := 0; n <= 9; n++ {
			for pl := int64(1); pl <= 4; pl++ {
				n, pl := n, pl
				guard(a, "TorrentMeta Serialize/Deserialize", fmt.Sprintf("len=%d pl=%d", n, pl), func() {
					a.n("torrent_metas", 1)
					a.dist("TM%d/%d", n, pl)
					data := make([]byte, n)
					for i := range data {
						data[i] = byte(i*7 + 1)
					}
					d, err := core.NewDigester().FromBytes(data)
					if err != nil {
						panic(err)
					}
					mi, err := core.NewMetaInfoFromBytes(d, data, pl)
					if err != nil {
						panic(err)
					}
					tm := metadata.NewTorrentMeta(mi)
					b, err := tm.Serialize()
					if err != nil {
						a.fail("torrent meta: Serialize fails", err.Error())
						return
					}
					md := freshMD(tm.GetSuffix())
					back, ok := md.(*metadata.TorrentMeta)
					if !ok {
						a.fail("torrent meta: registry does not create TorrentMeta", fmt.Sprintf("%T", md))
						return
					}
					if err := back.Deserialize(b); err != nil {
						a.fail("torrent meta: Deserialize rejects what Serialize wrote", map[string]interface{}{"len": n, "pl": pl, "bytes": string(b), "err": err.Error()})
						return
					}
					bm := back.MetaInfo
					same := bm != nil && bm.InfoHash() == mi.InfoHash() && bm.Digest() == mi.Digest() && bm.Length() == mi.Length() && bm.PieceLength() == mi.PieceLength() && bm.NumPieces() == mi.NumPieces()
					for i := 0; same && i < mi.NumPieces(); i++ {
						same = bm.GetPieceSum(i) == mi.GetPieceSum(i) && bm.GetPieceLength(i) == mi.GetPieceLength(i)
					}
					if !same {
						a.fail("torrent meta: Serialize/Deserialize round trip", map[string]interface{}{"len": n, "pl": pl, "bytes": string(b)})
					}
				})
			}
		}
		for _, s := range []string{"", "{", "[]", "{}", `{"Info":{}}`, `{"Info":{"Name":"zz","Length":1,"PieceLength":1,"PieceSums":[1]}}`, `{"Info":{"Name":"sha256:` + lower64 + `"}}`, `{"Info":{"Name":"` + lower64[:63] + `"}}`} {
			s := s
			guard(a, "TorrentMeta.Deserialize", s, func() {
				a.n("torrent_metas_malformed", 1)
				a.dist("TMM%s", s)
				var tm metadata.TorrentMeta
				if err := tm.Deserialize([]byte(s)); err == nil {
					a.fail("torrent meta: Deserialize accepts a document without a valid digest name", map[string]interface{}{"input": s})
				}
			})
		}
	}}
}

// ---------------------------------------------------------------------------
// Handshake bitfields.

type bufConn struct{ bytes.Buffer }

func (c *bufConn) Close() error                       { return nil }
func (c *bufConn) LocalAddr() net.Addr                { return nil }
func (c *bufConn) RemoteAddr() net.Addr               { return nil }
func (c *bufConn) SetDeadline(t time.Time) error      { return nil }
func (c *bufConn) SetReadDeadline(t time.Time) error  { return nil }
func (c *bufConn) SetWriteDeadline(t time.Time) error { return nil }

// mkBits builds a bitfield of size n the way kraken does (bitset.New(n) then
// Set for each member); grown=true builds it by Set alone from an empty set
// (length = highest member + 1, spare capacity).
func mkBits(n int, member func(i int) bool, grown bool) *bitset.BitSet {
	var b *bitset.BitSet
	if grown {
		b = bitset.New(0)
	} else {
		b = bitset.New(uint(n))
	}
	for i := 0; i < n; i++ {
		if member(i) {
			b.Set(uint(i))
		}
	}
	return b
}

func bitsEqual(x, y *bitset.BitSet) bool {
	if x == nil || y == nil {
		return x == y
	}
	if x.Len() != y.Len() {
		return false
	}
	for i := uint(0); i < x.Len(); i++ {
		if x.Test(i) != y.Test(i) {
			return false
		}
	}
	return true
}

func bitsString(b *bitset.BitSet) string {
	if b == nil {
		return "nil"
	}
	var sb strings.Builder
	fmt.Fprintf(&sb, "len=%d:", b.Len())
	for i := uint(0); i < b.Len(); i++ {
		if b.Test(i) {
			sb.WriteByte('1')
		} else {
			sb.WriteByte('0')
		}
	}
	return sb.String()
}

type pattern struct {
	name   string
	member func(n, i int) bool
}

func patternsFor(n int) []pattern {
	ps := []pattern{
		{"none", func(n, i int) bool { return false }},
		{"all", func(n, i int) bool { return true }},
		{"even", func(n, i int) bool { return i%2 == 0 }},
		{"odd", func(n, i int) bool { return i%2 == 1 }},
		{"low-half", func(n, i int) bool { return i < n/2 }},
		{"high-half", func(n, i int) bool { return i >= n/2 }},
	}
	for k := 0; k < n; k++ {
		k := k
		ps = append(ps, pattern{fmt.Sprintf("only-%d", k), func(n, i int) bool { return i == k }})
	}
	return ps
}

var (
	hsPeer   = core.PeerID{1, 2, 3, 0xff, 0, 0x10}
	hsPeers  = []core.PeerID{{9}, {0, 0, 0, 0, 0, 0, 0, 0, 0, 0, 0, 0, 0, 0, 0, 0, 0, 0, 0, 7}, {0xab, 0xcd}}
	hsHash   = core.NewInfoHashFromBytes([]byte("c39"))
	hsDigest = func() core.Digest {
		d, err := core.NewSHA256DigestFromHex(lower64)
		if err != nil {
			panic(err)
		}
		return d
	}()
)

func remoteEqual(x, y conn.RemoteBitfields) string {
	if len(x) != len(y) {
		return fmt.Sprintf("%d vs %d remote bitfields", len(x), len(y))
	}
	for k, v := range x {
		w, ok := y[k]
		if !ok {
			return "peer " + k.String() + " missing"
		}
		if !bitsEqual(v, w) {
			return fmt.Sprintf("peer %s: %s vs %s", k, bitsString(v), bitsString(w))
		}
	}
	return ""
}

// wire sends h through toP2PMessage, the real framing, and back.
func wire(h conn.VerifHandshake) (conn.VerifHandshake, error) {
	m, err := conn.VerifHandshakeToMessage(h)
	if err != nil {
		return conn.VerifHandshake{}, fmt.Errorf("toP2PMessage: %v", err)
	}
	c := &bufConn{}
	if err := conn.VerifSendMessage(c, m); err != nil {
		return conn.VerifHandshake{}, fmt.Errorf("sendMessage: %v", err)
	}
	m2, err := conn.VerifReadMessage(c)
	if err != nil {
		return conn.VerifHandshake{}, fmt.Errorf("readMessage: %v", err)
	}
	if c.Len() != 0 {
		return conn.VerifHandshake{}, fmt.Errorf("readMessage left %d bytes", c.Len())
	}
	return conn.VerifHandshakeFromMessage(m2)
}

func handshakeRoundTrip(a *acc, h conn.VerifHandshake, label string) {
	guard(a, "handshake serialize/parse", label, func() {
		a.n("handshakes", 1)
		back, err := wire(h)
		if err != nil {
			a.fail("handshake: parse rejects a serialized handshake", map[string]interface{}{"case": label, "err": err.Error()})
			return
		}
		switch {
		case !bitsEqual(back.Bitfield, h.Bitfield):
			a.fail("handshake: bitfield round trip", map[string]interface{}{"case": label, "sent": bitsString(h.Bitfield), "got": bitsString(back.Bitfield)})
		case remoteEqual(h.RemoteBitfields, back.RemoteBitfields) != "":
			a.fail("handshake: remote bitfields round trip", map[string]interface{}{"case": label, "diff": remoteEqual(h.RemoteBitfields, back.RemoteBitfields)})
		case back.PeerID != h.PeerID:
			a.fail("handshake: peer id round trip", map[string]interface{}{"case": label, "got": back.PeerID.String()})
		case back.InfoHash != h.InfoHash:
			a.fail("handshake: info hash round trip", map[string]interface{}{"case": label, "got": back.InfoHash.String()})
		case back.Digest != h.Digest:
			a.fail("handshake: digest round trip", map[string]interface{}{"case": label, "got": back.Digest.String()})
		case back.Namespace != h.Namespace:
			a.fail("handshake: namespace round trip", map[string]interface{}{"case": label, "got": back.Namespace})
		}
	})
}

func bitsetRoundTrip(a *acc, b *bitset.BitSet, label string) {
	guard(a, "bitfield MarshalBinary/UnmarshalBinary", label, func() {
		a.n("bitfields", 1)
		bs, err := b.MarshalBinary()
		if err != nil {
			a.fail("bitfield: MarshalBinary fails", map[string]interface{}{"case": label, "err": err.Error()})
			return
		}
		back := bitset.New(0)
		if err := back.UnmarshalBinary(bs); err != nil {
			a.fail("bitfield: UnmarshalBinary rejects what MarshalBinary wrote", map[string]interface{}{"case": label, "err": err.Error()})
			return
		}
		if !bitsEqual(b, back) {
			a.fail("bitfield: MarshalBinary/UnmarshalBinary round trip", map[string]interface{}{"case": label, "sent": bitsString(b), "got": bitsString(back)})
		}
	})
}

func handshakeTasks(thorough bool) []task {
	var ts []task
	maxSize := 130
	if thorough {
		maxSize = 200
	}
	rich := map[int]bool{0: true, 1: true, 2: true, 63: true, 64: true, 65: true, 127: true, 128: true, 129: true, 130: true}
	namespaces := []string{"", "ns", "library/a:b/c", "é世", "x\x00y"}
	for n := 0; n <= maxSize; n++ {
		n := n
		ts = append(ts, func(a *acc) {
			for _, p := range patternsFor(n) {
				p := p
				mem := func(i int) bool { return p.member(n, i) }
				for _, grown := range []bool{false, true} {
					b := mkBits(n, mem, grown)
					label := fmt.Sprintf("size=%d pattern=%s grown=%v", n, p.name, grown)
					a.dist("HB%d/%s/%v", n, p.name, grown)
					bitsetRoundTrip(a, b, label)
					h := conn.VerifHandshake{PeerID: hsPeer, Digest: hsDigest, InfoHash: hsHash, Bitfield: b, Namespace: "ns"}
					handshakeRoundTrip(a, h, label+" remotes=0")
					if !rich[n] || grown {
						continue
					}
					// remote bitfield maps of 0..3 peers derived from b.
					comp := mkBits(n, func(i int) bool { return !mem(i) }, false)
					empty := bitset.New(uint(n))
					remotes := []conn.RemoteBitfields{
						{},
						{hsPeers[0]: b},
						{hsPeers[0]: comp, hsPeers[1]: b},
						{hsPeers[0]: empty, hsPeers[1]: comp, hsPeers[2]: b},
						{hsPeers[2]: bitset.New(0)},
					}
					for ri, rb := range remotes {
						for _, ns := range namespaces {
							h := conn.VerifHandshake{PeerID: hsPeers[ri%3], Digest: hsDigest, InfoHash: hsHash, Bitfield: b, RemoteBitfields: rb, Namespace: ns}
							a.dist("HR%d/%s/%d/%s", n, p.name, ri, ns)
							handshakeRoundTrip(a, h, fmt.Sprintf("%s remotes=%d ns=%q", label, ri, ns))
						}
						guard(a, "RemoteBitfields marshal/unmarshal", label, func() {
							a.n("remote_bitfield_maps", 1)
							m, err := conn.VerifRemoteBitfieldsMarshal(rb)
							if err != nil {
								a.fail("remote bitfields: marshalBinary fails", err.Error())
								return
							}
							back, err := conn.VerifRemoteBitfieldsUnmarshal(m)
							if err != nil {
								a.fail("remote bitfields: unmarshalBinary rejects what marshalBinary wrote", map[string]interface{}{"case": label, "err": err.Error()})
								return
							}
							if d := remoteEqual(rb, back); d != "" {
								a.fail("remote bitfields: marshalBinary/unmarshalBinary round trip", map[string]interface{}{"case": label, "diff": d})
							}
						})
					}
				}
			}
		})
	}
	// every bit pattern of small sizes
	maxAll := 10
	if thorough {
		maxAll = 14
	}
	for n := 1; n <= maxAll; n++ {
		n := n
		ts = append(ts, func(a *acc) {
			for bits := 0; bits < 1<<uint(n); bits++ {
				bits := bits
				b := mkBits(n, func(i int) bool { return bits>>uint(i)&1 == 1 }, false)
				a.dist("HA%d/%d", n, bits)
				handshakeRoundTrip(a, conn.VerifHandshake{PeerID: hsPeer, Digest: hsDigest, InfoHash: hsHash, Bitfield: b, RemoteBitfields: conn.RemoteBitfields{hsPeers[1]: b}}, fmt.Sprintf("size=%d bits=%b", n, bits))
			}
		})
	}
	// digests / ids inside the handshake: upper-case digest hex, extreme ids.
	ts = append(ts, func(a *acc) {
		for _, body := range []string{lower64, strings.ToUpper(lower64), strings.Repeat("0", 64), strings.Repeat("F", 64)} {
			d, err := core.NewSHA256DigestFromHex(body)
			if err != nil {
				panic(err)
			}
			for _, id := range [][20]byte{{}, {0xff, 0xff, 0xff, 0xff, 0xff, 0xff, 0xff, 0xff, 0xff, 0xff, 0xff, 0xff, 0xff, 0xff, 0xff, 0xff, 0xff, 0xff, 0xff, 0xff}, hsPeer} {
				a.dist("HI%s/%x", body, id)
				handshakeRoundTrip(a, conn.VerifHandshake{PeerID: core.PeerID(id), Digest: d, InfoHash: core.InfoHash(id), Bitfield: mkBits(3, func(i int) bool { return i == 1 }, false)}, fmt.Sprintf("digest=%s id=%x", body, id))
			}
		}
	})
	// malformed handshake messages
	ts = append(ts, func(a *acc) {
		valid := func(n int) *p2p.Message {
			m, err := conn.VerifHandshakeToMessage(conn.VerifHandshake{PeerID: hsPeer, Digest: hsDigest, InfoHash: hsHash,
				Bitfield: mkBits(n, func(i int) bool { return i%3 == 0 }, false), RemoteBitfields: conn.RemoteBitfields{hsPeers[0]: mkBits(n, func(i int) bool { return i%2 == 0 }, false)}, Namespace: "ns"})
			if err != nil {
				panic(err)
			}
			return m
		}
		try := func(fp, label string, m *p2p.Message) {
			guard(a, "handshakeFromP2PMessage", label, func() {
				a.n("handshakes_malformed", 1)
				a.dist("HM%s", label)
				// through the real framing as well, when it can be framed
				if h, err := conn.VerifHandshakeFromMessage(m); err == nil {
					a.fail("handshake: parse accepts malformed message ("+fp+")", map[string]interface{}{"case": label, "parsed_bitfield": bitsString(h.Bitfield)})
				}
			})
		}
		if _, err := conn.VerifHandshakeFromMessage(valid(5)); err != nil {
			panic("harness: base handshake message rejected: " + err.Error())
		}
		for _, t := range []p2p.Message_Type{p2p.Message_PIECE_REQUEST, p2p.Message_PIECE_PAYLOAD, p2p.Message_ANNOUCE_PIECE, p2p.Message_CANCEL_PIECE, p2p.Message_ERROR, p2p.Message_COMPLETE} {
			m := valid(5)
			m.Type = t
			try("message type is not BITFIELD", "type="+t.String(), m)
		}
		m := valid(5)
		m.Bitfield = nil
		try("no bitfield sub-message", "bitfield=nil", m)
		for _, s := range malformedHex20() {
			m := valid(5)
			m.Bitfield.PeerID = s
			try("malformed peer id", "peerID="+q(s), m)
			m = valid(5)
			m.Bitfield.InfoHash = s
			try("malformed info hash", "infoHash="+q(s), m)
			m = valid(5)
			m.Bitfield.RemoteBitfieldBytes = map[string][]byte{s: m.Bitfield.BitfieldBytes}
			try("malformed remote peer id", "remotePeerID="+q(s), m)
		}
		var names []string
		names = append(names, "", lower64[:63], lower64+"0", "sha256:"+lower64, lower64+lower64)
		for p := 0; p < 64; p += 7 {
			for _, c := range nonHexChars {
				names = append(names, replaceAt(lower64, p, c))
			}
		}
		for _, s := range names {
			m := valid(5)
			m.Bitfield.Name = s
			try("malformed digest name", "name="+q(s), m)
		}
		for _, n := range []int{0, 1, 64, 65, 130} {
			full := valid(n).Bitfield.BitfieldBytes
			for cut := 0; cut < len(full); cut++ {
				m := valid(n)
				m.Bitfield.BitfieldBytes = append([]byte{}, full[:cut]...)
				try("truncated bitfield", fmt.Sprintf("bitfield size=%d truncated to %d of %d bytes", n, cut, len(full)), m)
				m = valid(n)
				for k := range m.Bitfield.RemoteBitfieldBytes {
					m.Bitfield.RemoteBitfieldBytes[k] = append([]byte{}, m.Bitfield.RemoteBitfieldBytes[k][:cut]...)
				}
				try("truncated remote bitfield", fmt.Sprintf("remote bitfield size=%d truncated to %d of %d bytes", n, cut, len(full)), m)
			}
		}
	})
	return ts
}

// ---------------------------------------------------------------------------

func main() {
	run := evid.New("C39", "exploration")
	thorough := run.Thorough()

	var tasks []task
	tasks = append(tasks, digestTasks(thorough)...)
	tasks = append(tasks, digestListTasks(thorough)...)
	tasks = append(tasks, idTasks()...)
	tasks = append(tasks, pieceStatusTasks(thorough)...)
	tasks = append(tasks, accessTimeTasks(thorough)...)
	tasks = append(tasks, persistTasks()...)
	tasks = append(tasks, torrentMetaTasks()...)
	tasks = append(tasks, handshakeTasks(thorough)...)
	hparsers := allHistoryParsers(thorough)
	tasks = append(tasks, histTasks(hparsers)...)

	run.Rule = "values: every listed value of each type is printed/serialized and parsed back by the real functions (digest: 64 positions x 22 hex characters + fixed bodies, via String/Parse, Hex ctor, JSON, SQL; digest lists: all lists up to length 3/5 over 3 digests + nil; info hash / peer id: every single-byte value at every position + SHA-1 values; piece status: every {empty,complete} vector up to length 9/14; access times: special seconds x 4 sub-second values x 4 zones + dense sweeps of +-1500/10000 s around each varint length boundary (both signs) and a present-day time; persist: both; torrent meta: lengths 0..9 x piece lengths 1..4; handshake: bitfield sizes 0..130/200 x (n+6) patterns x 2 constructions, all patterns up to size 10/14, 5 remote-bitfield maps x 5 namespaces on boundary sizes, through toP2PMessage + real framing + handshakeFromP2PMessage). malformed: prefix x body x suffix products with every position of 62..66-character bodies replaced by each of 18 character classes, every byte value 0..255 at every position of a 64-character body, all strings up to length 2/3 over {s,h,a,2,:,g,G,space}, wrong lengths / one non-hex character for ids, incomplete varints, non-boolean strings, every strict truncation of serialized bitfields; parsers must accept iff an independently written recogniser does. A case is distinct per (type, value or input string); strings of length <= 3 are counted as trivial and not distinct. HISTORIES (histories.go): for each parser with a caller-supplied destination (Digest.UnmarshalJSON / json.Unmarshal / Scan, Digest as JSON struct field and map value, DigestList.Scan / json.Unmarshal / as JSON struct field, LastAccessTime / Persist / piece-status / TorrentMeta Deserialize on the registry's object) and for each value-returning parser (ParseSHA256Digest, NewSHA256DigestFromHex, NewInfoHashFromHex, NewPeerID, readMessage+handshakeFromP2PMessage) every history p1..pk,cur is run on ONE long-lived destination and judged after cur: accepted iff cur is well formed, and then the destination holds exactly the value cur denotes (independent denotation), whatever p1..pk left there (values of successful parses or partial writes of failed ones); for value-returning parsers additionally no later parse may change an earlier result. Input alphabet where a digest is expected: 3 digests + 23 other JSON values (null, true/false, 5 numbers, 3 objects, 3 nested arrays, empty string, 8 malformed strings) + non-JSON documents; digest-list documents: every sequence of these 26 values up to length 2/3, every sequence over a 9-class reduced alphabet of length 3/4, every non-array value at top level (null denotes the nil list), 18 non-JSON documents. History bounds: single digest k<=3 over 5 prior inputs; digest lists k=1 over 14 prior inputs and k=2 over 5 (quick), k=1 over 22 and k=2..3 over 6 (thorough), prior inputs = all valid lists over 2 digests up to length 2/3, null, and failing documents that stop after writing a prefix; string parsers, access times, persist flags, torrent meta and handshake k<=2 over their whole alphabet; piece status k=1 over all vectors up to length 4/6 and k=2 over those up to length 2/3. A history case is distinct per (parser, history, input) for k<=1 and per (parser, history) for k>=2."
	run.Assume("small-scope: parsers distinguish inputs only by length, prefix and per-character class; one representative per class at every position, and single-byte variation of 20-byte identifiers, expose their defects")
	run.Assume("access times are within [year 1, year 9999] (the range time.Time itself can format); compared at second granularity as the statement says")
	run.Assume("piece-status vectors range over {empty, complete}: a dirty status is never written to the sidecar (WriteMetadataAt writes only 'complete'); the lenient mapping of unknown status bytes to 'empty' is not judged")
	run.Assume("histories: what a parser may depend on besides its input is the content of its destination (and state it keeps itself); destinations reachable by at most 3 earlier parses over the stated prior-input sets (lengths 0..3, spare slice capacity after a longer list, partial writes of a failed parse) expose such dependence. The state a FAILED parse leaves in the destination is not judged, nor are JSON documents with surrounding whitespace, escape sequences, duplicate or missing members, or null for a pointer-typed digest field (the statement does not decide them)")
	run.Assume("well-formedness is fixed by the statement only for digests; for the other types only inputs no reading would call well-formed are required to be rejected (wrong length or non-hex identifier, incomplete varint, non-boolean string, truncated bitfield); upper-case hex identifiers, alternative boolean spellings and trailing bytes are left undecided and not enumerated")

	var mu sync.Mutex
	total := &acc{counts: map[string]int64{}}
	deadline := time.Now().Add(50 * time.Second)
	if thorough {
		deadline = time.Now().Add(13 * time.Minute)
	}
	var next, skipped int64 = -1, 0
	var wg sync.WaitGroup
	for w := 0; w < evid.Workers(); w++ {
		wg.Add(1)
		go func() {
			defer wg.Done()
			for {
				i := atomic.AddInt64(&next, 1)
				if int(i) >= len(tasks) {
					return
				}
				if time.Now().After(deadline) {
					atomic.AddInt64(&skipped, 1)
					continue
				}
				a := &acc{}
				tasks[i](a)
				for _, k := range a.distinct {
					run.Distinct(k)
				}
				mu.Lock()
				total.evals += a.evals
				for k, v := range a.counts {
					total.counts[k] += v
				}
				total.fails = append(total.fails, a.fails...)
				mu.Unlock()
			}
		}()
	}
	wg.Wait()
	if skipped > 0 {
		run.NotExhaustive(fmt.Sprintf("deadline: %d of %d tasks not run", skipped, len(tasks)))
	}
	run.Eval(int(total.evals))
	for k, v := range total.counts {
		run.Set(k, v)
	}
	run.Sample(map[string]interface{}{"type": "digest", "input": "sha256:" + lower64[:63] + "g", "expect": "rejected by Parse, UnmarshalJSON, Scan"})
	run.Sample(map[string]interface{}{"type": "digest", "input": "sha256:" + strings.ToUpper(lower64), "expect": "accepted, String() returns the input"})
	run.Sample(map[string]interface{}{"type": "access time", "unix": 1 << 34, "expect": "Serialize then Deserialize gives the same second"})
	run.Sample(map[string]interface{}{"type": "digest list history", "destination_history": []string{`["sha256:<A>","sha256:<B>"]`}, "input": `["sha256:<C>",null]`, "expect": "Scan fails (an element is JSON null); it may not return [C,B]"})
	run.Sample(map[string]interface{}{"type": "digest list history", "destination_history": []string{`["sha256:<A>","sha256:<B>","sha256:<B>"]`, `["sha256:<A>"]`}, "input": "null", "expect": "Scan succeeds and the destination is the nil list"})
	run.Sample(map[string]interface{}{"type": "handshake", "bitfield": "size 65, only bit 64", "expect": "same length and bits after toP2PMessage + framing + handshakeFromP2PMessage"})
	if skipped == 0 {
		for _, k := range []string{"digest_valid_values", "digest_candidates_malformed", "digest_candidates_well_formed", "digest_lists", "infohash_values", "peerid_values", "infohash_malformed", "piece_status_vectors", "access_times", "access_times_malformed", "persist_values", "persist_malformed", "torrent_metas", "handshakes", "handshakes_malformed", "bitfields", "remote_bitfield_maps",
			"hist_parses", "hist_parses_into_reused_destination", "hist_parses_after_a_failed_parse", "hist_reused_destination_accepted", "hist_well_formed_inputs", "hist_malformed_inputs"} {
			if total.counts[k] == 0 {
				run.Fatal(fmt.Errorf("vacuity: no case of class %s was evaluated", k))
			}
		}
	}

	sort.SliceStable(total.fails, func(i, j int) bool {
		si, sj := fmt.Sprint(total.fails[i].detail), fmt.Sprint(total.fails[j].detail)
		if len(si) != len(sj) {
			return len(si) < len(sj)
		}
		return si < sj
	})
	byFP := map[string][]fail{}
	var order []string
	for _, f := range total.fails {
		if _, ok := byFP[f.fp]; !ok {
			order = append(order, f.fp)
		}
		byFP[f.fp] = append(byFP[f.fp], f)
	}
	sort.Strings(order)
	for _, fp := range order {
		fs := byFP[fp]
		d := map[string]interface{}{"failing_cases": len(fs), "first": fs[0].detail}
		if len(fs) > 1 {
			d["second"] = fs[1].detail
		}
		run.Violation(fp, d)
	}
	run.Finish()
}
