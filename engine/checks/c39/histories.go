// C39, second part: HISTORIES of parses on one long-lived destination, over an
// input alphabet that contains, besides well-formed inputs and malformed
// strings, every kind of JSON value at every position (null, booleans,
// numbers, objects, nested arrays, the empty string) and documents that are not
// JSON at all.
//
// For every parser the property covers, the real parse function is driven
// through every history p1 .. pk, cur (k up to a stated bound) on ONE
// destination object. The oracle is the statement's: a parse either fails or
// yields exactly the value its input denotes -- the value is computed by an
// independently written denotation, so the outcome may not depend on what the
// destination held before (a value left by an earlier successful parse, or the
// partial writes of an earlier failed one).
package main

import (
	"bytes"
	"encoding/json"
	"fmt"
	"sort"
	"strings"
	"time"

	"github.com/uber/kraken/core"
	"github.com/uber/kraken/gen/go/proto/p2p"
	"github.com/uber/kraken/lib/store/metadata"
	"github.com/uber/kraken/lib/torrent/scheduler/conn"
	"github.com/uber/kraken/lib/torrent/storage/agentstorage"
)

// hdoc is one input of a parser's alphabet together with what it denotes.
type hdoc struct {
	raw  []byte
	wf   bool   // the input is well formed
	want string // canonical rendering of the value it denotes (wf only)
	kind string // class of malformation (!wf only); part of the fingerprint
}

// hdest is one long-lived destination of a real parser.
type hdest interface {
	parse(raw []byte) error // the real parse function, into this destination
	obs() string            // canonical rendering of what the destination holds
}

// staleChecker is implemented by destinations of parsers that RETURN a fresh
// value: a later parse must not change a value returned earlier.
type staleChecker interface{ stale() string }

type hparser struct {
	name   string
	fresh  func() hdest
	docs   []hdoc
	prevs  []int // history alphabet (indices into docs): all histories of length <= depth
	prevs2 []int // smaller alphabet: all histories of length depth+1 .. deep
	depth  int
	deep   int
}

func (p *hparser) histories() [][]int {
	out := [][]int{nil}
	var rec func(cur []int, alpha []int, lo, hi int)
	rec = func(cur []int, alpha []int, lo, hi int) {
		if len(cur) >= lo && len(cur) > 0 {
			out = append(out, append([]int(nil), cur...))
		}
		if len(cur) == hi {
			return
		}
		for _, x := range alpha {
			rec(append(cur, x), alpha, lo, hi)
		}
	}
	rec(nil, p.prevs, 1, p.depth)
	if p.deep > p.depth {
		rec(nil, p.prevs2, p.depth+1, p.deep)
	}
	return out
}

type houtcome struct {
	accepted bool
	obs      string
	errText  string
	verdict  string
}

// judge is the oracle: accept iff well formed, and an accepted parse yields
// exactly the denoted value.
func hjudge(p *hparser, d *hdoc, o *houtcome) string {
	switch {
	case o.accepted && !d.wf:
		return p.name + " accepts malformed input (" + d.kind + ")"
	case !o.accepted && d.wf:
		return p.name + " rejects well-formed input"
	case o.accepted && o.obs != d.want:
		return p.name + " yields a value other than the one its input denotes"
	}
	return ""
}

func showRaw(b []byte) string {
	if b == nil {
		return "<nil>"
	}
	printable := true
	for _, c := range b {
		if c < 0x20 || c > 0x7e {
			printable = false
			break
		}
	}
	if printable {
		return string(b)
	}
	return fmt.Sprintf("hex:%x", b)
}

// apply runs one real parse, turning a panic into an outcome the caller reports.
func happly(dst hdest, raw []byte) (o houtcome, panicked string) {
	defer func() {
		if r := recover(); r != nil {
			panicked = fmt.Sprint(r)
		}
	}()
	var in []byte
	if raw != nil {
		in = append([]byte{}, raw...)
	}
	err := dst.parse(in)
	if err != nil {
		return houtcome{errText: err.Error()}, ""
	}
	return houtcome{accepted: true, obs: dst.obs()}, ""
}

func histTasks(parsers []*hparser) []task {
	var ts []task
	for pi, p := range parsers {
		pi, p := pi, p
		hs := p.histories()
		per := 40000 / (len(p.docs) + 1)
		if per < 1 {
			per = 1
		}
		for lo := 0; lo < len(hs); lo += per {
			chunk := hs[lo:min(lo+per, len(hs))]
			ts = append(ts, func(a *acc) { histRun(a, pi, p, chunk) })
		}
	}
	return ts
}

func histRun(a *acc, pi int, p *hparser, hs [][]int) {
	// outcome of every input on a fresh destination
	freshOut := make([]houtcome, len(p.docs))
	for di := range p.docs {
		o, pn := happly(p.fresh(), p.docs[di].raw)
		if pn != "" {
			o.verdict = "panic"
		} else {
			o.verdict = hjudge(p, &p.docs[di], &o)
		}
		freshOut[di] = o
	}
	for _, h := range hs {
		var hlabel []string
		for _, x := range h {
			hlabel = append(hlabel, showRaw(p.docs[x].raw))
		}
		hkey := fmt.Sprint(h)
		if len(h) > 1 {
			a.dist("H%d/%s", pi, hkey)
		}
		for di := range p.docs {
			d := &p.docs[di]
			a.evals++
			a.n("hist_parses", 1)
			if len(h) <= 1 {
				a.dist("H%d/%s/%d", pi, hkey, di)
			}
			dst := p.fresh()
			lastFailed := false
			bad := false
			for _, x := range h {
				o, pn := happly(dst, p.docs[x].raw)
				if pn != "" {
					bad = true // reported when x is the current input of a shorter history
					break
				}
				lastFailed = !o.accepted
			}
			if bad {
				continue
			}
			if len(h) > 0 {
				a.n("hist_parses_into_reused_destination", 1)
				if lastFailed {
					a.n("hist_parses_after_a_failed_parse", 1)
				}
			}
			o, pn := happly(dst, d.raw)
			f := &freshOut[di]
			mk := func() map[string]interface{} {
				detail := map[string]interface{}{"parser": p.name, "input": showRaw(d.raw)}
				if len(h) > 0 {
					detail["destination_history"] = hlabel
					if f.accepted {
						detail["fresh_destination_parses_as"] = f.obs
					} else {
						detail["fresh_destination_err"] = f.errText
					}
				}
				if d.wf {
					detail["denotes"] = d.want
				}
				if pn != "" {
					detail["panic"] = pn
				} else if o.accepted {
					detail["parsed_as"] = o.obs
				} else {
					detail["err"] = o.errText
				}
				return detail
			}
			if pn != "" {
				a.fail("panic in "+p.name, mk())
				continue
			}
			if d.wf {
				a.n("hist_well_formed_inputs", 1)
			} else {
				a.n("hist_malformed_inputs", 1)
			}
			if o.accepted && len(h) > 0 {
				a.n("hist_reused_destination_accepted", 1)
			}
			if sc, ok := dst.(staleChecker); ok {
				if msg := sc.stale(); msg != "" {
					detail := mk()
					detail["changed"] = msg
					a.fail(p.name+": a later parse changes the value an earlier parse returned", detail)
				}
			}
			v := hjudge(p, d, &o)
			if v == "" {
				continue
			}
			if len(h) == 0 {
				a.fail(v, mk())
				continue
			}
			same := f.verdict == v && f.accepted == o.accepted && (!o.accepted || f.obs == o.obs)
			if same {
				continue // same failure as on a fresh destination: reported by the empty history
			}
			a.fail(v+" -- outcome depends on what the destination held before", mk())
		}
	}
}

// ---------------------------------------------------------------------------
// JSON value alphabet for a position where a digest is expected.

type jtok struct {
	text string
	wf   bool
	val  string // the digest string denoted
	kind string
}

func digestObs(d core.Digest) string { return d.String() + "|" + d.Algo() + "|" + d.Hex() }
func digestWant(raw string) string   { return raw + "|sha256|" + raw[len("sha256:"):] }

var (
	hA = "sha256:" + lower64
	hB = "sha256:" + strings.ToUpper(lower64)
	hC = "sha256:" + strings.Repeat("0", 64)
)

func jstr(s string) string {
	b, err := json.Marshal(s)
	if err != nil {
		panic(err)
	}
	return string(b)
}

// digestTokens returns the full alphabet and the reduced one (one
// representative per class).
func digestTokens() (full, reduced []jtok) {
	v := func(s string) jtok { return jtok{text: jstr(s), wf: true, val: s} }
	x := func(text, kind string) jtok { return jtok{text: text, kind: kind} }
	ms := func(s string) jtok {
		if wellFormedDigest(s) {
			panic("harness: well-formed digest in the malformed alphabet")
		}
		return jtok{text: jstr(s), kind: "malformed digest string: " + malformedReason(s)}
	}
	full = []jtok{
		v(hA), v(hB), v(hC),
		x("null", "JSON null"),
		x("true", "JSON boolean"), x("false", "JSON boolean"),
		x("0", "JSON number"), x("1", "JSON number"), x("-1", "JSON number"), x("1.5", "JSON number"), x("1e2", "JSON number"),
		x("{}", "JSON object"), x(`{"raw":`+jstr(hA)+`}`, "JSON object"),
		x(`{"algo":"sha256","hex":"`+lower64+`","raw":`+jstr(hA)+`}`, "JSON object"),
		x("[]", "nested JSON array"), x("["+jstr(hA)+"]", "nested JSON array"), x("[null]", "nested JSON array"),
		x(`""`, "empty string"),
		ms("sha256:"), ms("sha256:" + lower64[:63]), ms("sha256:" + lower64 + "0"), ms("sha256:" + replaceAt(lower64, 5, "g")),
		ms(lower64), ms("sha512:" + lower64), ms("sha256:" + lower64 + ":x"), ms("null"),
	}
	reduced = []jtok{full[0], full[1], full[3], full[6], full[4], full[11], full[15], full[17], full[19]}
	return full, reduced
}

// documents that are not JSON values (elem = one valid digest token).
func brokenDocs(elem string) []string {
	return []string{"", " ", "nul", "nulll", elem[:len(elem)-1], elem + elem, elem + "x", "'" + elem[1:len(elem)-1] + "'", elem[1 : len(elem)-1], "\x00"}
}

func brokenListDocs(a, b string) []string {
	return []string{"", " ", "[", "]", "[" + a, "[" + a + ",", "[" + a + ",]", "[," + a + "]", "[" + a + "]]", "[" + a + "][" + b + "]",
		"[" + a + "]x", "[" + a + " " + b + "]", "[null", "nul", "[" + a + ";" + b + "]", "(" + a + ")", "{" + a + "}", "[" + a + ":" + b + "]"}
}

// --- destinations for a single digest

type dDigestUJ struct{ d core.Digest }

func (x *dDigestUJ) parse(raw []byte) error { return x.d.UnmarshalJSON(raw) }
func (x *dDigestUJ) obs() string            { return digestObs(x.d) }

type dDigestJSON struct{ d core.Digest }

func (x *dDigestJSON) parse(raw []byte) error { return json.Unmarshal(raw, &x.d) }
func (x *dDigestJSON) obs() string            { return digestObs(x.d) }

type dDigestScan struct{ d core.Digest }

func (x *dDigestScan) parse(raw []byte) error { return x.d.Scan(raw) }
func (x *dDigestScan) obs() string            { return digestObs(x.d) }

type dDigestField struct {
	h struct {
		D core.Digest `json:"digest"`
	}
}

func (x *dDigestField) parse(raw []byte) error { return json.Unmarshal(raw, &x.h) }
func (x *dDigestField) obs() string            { return digestObs(x.h.D) }

type dDigestMap struct{ m map[string]core.Digest }

func (x *dDigestMap) parse(raw []byte) error { return json.Unmarshal(raw, &x.m) }
func (x *dDigestMap) obs() string {
	return fmt.Sprintf("entries=%d k=%s", len(x.m), digestObs(x.m["k"]))
}

// --- destinations for a digest list

func listObs(l core.DigestList) string {
	if l == nil {
		return "nil"
	}
	parts := make([]string, len(l))
	for i, d := range l {
		parts[i] = digestObs(d)
	}
	return "[" + strings.Join(parts, ",") + "]"
}

type dListScan struct{ l core.DigestList }

func (x *dListScan) parse(raw []byte) error { return x.l.Scan(raw) }
func (x *dListScan) obs() string            { return listObs(x.l) }

type dListJSON struct{ l core.DigestList }

func (x *dListJSON) parse(raw []byte) error { return json.Unmarshal(raw, &x.l) }
func (x *dListJSON) obs() string            { return listObs(x.l) }

type dListField struct {
	h struct {
		L core.DigestList `json:"dependencies"`
	}
}

func (x *dListField) parse(raw []byte) error { return json.Unmarshal(raw, &x.h) }
func (x *dListField) obs() string            { return listObs(x.h.L) }

func idxOf(docs []hdoc, raw string) int {
	for i := range docs {
		if string(docs[i].raw) == raw {
			return i
		}
	}
	panic("harness: history element " + raw + " is not in the input alphabet")
}

func digestHistoryParsers(thorough bool) []*hparser {
	full, reduced := digestTokens()

	// ---- a single digest at top level / struct field / map value
	mkSingle := func(wrap func(tok string) string, broken []string) []hdoc {
		var docs []hdoc
		for _, t := range full {
			d := hdoc{raw: []byte(wrap(t.text)), wf: t.wf, kind: t.kind}
			if t.wf {
				d.want = digestWant(t.val)
			}
			docs = append(docs, d)
		}
		for _, b := range broken {
			docs = append(docs, hdoc{raw: []byte(b), kind: "not a JSON document"})
		}
		return docs
	}
	ident := func(s string) string { return s }
	field := func(s string) string { return `{"digest":` + s + `}` }
	mapv := func(s string) string { return `{"k":` + s + `}` }
	singlePrev := func(docs []hdoc, wrap func(string) string) []int {
		return []int{idxOf(docs, wrap(full[0].text)), idxOf(docs, wrap(full[1].text)), idxOf(docs, wrap("null")), idxOf(docs, wrap(`"sha256:"`)), idxOf(docs, wrap("{}"))}
	}
	var ps []*hparser
	addSingle := func(name string, fresh func() hdest, wrap func(string) string, broken []string) {
		docs := mkSingle(wrap, broken)
		prevs := singlePrev(docs, wrap)
		ps = append(ps, &hparser{name: name, fresh: fresh, docs: docs, prevs: prevs, depth: 3})
	}
	bd := brokenDocs(full[0].text)
	addSingle("digest: UnmarshalJSON", func() hdest { return &dDigestUJ{} }, ident, bd)
	addSingle("digest: json.Unmarshal", func() hdest { return &dDigestJSON{} }, ident, bd)
	addSingle("digest: Scan", func() hdest { return &dDigestScan{} }, ident, bd)
	addSingle("digest as a JSON struct field", func() hdest { return &dDigestField{} }, field, []string{`{"digest":`, `{"digest":` + full[0].text, `{"digest"` + full[0].text + `}`})
	mapDocs := mkSingle(mapv, []string{`{"k":`, `{"k":` + full[0].text})
	for i := range mapDocs {
		if mapDocs[i].wf {
			mapDocs[i].want = "entries=1 k=" + mapDocs[i].want
		}
	}
	ps = append(ps, &hparser{name: "digest as a JSON map value", fresh: func() hdest { return &dDigestMap{} }, docs: mapDocs, prevs: singlePrev(mapDocs, mapv), depth: 3})

	// ---- digest lists: every sequence of tokens
	var seqs [][]jtok
	var gen func(cur []jtok, alpha []jtok, lo, hi int)
	gen = func(cur []jtok, alpha []jtok, lo, hi int) {
		if len(cur) >= lo {
			seqs = append(seqs, append([]jtok(nil), cur...))
		}
		if len(cur) == hi {
			return
		}
		for _, t := range alpha {
			gen(append(cur, t), alpha, lo, hi)
		}
	}
	fullLen, redLen := 2, 3
	if thorough {
		fullLen, redLen = 3, 4
	}
	gen(nil, full, 0, fullLen)
	gen(nil, reduced, fullLen+1, redLen)
	seen := map[string]bool{}
	var listDocs []hdoc
	addDoc := func(d hdoc) {
		if seen[string(d.raw)] {
			return
		}
		seen[string(d.raw)] = true
		listDocs = append(listDocs, d)
	}
	for _, s := range seqs {
		texts := make([]string, len(s))
		d := hdoc{wf: true}
		wants := make([]string, len(s))
		for i, t := range s {
			texts[i] = t.text
			if !t.wf && d.wf {
				d.wf = false
				d.kind = "element is " + t.kind
			}
			if t.wf {
				wants[i] = digestWant(t.val)
			}
		}
		d.raw = []byte("[" + strings.Join(texts, ",") + "]")
		if d.wf {
			d.want = "[" + strings.Join(wants, ",") + "]"
		}
		addDoc(d)
	}
	// top level: null is what Value prints for the nil list; every other
	// non-array value is not a list.
	addDoc(hdoc{raw: []byte("null"), wf: true, want: "nil"})
	for _, t := range full {
		if t.text == "null" || strings.HasPrefix(t.text, "[") {
			continue
		}
		addDoc(hdoc{raw: []byte(t.text), kind: "not a list"})
	}
	for _, b := range brokenListDocs(full[0].text, full[1].text) {
		addDoc(hdoc{raw: []byte(b), kind: "not a JSON document"})
	}
	lst := func(ts ...string) string { return "[" + strings.Join(ts, ",") + "]" }
	A, B, C := full[0].text, full[1].text, full[2].text
	var prevTexts []string
	for _, s := range [][]string{{}, {A}, {B}, {A, A}, {A, B}, {B, A}, {B, B}} {
		prevTexts = append(prevTexts, lst(s...))
	}
	prevTexts = append(prevTexts, "null", lst(C, "null"), lst(C, `"sha256:"`), lst(C, "0"), "["+A)
	prev2Texts := []string{lst(A), lst(A, B), "null", lst(C, "null")}
	if thorough {
		for _, s := range [][]string{{A, A, A}, {A, A, B}, {A, B, A}, {A, B, B}, {B, A, A}, {B, A, B}, {B, B, A}, {B, B, B}} {
			prevTexts = append(prevTexts, lst(s...))
		}
		prevTexts = append(prevTexts, lst(C, C, "null"), lst(C, C, C))
		prev2Texts = append(prev2Texts, lst(A, B, B), lst(C, C, "null"))
	} else {
		prevTexts = append(prevTexts, lst(A, B, B), lst(B, A, A))
		prev2Texts = append(prev2Texts, lst(A, B, B))
	}
	wrapDocs := func(wrap func(string) string) []hdoc {
		out := make([]hdoc, len(listDocs))
		for i, d := range listDocs {
			d.raw = []byte(wrap(string(d.raw)))
			out[i] = d
		}
		return out
	}
	addList := func(name string, fresh func() hdest, wrap func(string) string) {
		docs := wrapDocs(wrap)
		// thorough: all histories of length 1 over prevs, length 2..3 over prevs2
		p := &hparser{name: name, fresh: fresh, docs: docs, depth: 1, deep: 3}
		for _, t := range prevTexts {
			p.prevs = append(p.prevs, idxOf(docs, wrap(t)))
		}
		for _, t := range prev2Texts {
			p.prevs2 = append(p.prevs2, idxOf(docs, wrap(t)))
		}
		if !thorough {
			// quick: all histories of length 1 over prevs, length 2 over prevs2
			p.depth, p.deep = 1, 2
		}
		ps = append(ps, p)
	}
	addList("digest list: Scan", func() hdest { return &dListScan{} }, ident)
	addList("digest list: json.Unmarshal", func() hdest { return &dListJSON{} }, ident)
	addList("digest list as a JSON struct field", func() hdest { return &dListField{} }, func(s string) string { return `{"dependencies":` + s + `}` })
	return ps
}

// ---------------------------------------------------------------------------
// Parsers that return a value (no caller-supplied destination): a history can
// only matter through state the parser keeps itself.

type dFunc struct {
	f    func(s string) (string, error)
	last string
}

func (x *dFunc) parse(raw []byte) error {
	v, err := x.f(string(raw))
	if err != nil {
		return err
	}
	x.last = v
	return nil
}
func (x *dFunc) obs() string { return x.last }

func stringParserHistories() []*hparser {
	full, _ := digestTokens()
	var tokTexts []string
	for _, t := range full {
		tokTexts = append(tokTexts, t.text)
	}
	mk := func(name string, f func(string) (string, error), valid []string, want func(string) string, wfp func(string) bool, extra []string) *hparser {
		p := &hparser{name: name, fresh: func() hdest { return &dFunc{f: f} }, depth: 2}
		seen := map[string]bool{}
		add := func(s string) {
			if seen[s] {
				return
			}
			seen[s] = true
			d := hdoc{raw: []byte(s), wf: wfp(s)}
			if d.wf {
				d.want = want(s)
			} else {
				d.kind = "not the printed form"
			}
			p.docs = append(p.docs, d)
		}
		for _, s := range valid {
			add(s)
			if !wfp(s) {
				panic("harness: valid input not recognised: " + s)
			}
		}
		for _, s := range tokTexts {
			add(s)
		}
		for _, s := range extra {
			add(s)
		}
		for i := range p.docs {
			p.prevs = append(p.prevs, i)
		}
		return p
	}
	hex40 := []string{lower40, strings.Repeat("0", 40), strings.Repeat("f", 40)}
	bad40 := []string{lower40[:39], lower40 + "0", replaceAt(lower40, 7, "g"), " " + lower40[:39], lower40 + lower40}
	wf40 := func(s string) bool { return allHex(s, 40) && s == strings.ToLower(s) }
	return []*hparser{
		mk("digest: ParseSHA256Digest", func(s string) (string, error) {
			d, err := core.ParseSHA256Digest(s)
			return digestObs(d), err
		}, []string{hA, hB, hC}, digestWant, wellFormedDigest,
			[]string{"sha256:", "sha256:" + lower64[:63], "sha256:" + lower64 + "0", lower64, "sha512:" + lower64, "sha256:" + replaceAt(lower64, 63, "g")}),
		mk("digest: NewSHA256DigestFromHex", func(s string) (string, error) {
			d, err := core.NewSHA256DigestFromHex(s)
			return digestObs(d), err
		}, []string{hA[7:], hB[7:], hC[7:]}, func(s string) string { return digestWant("sha256:" + s) }, func(s string) bool { return allHex(s, 64) },
			[]string{lower64[:63], lower64 + "0", hA, replaceAt(lower64, 0, "g")}),
		mk("info hash: NewInfoHashFromHex", func(s string) (string, error) {
			h, err := core.NewInfoHashFromHex(s)
			return h.Hex() + "|" + h.String() + "|" + fmt.Sprintf("%x", h.Bytes()), err
		}, hex40, func(s string) string { return s + "|" + s + "|" + s }, wf40, bad40),
		mk("peer id: NewPeerID", func(s string) (string, error) {
			p, err := core.NewPeerID(s)
			return p.String(), err
		}, hex40, func(s string) string { return s }, wf40, bad40),
	}
}

// ---------------------------------------------------------------------------
// Metadata objects (the registry's object is the long-lived destination).

type dLAT struct{ m *metadata.LastAccessTime }

func (x *dLAT) parse(raw []byte) error { return x.m.Deserialize(raw) }
func (x *dLAT) obs() string            { return fmt.Sprintf("%d/%d", x.m.Time.Unix(), x.m.Time.Nanosecond()) }

type dPersist struct{ m *metadata.Persist }

func (x *dPersist) parse(raw []byte) error { return x.m.Deserialize(raw) }
func (x *dPersist) obs() string            { return fmt.Sprint(x.m.Value) }

type dPieces struct {
	m *agentstorage.VerifPieceStatusDest
}

func (x *dPieces) parse(raw []byte) error { return x.m.Deserialize(raw) }
func (x *dPieces) obs() string            { return fmt.Sprint(x.m.Statuses()) }

type dTorrentMeta struct{ m *metadata.TorrentMeta }

func (x *dTorrentMeta) parse(raw []byte) error { return x.m.Deserialize(raw) }
func (x *dTorrentMeta) obs() string            { return metaInfoObs(x.m.MetaInfo) }

func metaInfoObs(mi *core.MetaInfo) string {
	if mi == nil {
		return "nil"
	}
	var sums []string
	for i := 0; i < mi.NumPieces(); i++ {
		sums = append(sums, fmt.Sprintf("%d:%d", mi.GetPieceSum(i), mi.GetPieceLength(i)))
	}
	return fmt.Sprintf("%s ih=%s len=%d pl=%d pieces=%v", digestObs(mi.Digest()), mi.InfoHash().Hex(), mi.Length(), mi.PieceLength(), sums)
}

func metadataHistoryParsers(thorough bool) []*hparser {
	var ps []*hparser
	all := func(n int) []int {
		out := make([]int, n)
		for i := range out {
			out[i] = i
		}
		return out
	}

	// access times
	{
		year9999 := time.Date(9999, 12, 31, 23, 59, 59, 0, time.UTC).Unix()
		secs := []int64{0, 1, -1, 63, 64, -64, -65, 8191, 8192, -8193, 1 << 20, 1<<27 - 1, 1 << 27, 1 << 34, 1790000000, year9999}
		p := &hparser{name: "last access time: Deserialize", depth: 2}
		suffix := metadata.NewLastAccessTime(time.Time{}).GetSuffix()
		p.fresh = func() hdest {
			m, ok := freshMD(suffix).(*metadata.LastAccessTime)
			if !ok {
				panic("harness: registry does not create LastAccessTime")
			}
			return &dLAT{m}
		}
		for _, s := range secs {
			b, err := metadata.NewLastAccessTime(time.Unix(s, 0)).Serialize()
			if err != nil {
				panic(err)
			}
			p.docs = append(p.docs, hdoc{raw: b, wf: true, want: fmt.Sprintf("%d/0", s)})
		}
		for _, b := range [][]byte{nil, {}, {0x80}, {0x80, 0x80}, {0xff, 0xff, 0xff}, bytes.Repeat([]byte{0xff}, 10), bytes.Repeat([]byte{0xff}, 11), bytes.Repeat([]byte{0x80}, 12)} {
			p.docs = append(p.docs, hdoc{raw: b, kind: "not a complete varint"})
		}
		p.prevs = all(len(p.docs))
		ps = append(ps, p)
	}
	// persist flags
	{
		p := &hparser{name: "persist: Deserialize", depth: 2}
		suffix := metadata.NewPersist(false).GetSuffix()
		p.fresh = func() hdest {
			m, ok := freshMD(suffix).(*metadata.Persist)
			if !ok {
				panic("harness: registry does not create Persist")
			}
			return &dPersist{m}
		}
		for _, v := range []bool{true, false} {
			b, err := metadata.NewPersist(v).Serialize()
			if err != nil {
				panic(err)
			}
			p.docs = append(p.docs, hdoc{raw: b, wf: true, want: fmt.Sprint(v)})
		}
		for _, s := range []string{"", " ", "x", "tru", "truee", "true ", " true", "true\n", "yes", "no", "2", "-1", "10", "truefalse", "\x00", "true\x00", "nil", "null", "fals", "falsee", "tr ue", "\"true\"", "[]", "{}", "[true]", "1.5", "1e2"} {
			p.docs = append(p.docs, hdoc{raw: []byte(s), kind: "not a boolean"})
		}
		p.prevs = all(len(p.docs))
		ps = append(ps, p)
	}
	// piece-status vectors
	{
		maxLen, shortLen := 4, 2
		if thorough {
			maxLen, shortLen = 6, 3
		}
		p := &hparser{name: "piece status: Deserialize", depth: 1, deep: 2}
		p.fresh = func() hdest {
			m, err := agentstorage.NewVerifPieceStatusDest()
			if err != nil {
				panic("harness: " + err.Error())
			}
			return &dPieces{m}
		}
		for l := 0; l <= maxLen; l++ {
			for bits := 0; bits < 1<<uint(l); bits++ {
				st := make([]int, l)
				for i := range st {
					st[i] = (bits >> uint(i)) & 1
				}
				b, err := agentstorage.VerifPieceStatusSerialize(st)
				if err != nil {
					panic(err)
				}
				p.docs = append(p.docs, hdoc{raw: b, wf: true, want: fmt.Sprint(st)})
				if l <= shortLen {
					p.prevs2 = append(p.prevs2, len(p.docs)-1)
				}
			}
		}
		p.prevs = all(len(p.docs))
		ps = append(ps, p)
	}
	// torrent meta: the Name position takes every JSON value
	{
		p := &hparser{name: "torrent meta: Deserialize", depth: 2}
		p.fresh = func() hdest { return &dTorrentMeta{&metadata.TorrentMeta{}} }
		full, _ := digestTokens()
		var firstDoc, firstName string
		for k, spec := range []struct {
			n  int
			pl int64
		}{{5, 2}, {0, 1}, {9, 4}} {
			data := make([]byte, spec.n)
			for i := range data {
				data[i] = byte(i*11 + k)
			}
			d, err := core.NewDigester().FromBytes(data)
			if err != nil {
				panic(err)
			}
			mi, err := core.NewMetaInfoFromBytes(d, data, spec.pl)
			if err != nil {
				panic(err)
			}
			b, err := metadata.NewTorrentMeta(mi).Serialize()
			if err != nil {
				panic(err)
			}
			p.docs = append(p.docs, hdoc{raw: b, wf: true, want: metaInfoObs(mi)})
			if k == 0 {
				firstDoc, firstName = string(b), `"Name":"`+d.Hex()+`"`
			}
		}
		if strings.Count(firstDoc, firstName) != 1 {
			panic("harness: serialized torrent meta has no Name member: " + firstDoc)
		}
		nvalid := len(p.docs)
		nullAt, objAt := -1, -1
		for _, t := range full {
			if t.text == jstr(lower64) {
				continue // a bare 64-character hex string IS a well-formed name here
			}
			switch t.text {
			case "null":
				nullAt = len(p.docs)
			case "{}":
				objAt = len(p.docs)
			}
			p.docs = append(p.docs, hdoc{raw: []byte(strings.Replace(firstDoc, firstName, `"Name":`+t.text, 1)), kind: "digest name is " + tokKind(t)})
		}
		for _, s := range []string{lower64[:63], lower64 + "0", replaceAt(lower64, 9, "g")} {
			p.docs = append(p.docs, hdoc{raw: []byte(strings.Replace(firstDoc, firstName, `"Name":"`+s+`"`, 1)), kind: "digest name is not 64 hexadecimal characters"})
		}
		for _, s := range []string{"", "null", "{}", `{"Info":null}`, `{"Info":{}}`, "[]", "0", `""`, firstDoc[:len(firstDoc)-1], firstDoc + "x"} {
			p.docs = append(p.docs, hdoc{raw: []byte(s), kind: "document without a digest name"})
		}
		p.prevs = all(nvalid)
		p.prevs = append(p.prevs, nullAt, objAt, len(p.docs)-1) // Name:null, Name:{}, trailing garbage
		ps = append(ps, p)
	}
	return ps
}

func tokKind(t jtok) string {
	if t.wf {
		return "a 'sha256:'-prefixed string, not 64 hexadecimal characters"
	}
	return t.kind
}

// ---------------------------------------------------------------------------
// Handshake over the real framing: consecutive parses return fresh values; a
// later parse must not depend on, nor change, an earlier one.

func handshakeObs(h conn.VerifHandshake) string {
	var rs []string
	for k, v := range h.RemoteBitfields {
		rs = append(rs, k.String()+"="+bitsString(v))
	}
	sort.Strings(rs)
	return fmt.Sprintf("peer=%s digest=%s ih=%s bits=%s remote=%v ns=%q", h.PeerID, digestObs(h.Digest), h.InfoHash, bitsString(h.Bitfield), rs, h.Namespace)
}

type dHandshake struct {
	got []conn.VerifHandshake
	at  []string
}

func (x *dHandshake) parse(raw []byte) error {
	c := &bufConn{}
	c.Write(raw)
	m, err := conn.VerifReadMessage(c)
	if err != nil {
		return fmt.Errorf("readMessage: %v", err)
	}
	h, err := conn.VerifHandshakeFromMessage(m)
	if err != nil {
		return err
	}
	x.got = append(x.got, h)
	x.at = append(x.at, handshakeObs(h))
	return nil
}
func (x *dHandshake) obs() string { return x.at[len(x.at)-1] }
func (x *dHandshake) stale() string {
	for i, h := range x.got {
		if now := handshakeObs(h); now != x.at[i] {
			return fmt.Sprintf("result %d was %s and is now %s", i, x.at[i], now)
		}
	}
	return ""
}

func handshakeHistoryParsers() []*hparser {
	p := &hparser{name: "handshake: readMessage + handshakeFromP2PMessage", fresh: func() hdest { return &dHandshake{} }, depth: 2}
	var mutMsg func(m *p2p.Message)
	frame := func(mut func(m *conn.VerifHandshake), n int) (conn.VerifHandshake, []byte) {
		h := conn.VerifHandshake{PeerID: hsPeer, Digest: hsDigest, InfoHash: hsHash,
			Bitfield: mkBits(n, func(i int) bool { return i%3 == 0 }, false),
			RemoteBitfields: conn.RemoteBitfields{
				hsPeers[0]: mkBits(n, func(i int) bool { return i%2 == 0 }, false),
				hsPeers[1]: mkBits(n, func(i int) bool { return i%2 == 1 }, false)},
			Namespace: fmt.Sprintf("ns%d", n)}
		if mut != nil {
			mut(&h)
		}
		m, err := conn.VerifHandshakeToMessage(h)
		if err != nil {
			panic(err)
		}
		if mutMsg != nil {
			mutMsg(m)
		}
		c := &bufConn{}
		if err := conn.VerifSendMessage(c, m); err != nil {
			panic(err)
		}
		return h, append([]byte{}, c.Bytes()...)
	}
	for _, n := range []int{0, 1, 5, 64, 65, 130} {
		h, b := frame(nil, n)
		p.docs = append(p.docs, hdoc{raw: b, wf: true, want: handshakeObs(h)})
	}
	h, b := frame(func(h *conn.VerifHandshake) { h.RemoteBitfields = nil; h.Namespace = ""; h.PeerID = hsPeers[2] }, 5)
	p.docs = append(p.docs, hdoc{raw: b, wf: true, want: handshakeObs(h)})
	h, b = frame(func(h *conn.VerifHandshake) {
		h.Bitfield = mkBits(65, func(i int) bool { return i == 64 }, false)
		h.RemoteBitfields = conn.RemoteBitfields{hsPeers[0]: mkBits(65, func(i int) bool { return true }, false)}
	}, 65)
	p.docs = append(p.docs, hdoc{raw: b, wf: true, want: handshakeObs(h)})
	_, whole := frame(nil, 65)
	for _, cut := range []int{0, 1, 3, 4, 5, len(whole) / 2, len(whole) - 1} {
		p.docs = append(p.docs, hdoc{raw: append([]byte{}, whole[:cut]...), kind: "truncated frame"})
	}
	for _, mm := range []struct {
		kind string
		f    func(m *p2p.Message)
	}{
		{"malformed peer id", func(m *p2p.Message) { m.Bitfield.PeerID = lower40[:39] }},
		{"malformed info hash", func(m *p2p.Message) { m.Bitfield.InfoHash = "" }},
		{"malformed digest name", func(m *p2p.Message) { m.Bitfield.Name = "sha256:" + lower64 }},
		{"truncated bitfield", func(m *p2p.Message) { m.Bitfield.BitfieldBytes = m.Bitfield.BitfieldBytes[:9] }},
		{"truncated remote bitfield", func(m *p2p.Message) {
			for k, v := range m.Bitfield.RemoteBitfieldBytes {
				m.Bitfield.RemoteBitfieldBytes[k] = v[:len(v)-1]
			}
		}},
		{"no bitfield sub-message", func(m *p2p.Message) { m.Bitfield = nil }},
		{"message type is not BITFIELD", func(m *p2p.Message) { m.Type = p2p.Message_COMPLETE }},
	} {
		mutMsg = mm.f
		_, b := frame(nil, 65)
		mutMsg = nil
		p.docs = append(p.docs, hdoc{raw: b, kind: mm.kind})
	}
	for i := range p.docs {
		p.prevs = append(p.prevs, i)
	}
	return []*hparser{p}
}

func allHistoryParsers(thorough bool) []*hparser {
	var ps []*hparser
	ps = append(ps, digestHistoryParsers(thorough)...)
	ps = append(ps, stringParserHistories()...)
	ps = append(ps, metadataHistoryParsers(thorough)...)
	ps = append(ps, handshakeHistoryParsers()...)
	return ps
}
