// Ownership of the two random answers a RedisStore.GetPeers depends on:
//
//   - the order in which the peer-set windows are visited
//     (randutil.ShuffleInt64s -> math/rand, rewritten to verif/shim/vrand by
//     the overlay: every draw is answered by vrand.Decider), and
//   - the order of the members inside each SRANDMEMBER reply (miniredis
//     shuffles with the global math/rand; the overlay puts a copy of its
//     cmd_set.go in place that asks miniredis.VerifMemberOrder).
//
// Both are answered from one choice vector per GetPeers call (chooser);
// everyAnswer runs a lookup once per leaf of the resulting choice tree, i.e.
// under every window order and every enumerated reply order.
package main

import (
	"fmt"
	"runtime"
	"sort"
	"strconv"
	"strings"
	"sync"
	"sync/atomic"

	"github.com/alicebob/miniredis"
	"github.com/uber/kraken/utils/randutil"

	"verif/shim/vrand"
)

type choice struct {
	n, c  int
	label string
}

// chooser answers the draws of one execution: the prefix first, 0 afterwards.
type chooser struct {
	mu     sync.Mutex
	prefix []int
	trace  []choice
	// fullPerm: replies of up to this many members are put into every
	// permutation; longer ones into ascending / descending order only.
	fullPerm int
}

func (ch *chooser) choose(n int, label string) int {
	if n <= 1 {
		return 0
	}
	ch.mu.Lock()
	defer ch.mu.Unlock()
	c := 0
	if i := len(ch.trace); i < len(ch.prefix) && ch.prefix[i] < n {
		c = ch.prefix[i]
	}
	ch.trace = append(ch.trace, choice{n, c, label})
	return c
}

func (ch *chooser) String() string {
	ch.mu.Lock()
	defer ch.mu.Unlock()
	var out []string
	for _, c := range ch.trace {
		out = append(out, fmt.Sprintf("%s:%d/%d", c.label, c.c, c.n))
	}
	return strings.Join(out, " ")
}

// next returns the prefix of the next leaf in depth-first order (nil: done).
func (ch *chooser) next() []int {
	ch.mu.Lock()
	defer ch.mu.Unlock()
	for i := len(ch.trace) - 1; i >= 0; i-- {
		if ch.trace[i].c+1 < ch.trace[i].n {
			p := make([]int, i+1)
			for k := 0; k < i; k++ {
				p[k] = ch.trace[k].c
			}
			p[i] = ch.trace[i].c + 1
			return p
		}
	}
	return nil
}

// everyAnswer calls f once per leaf of the choice tree f's draws span.
func everyAnswer(fullPerm int, f func(ch *chooser) error) (leaves int, err error) {
	var prefix []int
	for {
		ch := &chooser{prefix: prefix, fullPerm: fullPerm}
		leaves++
		if err := f(ch); err != nil {
			return leaves, err
		}
		if prefix = ch.next(); prefix == nil {
			return leaves, nil
		}
		if leaves > 1<<20 {
			return leaves, fmt.Errorf("choice tree of one lookup has more than 2^20 leaves")
		}
	}
}

// owner is the randomness of one (miniredis, RedisStore) pair.
type owner struct {
	mr *miniredis.Miniredis
	ch atomic.Pointer[chooser]
}

var (
	ownerByServer sync.Map // *miniredis.Miniredis -> *owner (SRANDMEMBER replies; server goroutine)
	ownerByGoid   sync.Map // goroutine id -> *owner (window shuffle; runs on the GetPeers caller)
	hookCalls     int64    // SRANDMEMBER replies ordered by the check
	drawCalls     int64    // math/rand draws answered by the check
)

func newOwner(mr *miniredis.Miniredis) *owner {
	o := &owner{mr: mr}
	ownerByServer.Store(mr, o)
	return o
}

func (o *owner) release() { ownerByServer.Delete(o.mr) }

// with runs f (a store call on this goroutine) with ch answering its draws.
func (o *owner) with(ch *chooser, f func() error) error {
	id := goid()
	o.ch.Store(ch)
	ownerByGoid.Store(id, o)
	defer func() {
		ownerByGoid.Delete(id)
		o.ch.Store(nil)
	}()
	return f()
}

func goid() int64 {
	var buf [64]byte
	n := runtime.Stack(buf[:], false)
	f := strings.Fields(string(buf[:n])) // "goroutine 123 [running]:"
	if len(f) < 2 {
		panic("goid: " + string(buf[:n]))
	}
	id, err := strconv.ParseInt(f[1], 10, 64)
	if err != nil {
		panic("goid: " + string(buf[:n]))
	}
	return id
}

// selfTest: the overlay must have put utils/randutil's math/rand under the
// check's control (a draw of ShuffleInt64s reaches vrand.Decider).
func ownershipSelfTest() error {
	before := atomic.LoadInt64(&drawCalls)
	randutil.ShuffleInt64s([]int64{1, 2, 3})
	if atomic.LoadInt64(&drawCalls) == before {
		return fmt.Errorf("randomness not owned: randutil.ShuffleInt64s does not draw through verif/shim/vrand (overlay of utils/randutil missing?)")
	}
	return nil
}

func installOwnership() {
	vrand.Decider = func(n int, label string) int {
		atomic.AddInt64(&drawCalls, 1)
		if o, ok := ownerByGoid.Load(goid()); ok {
			if ch := o.(*owner).ch.Load(); ch != nil {
				return ch.choose(n, "window "+label)
			}
		}
		return 0
	}
	miniredis.VerifMemberOrder = func(m *miniredis.Miniredis, key string, members []string) bool {
		atomic.AddInt64(&hookCalls, 1)
		sort.Strings(members)
		o, ok := ownerByServer.Load(m)
		if !ok {
			return true
		}
		ch := o.(*owner).ch.Load()
		if ch == nil || len(members) < 2 {
			return true
		}
		if len(members) <= ch.fullPerm {
			// Lehmer code: every permutation of the reply
			for i := 0; i < len(members)-1; i++ {
				j := i + ch.choose(len(members)-i, "reply member")
				members[i], members[j] = members[j], members[i]
			}
			return true
		}
		// ascending / descending: both relative orders of every pair of members
		if ch.choose(2, "reply descending") == 1 {
			for i, j := 0, len(members)-1; i < j; i, j = i+1, j-1 {
				members[i], members[j] = members[j], members[i]
			}
		}
		return true
	}
}
