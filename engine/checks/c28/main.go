// C28: the Redis peer store round-trips every announced peer.
//
// E4: small-scope exhaustive inputs. The real peerstore.RedisStore talks to an
// in-process miniredis over TCP; the full product peer id x address string
// (IPv4 / IPv6 / host-name forms) x port x completion flag x position of the
// announce inside the peer-set window x delay of the lookup (same instant ...
// last instant of the retention) is announced with UpdatePeer on an empty
// store and read back with GetPeers. Oracle: exactly the announced
// (id, address, port, complete) comes back.
//
// E3 (hist.go): every history of announcements (torrent x peer x completion
// flag) and clock advances across peer-set window boundaries on one long-lived
// store, read back after every step under every window visiting order and
// SRANDMEMBER reply order (own.go owns both random answers).
package main

import (
	"fmt"
	"sort"
	"strings"
	"sync"
	"time"

	"github.com/alicebob/miniredis"
	"github.com/andres-erbsen/clock"
	"github.com/uber/kraken/core"
	"github.com/uber/kraken/tracker/peerstore"

	"verif/evid"
	_ "verif/quiet"
)

// vclock: explicit-time clock.Clock (RedisStore only calls Now).
type vclock struct {
	clock.Clock
	mu  sync.Mutex
	now time.Time
}

func (c *vclock) Now() time.Time {
	c.mu.Lock()
	defer c.mu.Unlock()
	return c.now
}
func (c *vclock) Set(t time.Time) {
	c.mu.Lock()
	c.now = t
	c.mu.Unlock()
}

type addr struct{ s, kind string }

func addrs(thorough bool) []addr {
	label63 := strings.Repeat("a", 63)
	as := []addr{
		{"10.0.0.1", "ipv4"}, {"127.0.0.1", "ipv4"}, {"0.0.0.0", "ipv4"}, {"255.255.255.255", "ipv4"},
		{"::1", "ipv6"}, {"2001:db8::1", "ipv6"}, {"::ffff:10.0.0.1", "ipv6"},
		{"fe80::1%eth0", "ipv6 with zone"},
		{"[::1]", "ipv6 bracketed"}, {"[2001:db8::1]", "ipv6 bracketed"},
		{"localhost", "hostname"}, {"agent-1.example.com", "hostname"}, {"AGENT.Example.COM", "hostname"},
		{"a", "hostname"}, {"example.com.", "hostname"}, {"xn--bcher-kva.example", "hostname"},
	}
	if thorough {
		as = append(as,
			addr{"192.168.1.254", "ipv4"}, addr{"1.1.1.1", "ipv4"},
			addr{"::", "ipv6"}, addr{"fe80::1", "ipv6"}, addr{"2001:0db8:0000:0000:0000:ff00:0042:8329", "ipv6"}, addr{"2001:DB8::A", "ipv6"},
			addr{"fe80::1%1", "ipv6 with zone"}, addr{"[fe80::1%25eth0]", "ipv6 bracketed"},
			addr{"host_1.internal", "hostname"}, addr{"node7", "hostname"},
			addr{label63 + ".example", "hostname"}, addr{strings.Repeat(label63+".", 3) + strings.Repeat("b", 61), "hostname"}, // 253 characters
			addr{"kraken-agent-7f9c4d-x2x9p.kraken.svc.cluster.local", "hostname"},
		)
	}
	return as
}

func peerIDs(thorough bool) []core.PeerID {
	var zero, ff, mixed, colon core.PeerID
	for i := range ff {
		ff[i] = 0xff
		mixed[i] = byte(i*13 + 1)
		colon[i] = ':' // 0x3a: the raw separator byte inside the id
	}
	ids := []core.PeerID{zero, ff, mixed}
	if thorough {
		ids = append(ids, colon)
	}
	return ids
}

type tcase struct {
	ID       string `json:"peer_id"`
	IP       string `json:"ip"`
	Kind     string `json:"address_kind"`
	Port     int    `json:"port"`
	Complete bool   `json:"complete"`
	Offset   int    `json:"announce_offset_in_window_s"`
	Delay    int    `json:"lookup_delay_s"`
	N        int    `json:"n"`
}

const (
	windowS    = 30
	maxWindows = 4
)

type env struct {
	run *evid.Run
	own *owner
	mr  *miniredis.Miniredis
	clk *vclock
	st  *peerstore.RedisStore
	h   core.InfoHash
}

var base = time.Unix(1_700_000_010, 0) // 1_700_000_010 % 30 == 0: a window start

func (e *env) setTime(t time.Time) {
	e.clk.Set(t)
	e.mr.SetTime(t)
}

// reset empties Redis and puts the clock offset seconds into a window.
func (e *env) reset(offset int) {
	e.mr.FlushAll()
	e.setTime(base.Add(time.Duration(offset) * time.Second))
}

// later moves the store clock and Redis' notion of time forward (keys expire).
func (e *env) later(d int) {
	if d == 0 {
		return
	}
	e.mr.FastForward(time.Duration(d) * time.Second)
	e.setTime(e.clk.Now().Add(time.Duration(d) * time.Second))
}

func (e *env) stored() []string {
	var out []string
	for _, k := range e.mr.Keys() {
		ms, _ := e.mr.Members(k)
		for _, m := range ms {
			out = append(out, k+" ∋ "+m)
		}
	}
	return out
}

func render(ps []*core.PeerInfo) []string {
	var out []string
	for _, p := range ps {
		out = append(out, fmt.Sprintf("{id %s ip %q port %d complete %v origin %v}", p.PeerID, p.IP, p.Port, p.Complete, p.Origin))
	}
	sort.Strings(out)
	return out
}

// compare checks that got is exactly the announced set (identity, address,
// port, completion flag). kind is the address kind of the case for the
// fingerprint.
func (e *env) compare(kind, when string, want []*core.PeerInfo, got []*core.PeerInfo, detail map[string]interface{}) (ok bool) {
	detail["announced"] = render(want)
	detail["returned"] = render(got)
	detail["redis_contents"] = e.stored()
	type ident struct {
		id   core.PeerID
		ip   string
		port int
	}
	gotBy := map[ident]*core.PeerInfo{}
	for _, g := range got {
		gotBy[ident{g.PeerID, g.IP, g.Port}] = g
	}
	for _, w := range want {
		g, ok := gotBy[ident{w.PeerID, w.IP, w.Port}]
		if !ok {
			// lost, or came back with another identity/address/port?
			var same *core.PeerInfo
			for _, x := range got {
				if x.PeerID == w.PeerID {
					same = x
				}
			}
			if same == nil {
				e.run.Violation("announced peer not returned"+when+" (address kind: "+kindOf(w, kind)+")", detail)
			} else if same.IP != w.IP {
				e.run.Violation("peer returned with a different address (address kind: "+kindOf(w, kind)+")", detail)
			} else {
				e.run.Violation("peer returned with a different port", detail)
			}
			return false
		}
		if g.Complete != w.Complete {
			e.run.Violation(fmt.Sprintf("peer returned with a different completion flag (announced %v)", w.Complete), detail)
			return false
		}
	}
	if len(got) != len(want) {
		e.run.Violation("lookup returned a peer that was not announced", detail)
		return false
	}
	return true
}

var kindByIP = map[string]string{}

func kindOf(p *core.PeerInfo, dflt string) string {
	if k, ok := kindByIP[p.IP]; ok {
		return k
	}
	return dflt
}

// getPeers looks h up once per window visiting order (allOrders) or once with
// the default answers; f sees every result and stops the enumeration by
// returning false.
func (e *env) getPeers(n int, allOrders bool, what string, f func(got []*core.PeerInfo, answers string) bool) {
	one := func(ch *chooser) (ok bool) {
		var got []*core.PeerInfo
		err := e.own.with(ch, func() (err error) {
			got, err = e.st.GetPeers(e.h, n)
			return err
		})
		if err != nil {
			e.run.Fatal(fmt.Errorf("GetPeers(%s): %v", what, err))
		}
		e.run.Eval(1)
		return f(got, ch.String())
	}
	if !allOrders {
		one(&chooser{})
		return
	}
	stop := fmt.Errorf("stop")
	if _, err := everyAnswer(0, func(ch *chooser) error {
		if !one(ch) {
			return stop
		}
		return nil
	}); err != nil && err != stop {
		e.run.Fatal(err)
	}
}

func (e *env) roundTrip(c tcase, id core.PeerID, allOrders bool) bool {
	e.reset(c.Offset)
	p := core.NewPeerInfo(id, c.IP, c.Port, false, c.Complete)
	if err := e.st.UpdatePeer(e.h, p); err != nil {
		e.run.Fatal(fmt.Errorf("UpdatePeer(%+v): %v", c, err))
	}
	e.later(c.Delay)
	e.run.Distinct(fmt.Sprintf("%s|%s|%d|%v", c.ID, c.IP, c.Port, c.Complete))
	when := ""
	if c.Delay > 0 {
		when = " by a lookup later in the retention of its window"
	}
	ok := true
	e.getPeers(c.N, allOrders, fmt.Sprintf("%+v", c), func(got []*core.PeerInfo, answers string) bool {
		ok = e.compare(c.Kind, when, []*core.PeerInfo{p}, got, map[string]interface{}{"case": c, "answers": answers})
		return ok
	})
	return ok
}

func main() {
	installOwnership()
	run := evid.New("C28", "exploration")
	if err := ownershipSelfTest(); err != nil {
		run.Fatal(err)
	}
	run.Rule = "(1) inputs: full product of peer ids x address strings (IPv4, IPv6 plain / zone / bracketed, host names) x ports x completion flag x announce position in the peer-set window x n: each peer is announced with UpdatePeer on an emptied in-process Redis and read back with GetPeers; lookups 1 s / one window / the last second of the retention later and sets of peers that differ in one component only (spread over the windows) are read back under EVERY order in which GetPeers can visit the windows. " +
		"(2) histories (explicit-state BFS, every history up to the depth bound, on one long-lived RedisStore): alphabet UpdatePeer(torrent, peer, complete) for every torrent x peer (an IPv4, an IPv6 and a host-name peer) x flag (complete -> incomplete only after the peer's earlier announcements left the retention), advance the clock to the first second of the next window, advance it to the last second of the current window; after every step every torrent is read back with GetPeers(n) for every n of the configuration under every answer of the two random sources: every window visiting order (all draws of randutil.ShuffleInt64s) x, for every SRANDMEMBER reply, ascending and descending member order (thorough: every permutation of replies of <= 3 members). Oracle for a lookup with n larger than the number of stored members: exactly the peers with an announcement inside the retention (MaxPeerSetWindows windows) come back, each with its id, address, port and the completion flag of its latest announcement, and no peer that did not announce for that torrent; for smaller n every returned peer must carry its id, address, port and a flag it announced for that torrent inside the retention. " +
		"distinct = distinct announced (id, address, port, complete) tuples of (1) + distinct (model state, Redis contents) states of (2), torrents renamed canonically; every case is non-trivial (real TCP round trips through SADD/EXPIREAT/SRANDMEMBER)."
	run.Assume("miniredis v2.5.0 implements SADD/EXPIREAT/SRANDMEMBER like Redis; its time is slaved to the store's explicit clock (SetTime/FastForward); the order of the members in a SRANDMEMBER reply is an answer of the environment that the check enumerates (a copy of miniredis' cmd_set.go with a hook in place of its math/rand shuffle is put in place by go build -overlay)")
	run.Assume("math/rand in utils/randutil and tracker/peerstore is rewritten to verif/shim/vrand by the build overlay: every draw of the window shuffle is answered by the check and all answer vectors are enumerated")
	run.Assume("domain: peers that can announce (core.NewPeerContext rejects an empty ip and port 0); addresses are syntactically valid IPv4/IPv6 literals (plain, zoned, bracketed) and host names")
	run.Assume("completion is monotone while the store still holds an announcement of the peer for the torrent (incomplete ... incomplete, complete ... complete): the flag 'it announced' is then the flag of its latest announcement; a complete -> incomplete re-announcement inside the retention is outside the statement")
	run.Assume("a lookup whose n does not exceed the number of stored members of the torrent reads a sample chosen by the store (the statement does not mention n): for it only identity, address, port and 'a flag the peer announced inside the retention' are checked; how often it returns the flag of an earlier announcement is counted (history_truncated_lookups_returning_an_earlier_flag; the TODO in GetPeers documents this limitation)")
	run.Assume("small scope of the histories: <= 2 torrents, <= 3 peers, 2..4 windows, clock positions first / last second of a window, history depth <= 6 (thorough 6..7); quick: {2 windows, 2 torrents, 1 peer} and {3 windows, 1 torrent, 2 peers}, thorough: {2 windows, 2 torrents, 2 peers}, {4 windows, 1 torrent, 2 peers}, {3 windows, 1 torrent, 3 peers}, {3 windows, 2 torrents, 2 peers}")

	mr, err := miniredis.Run()
	if err != nil {
		run.Fatal(err)
	}
	defer mr.Close()
	clk := &vclock{Clock: clock.NewMock(), now: base}
	mr.SetTime(base)
	st, err := peerstore.NewRedisStore(peerstore.RedisConfig{
		Addr:              mr.Addr(),
		PeerSetWindowSize: windowS * time.Second,
		MaxPeerSetWindows: maxWindows,
	}, clk)
	if err != nil {
		run.Fatal(err)
	}
	e := &env{run: run, own: newOwner(mr), mr: mr, clk: clk, st: st, h: core.NewInfoHashFromBytes([]byte("c28"))}

	th := run.Thorough()
	as := addrs(th)
	for _, a := range as {
		kindByIP[a.s] = a.kind
	}
	ids := peerIDs(th)
	ports := []int{1, 80, 65535}
	offsets := []int{0, windowS - 1}
	delays := []int{0}
	ns := []int{50}
	if th {
		ports = []int{1, 2, 80, 443, 6881, 10000, 32767, 32768, 65535}
		offsets = []int{0, 1, windowS / 2, windowS - 1}
		ns = []int{1, 50}
	}
	kinds := map[string]int{}
	// addresses whose immediate round trip failed: the later-lookup and
	// peer-set cases below are run for the others only (they would repeat the
	// same failure)
	broken := map[string]bool{}
	failing := 0
	nAddrs := len(as)
	nSample := 0
	for _, a := range as {
		for ii, id := range ids {
			for _, port := range ports {
				for _, complete := range []bool{false, true} {
					for _, off := range offsets {
						for _, d := range delays {
							for _, n := range ns {
								c := tcase{ID: id.String(), IP: a.s, Kind: a.kind, Port: port, Complete: complete, Offset: off, Delay: d, N: n}
								if !e.roundTrip(c, id, false) {
									broken[a.s] = true
									failing++
								}
								kinds[a.kind]++
								if ii == 2 && port == 80 && complete && off == 0 && nSample%5 == 0 {
									run.Sample(c)
								}
								if ii == 2 && port == 80 && complete && off == 0 {
									nSample++
								}
							}
						}
					}
				}
			}
		}
	}

	// window edges: lookups later in the retention of the announce window
	// (the key of window w lives until w + size*windows; it is listed while
	// the current window is at most windows-1 after w).
	lateDelays := []int{1, windowS, (maxWindows - 1) * windowS}
	var working []addr
	for _, a := range as {
		if !broken[a.s] {
			working = append(working, a)
		}
	}
	run.Set("addresses_failing_the_immediate_round_trip", len(as)-len(working))
	run.Set("failing_immediate_round_trips", failing)
	as = working
	for _, a := range as {
		for _, off := range []int{0, windowS - 1} {
			for _, d := range lateDelays {
				if off+d >= maxWindows*windowS {
					continue
				}
				if d == (maxWindows-1)*windowS && off != 0 {
					d = maxWindows*windowS - 1 - off // last second before the key expires
				}
				c := tcase{ID: ids[2].String(), IP: a.s, Kind: a.kind, Port: 6881, Complete: off == 0, Offset: off, Delay: d, N: 50}
				e.roundTrip(c, ids[2], true) // under every window visiting order
				kinds["late lookup"]++
			}
		}
	}

	// several peers in one torrent that differ in one component only
	type set struct {
		name  string
		peers []*core.PeerInfo
	}
	var sets []set
	for _, a := range as {
		sets = append(sets,
			set{"same id and address, two ports (" + a.kind + ")", []*core.PeerInfo{
				core.NewPeerInfo(ids[2], a.s, 80, false, false), core.NewPeerInfo(ids[2], a.s, 8080, false, true)}},
			set{"two ids, same address and port (" + a.kind + ")", []*core.PeerInfo{
				core.NewPeerInfo(ids[0], a.s, 80, false, true), core.NewPeerInfo(ids[1], a.s, 80, false, false)}},
		)
	}
	var all []*core.PeerInfo
	for i, a := range as {
		var id core.PeerID
		id[0], id[19] = byte(i+1), byte(i+1)
		all = append(all, core.NewPeerInfo(id, a.s, 1000+i, false, i%2 == 0))
	}
	sets = append(sets, set{"one peer per address form", all})
	for _, s := range sets {
		e.reset(0)
		advances := 0
		for i, p := range s.peers {
			if err := st.UpdatePeer(e.h, p); err != nil {
				run.Fatal(fmt.Errorf("UpdatePeer(%+v): %v", *p, err))
			}
			if i%2 == 0 && advances < maxWindows-1 {
				e.later(windowS) // spread the set over all windows of the retention
				advances++
			}
		}
		run.Distinct("set|" + s.name)
		kinds["peer sets"]++
		e.getPeers(2*len(s.peers), true, "set "+s.name, func(got []*core.PeerInfo, answers string) bool {
			return e.compare("set", " from a set of peers spread over the retention", s.peers, got, map[string]interface{}{"set": s.name, "answers": answers})
		})
	}
	e.own.release()
	histories(run)
	run.Set("cases_by_address_kind", kinds)
	run.Set("address_strings", nAddrs)
	run.Set("peer_ids", len(ids))
	run.Set("ports", ports)
	run.Finish()
}
