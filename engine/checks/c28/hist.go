// C28, histories: announce / advance-clock histories on ONE long-lived
// RedisStore across peer-set window boundaries (E3, verif/bfs).
//
// Alphabet: UpdatePeer(torrent, peer, complete) for every torrent, peer
// (different address kinds) and completion flag; advance the clock to the
// first second of the next window; advance it to the last second of the
// current window. After every step of every history the store is read back
// with GetPeers for every torrent under EVERY order in which the windows can
// be visited and every enumerated order of the members inside each
// SRANDMEMBER reply (own.go), and compared with the reference model
// (torrent, peer) -> announcements inside the retention.
package main

import (
	"fmt"
	"sort"
	"strconv"
	"strings"
	"sync"
	"sync/atomic"
	"time"

	"github.com/alicebob/miniredis"
	"github.com/andres-erbsen/clock"
	"github.com/uber/kraken/core"
	"github.com/uber/kraken/tracker/peerstore"

	"verif/bfs"
	"verif/evid"
	"verif/rep"
)

type hcfg struct {
	name     string
	windows  int   // MaxPeerSetWindows
	nh, np   int   // torrents, peers
	depth    int   // history length
	ns       []int // n of the lookups
	fullPerm int   // replies of up to this many members are put into every permutation
}

// hpeer is one peer of the alphabet (identity + address + port fixed).
type hpeer struct {
	name string
	id   core.PeerID
	ip   string
	kind string
	port int
}

func histPeers() []hpeer {
	ids := peerIDs(true)
	return []hpeer{
		{"p", ids[2], "10.0.0.1", "ipv4", 80},
		{"q", ids[1], "2001:db8::1", "ipv6", 6881},
		{"r", ids[0], "agent-1.example.com", "hostname", 65535},
	}
}

type annc struct {
	win      int64 // start of the window of the announcement
	complete bool
}

type hsys struct {
	run   *evid.Run
	c     hcfg
	mr    *miniredis.Miniredis
	clk   *vclock
	st    *peerstore.RedisStore
	own   *owner
	peers []hpeer
	hs    []core.InfoHash
	anns  [][][]annc // [torrent][peer]: announcements inside the retention, oldest first
	ever  [][]bool   // [torrent][peer]: announced at some point of the history
	hist  string
}

// full observations already made, by history (bfs replays prefixes)
var observed sync.Map

// vacuity counters
var (
	cntLookups, cntFullObs, cntCrossStates, cntCrossLookups, cntSameWindowBoth int64
	cntStaleTruncated, cntReturnedAfterRetention, cntReannounceAfterExpiry     int64
	cntEmptyTruncated, cntResultSets                                           int64
)

// servers: idle miniredis instances (starting / stopping one costs more than a
// whole short history). A history gets an emptied server with its clock reset
// and a FRESH RedisStore.
var servers = make(chan *miniredis.Miniredis, 256)

func newHsys(run *evid.Run, c hcfg) (*hsys, error) {
	var mr *miniredis.Miniredis
	select {
	case mr = <-servers:
		mr.FlushAll()
	default:
		var err error
		if mr, err = miniredis.Run(); err != nil {
			return nil, err
		}
	}
	clk := &vclock{Clock: clock.NewMock(), now: base}
	mr.SetTime(base)
	st, err := peerstore.NewRedisStore(peerstore.RedisConfig{
		Addr:              mr.Addr(),
		PeerSetWindowSize: windowS * time.Second,
		MaxPeerSetWindows: c.windows,
	}, clk)
	if err != nil {
		mr.Close()
		return nil, err
	}
	s := &hsys{run: run, c: c, mr: mr, clk: clk, st: st, own: newOwner(mr), peers: histPeers()[:c.np]}
	for h := 0; h < c.nh; h++ {
		s.hs = append(s.hs, core.NewInfoHashFromBytes([]byte{'c', '2', '8', byte('a' + h)}))
		s.anns = append(s.anns, make([][]annc, c.np))
		s.ever = append(s.ever, make([]bool, c.np))
	}
	return s, nil
}

func (s *hsys) Close() {
	s.st.VerifClosePool()
	s.own.release()
	select {
	case servers <- s.mr:
	default:
		s.mr.Close()
	}
}

func (s *hsys) now() int64    { return s.clk.Now().Unix() }
func (s *hsys) curWin() int64 { t := s.now(); return t - t%windowS }
func (s *hsys) offset() int64 { return s.now() % windowS }

// live: the announcement's window is one of the windows a lookup reads now.
func (s *hsys) live(a annc) bool { return s.curWin()-a.win <= int64(s.c.windows-1)*windowS }

func (s *hsys) prune() {
	for h := range s.anns {
		for p, as := range s.anns[h] {
			var keep []annc
			for _, a := range as {
				if s.live(a) {
					keep = append(keep, a)
				}
			}
			s.anns[h][p] = keep
		}
	}
}

func (s *hsys) Ops() []string {
	var ops []string
	for h := 0; h < s.c.nh; h++ {
		for p := 0; p < s.c.np; p++ {
			as := s.anns[h][p]
			// completion is monotone while the peer is known to the store: a peer
			// announces incomplete until it has the blob and complete from then on
			if len(as) == 0 || !as[len(as)-1].complete {
				ops = append(ops, fmt.Sprintf("a %d %s 0", h, s.peers[p].name))
			}
			ops = append(ops, fmt.Sprintf("a %d %s 1", h, s.peers[p].name))
		}
	}
	ops = append(ops, "w")
	if s.offset() != windowS-1 {
		ops = append(ops, "e")
	}
	return ops
}

func (s *hsys) advance(d int64) {
	s.mr.FastForward(time.Duration(d) * time.Second)
	t := s.clk.Now().Add(time.Duration(d) * time.Second)
	s.clk.Set(t)
	s.mr.SetTime(t)
	s.prune()
}

func (s *hsys) peerIdx(name string) int {
	for i, p := range s.peers {
		if p.name == name {
			return i
		}
	}
	return -1
}

func (s *hsys) Apply(op string) error {
	f := strings.Fields(op)
	switch f[0] {
	case "a":
		h, _ := strconv.Atoi(f[1])
		p := s.peerIdx(f[2])
		complete := f[3] == "1"
		if h >= s.c.nh || p < 0 {
			return fmt.Errorf("bad op %q", op)
		}
		if s.ever[h][p] && len(s.anns[h][p]) == 0 {
			atomic.AddInt64(&cntReannounceAfterExpiry, 1)
		}
		pe := s.peers[p]
		if err := s.st.UpdatePeer(s.hs[h], core.NewPeerInfo(pe.id, pe.ip, pe.port, false, complete)); err != nil {
			return fmt.Errorf("UpdatePeer(%s): %v", op, err)
		}
		s.anns[h][p] = append(s.anns[h][p], annc{s.curWin(), complete})
		s.ever[h][p] = true
	case "w":
		s.advance(windowS - s.offset())
	case "e":
		s.advance(windowS - 1 - s.offset())
	default:
		return fmt.Errorf("bad op %q", op)
	}
	s.hist += op + ";"
	_, seen := observed.LoadOrStore(s.c.name+"|"+s.hist, struct{}{})
	return s.observe(!seen)
}

// members: distinct (window, flag) pairs of the torrent's announcements
// inside the retention = the set members a Redis holds for it.
func (s *hsys) members(h int) int {
	n := 0
	for _, as := range s.anns[h] {
		seen := map[annc]bool{}
		for _, a := range as {
			if !seen[a] {
				seen[a] = true
				n++
			}
		}
	}
	return n
}

// observe reads every torrent back. full: every n, under every window order
// and reply order; otherwise (a prefix replayed by the search) one lookup per
// torrent with the default answers.
func (s *hsys) observe(full bool) error {
	if full {
		atomic.AddInt64(&cntFullObs, 1)
		s.run.Distinct("hist|" + s.Key())
	}
	cross, same := false, false
	for h := range s.hs {
		for _, as := range s.anns[h] {
			for i, a := range as {
				for _, b := range as[i+1:] {
					if a.complete != b.complete && a.win != b.win {
						cross = true
					}
					if a.complete != b.complete && a.win == b.win {
						same = true
					}
				}
			}
		}
	}
	if full && cross {
		atomic.AddInt64(&cntCrossStates, 1)
	}
	if full && same {
		atomic.AddInt64(&cntSameWindowBoth, 1)
	}
	for h := range s.hs {
		ns := s.c.ns
		if !full {
			ns = ns[len(ns)-1:]
		}
		for _, n := range ns {
			one := func(ch *chooser) (string, error) {
				var got []*core.PeerInfo
				err := s.own.with(ch, func() (err error) {
					got, err = s.st.GetPeers(s.hs[h], n)
					return err
				})
				if err != nil {
					return "", fmt.Errorf("GetPeers(torrent %d, %d) after %s: %v", h, n, s.hist, err)
				}
				return strings.Join(render(got), " "), s.check(h, n, got, ch)
			}
			if !full {
				if _, err := one(&chooser{}); err != nil {
					return err
				}
				continue
			}
			results := map[string]bool{}
			leaves, err := everyAnswer(s.c.fullPerm, func(ch *chooser) error {
				r, err := one(ch)
				results[r] = true
				return err
			})
			atomic.AddInt64(&cntLookups, int64(leaves))
			atomic.AddInt64(&cntResultSets, int64(len(results)))
			if cross {
				atomic.AddInt64(&cntCrossLookups, int64(leaves))
			}
			if err != nil {
				return err
			}
		}
	}
	return nil
}

func (s *hsys) describe(h int) string {
	var out []string
	for p, as := range s.anns[h] {
		for _, a := range as {
			out = append(out, fmt.Sprintf("%s complete=%v in window %d", s.peers[p].name, a.complete, -(s.curWin()-a.win)/windowS))
		}
	}
	return strings.Join(out, ", ")
}

// check is the oracle on one GetPeers(torrent h, n) result.
func (s *hsys) check(h, n int, got []*core.PeerInfo, ch *chooser) error {
	full := n > s.members(h) // the lookup can read every member of every window
	if n == s.c.ns[len(s.c.ns)-1] && !full {
		return fmt.Errorf("harness: n=%d does not exceed the %d stored members", n, s.members(h))
	}
	ctx := func() string {
		return fmt.Sprintf("GetPeers(torrent %d, n=%d) with answers [%s] returned %v; announcements inside the retention (window 0 = current, %d windows): %s; redis: %v",
			h, n, ch, render(got), s.c.windows, s.describe(h), s.stored())
	}
	present := make([]bool, len(s.peers))
	for _, r := range got {
		p := -1
		for i, pe := range s.peers {
			if pe.id == r.PeerID {
				p = i
			}
		}
		if p < 0 {
			return bfs.Failf("lookup returned a peer that was not announced", "%s", ctx())
		}
		pe := s.peers[p]
		if r.IP != pe.ip {
			return bfs.Failf("peer returned with a different address (address kind: "+pe.kind+")", "%s", ctx())
		}
		if r.Port != pe.port {
			return bfs.Failf("peer returned with a different port", "%s", ctx())
		}
		as := s.anns[h][p]
		if len(as) == 0 {
			if !s.ever[h][p] {
				return bfs.Failf("lookup returned a peer that was not announced for the torrent", "%s", ctx())
			}
			// the statement does not say when a peer stops being returned
			atomic.AddInt64(&cntReturnedAfterRetention, 1)
			continue
		}
		present[p] = true
		latest := as[len(as)-1].complete
		if r.Complete == latest {
			continue
		}
		announced := false
		for _, a := range as {
			if a.complete == r.Complete {
				announced = true
			}
		}
		if !announced {
			return bfs.Failf(fmt.Sprintf("peer returned with a completion flag it did not announce for the torrent (announced %v)", latest), "%s", ctx())
		}
		if full {
			return bfs.Failf(fmt.Sprintf("peer returned with the completion flag of an earlier announcement (latest announcement: complete=%v)", latest), "%s", ctx())
		}
		// n cuts the lookup short: which members it reads is the store's choice
		atomic.AddInt64(&cntStaleTruncated, 1)
	}
	if full {
		for p, as := range s.anns[h] {
			if len(as) > 0 && !present[p] {
				return bfs.Failf("announced peer not returned by a lookup inside the retention of its window (history of announcements and clock advances)", "missing %s: %s", s.peers[p].name, ctx())
			}
		}
	} else if len(got) == 0 && s.members(h) > 0 && n > 0 {
		atomic.AddInt64(&cntEmptyTruncated, 1)
	}
	return nil
}

// stored renders Redis' contents with torrent indices and relative windows.
func (s *hsys) stored() []string {
	var out []string
	for _, k := range s.mr.Keys() {
		name := k
		f := strings.Split(k, ":")
		if len(f) == 3 {
			for h, ih := range s.hs {
				if f[1] == ih.String() {
					f[1] = fmt.Sprintf("t%d", h)
				}
			}
			if w, err := strconv.ParseInt(f[2], 10, 64); err == nil {
				f[2] = fmt.Sprintf("w-%d", (s.curWin()-w)/windowS)
			}
			name = strings.Join(f, ":")
		}
		ms, _ := s.mr.Members(k)
		for i, m := range ms {
			for _, pe := range s.peers {
				m = strings.Replace(m, pe.id.String()+":", pe.name+"=", 1)
			}
			ms[i] = m
		}
		out = append(out, fmt.Sprintf("%s{%s}ttl=%ds", name, strings.Join(ms, ","), int64(s.mr.TTL(k)/time.Second)))
	}
	sort.Strings(out)
	return out
}

// Key: model state (announcements inside the retention, by relative window),
// position in the window, and Redis' contents. The torrents are interchangeable
// (the alphabet is the same for each and the store only uses the info hash as
// part of the Redis key), so the key is the smallest one over all renamings of
// the torrents: histories that differ only by exchanging torrents are expanded
// once.
func (s *hsys) Key() string {
	best := ""
	for _, perm := range permutations(len(s.hs)) {
		if k := s.keyUnder(perm); best == "" || k < best {
			best = k
		}
	}
	return best
}

func permutations(n int) [][]int {
	if n <= 1 {
		return [][]int{make([]int, n)}
	}
	var out [][]int
	var rec func(cur []int, used []bool)
	rec = func(cur []int, used []bool) {
		if len(cur) == n {
			out = append(out, append([]int{}, cur...))
			return
		}
		for i := 0; i < n; i++ {
			if !used[i] {
				used[i] = true
				rec(append(cur, i), used)
				used[i] = false
			}
		}
	}
	rec(nil, make([]bool, n))
	return out
}

// keyUnder renders the state with torrent h named perm[h].
func (s *hsys) keyUnder(perm []int) string {
	parts := make([]string, len(s.anns))
	for h := range s.anns {
		var b strings.Builder
		for p, as := range s.anns[h] {
			set := map[string]bool{}
			for _, a := range as {
				set[fmt.Sprintf("%d:%v", (s.curWin()-a.win)/windowS, a.complete)] = true
			}
			var ks []string
			for k := range set {
				ks = append(ks, k)
			}
			sort.Strings(ks)
			latest := ""
			if len(as) > 0 {
				latest = fmt.Sprint(as[len(as)-1].complete)
			}
			fmt.Fprintf(&b, "t%d%s[%s]latest=%s,ever=%v|", perm[h], s.peers[p].name, strings.Join(ks, " "), latest, s.ever[h][p])
		}
		parts[perm[h]] = b.String()
	}
	st := s.stored()
	for i, e := range st {
		for h := range s.hs {
			if strings.HasPrefix(e, fmt.Sprintf("peerset:t%d:", h)) {
				st[i] = fmt.Sprintf("peerset:t%d:", perm[h]) + strings.TrimPrefix(e, fmt.Sprintf("peerset:t%d:", h))
				break
			}
		}
	}
	sort.Strings(st)
	return fmt.Sprintf("off=%d|%s%s", s.offset(), strings.Join(parts, ""), strings.Join(st, " "))
}

func histConfigs(thorough bool) []hcfg {
	if !thorough {
		return []hcfg{
			{name: "2 windows, 2 torrents, 1 peer", windows: 2, nh: 2, np: 1, depth: 6, ns: []int{1, 50}},
			{name: "3 windows, 1 torrent, 2 peers", windows: 3, nh: 1, np: 2, depth: 6, ns: []int{1, 50}},
		}
	}
	// cheapest first: a search that finishes early leaves its share of the time
	// budget to the later ones
	return []hcfg{
		{name: "2 windows, 2 torrents, 2 peers", windows: 2, nh: 2, np: 2, depth: 6, ns: []int{1, 2, 50}, fullPerm: 3},
		{name: "4 windows, 1 torrent, 2 peers", windows: 4, nh: 1, np: 2, depth: 7, ns: []int{1, 2, 50}, fullPerm: 3},
		{name: "3 windows, 1 torrent, 3 peers", windows: 3, nh: 1, np: 3, depth: 6, ns: []int{1, 3, 50}, fullPerm: 3},
		{name: "3 windows, 2 torrents, 2 peers", windows: 3, nh: 2, np: 2, depth: 6, ns: []int{1, 2, 50}, fullPerm: 3},
	}
}

// histories runs the searches and reports them.
func histories(run *evid.Run) {
	// time budget of the whole phase, shared out evenly over the searches
	// still to run (a search that hits its share marks the run NotExhaustive)
	budget := 45 * time.Second
	if run.Thorough() {
		budget = 11 * time.Minute
	}
	t0 := time.Now()
	var names []string
	cfgs := histConfigs(run.Thorough())
	for i, c := range cfgs {
		c := c
		left := budget - time.Since(t0)
		if left < time.Second {
			left = time.Second
		}
		names = append(names, fmt.Sprintf("%s, depth %d, n in %v", c.name, c.depth, c.ns))
		rep.BFS(run, "histories: "+c.name, bfs.Config{MaxDepth: c.depth, Deadline: time.Now().Add(left / time.Duration(len(cfgs)-i)), New: func() (bfs.System, error) {
			return newHsys(run, c)
		}})
	}
	run.Set("history_searches", names)
	run.Set("history_phase_wall_s", time.Since(t0).Seconds())
	run.Set("history_lookups_under_enumerated_answers", atomic.LoadInt64(&cntLookups))
	run.Set("history_states_observed", atomic.LoadInt64(&cntFullObs))
	run.Set("history_states_with_flag_change_across_windows", atomic.LoadInt64(&cntCrossStates))
	run.Set("history_lookups_in_states_with_flag_change_across_windows", atomic.LoadInt64(&cntCrossLookups))
	run.Set("history_states_with_both_flags_in_one_window", atomic.LoadInt64(&cntSameWindowBoth))
	run.Set("history_distinct_results_summed_over_lookup_sites", atomic.LoadInt64(&cntResultSets))
	run.Set("history_reannouncements_after_the_retention_passed", atomic.LoadInt64(&cntReannounceAfterExpiry))
	run.Set("history_peers_returned_after_their_retention", atomic.LoadInt64(&cntReturnedAfterRetention))
	run.Set("history_truncated_lookups_returning_an_earlier_flag", atomic.LoadInt64(&cntStaleTruncated))
	run.Set("history_truncated_lookups_returning_nothing", atomic.LoadInt64(&cntEmptyTruncated))
	run.Set("srandmember_replies_ordered_by_the_check", atomic.LoadInt64(&hookCalls))
	run.Set("rand_draws_answered_by_the_check", atomic.LoadInt64(&drawCalls))
	if atomic.LoadInt64(&hookCalls) == 0 {
		run.Fatal(fmt.Errorf("randomness not owned: no SRANDMEMBER reply went through the check (overlay of miniredis cmd_set.go missing?)"))
	}
	if run.NViolations() == 0 && (atomic.LoadInt64(&cntCrossStates) == 0 || atomic.LoadInt64(&cntReannounceAfterExpiry) == 0) {
		run.Fatal(fmt.Errorf("vacuous history search: %d states with a flag change across windows, %d re-announcements after the retention", cntCrossStates, cntReannounceAfterExpiry))
	}
}
