// C21, E1 part: Ring.Locations concurrent with Ring.Refresh.
//
// The E4 part (main.go) decides the replica-set clauses on quiescent rings. This
// part decides them while the ring is being refreshed: a real hashring.Ring
// (sync -> vsync through the overlay, so every lock operation of lib/hashring is
// a scheduling point; the hostlist, the health filter and a registered Watcher
// are harness fakes that are scheduling points too) runs one refresher thread,
// which moves the ring through a history of ring states (membership, healthy
// subset), next to lookup threads calling Locations. Every interleaving up to a
// preemption bound is executed (engine/vrt).
//
// Oracle (from the statement): "the replica set is non-empty and drawn from
// CURRENT members: ... the healthy members among the top MaxReplica owners ...".
// While a Refresh is in progress "current" is either the ring before or the ring
// after it, so every Locations answer has to be the statement's replica set
// (own rendezvous reference of main.go) of ONE ring state that was current at
// some moment between the call's invocation and its response, the states chosen
// for calls that follow one another never go backwards (Refresh takes effect
// once), and the process is never terminated (log.Fatal in Locations).
package main

import (
	"encoding/json"
	"fmt"
	"math/bits"
	"os"
	"os/exec"
	"runtime"
	"sort"
	"strings"
	"sync"
	"sync/atomic"
	"syscall"
	"time"

	"github.com/uber-go/tally"
	"github.com/uber/kraken/core"
	"github.com/uber/kraken/lib/hashring"
	"github.com/uber/kraken/utils/stringset"

	"verif/checks/c21/klog"
	"verif/evid"
	"verif/vrt"
)

// ---------------------------------------------------------------------------
// scenario space

const e1PoolN = 4 // hosts universe[0..3]

// ringState: membership and healthy subset as bit masks over the pool.
type ringState struct{ M, H uint8 }

type e1Step struct {
	To   ringState
	Kind string
}

// e1Events: what one Refresh can find changed with respect to state s: nothing,
// the health of one member, one member gone, one host added (healthy or not),
// one member replaced by a new host (healthy or not).
func e1Events(s ringState) []e1Step {
	out := []e1Step{{s, "no change"}}
	for x := 0; x < e1PoolN; x++ {
		bx := uint8(1) << uint(x)
		if s.M&bx == 0 {
			out = append(out, e1Step{ringState{s.M | bx, s.H | bx}, "host added"})
			out = append(out, e1Step{ringState{s.M | bx, s.H}, "host added"})
			continue
		}
		out = append(out, e1Step{ringState{s.M, s.H ^ bx}, "health change"})
		if bits.OnesCount8(s.M) >= 2 {
			out = append(out, e1Step{ringState{s.M &^ bx, s.H &^ bx}, "host removed"})
		}
		for y := 0; y < e1PoolN; y++ {
			by := uint8(1) << uint(y)
			if s.M&by != 0 {
				continue
			}
			m := s.M&^bx | by
			out = append(out, e1Step{ringState{m, s.H&^bx | by}, "host replaced"})
			out = append(out, e1Step{ringState{m, s.H &^ bx}, "host replaced"})
		}
	}
	return out
}

// e1States: every ring state over the pool (non-empty membership, any healthy subset).
func e1States() []ringState {
	var out []ringState
	for m := 1; m < 1<<e1PoolN; m++ {
		for h := 0; h < 1<<e1PoolN; h++ {
			if h&^m == 0 {
				out = append(out, ringState{uint8(m), uint8(h)})
			}
		}
	}
	return out
}

type e1Scenario struct {
	Index   int
	R       int
	States  []ringState // States[0] built by New, then one Refresh per further state
	Kinds   []string    // Kinds[j]: what changed between States[j-1] and States[j]
	Shard   int
	Lookers int
	Lookups int
	Bound   int

	// derived (e1Prepare)
	name   string
	digest core.Digest
	want   [][]string // statement's replica set per state
	cases  []string
}

func (sc *e1Scenario) kindKey() string { return strings.Join(sc.Kinds[1:], "+") }

func maskNames(m uint8) []string {
	out := []string{}
	for i := 0; i < e1PoolN; i++ {
		if m>>uint(i)&1 == 1 {
			out = append(out, universe[i])
		}
	}
	return out
}

func (sc *e1Scenario) describe() map[string]interface{} {
	var hist []map[string]interface{}
	for j, s := range sc.States {
		e := map[string]interface{}{"members": maskNames(s.M), "healthy": maskNames(s.H), "statement_replica_set": sc.want[j], "statement_case": sc.cases[j]}
		if j == 0 {
			e["reached_by"] = "New"
		} else {
			e["reached_by"] = "Refresh (" + sc.Kinds[j] + ")"
		}
		hist = append(hist, e)
	}
	return map[string]interface{}{"index": sc.Index, "max_replica": sc.R, "shard": fmt.Sprintf("%04x", sc.Shard), "ring_states": hist,
		"lookup_threads": sc.Lookers, "lookups_per_thread": sc.Lookups, "preemption_bound": sc.Bound}
}

// e1RankOrder: members of m by descending reference score for shard; ok=false on a tie.
func e1RankOrder(m uint8, shard int) (ord []string, ok bool) {
	var ix []int
	for i := 0; i < e1PoolN; i++ {
		if m>>uint(i)&1 == 1 {
			ix = append(ix, i)
		}
	}
	sort.SliceStable(ix, func(a, b int) bool { return scores[ix[a]][shard] > scores[ix[b]][shard] })
	ok = true
	for i := 0; i+1 < len(ix); i++ {
		if scores[ix[i]][shard] == scores[ix[i+1]][shard] {
			ok = false
		}
	}
	return names(ix), ok
}

// e1ShardTable: for every rank order of the pool's hosts (4! = 24) the lowest
// shard whose reference rank order is that one. Locations depends on the digest
// only through the rank order of the members, so these shards represent all.
func e1ShardTable() map[string]int {
	tab := map[string]int{}
	for s := 0; s < nShards && len(tab) < 24; s++ {
		ord, ok := e1RankOrder(1<<e1PoolN-1, s)
		if !ok {
			continue
		}
		var b strings.Builder
		for _, h := range ord {
			b.WriteByte(byte('0' + indexIn(universe, h)))
		}
		if _, seen := tab[b.String()]; !seen {
			tab[b.String()] = s
		}
	}
	return tab
}

var e1ScoresOnce sync.Once

// e1Init computes the reference scores of the pool hosts (workers; main computes all).
func e1Init() {
	e1ScoresOnce.Do(func() {
		if scores == nil {
			scores = make([][]float64, len(universe))
		}
		for h := 0; h < e1PoolN; h++ {
			if scores[h] != nil {
				continue
			}
			scores[h] = make([]float64, nShards)
			for s := 0; s < nShards; s++ {
				scores[h][s] = refScore(uint16(s), universe[h])
			}
		}
	})
}

// e1Scenarios enumerates the tier's scenario space (deterministic order).
func e1Scenarios(tier string) []*e1Scenario {
	e1Init()
	tab := e1ShardTable()
	if len(tab) != 24 {
		panic(fmt.Sprintf("only %d of the 24 rank orders of the pool occur among the shards", len(tab)))
	}
	var orders []string
	for k := range tab {
		orders = append(orders, k)
	}
	sort.Strings(orders)
	rot := []string{"0123", "1230", "2301", "3012"} // every host at every rank once
	var out []*e1Scenario
	add := func(R int, states []ringState, kinds []string, shard, lookers, lookups, bound int) {
		sc := &e1Scenario{Index: len(out), R: R, States: states, Kinds: kinds, Shard: shard, Lookers: lookers, Lookups: lookups, Bound: bound}
		out = append(out, sc)
	}
	states := e1States()
	oneStep := func(Rs []int, shardOrders []string, lookers, lookups, bound int) {
		for _, R := range Rs {
			for _, s0 := range states {
				for _, ev := range e1Events(s0) {
					for _, o := range shardOrders {
						add(R, []ringState{s0, ev.To}, []string{"", ev.Kind}, tab[o], lookers, lookups, bound)
					}
				}
			}
		}
	}
	twoStep := func(Rs []int, shardOrders []string, lookers, lookups, bound int) {
		for _, R := range Rs {
			for _, s0 := range states {
				for _, e1 := range e1Events(s0) {
					for _, e2 := range e1Events(e1.To) {
						if e1.Kind == "no change" || e2.Kind == "no change" {
							continue
						}
						for _, o := range shardOrders {
							add(R, []ringState{s0, e1.To, e2.To}, []string{"", e1.Kind, e2.Kind}, tab[o], lookers, lookups, bound)
						}
					}
				}
			}
		}
	}
	if tier == "thorough" {
		oneStep([]int{1, 2, 3}, rot, 1, 2, 2)      // the quick space, plus MaxReplica 3
		oneStep([]int{1, 2, 3}, orders, 1, 1, 2)   // every rank order of the pool
		oneStep([]int{1, 2, 3}, rot[:2], 1, 2, 99) // ALL interleavings (no preemption bound)
		oneStep([]int{1, 2, 3}, rot[:2], 2, 1, 3)  // two lookup threads
		twoStep([]int{2}, rot[:1], 1, 2, 2)        // two Refreshes in a row
	} else {
		oneStep([]int{1, 2}, rot, 1, 2, 2)
	}
	return out
}

var e1Tails = strings.Repeat("0123456789abcdef", 4)[4:]

func (sc *e1Scenario) prepare() error {
	if sc.want != nil {
		return nil
	}
	d, err := core.NewSHA256DigestFromHex(fmt.Sprintf("%04x", sc.Shard) + e1Tails)
	if err != nil {
		return err
	}
	sc.digest = d
	var hs []string
	for _, s := range sc.States {
		hs = append(hs, fmt.Sprintf("%x/%x", s.M, s.H))
	}
	sc.name = fmt.Sprintf("e1 #%d R%d %s shard %04x %dx%d b%d", sc.Index, sc.R, strings.Join(hs, ">"), sc.Shard, sc.Lookers, sc.Lookups, sc.Bound)
	for _, s := range sc.States {
		ord, ok := e1RankOrder(s.M, sc.Shard)
		if !ok {
			return fmt.Errorf("%s: reference scores tie", sc.name)
		}
		healthy := map[string]bool{}
		for _, h := range maskNames(s.H) {
			healthy[h] = true
		}
		w, cas := expected(ord, healthy, sc.R)
		sc.want = append(sc.want, w)
		sc.cases = append(sc.cases, cas)
	}
	return nil
}

// ---------------------------------------------------------------------------
// environment fakes (scheduling points once the ring is built)

var e1Armed bool

func e1Point(l string) {
	if e1Armed {
		vrt.Point(l)
	}
}

type e1List struct{ m uint8 }

func (l *e1List) Resolve() stringset.Set {
	e1Point("hostlist.Resolve")
	s := make(stringset.Set)
	for _, h := range maskNames(l.m) {
		s.Add(h)
	}
	return s
}

type e1Filter struct{ h uint8 }

func (f *e1Filter) Run(addrs stringset.Set) stringset.Set {
	e1Point("healthcheck.Run")
	out := make(stringset.Set)
	for _, h := range maskNames(f.h) {
		if addrs.Has(h) {
			out.Add(h)
		}
	}
	return out
}

type e1Watcher struct{ notified, started *int32 }

func (w *e1Watcher) Notify(latest stringset.Set) {
	atomic.StoreInt32(w.notified, atomic.LoadInt32(w.started))
	e1Point("Watcher.Notify")
}

// ---------------------------------------------------------------------------
// one execution

type e1Rec struct {
	Thread   string   `json:"thread"`
	Inv      int64    `json:"invoked_at"`
	Res      int64    `json:"returned_at"`
	Lo       int32    `json:"refreshes_completed_at_invocation"`
	Hi       int32    `json:"refreshes_started_at_return"`
	Window   bool     `json:"invoked_between_notify_and_publish"`
	Started  bool     `json:"-"`
	Done     bool     `json:"returned"`
	Got      []string `json:"got"`
	Accepted []int    `json:"matching_ring_states"`
}

var e1LookNames = []string{"look0", "look1", "look2"}

func (sc *e1Scenario) body() (obs, vio string) {
	var fmu sync.Mutex
	var fatalMsg string
	var fatalDuring bool
	var started, completed, notified int32
	var clock int64
	e1Armed = false
	klog.SetFatalHook(func(msg string) {
		if !e1Armed {
			panic("log.Fatal in hashring.New: " + msg)
		}
		fmu.Lock()
		if fatalMsg == "" {
			fatalMsg = msg
			fatalDuring = atomic.LoadInt32(&started) > atomic.LoadInt32(&completed)
		}
		fmu.Unlock()
		runtime.Goexit() // the process would be gone; the calling thread ends here
	})
	list := &e1List{m: sc.States[0].M}
	filt := &e1Filter{h: sc.States[0].H}
	ring := hashring.New(hashring.Config{MaxReplica: sc.R}, list, filt, tally.NoopScope,
		hashring.WithWatcher(&e1Watcher{notified: &notified, started: &started}))
	e1Armed = true

	vrt.GoNamed("refresh", func() {
		for j := 1; j < len(sc.States); j++ {
			list.m, filt.h = sc.States[j].M, sc.States[j].H
			atomic.StoreInt32(&started, int32(j))
			ring.Refresh()
			atomic.StoreInt32(&completed, int32(j))
		}
	})
	recs := make([][]e1Rec, sc.Lookers)
	for t := range recs {
		recs[t] = make([]e1Rec, sc.Lookups)
		t := t
		vrt.GoNamed(e1LookNames[t], func() {
			for i := range recs[t] {
				r := &recs[t][i]
				r.Thread = e1LookNames[t]
				r.Lo = atomic.LoadInt32(&completed)
				r.Window = atomic.LoadInt32(&notified) > r.Lo
				r.Inv = atomic.AddInt64(&clock, 1)
				r.Started = true
				got := ring.Locations(sc.digest)
				r.Res = atomic.AddInt64(&clock, 1)
				r.Hi = atomic.LoadInt32(&started)
				r.Got = got
				r.Done = true
			}
		})
	}
	vrt.Join()
	e1Armed = false

	var ops []*e1Rec
	for t := range recs {
		for i := range recs[t] {
			if recs[t][i].Started {
				ops = append(ops, &recs[t][i])
			}
		}
	}
	last := int32(len(sc.States) - 1)
	fmu.Lock()
	fm, fd := fatalMsg, fatalDuring
	fmu.Unlock()
	if fm == "" && atomic.LoadInt32(&completed) == last {
		// end state: with every Refresh returned, the ring answers for the last state
		fin := &e1Rec{Thread: "main (after all threads)", Lo: last, Hi: last, Started: true}
		fin.Inv = atomic.AddInt64(&clock, 1)
		fin.Got = ring.Locations(sc.digest)
		fin.Res = atomic.AddInt64(&clock, 1)
		fin.Done = true
		ops = append(ops, fin)
	}

	detail := func() string {
		b, _ := json.Marshal(map[string]interface{}{"lookups": ops})
		return string(b)
	}
	kindsOf := func(lo, hi int32) string {
		if hi <= lo {
			return "no Refresh in progress"
		}
		return "Refresh in progress: " + strings.Join(sc.Kinds[lo+1:hi+1], "+")
	}
	// observation
	var toks []string
	for _, r := range ops {
		if !r.Done {
			toks = append(toks, r.Thread[:1]+"!")
			continue
		}
		for j := r.Lo; j <= r.Hi; j++ {
			if eq(r.Got, sc.want[j]) {
				r.Accepted = append(r.Accepted, int(j))
			}
		}
		tok := "-"
		if r.Hi > r.Lo {
			tok = "~"
			if r.Window {
				tok = "~w"
			}
		}
		if len(r.Accepted) == int(r.Hi-r.Lo)+1 {
			tok += "="
		} else if len(r.Accepted) > 0 {
			tok += fmt.Sprintf("s%d", r.Accepted[0])
		} else {
			tok += "X"
		}
		toks = append(toks, tok)
	}
	obs = strings.Join(toks, " ")

	if fm != "" {
		when := "no Refresh in progress"
		if fd {
			when = "Refresh in progress: " + sc.kindKey()
		}
		return obs, fmt.Sprintf("Locations terminates the process through log.Fatal (%s; %s)\n%s", fm, when, detail())
	}
	for _, r := range ops {
		if !r.Done {
			return obs, "a lookup thread ended inside Locations without an answer\n" + detail()
		}
	}
	for _, r := range ops {
		if len(r.Got) == 0 {
			return obs, fmt.Sprintf("replica set is empty (%s)\n%s", kindsOf(r.Lo, r.Hi), detail())
		}
	}
	for _, r := range ops {
		if len(r.Accepted) == 0 {
			if r.Hi > r.Lo {
				return obs, fmt.Sprintf("Locations concurrent with Refresh returns a replica set that is the statement's for neither the ring before nor the ring after (%s)\n%s", kindsOf(r.Lo, r.Hi), detail())
			}
			return obs, fmt.Sprintf("Locations is not the statement's replica set of the current ring (no Refresh in progress; ring reached by concurrent history)\n%s", detail())
		}
	}
	// Refresh takes effect once: states chosen for calls ordered in real time never go back.
	assign := make([]int, len(ops))
	var rec func(i int) bool
	rec = func(i int) bool {
		if i == len(ops) {
			return true
		}
		for _, j := range ops[i].Accepted {
			ok := true
			for k := 0; k < i && ok; k++ {
				if ops[k].Res < ops[i].Inv && assign[k] > j {
					ok = false
				}
				if ops[i].Res < ops[k].Inv && j > assign[k] {
					ok = false
				}
			}
			if ok {
				assign[i] = j
				if rec(i + 1) {
					return true
				}
			}
		}
		return false
	}
	if !rec(0) {
		return obs, fmt.Sprintf("Locations answers go back to an earlier ring state after a later one was observed (%s)\n%s", sc.kindKey(), detail())
	}
	return obs, ""
}

func (sc *e1Scenario) harness() *vrt.Harness {
	return &vrt.Harness{Name: sc.name, Horizon: 4000, Body: sc.body}
}

// ---------------------------------------------------------------------------
// scenario pool: scenarios are many and small, so worker processes explore whole
// scenarios in-process (vrt's scheduler is one per process) and report sums.

type e1Job struct {
	Tier   string
	Lo, Hi int
	MaxSec float64
}

type e1Vio struct {
	Fingerprint string
	Scenario    map[string]interface{}
	Choices     []int
	Labels      []string
	Detail      json.RawMessage
	Obs         string
	Deadlock    bool
}

type e1JobResult struct {
	Lo, Hi     int
	Scenarios  int
	Executions int
	Outcomes   map[string]int // kind|R|obs
	Violations []e1Vio
	Incomplete int // scenarios whose exploration hit the time cap
	Capped     int
	MaxPoints  int
	Preempted  int
	Deadlocks  int
	Err        string
	Sample     map[string]interface{}
}

func e1Sig(x *vrt.Exec, obs string) string {
	var b strings.Builder
	for _, p := range x.Points {
		fmt.Fprintf(&b, "%s/%d;", p.Label, p.NEnabled)
	}
	return b.String() + " => " + obs
}

func e1Fingerprint(msg string) string {
	m := strings.SplitN(msg, "\n", 2)[0]
	if strings.HasPrefix(m, "panic: ") {
		// "panic: thread X: <value>": keep thread + value, no stack
		return "E1 Locations/Refresh: " + m
	}
	if strings.HasPrefix(m, "deadlock: ") {
		return "E1 Locations/Refresh: " + m
	}
	return m
}

func e1RunJob(scs []*e1Scenario, j e1Job) *e1JobResult {
	out := &e1JobResult{Lo: j.Lo, Hi: j.Hi, Outcomes: map[string]int{}}
	deadline := time.Now().Add(time.Duration(j.MaxSec * float64(time.Second)))
	perFp := map[string]int{}
	for i := j.Lo; i < j.Hi; i++ {
		sc := scs[i]
		if err := sc.prepare(); err != nil {
			out.Err = err.Error()
			return out
		}
		left := time.Until(deadline)
		if left <= 0 {
			out.Incomplete += j.Hi - i
			break
		}
		h := sc.harness()
		// determinism of the schedule tree: the default schedule twice must meet the
		// same points (the answers may differ under a change that makes Locations
		// depend on map iteration order; that is the oracle's business, not an error)
		x1, _, _ := vrt.Replay(h, nil)
		x2, _, _ := vrt.Replay(h, nil)
		if s1, s2 := e1Sig(x1, ""), e1Sig(x2, ""); s1 != s2 && x1.Panic == "" && x2.Panic == "" {
			out.Err = fmt.Sprintf("non-deterministic schedule points in %s:\n%s\nvs\n%s", sc.name, s1, s2)
			return out
		}
		res := vrt.Explore(h, sc.Bound, left)
		if res.Err != "" {
			out.Err = sc.name + ": " + res.Err
			return out
		}
		out.Scenarios++
		out.Executions += res.Executions
		out.Capped += res.Capped
		out.Preempted += res.Preempted
		out.Deadlocks += res.Deadlocks
		if res.MaxPoints > out.MaxPoints {
			out.MaxPoints = res.MaxPoints
		}
		if !res.Completed {
			out.Incomplete++
		}
		pre := fmt.Sprintf("%s|R%d|%dx%d|", sc.kindKey(), sc.R, sc.Lookers, sc.Lookups)
		for k, n := range res.Outcomes {
			out.Outcomes[pre+k] += n
		}
		if out.Sample == nil && len(res.Samples) > 0 {
			out.Sample = map[string]interface{}{"e1_scenario": sc.describe(), "schedule": res.Samples[len(res.Samples)-1]}
		}
		for _, v := range res.Violations {
			fp := e1Fingerprint(v.Msg)
			if perFp[fp] >= 2 {
				continue
			}
			perFp[fp]++
			ev := e1Vio{Fingerprint: fp, Scenario: sc.describe(), Choices: v.Choices, Labels: v.Labels, Obs: v.Obs, Deadlock: v.Deadlock}
			if p := strings.SplitN(v.Msg, "\n", 2); len(p) == 2 && json.Valid([]byte(p[1])) {
				ev.Detail = json.RawMessage(p[1])
			} else if len(p) == 2 {
				b, _ := json.Marshal(p[1])
				ev.Detail = b
			}
			out.Violations = append(out.Violations, ev)
		}
	}
	return out
}

// e1WorkerMain turns the process into a scenario worker when C21_E1_WORKER is set.
func e1WorkerMain() {
	if os.Getenv("C21_E1_WORKER") == "" {
		return
	}
	fd, err := syscall.Dup(1)
	if err != nil {
		os.Exit(2)
	}
	enc := json.NewEncoder(os.NewFile(uintptr(fd), "results"))
	os.Stdout = os.Stderr
	dec := json.NewDecoder(os.Stdin)
	var scs []*e1Scenario
	for {
		var j e1Job
		if err := dec.Decode(&j); err != nil {
			os.Exit(0)
		}
		if scs == nil {
			scs = e1Scenarios(j.Tier)
		}
		enc.Encode(e1RunJob(scs, j))
	}
}

func e1RunPool(run *evid.Run, jobs []e1Job, workers int, cap time.Duration) []*e1JobResult {
	deadline := time.Now().Add(cap)
	results := make([]*e1JobResult, len(jobs))
	if workers > len(jobs) {
		workers = len(jobs)
	}
	jobc := make(chan int, len(jobs))
	for i := range jobs {
		jobc <- i
	}
	close(jobc)
	exe, _ := os.Executable()
	var mu sync.Mutex
	var wg sync.WaitGroup
	var firstErr error
	for w := 0; w < workers; w++ {
		wg.Add(1)
		go func() {
			defer wg.Done()
			fail := func(err error) {
				mu.Lock()
				if firstErr == nil {
					firstErr = err
				}
				mu.Unlock()
			}
			cmd := exec.Command(exe)
			cmd.Env = append(os.Environ(), "C21_E1_WORKER=1", "GOMAXPROCS=1")
			cmd.Stderr = os.Stderr
			in, _ := cmd.StdinPipe()
			outp, _ := cmd.StdoutPipe()
			if err := cmd.Start(); err != nil {
				fail(fmt.Errorf("e1 worker start: %v", err))
				return
			}
			enc, dec := json.NewEncoder(in), json.NewDecoder(outp)
			for i := range jobc {
				left := time.Until(deadline)
				if left <= 0 {
					continue // reported as not exhaustive by the caller
				}
				j := jobs[i]
				j.MaxSec = left.Seconds()
				if err := enc.Encode(j); err != nil {
					fail(fmt.Errorf("e1 worker write: %v", err))
					break
				}
				var r e1JobResult
				if err := dec.Decode(&r); err != nil {
					fail(fmt.Errorf("e1 worker died on scenarios %d..%d: %v", j.Lo, j.Hi, err))
					break
				}
				mu.Lock()
				results[i] = &r
				mu.Unlock()
			}
			in.Close()
			cmd.Wait()
		}()
	}
	wg.Wait()
	if firstErr != nil {
		run.Fatal(firstErr)
	}
	return results
}

// e1Phase explores the tier's scenarios and reports into run.
func e1Phase(run *evid.Run, cap time.Duration) {
	st := time.Now()
	scs := e1Scenarios(run.Tier())
	const per = 48
	var jobs []e1Job
	for lo := 0; lo < len(scs); lo += per {
		hi := lo + per
		if hi > len(scs) {
			hi = len(scs)
		}
		jobs = append(jobs, e1Job{Tier: run.Tier(), Lo: lo, Hi: hi})
	}
	results := e1RunPool(run, jobs, evid.Workers(), cap)
	var execs, done, incomplete, capped, preempted, maxPoints, notRun int
	var overlap, window, distinguishing int64
	outcomes := map[string]int{}
	samples := 0
	for i, r := range results {
		if r == nil {
			notRun += jobs[i].Hi - jobs[i].Lo
			continue
		}
		if r.Err != "" {
			run.Fatal(fmt.Errorf("e1: %s", r.Err))
		}
		execs += r.Executions
		done += r.Scenarios
		incomplete += r.Incomplete
		capped += r.Capped
		preempted += r.Preempted
		if r.MaxPoints > maxPoints {
			maxPoints = r.MaxPoints
		}
		for k, n := range r.Outcomes {
			outcomes[k] += n
			obs := k[strings.LastIndex(k, "|")+1:]
			if strings.Contains(obs, "~") {
				overlap += int64(n)
			}
			if strings.Contains(obs, "~w") {
				window += int64(n)
			}
			if strings.Contains(obs, "~s") || strings.Contains(obs, "~ws") {
				distinguishing += int64(n)
			}
		}
		if r.Sample != nil && samples < 3 && i%(len(results)/3+1) == 0 {
			run.Sample(r.Sample)
			samples++
		}
		for _, v := range r.Violations {
			run.Violation(v.Fingerprint, map[string]interface{}{"e1_scenario": v.Scenario, "choices": v.Choices, "labels": v.Labels, "observation": v.Obs, "deadlock": v.Deadlock, "detail": v.Detail,
				"replay": "run.sh C21 " + run.Tier() + " --replay <this file>"})
		}
	}
	run.Eval(execs)
	for k := range outcomes {
		// non-trivial: some lookup overlapped a Refresh
		if strings.Contains(k[strings.LastIndex(k, "|")+1:], "~") {
			run.Distinct("e1|" + k)
		}
	}
	if notRun > 0 || incomplete > 0 {
		run.NotExhaustive(fmt.Sprintf("e1: time cap: %d scenarios not run, %d not explored completely (of %d)", notRun, incomplete, len(scs)))
	}
	if capped > 0 {
		run.NotExhaustive(fmt.Sprintf("e1: %d executions hit the step horizon", capped))
	}
	run.Set("e1_scenarios", len(scs))
	run.Set("e1_scenarios_explored", done)
	run.Set("e1_executions", execs)
	run.Set("e1_executions_with_deviation", preempted)
	run.Set("e1_max_points", maxPoints)
	run.Set("e1_outcome_classes", len(outcomes))
	run.Set("e1_executions_lookup_overlaps_refresh", overlap)
	run.Set("e1_executions_lookup_between_notify_and_publish", window)
	run.Set("e1_executions_overlapping_lookup_distinguishes_old_new", distinguishing)
	run.Set("e1_wall_s", time.Since(st).Seconds())
	if done > 0 && (overlap == 0 || window == 0 || distinguishing == 0) {
		run.Fatal(fmt.Errorf("e1 vacuous: overlap=%d window=%d distinguishing=%d", overlap, window, distinguishing))
	}
}

// e1Replay re-executes the schedule of an E1 violation file and prints the trace.
func e1Replay(path string) bool {
	b, err := os.ReadFile(path)
	if err != nil {
		fmt.Fprintln(os.Stderr, err)
		os.Exit(2)
	}
	var r struct {
		Tier string `json:"tier"`
		Case struct {
			Scenario *struct {
				Index int `json:"index"`
			} `json:"e1_scenario"`
			Choices []int `json:"choices"`
		} `json:"case"`
	}
	if err := json.Unmarshal(b, &r); err != nil || r.Case.Scenario == nil {
		return false
	}
	scs := e1Scenarios(r.Tier)
	if r.Case.Scenario.Index >= len(scs) {
		fmt.Fprintln(os.Stderr, "scenario index out of range")
		os.Exit(2)
	}
	sc := scs[r.Case.Scenario.Index]
	if err := sc.prepare(); err != nil {
		fmt.Fprintln(os.Stderr, err)
		os.Exit(2)
	}
	d, _ := json.MarshalIndent(sc.describe(), "", " ")
	fmt.Printf("replay %s\n%s\nschedule %v\n", sc.name, d, r.Case.Choices)
	x, obs, vio := vrt.Replay(sc.harness(), r.Case.Choices)
	for i, p := range x.Points {
		mark := " "
		if p.Chosen != 0 && p.RunningEnabled {
			mark = "*"
		}
		fmt.Printf("  point %2d%s choice %d/%d -> %s\n", i, mark, p.Chosen, p.NEnabled, p.Label)
	}
	fmt.Printf("observation: %s\n", obs)
	if x.Deadlock {
		fmt.Printf("DEADLOCK: %v\n", x.Blocked)
	}
	if x.Panic != "" {
		fmt.Printf("PANIC: %s\n", x.Panic)
	}
	if vio != "" || x.Deadlock || x.Panic != "" {
		fmt.Printf("VIOLATION reproduced: %s\n", vio)
		os.Exit(1)
	}
	fmt.Println("no violation on this tree")
	os.Exit(0)
	return true
}

// e1FreeHarnesses: the bodies run free under the race detector (RACE marker,
// thorough tier): one-step scenarios, MaxReplica 2, one shard.
func e1FreeHarnesses() []*vrt.Harness {
	var hs []*vrt.Harness
	scs := e1Scenarios("quick")
	for _, sc := range scs {
		if sc.R != 2 || sc.Shard != scs[0].Shard {
			continue
		}
		if err := sc.prepare(); err != nil {
			panic(err)
		}
		hs = append(hs, sc.harness())
	}
	return hs
}
