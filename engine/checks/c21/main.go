// C21: hash ring replica sets are non-empty, healthy, bounded and
// host-independent.
//
// E4 (small-scope exhaustive enumeration on the real hashring.Ring): all 65536
// digest shards x memberships x every healthy subset x MaxReplica x every host
// discovery (insertion) order, against an independently written rendezvous
// scoring reference and the three replica-set cases of the statement.
package main

import (
	"encoding/binary"
	"encoding/hex"
	"fmt"
	"math"
	"os"
	"runtime/debug"
	"sort"
	"strings"
	"sync"
	"sync/atomic"
	"time"

	"github.com/spaolacci/murmur3"
	"github.com/uber-go/tally"
	"github.com/uber/kraken/core"
	"github.com/uber/kraken/lib/hashring"
	"github.com/uber/kraken/utils/stringset"

	"verif/checks/c21/klog"
	"verif/evid"
	_ "verif/quiet"
	"verif/vrt"
)

// ---------------------------------------------------------------------------
// Independent reference: murmur3 x64 128 (first 64 bits), seed 0.

func rotl(x uint64, r uint) uint64 { return (x << r) | (x >> (64 - r)) }

func fmix(k uint64) uint64 {
	k ^= k >> 33
	k *= 0xff51afd7ed558ccd
	k ^= k >> 33
	k *= 0xc4ceb9fe1a85ec53
	k ^= k >> 33
	return k
}

func refMurmur64(data []byte) uint64 {
	const c1, c2 = 0x87c37b91114253d5, 0x4cf5ad432745937f
	var h1, h2 uint64
	n := len(data)
	p := data
	for len(p) >= 16 {
		k1 := binary.LittleEndian.Uint64(p[0:8])
		k2 := binary.LittleEndian.Uint64(p[8:16])
		k1 *= c1
		k1 = rotl(k1, 31)
		k1 *= c2
		h1 ^= k1
		h1 = rotl(h1, 27)
		h1 += h2
		h1 = h1*5 + 0x52dce729
		k2 *= c2
		k2 = rotl(k2, 33)
		k2 *= c1
		h2 ^= k2
		h2 = rotl(h2, 31)
		h2 += h1
		h2 = h2*5 + 0x38495ab5
		p = p[16:]
	}
	var k1, k2 uint64
	for i := len(p) - 1; i >= 8; i-- {
		k2 ^= uint64(p[i]) << (8 * uint(i-8))
	}
	if len(p) > 8 {
		k2 *= c2
		k2 = rotl(k2, 33)
		k2 *= c1
		h2 ^= k2
	}
	top := len(p)
	if top > 8 {
		top = 8
	}
	for i := top - 1; i >= 0; i-- {
		k1 ^= uint64(p[i]) << (8 * uint(i))
	}
	if len(p) > 0 {
		k1 *= c1
		k1 = rotl(k1, 31)
		k1 *= c2
		h1 ^= k1
	}
	h1 ^= uint64(n)
	h2 ^= uint64(n)
	h1 += h2
	h2 += h1
	h1 = fmix(h1)
	h2 = fmix(h2)
	h1 += h2
	return h1
}

const mask53 = (uint64(1) << 53) - 1

// refScore: weighted rendezvous score of host for a shard (weight 100, the
// ring's default): murmur3(shard bytes ++ host) -> low 53 bits / 2^53 (re-hash
// of the 8 hash bytes when those bits are zero) -> -w / ln(f).
func refScore(shard uint16, host string) float64 {
	in := append([]byte{byte(shard >> 8), byte(shard)}, host...)
	h := refMurmur64(in)
	v := h & mask53
	if v == 0 {
		var b [8]byte
		binary.BigEndian.PutUint64(b[:], h)
		v = refMurmur64(b[:]) & mask53
	}
	return -100 / math.Log(math.Ldexp(float64(v), -53))
}

// ---------------------------------------------------------------------------

var universe = []string{
	"kraken-origin01-dca1:15002", "kraken-origin02-dca1:15002", "kraken-origin03-dca1:15002",
	"10.12.7.33:15002", "10.12.7.34:15002", "origin-a.kraken.svc.cluster.local:80",
	"kraken-origin04-phx2:15002", "localhost:15002",
}

var scores [][]float64 // [host][shard]

const nShards = 65536
const chunk = 4096

var digests [2][]core.Digest

// fake hostlist.List: resolves to the current membership, as a freshly built map.
type fakeList struct{ members []string }

func (l *fakeList) Resolve() stringset.Set {
	s := make(stringset.Set)
	for _, m := range l.members {
		s.Add(m)
	}
	return s
}

// fake healthcheck.Filter: healthy = chosen subset, restricted to the input.
type fakeFilter struct{ healthy map[string]bool }

func (f *fakeFilter) Run(addrs stringset.Set) stringset.Set {
	out := make(stringset.Set)
	for a := range addrs {
		if f.healthy[a] {
			out.Add(a)
		}
	}
	return out
}

func perms(n int) [][]int {
	var out [][]int
	a := make([]int, n)
	for i := range a {
		a[i] = i
	}
	var rec func(k int)
	rec = func(k int) {
		if k == n {
			out = append(out, append([]int{}, a...))
			return
		}
		for i := k; i < n; i++ {
			a[k], a[i] = a[i], a[k]
			rec(k + 1)
			a[k], a[i] = a[i], a[k]
		}
	}
	rec(0)
	return out
}

var permTab [7][][]int

func names(ix []int) []string {
	out := make([]string, len(ix))
	for i, x := range ix {
		out[i] = universe[x]
	}
	return out
}

type counters struct {
	calls, sweeps, permSweeps, caseTop, caseNext, caseNone, refTies, refreshTransitions int64
	distinct                                                                            map[string]struct{}
}

type ringSys struct {
	ring   hashring.Ring
	list   *fakeList
	filter *fakeFilter
	how    string
}

// newRing builds a real ring on membership `via` (all healthy) and, when via
// differs from members, moves it to `members` through the real Refresh.
func newRing(run *evid.Run, maxReplica int, members, via []string, how string, c *counters) *ringSys {
	l := &fakeList{members: via}
	f := &fakeFilter{healthy: map[string]bool{}}
	for _, u := range universe {
		f.healthy[u] = true
	}
	r := hashring.New(hashring.Config{MaxReplica: maxReplica}, l, f, tally.NoopScope)
	if strings.Join(via, ",") != strings.Join(members, ",") {
		l.members = members
		r.Refresh()
		c.refreshTransitions++
	}
	return &ringSys{ring: r, list: l, filter: f, how: how}
}

func (s *ringSys) setHealthy(members []string, mask int) {
	s.filter.healthy = map[string]bool{}
	for i, m := range members {
		if mask>>uint(i)&1 == 1 {
			s.filter.healthy[m] = true
		}
	}
	s.ring.Refresh()
}

func eq(a, b []string) bool {
	if len(a) != len(b) {
		return false
	}
	for i := range a {
		if a[i] != b[i] {
			return false
		}
	}
	return true
}

func sameSet(a, b []string) bool {
	if len(a) != len(b) {
		return false
	}
	m := map[string]int{}
	for _, x := range a {
		m[x]++
	}
	for _, x := range b {
		m[x]--
	}
	for _, v := range m {
		if v != 0 {
			return false
		}
	}
	return true
}

// expected replica list per the statement, given the rank order of the members.
func expected(ord []string, healthy map[string]bool, maxReplica int) (want []string, cas string) {
	any := false
	for _, h := range ord {
		if healthy[h] {
			any = true
			break
		}
	}
	if !any {
		return []string{ord[0]}, "none-healthy"
	}
	for i := 0; i < len(ord) && i < maxReplica; i++ {
		if healthy[ord[i]] {
			want = append(want, ord[i])
		}
	}
	if len(want) > 0 {
		return want, "healthy-in-top"
	}
	for _, h := range ord {
		if healthy[h] {
			return []string{h}, "next-healthy"
		}
	}
	panic("unreachable")
}

// job: one membership x one chunk of shards, on rings of its own.
func doJob(run *evid.Run, mem []int, otherSame, otherDiff []int, lo, hi int, thoroughTails bool, c *counters) {
	members := names(mem)
	k := len(members)
	isMember := map[string]bool{}
	for _, m := range members {
		isMember[m] = true
	}
	shardHex := func(s int) string { return fmt.Sprintf("%04x", s) }
	base := func(s int, sys *ringSys, extra map[string]interface{}) map[string]interface{} {
		m := map[string]interface{}{"members": members, "shard": shardHex(s), "ring_built": sys.how}
		for k, v := range extra {
			m[k] = v
		}
		return m
	}

	// 1. order sweep: ring with MaxReplica = k, all healthy, every insertion
	// permutation -> Locations is the full rank order.
	ordRing := newRing(run, k, members, members, "New", c)
	ord := make([][]string, hi-lo)
	seen := make([]bool, 1<<15)
	flush := func(prefix string) {
		for code, b := range seen {
			if b {
				c.distinct[prefix+strings.Join(decode(code, members), ">")] = struct{}{}
				seen[code] = false
			}
		}
	}
	for pi, p := range permTab[k] {
		order := make([]string, k)
		for i, ix := range p {
			order[i] = members[ix]
		}
		if err := hashring.VerifSetNodeOrder(ordRing.ring, order); err != nil {
			run.Fatal(err)
		}
		c.permSweeps++
		for s := lo; s < hi; s++ {
			got := ordRing.ring.Locations(digests[pi&1][s])
			c.calls++
			if pi == 0 {
				// reference rank order
				ref := append([]string{}, members...)
				sort.SliceStable(ref, func(a, b int) bool {
					return scores[mem[indexIn(members, ref[a])]][s] > scores[mem[indexIn(members, ref[b])]][s]
				})
				for i := 0; i+1 < k; i++ {
					if scores[mem[indexIn(members, ref[i])]][s] == scores[mem[indexIn(members, ref[i+1])]][s] {
						c.refTies++
					}
				}
				ok := sameSet(got, members)
				for i := 0; ok && i+1 < k; i++ {
					if !(scores[mem[indexIn(members, got[i])]][s] >= scores[mem[indexIn(members, got[i+1])]][s]) {
						ok = false
					}
				}
				if ok {
					ord[s-lo] = append([]string{}, got...)
				} else {
					ord[s-lo] = ref
					det := base(s, ordRing, map[string]interface{}{"max_replica": k, "healthy": members, "inserted": order, "got": got, "want": ref})
					if sameSet(got, members) {
						run.Violation("full replica order (MaxReplica = membership size, all healthy) is not by descending reference score", det)
					} else {
						classify(run, det, got, ref, "healthy-in-top", isMember, "New")
					}
				}
				if k >= 2 {
					seen[codeOf(ord[s-lo], members)] = true
				}
				continue
			}
			if !eq(got, ord[s-lo]) {
				run.Violation("Locations depends on the order the hosts were discovered in",
					base(s, ordRing, map[string]interface{}{"max_replica": k, "healthy": members, "inserted_a": permuteS(members, permTab[k][0]), "locations_a": ord[s-lo], "inserted_b": order, "locations_b": got}))
			}
		}
	}

	flush("order|")

	// 2. replica-set sweeps: MaxReplica 1..3, every healthy subset; the ring is
	// reached by New (R=1), by Refresh from a same-size membership (R=2) and by
	// Refresh from a different-size membership (R=3).
	sweep := 0
	for R := 1; R <= 3; R++ {
		var sys *ringSys
		switch R {
		case 1:
			sys = newRing(run, R, members, members, "New", c)
		case 2:
			sys = newRing(run, R, members, names(otherSame), "Refresh from same-size membership "+strings.Join(names(otherSame), ","), c)
		case 3:
			sys = newRing(run, R, members, names(otherDiff), "Refresh from different-size membership "+strings.Join(names(otherDiff), ","), c)
		}
		for mask := 0; mask < 1<<uint(k); mask++ {
			sys.setHealthy(members, mask)
			// deterministic discovery order for this sweep (rotating through all permutations)
			p := permTab[k][sweep%len(permTab[k])]
			order := permuteS(members, p)
			tail := 0
			if thoroughTails {
				tail = sweep & 1
			}
			sweep++
			if got := hashring.VerifNodeLabels(sys.ring); !sameSet(got, members) {
				// stale hash: let the per-shard oracle report it; keep the nodes as they are.
				order = got
			} else if err := hashring.VerifSetNodeOrder(sys.ring, order); err != nil {
				run.Fatal(err)
			}
			healthy := sys.filter.healthy
			var hl []string
			for _, m := range members {
				if healthy[m] {
					hl = append(hl, m)
				}
			}
			c.sweeps++
			for s := lo; s < hi; s++ {
				got := sys.ring.Locations(digests[tail][s])
				c.calls++
				want, cas := expected(ord[s-lo], healthy, R)
				switch cas {
				case "healthy-in-top":
					c.caseTop++
				case "next-healthy":
					c.caseNext++
				default:
					c.caseNone++
				}
				if eq(got, want) {
					if k >= 2 {
						seen[codeOf(got, members)] = true
					}
					continue
				}
				classify(run, base(s, sys, map[string]interface{}{"max_replica": R, "healthy": hl, "inserted": order, "rank_order": ord[s-lo], "got": got, "want": want}), got, want, cas, isMember, sys.how)
			}
			flush(fmt.Sprintf("R%d|h%s|", R, strings.Join(hl, ",")))
		}
	}
}

func classify(run *evid.Run, detail map[string]interface{}, got, want []string, cas string, isMember map[string]bool, how string) {
	via := "ring built by New"
	if strings.HasPrefix(how, "Refresh") {
		via = "membership reached by Refresh"
	} else if how != "New" {
		via = how
	}
	if len(got) == 0 {
		run.Violation("replica set is empty ("+cas+"; "+via+")", detail)
		return
	}
	for _, g := range got {
		if !isMember[g] {
			run.Violation("replica set contains a host that is not a current member ("+via+")", detail)
			return
		}
	}
	if sameSet(got, want) {
		run.Violation("replica set has the right hosts but not in rank order ("+cas+"; "+via+")", detail)
		return
	}
	switch cas {
	case "none-healthy":
		run.Violation("no member healthy: result is not the single top owner ("+via+")", detail)
	case "next-healthy":
		run.Violation("no healthy member among the top MaxReplica owners: result is not the single highest-ranked healthy member ("+via+")", detail)
	default:
		run.Violation("result is not exactly the healthy members among the top MaxReplica owners ("+via+")", detail)
	}
}

// codeOf encodes a list of members as base-8 digits (index+1).
func codeOf(list, members []string) int {
	code := 0
	for _, g := range list {
		code = code*8 + indexIn(members, g) + 1
	}
	return code
}

func decode(code int, members []string) []string {
	var rev []string
	for code > 0 {
		rev = append(rev, members[code%8-1])
		code /= 8
	}
	out := make([]string, len(rev))
	for i := range rev {
		out[len(rev)-1-i] = rev[i]
	}
	return out
}

func indexIn(ls []string, x string) int {
	for i, l := range ls {
		if l == x {
			return i
		}
	}
	return -1
}

func permuteS(ls []string, p []int) []string {
	out := make([]string, len(p))
	for i, ix := range p {
		out[i] = ls[ix]
	}
	return out
}

func subsetsOf(n, maxSize int) [][]int {
	var out [][]int
	for size := 1; size <= maxSize; size++ {
		for m := 1; m < 1<<uint(n); m++ {
			var s []int
			for i := 0; i < n; i++ {
				if m>>uint(i)&1 == 1 {
					s = append(s, i)
				}
			}
			if len(s) == size {
				out = append(out, s)
			}
		}
	}
	return out
}

// companions: a different membership of the same size (one host swapped) and
// one of a different size (one host dropped, or added for singletons), inside
// the first n hosts of the universe.
func companions(mem []int, n int) (same, diff []int) {
	in := map[int]bool{}
	for _, m := range mem {
		in[m] = true
	}
	out := -1
	for i := n - 1; i >= 0; i-- {
		if !in[i] {
			out = i
			break
		}
	}
	same = append([]int{}, mem...)
	same[0] = out
	sort.Ints(same)
	if len(mem) > 1 {
		diff = append([]int{}, mem[1:]...)
	} else {
		diff = append([]int{}, mem...)
		diff = append(diff, out)
		sort.Ints(diff)
	}
	return
}

func main() {
	e1WorkerMain() // E1 scenario worker (never returns in that case)
	if os.Getenv("VRT_FREE") != "" {
		vrt.WorkerMain(e1FreeHarnesses()) // race pass: E1 bodies free-running under -race
	}
	run := evid.New("C21", "exploration")
	if p := run.ReplayPath(); p != "" {
		e1Replay(p)
		run.Fatal(fmt.Errorf("--replay: %s is not an E1 violation file (E4 violations carry their whole case in the file)", p))
	}
	debug.SetGCPercent(400)
	for n := 0; n <= 70; n++ {
		in := make([]byte, n)
		for i := range in {
			in[i] = byte(i*37 + n*11 + 1)
		}
		if got, want := refMurmur64(in), murmur3.Sum64(in); got != want {
			run.Fatal(fmt.Errorf("reference murmur3 self-test failed for length %d: %#x != %#x", n, got, want))
		}
	}
	for i := 1; i <= 6; i++ {
		permTab[i] = perms(i)
	}
	tails := []string{strings.Repeat("0123456789abcdef", 4)[4:], strings.Repeat("f", 60)}
	for t := range tails {
		digests[t] = make([]core.Digest, nShards)
		for s := 0; s < nShards; s++ {
			d, err := core.NewSHA256DigestFromHex(fmt.Sprintf("%04x", s) + tails[t])
			if err != nil {
				run.Fatal(err)
			}
			if _, err := hex.DecodeString(d.ShardID()); err != nil {
				run.Fatal(err)
			}
			digests[t][s] = d
		}
	}
	nHosts := 6
	var memberships [][]int
	if run.Thorough() {
		nHosts = 8
		memberships = subsetsOf(8, 4)
		for _, m := range subsetsOf(6, 5) {
			if len(m) == 5 {
				memberships = append(memberships, m)
			}
		}
	} else {
		memberships = [][]int{
			{0}, {5},
			{0, 1}, {2, 5}, {3, 4},
			{0, 1, 2}, {1, 3, 5}, {2, 4, 5}, {0, 3, 4},
			{0, 1, 2, 3}, {1, 2, 4, 5}, {0, 3, 4, 5},
		}
	}
	scores = make([][]float64, len(universe))
	{
		var wg sync.WaitGroup
		for h := range universe {
			scores[h] = make([]float64, nShards)
			wg.Add(1)
			go func(h int) {
				defer wg.Done()
				for s := 0; s < nShards; s++ {
					scores[h][s] = refScore(uint16(s), universe[h])
				}
			}(h)
		}
		wg.Wait()
	}

	run.Rule = "E4 part: one evaluation = one real Ring.Locations call; enumerated: every membership of the tier x all 65536 shards x (every insertion permutation of the membership with all members as replicas + MaxReplica 1..3 x every healthy subset incl. none); a case is distinct/non-trivial when it is a different (MaxReplica, healthy subset, statement case, resulting replica list) or a different full rank order, for memberships of >= 2 hosts. " +
		"E1 part (Locations concurrent with Refresh): one evaluation = one complete interleaved execution on a fresh real ring; enumerated: every ring state (non-empty membership of a 4-host pool, every healthy subset; 80 states) as start state built by New x every single change one Refresh can find (nothing, one member's health flipped, one member gone, one host added healthy/unhealthy, one member replaced by a healthy/unhealthy newcomer) x MaxReplica x representative shards (one per rank order of the pool's hosts) x every interleaving, up to the preemption bound, of one refresher thread (scheduling points: hostlist.Resolve, healthcheck.Run, Watcher.Notify, every lock operation of lib/hashring) with the lookup threads; quick: MaxReplica 1..2, 4 shards (every host at every rank once), one lookup thread with two Locations calls, preemption bound 2; thorough: MaxReplica 1..3 on the quick space, a single call for a shard of each of the 24 rank orders (bound 2), ALL interleavings without preemption bound (2 shards), two lookup threads (2 shards, bound 3) and every history of two changing Refreshes (MaxReplica 2, 1 shard, bound 2); a case is distinct/non-trivial when at least one lookup overlaps a Refresh and (change kind, MaxReplica, per-lookup observation: overlapping or not, invoked after Watcher.Notify, which ring state's replica set was returned / states indistinguishable) differs"
	run.Assume("small-scope: memberships from a fixed universe of realistic host:port names: quick 12 memberships of 1..4 of 6 hosts; thorough all 162 subsets of size 1..4 of 8 hosts plus the 6 five-host subsets of the first 6; MaxReplica 1..3 (and = membership size for the order sweep); digest = shard + one of two fixed 60-hex tails")
	run.Assume("health filter is a fake returning exactly the chosen subset (also the empty set, also for a single member); hostlist is a fake returning the membership as a freshly built map")
	run.Assume("host discovery order cannot be enumerated through Go map iteration; it is injected by re-ordering the hrw nodes that the real Refresh created (overlay-added accessor VerifSetNodeOrder), then the real Locations runs")
	run.Assume("reference score: own murmur3-x64-128 (cross-checked at startup against spaolacci/murmur3), low 53 bits / 2^53 with rehash on zero, -100/ln(f); reference and implementation both use math.Log of the Go runtime; where reference scores tie the observed order of the first permutation is taken as the rank order")
	run.Assume("E1: one refresher at a time (kraken calls Refresh from New and from the single Monitor goroutine only); sequentially consistent memory (cooperative scheduler: thread switches only at lock operations of lib/hashring / lib/hrw and at the environment calls; the thorough tier additionally runs the same bodies free under the race detector); Locations depends on the digest only through the rank order of the members, so one shard per rank order of the 4 pool hosts stands for all 65536 (the E4 part sweeps them all on quiescent rings)")
	run.Assume("E1 oracle: a Locations answer must be the statement's replica set (own reference) of a ring state that was current between the call's invocation and its return (the state before or after a Refresh in progress: the statement says 'current members' and does not decide which); answers of calls ordered in real time never go back to an earlier state; log.Fatal inside lib/hashring (intercepted through an overlay-substituted utils/log) is a violation, as the process would end without an answer")

	klog.SetFatalHook(func(msg string) {
		run.Violation("Locations terminates the process through log.Fatal ("+msg+"; quiescent ring, E4 sweep)", map[string]interface{}{"msg": msg})
		os.Exit(1)
	})
	// time budget of the run: the E1 part first (capped), the E4 sweep gets the rest
	begin := time.Now()
	e1Cap := 25 * time.Second
	if run.Thorough() {
		e1Cap = 5 * time.Minute
	}
	e1Phase(run, e1Cap)

	deadline := begin.Add(70 * time.Second)
	if run.Thorough() {
		deadline = begin.Add(13 * time.Minute)
	}
	type job struct {
		mi, lo, hi int
	}
	var jobs []job
	// big memberships first (better balance)
	order := make([]int, len(memberships))
	for i := range order {
		order[i] = i
	}
	sort.SliceStable(order, func(a, b int) bool { return len(memberships[order[a]]) > len(memberships[order[b]]) })
	for _, mi := range order {
		for lo := 0; lo < nShards; lo += chunk {
			jobs = append(jobs, job{mi, lo, lo + chunk})
		}
	}
	ch := make(chan job, len(jobs))
	for _, j := range jobs {
		ch <- j
	}
	close(ch)
	var mu sync.Mutex
	total := counters{distinct: map[string]struct{}{}}
	var skipped int32
	var wg sync.WaitGroup
	for w := 0; w < evid.Workers(); w++ {
		wg.Add(1)
		go func() {
			defer wg.Done()
			c := counters{distinct: map[string]struct{}{}}
			for j := range ch {
				if time.Now().After(deadline) {
					atomic.AddInt32(&skipped, 1)
					continue
				}
				mem := memberships[j.mi]
				same, diff := companions(mem, nHosts)
				local := counters{distinct: map[string]struct{}{}}
				doJob(run, mem, same, diff, j.lo, j.hi, true, &local)
				pre := strings.Join(names(mem), ",") + "|"
				for k := range local.distinct {
					c.distinct[pre+k] = struct{}{}
				}
				c.calls += local.calls
				c.sweeps += local.sweeps
				c.permSweeps += local.permSweeps
				c.caseTop += local.caseTop
				c.caseNext += local.caseNext
				c.caseNone += local.caseNone
				c.refTies += local.refTies
				c.refreshTransitions += local.refreshTransitions
			}
			mu.Lock()
			total.calls += c.calls
			total.sweeps += c.sweeps
			total.permSweeps += c.permSweeps
			total.caseTop += c.caseTop
			total.caseNext += c.caseNext
			total.caseNone += c.caseNone
			total.refTies += c.refTies
			total.refreshTransitions += c.refreshTransitions
			for k := range c.distinct {
				total.distinct[k] = struct{}{}
			}
			mu.Unlock()
		}()
	}
	wg.Wait()
	if skipped > 0 {
		run.NotExhaustive(fmt.Sprintf("internal deadline: %d of %d (membership, shard-chunk) jobs not run", skipped, len(jobs)))
	}
	run.Eval(int(total.calls))
	keys := make([]string, 0, len(total.distinct))
	for k := range total.distinct {
		keys = append(keys, k)
	}
	sort.Strings(keys)
	for i, k := range keys {
		run.Distinct(k)
		if i%(len(keys)/5+1) == 0 {
			p := strings.Split(k, "|")
			if len(p) == 3 {
				run.Sample(map[string]interface{}{"members": p[0], "sweep": "all members as replicas, all healthy", "locations": p[2]})
			} else if len(p) == 4 {
				run.Sample(map[string]interface{}{"members": p[0], "max_replica": p[1][1:], "healthy": p[2][1:], "locations": p[3]})
			}
		}
	}
	run.Set("memberships", len(memberships))
	run.Set("shards", nShards)
	run.Set("health_sweeps_x_chunks", total.sweeps)
	run.Set("permutation_sweeps_x_chunks", total.permSweeps)
	run.Set("case_healthy_in_top", total.caseTop)
	run.Set("case_next_healthy_fallback", total.caseNext)
	run.Set("case_none_healthy", total.caseNone)
	run.Set("reference_score_ties", total.refTies)
	run.Set("refresh_membership_transitions", total.refreshTransitions)
	if total.caseTop == 0 || total.caseNext == 0 || total.caseNone == 0 {
		run.Fatal(fmt.Errorf("vacuous: a statement case was never exercised (%d/%d/%d)", total.caseTop, total.caseNext, total.caseNone))
	}
	run.Finish()
}
