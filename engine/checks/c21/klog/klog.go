// Package klog stands in for github.com/uber/kraken/utils/log inside
// lib/hashring (import rewritten by the C21 overlay). Everything is passed on to
// the real package, except that the Fatal family first calls a hook installed by
// the check: Ring.Locations ends the process with log.Fatal when its "ordered
// hash nodes == cluster size" invariant is broken, and the check has to report
// that as a violation of C21 ("for every digest the replica set is non-empty")
// instead of dying silently. When no hook is installed, or the hook returns, the
// real log.Fatal runs.
package klog

import (
	"context"
	"fmt"
	"sync/atomic"

	"github.com/uber/kraken/utils/log"
	"go.uber.org/zap"
)

var fatalHook atomic.Value // func(string)

// SetFatalHook installs f (nil: none). f is called with the formatted message on
// the goroutine that called Fatal*; it may end that goroutine (runtime.Goexit)
// or the process.
func SetFatalHook(f func(msg string)) {
	if f == nil {
		f = func(string) {}
	}
	fatalHook.Store(f)
}

func hook(msg string) {
	if f, ok := fatalHook.Load().(func(string)); ok && f != nil {
		f(msg)
	}
}

func ConfigureLogger(c zap.Config) *zap.SugaredLogger { return log.ConfigureLogger(c) }
func SetGlobalLogger(l *zap.SugaredLogger)            { log.SetGlobalLogger(l) }
func Default() *zap.SugaredLogger                     { return log.Default() }
func Desugar() *zap.Logger                            { return log.Desugar() }

func Debug(args ...interface{}) { log.Debug(args...) }
func Info(args ...interface{})  { log.Info(args...) }
func Warn(args ...interface{})  { log.Warn(args...) }
func Error(args ...interface{}) { log.Error(args...) }
func Panic(args ...interface{}) { log.Panic(args...) }
func Fatal(args ...interface{}) {
	hook(fmt.Sprint(args...))
	log.Fatal(args...)
}

func Debugf(t string, args ...interface{}) { log.Debugf(t, args...) }
func Infof(t string, args ...interface{})  { log.Infof(t, args...) }
func Warnf(t string, args ...interface{})  { log.Warnf(t, args...) }
func Errorf(t string, args ...interface{}) { log.Errorf(t, args...) }
func Panicf(t string, args ...interface{}) { log.Panicf(t, args...) }
func Fatalf(t string, args ...interface{}) {
	hook(fmt.Sprintf(t, args...))
	log.Fatalf(t, args...)
}

func Debugw(msg string, kv ...interface{}) { log.Debugw(msg, kv...) }
func Infow(msg string, kv ...interface{})  { log.Infow(msg, kv...) }
func Warnw(msg string, kv ...interface{})  { log.Warnw(msg, kv...) }
func Errorw(msg string, kv ...interface{}) { log.Errorw(msg, kv...) }
func Panicw(msg string, kv ...interface{}) { log.Panicw(msg, kv...) }
func Fatalw(msg string, kv ...interface{}) {
	hook(msg)
	log.Fatalw(msg, kv...)
}

func With(args ...interface{}) *zap.SugaredLogger { return log.With(args...) }

func WithTraceContext(ctx context.Context) *zap.SugaredLogger { return log.WithTraceContext(ctx) }
