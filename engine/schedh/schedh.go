//go:build go1.25

// Package schedh is the scheduler harness shared by the C17 (download requests
// return exactly once), C18 and C20 (announce-queue precondition at scheduler
// level) checks.
//
// C17: every blob download request returns exactly once.
// E1q: the real scheduler (state, events, dispatcher, agent torrent storage)
// with its event loop replaced by a harness loop: every event a goroutine
// sends is a pending action, the explorer decides the order in which the loop
// applies them (quiescence via testing/synctest), against harness actions:
// Download calls, piece deliveries from a seeding peer, manual removal, idle
// timeout ticks and shutdown. Start-state dimension (StartStateScenarios, C17
// only; Scenarios() is unchanged for C20): pieces already on disk when the
// scheduler starts, and a remote peer that opens a connection through
// kraken's accept path at any point, reviving a torrent that is only on disk.
package schedh

import (
	"bytes"
	"encoding/binary"
	"fmt"
	"io"
	"net"
	"os"
	"sort"
	"strings"
	"sync"
	"time"

	"github.com/andres-erbsen/clock"
	"github.com/golang/protobuf/proto"
	"github.com/uber-go/tally"
	"github.com/willf/bitset"

	"github.com/uber/kraken/core"
	"github.com/uber/kraken/gen/go/proto/p2p"
	"github.com/uber/kraken/lib/store"
	"github.com/uber/kraken/lib/torrent/scheduler"
	"github.com/uber/kraken/lib/torrent/scheduler/conn"
	"github.com/uber/kraken/lib/torrent/storage/agentstorage"
	"github.com/uber/kraken/lib/torrent/storage/piecereader"
	"github.com/uber/kraken/tracker/metainfoclient"
	klog "github.com/uber/kraken/utils/log"

	"verif/e1q"
	_ "verif/quiet"
	"verif/vrt"
)

var blob = []byte("abc")

const pieceLen = 2

type fakeMessages struct {
	mu     sync.Mutex
	recv   chan *conn.Message
	closed bool
	sent   []string
}

func (f *fakeMessages) Send(m *conn.Message) error {
	f.mu.Lock()
	defer f.mu.Unlock()
	if f.closed {
		return fmt.Errorf("closed")
	}
	f.sent = append(f.sent, m.Message.Type.String())
	return nil
}
func (f *fakeMessages) Receiver() <-chan *conn.Message { return f.recv }
func (f *fakeMessages) Close() {
	f.mu.Lock()
	defer f.mu.Unlock()
	if !f.closed {
		f.closed = true
		close(f.recv)
	}
}
func (f *fakeMessages) isClosed() bool { f.mu.Lock(); defer f.mu.Unlock(); return f.closed }

// remotePeer is the far end of a network connection (net.Pipe) that a remote
// peer OPENS to the scheduler under test: it speaks kraken's wire protocol
// (4-byte length + p2p.Message, piece payload bytes after a PIECE_PAYLOAD
// message), sends the opening handshake, reads the scheduler's handshake reply
// and then discards whatever the scheduler sends (piece requests, complete).
// The scheduler side of the pipe goes through kraken's own accept path
// (VerifIncoming = listenLoop's body), so the torrent control such a connection
// creates is the one addIncomingConn builds (localRequest=false).
type remotePeer struct {
	nc net.Conn
	id core.PeerID
	// frames to send, written by ONE goroutine: two writers on a net.Pipe would
	// queue on its mutex, which is not a durable block for synctest
	out chan frame

	mu          sync.Mutex
	established bool           // the scheduler's handshake reply has been read
	have        *bitset.BitSet // the scheduler's bitfield in that reply
	closed      bool           // the scheduler closed the connection
}

type frame struct {
	m       *p2p.Message
	payload []byte
}

func writeFrame(nc net.Conn, m *p2p.Message, payload []byte) error {
	data, err := proto.Marshal(m)
	if err != nil {
		return err
	}
	var l [4]byte
	binary.BigEndian.PutUint32(l[:], uint32(len(data)))
	if _, err := nc.Write(append(l[:], data...)); err != nil {
		return err
	}
	if payload != nil {
		_, err = nc.Write(payload)
	}
	return err
}

func readFrame(nc net.Conn) (*p2p.Message, error) {
	var l [4]byte
	if _, err := io.ReadFull(nc, l[:]); err != nil {
		return nil, err
	}
	data := make([]byte, binary.BigEndian.Uint32(l[:]))
	if _, err := io.ReadFull(nc, data); err != nil {
		return nil, err
	}
	m := new(p2p.Message)
	if err := proto.Unmarshal(data, m); err != nil {
		return nil, err
	}
	if m.Type == p2p.Message_PIECE_PAYLOAD && m.PiecePayload != nil {
		if _, err := io.ReadFull(nc, make([]byte, m.PiecePayload.Length)); err != nil {
			return nil, err
		}
	}
	return m, nil
}

// run sends the opening handshake (a seeder: every bit set) and reads until the
// connection is closed.
func (r *remotePeer) run(namespace string, mi *core.MetaInfo) {
	defer func() {
		r.mu.Lock()
		r.closed = true
		r.mu.Unlock()
	}()
	b, err := bitset.New(uint(mi.NumPieces())).Complement().MarshalBinary()
	if err != nil {
		return
	}
	hs := &p2p.Message{Type: p2p.Message_BITFIELD, Bitfield: &p2p.BitfieldMessage{
		PeerID: r.id.String(), Name: mi.Digest().Hex(), InfoHash: mi.InfoHash().String(),
		BitfieldBytes: b, Namespace: namespace,
	}}
	if writeFrame(r.nc, hs, nil) != nil {
		return
	}
	go func() {
		for f := range r.out {
			if writeFrame(r.nc, f.m, f.payload) != nil {
				return
			}
		}
	}()
	for {
		m, err := readFrame(r.nc)
		if err != nil {
			return
		}
		if m.Type == p2p.Message_BITFIELD && m.Bitfield != nil {
			have := bitset.New(0)
			if have.UnmarshalBinary(m.Bitfield.BitfieldBytes) != nil {
				return
			}
			r.mu.Lock()
			r.established, r.have = true, have
			r.mu.Unlock()
		}
	}
}

func (r *remotePeer) state() (established, closed bool, have *bitset.BitSet) {
	r.mu.Lock()
	defer r.mu.Unlock()
	return r.established, r.closed, r.have
}

type Scenario struct {
	Name      string
	Downloads int
	Remove    bool
	Tick      bool
	Shutdown  bool
	Bound     int
	// Start-state dimension (C17). Pre = number of pieces of the blob that are
	// already on disk when the scheduler starts with an empty memory (what an
	// agent restart / Reload leaves behind; Pre = all pieces: the blob is in the
	// cache). Incoming = the seeding peer is not attached by the harness to an
	// existing dispatcher but OPENS a connection itself, at any point of the
	// history (also before the first Download), through kraken's real accept
	// path: a torrent that is on disk but not in memory is then revived by
	// addIncomingConn (localRequest=false) and a later Download joins it.
	Pre      int
	Incoming bool
}

func Scenarios(thorough bool) []Scenario {
	sc := []Scenario{
		{Name: "1 download + remove", Downloads: 1, Remove: true, Bound: 99},
		{Name: "1 download + idle tick", Downloads: 1, Tick: true, Bound: 99},
		{Name: "1 download + shutdown", Downloads: 1, Shutdown: true, Bound: 99},
		{Name: "2 downloads + remove + tick + shutdown", Downloads: 2, Remove: true, Tick: true, Shutdown: true, Bound: 2},
		{Name: "2 downloads + remove", Downloads: 2, Remove: true, Bound: 99},
	}
	if thorough {
		sc = append(sc,
			Scenario{Name: "2 downloads + tick + shutdown", Downloads: 2, Tick: true, Shutdown: true, Bound: 4},
			Scenario{Name: "2 downloads + remove + tick + shutdown (deep)", Downloads: 2, Remove: true, Tick: true, Shutdown: true, Bound: 4},
		)
	}
	return sc
}

// StartStateScenarios are the C17 scenarios of the start-state dimension: every
// number of pieces already on disk x a remote peer opening a connection at any
// point x 1-2 Download calls x removal / idle tick / shutdown.
func StartStateScenarios(thorough bool) []Scenario {
	var sc []Scenario
	name := func(what string, pre int) string {
		return fmt.Sprintf("incoming peer + %s (%d of 2 pieces on disk)", what, pre)
	}
	for pre := 0; pre <= 2; pre++ {
		sc = append(sc, Scenario{Name: name("1 download", pre), Downloads: 1, Incoming: true, Pre: pre, Bound: 99})
	}
	// quick: every order within 3 deviations from the default order; thorough: every order
	b := 3
	if thorough {
		b = 99
	}
	sc = append(sc,
		Scenario{Name: name("1 download + remove", 1), Downloads: 1, Incoming: true, Pre: 1, Remove: true, Bound: b},
		Scenario{Name: name("1 download + idle tick", 1), Downloads: 1, Incoming: true, Pre: 1, Tick: true, Bound: b},
		Scenario{Name: name("1 download + shutdown", 1), Downloads: 1, Incoming: true, Pre: 1, Shutdown: true, Bound: b},
		Scenario{Name: name("2 downloads", 1), Downloads: 2, Incoming: true, Pre: 1, Bound: min(b, 4)},
		// the start-state dimension for the harness-attached seeder as well
		Scenario{Name: "2 downloads + remove (1 of 2 pieces on disk)", Downloads: 2, Remove: true, Pre: 1, Bound: b},
	)
	if thorough {
		for _, pre := range []int{0, 2} {
			sc = append(sc,
				Scenario{Name: name("1 download + remove", pre), Downloads: 1, Incoming: true, Pre: pre, Remove: true, Bound: 99},
				Scenario{Name: name("1 download + idle tick", pre), Downloads: 1, Incoming: true, Pre: pre, Tick: true, Bound: 99},
				Scenario{Name: name("1 download + shutdown", pre), Downloads: 1, Incoming: true, Pre: pre, Shutdown: true, Bound: 99},
				Scenario{Name: name("2 downloads", pre), Downloads: 2, Incoming: true, Pre: pre, Bound: 3},
			)
		}
		sc = append(sc,
			Scenario{Name: name("2 downloads + remove + tick + shutdown", 1), Downloads: 2, Incoming: true, Pre: 1, Remove: true, Tick: true, Shutdown: true, Bound: 3},
		)
	}
	return sc
}

func Harness(sc Scenario) *vrt.Harness {
	return e1q.HarnessOpt(sc.Name, 200, false, func(c *e1q.Ctl) (string, string) {
		dir, err := os.MkdirTemp("", "c17-")
		if err != nil {
			return "", "HARNESS: " + err.Error()
		}
		defer os.RemoveAll(dir)
		cads, err := store.NewCADownloadStore(store.CADownloadStoreConfig{
			DownloadDir: dir + "/download", CacheDir: dir + "/cache",
			DownloadCleanup: store.CleanupConfig{Disabled: true}, CacheCleanup: store.CleanupConfig{Disabled: true},
		}, tally.NoopScope)
		if err != nil {
			return "", "HARNESS: " + err.Error()
		}
		defer cads.Close()
		dg, _ := core.NewDigester().FromBytes(blob)
		mi, err := core.NewMetaInfo(dg, bytes.NewReader(blob), pieceLen)
		if err != nil {
			return "", "HARNESS: " + err.Error()
		}
		tc := metainfoclient.NewTestClient()
		tc.Upload(mi)
		ta := agentstorage.NewTorrentArchive(tally.NoopScope, cads, tc)
		pieceBytes := func(k int) []byte { return blob[k*pieceLen : min((k+1)*pieceLen, len(blob))] }
		if sc.Pre > 0 {
			// start state: the disk image a stopped scheduler leaves behind, produced
			// through the real archive (download file + metadata, or the cached blob)
			old, err := ta.CreateTorrent("ns", dg)
			if err != nil {
				return "", "HARNESS: " + err.Error()
			}
			for k := 0; k < sc.Pre && k < mi.NumPieces(); k++ {
				if err := old.WritePiece(piecereader.NewBuffer(pieceBytes(k)), k); err != nil {
					return "", "HARNESS: " + err.Error()
				}
			}
		}
		cfg := scheduler.Config{
			SeederTTI: time.Minute, LeecherTTI: time.Minute, DisablePreemption: true,
			Conn: conn.ConfigFixture(), TorrentLog: klog.Config{Disable: true}, Log: klog.Config{Disable: true},
		}
		pctx := core.PeerContext{PeerID: core.PeerIDFixture(), Zone: "z", IP: "localhost", Port: 1}
		v, err := scheduler.VerifNew(cfg, ta, pctx, clock.New(), c.Park)
		if err != nil {
			return "", "HARNESS: " + err.Error()
		}

		var mu sync.Mutex
		started := make([]bool, sc.Downloads)
		returned := make([]int, sc.Downloads)
		results := make([]error, sc.Downloads)
		var atReturn []string
		var present []string // cache state at every quiescent point
		cacheState := func() string {
			r, rerr := cads.Cache().GetFileReader(dg.Hex())
			if rerr != nil {
				return "absent"
			}
			b, _ := io.ReadAll(r)
			r.Close()
			if !bytes.Equal(b, blob) {
				return "wrong"
			}
			return "blob"
		}
		observe := func() {
			c.Wait()
			st := cacheState()
			mu.Lock()
			present = append(present, st)
			mu.Unlock()
		}
		var fm *fakeMessages
		var rp *remotePeer
		delivered := map[int]bool{}
		removeUsed, tickUsed, shutdownUsed := false, false, false
		nPieces := mi.NumPieces()

		actions := func() []e1q.Action {
			var a []e1q.Action
			for i := 0; i < sc.Downloads; i++ {
				i := i
				if !started[i] && (i == 0 || started[i-1]) {
					a = append(a, e1q.Action{Label: fmt.Sprintf("call Download#%d", i), Run: func() {
						started[i] = true
						go func() {
							mu.Lock()
							from := len(present) - 1 // last observation before the call
							mu.Unlock()
							err := v.Download("ns", dg)
							// "success only when the blob is THEN in the local cache": look at
							// the cache at the moment the call returns. A concurrent manual
							// removal may delete the blob at any time, so (linearizability)
							// success is also legitimate when the complete blob was in the cache
							// at some observation during the call.
							bad := ""
							if err == nil {
								st := cacheState()
								mu.Lock()
								ok := st == "blob"
								for k := max(from, 0); k < len(present); k++ {
									ok = ok || present[k] == "blob"
								}
								wrong := st == "wrong"
								mu.Unlock()
								if wrong {
									bad = "Download returned success but the cached bytes differ from the blob"
								} else if !ok {
									bad = "Download returned success but the blob was not in the cache at any time during the call"
								}
							}
							mu.Lock()
							returned[i]++
							results[i] = err
							if bad != "" {
								atReturn = append(atReturn, bad)
							}
							mu.Unlock()
						}()
					}})
				}
			}
			if sc.Incoming && rp == nil {
				a = append(a, e1q.Action{Label: "remote peer opens a connection", Run: func() {
					local, remote := net.Pipe()
					rp = &remotePeer{nc: remote, id: core.PeerIDFixture(), out: make(chan frame, 16)}
					go v.VerifIncoming(local)
					go rp.run("ns", mi)
				}})
			}
			if rp != nil {
				if est, closed, have := rp.state(); est && !closed {
					for k := 0; k < nPieces; k++ {
						k := k
						if !delivered[k] && !have.Test(uint(k)) {
							a = append(a, e1q.Action{Label: fmt.Sprintf("remote peer delivers piece %d", k), Run: func() {
								delivered[k] = true
								pb := pieceBytes(k)
								msg := conn.NewPiecePayloadMessage(k, piecereader.NewBuffer(pb)).Message
								rp.out <- frame{msg, pb}
							}})
							break // pieces in order
						}
					}
				}
			}
			if d := v.Dispatcher(dg); !sc.Incoming && d != nil && fm == nil && !d.Complete() {
				a = append(a, e1q.Action{Label: "seeder connects", Run: func() {
					fm = &fakeMessages{recv: make(chan *conn.Message)}
					b := bitset.New(uint(nPieces)).Complement()
					if err := v.VerifAddPeer(dg, core.PeerIDFixture(), b, fm); err != nil {
						fm.Close()
					}
				}})
			}
			if fm != nil && !fm.isClosed() {
				for k := 0; k < nPieces; k++ {
					k := k
					if !delivered[k] {
						a = append(a, e1q.Action{Label: fmt.Sprintf("seeder delivers piece %d", k), Run: func() {
							delivered[k] = true
							s, e := k*pieceLen, min((k+1)*pieceLen, len(blob))
							msg := conn.NewPiecePayloadMessage(k, piecereader.NewBuffer(blob[s:e]))
							go func() {
								defer func() { recover() }() // conn closed concurrently
								fm.recv <- msg
							}()
						}})
						break // pieces in order: the order of pieces is not the subject here
					}
				}
			}
			anyStarted := started[0] || (sc.Incoming && rp != nil)
			if sc.Remove && !removeUsed && anyStarted {
				a = append(a, e1q.Action{Label: "call RemoveTorrent", Run: func() { removeUsed = true; go v.RemoveTorrent(dg) }})
			}
			if sc.Tick && !tickUsed && anyStarted {
				a = append(a, e1q.Action{Label: "idle 2min + preemption tick", Run: func() {
					tickUsed = true
					e1q.Sleep(2 * time.Minute)
					go v.SendPreemptionTick()
				}})
			}
			if sc.Shutdown && !shutdownUsed && anyStarted {
				a = append(a, e1q.Action{Label: "shutdown", Run: func() { shutdownUsed = true; go v.SendShutdown() }})
			}
			return a
		}
		for observe(); c.Step(actions); observe() {
		}
		// closing phase: stop the scheduler (if not yet), drain every pending event
		if !shutdownUsed {
			go v.SendShutdown()
		}
		for observe(); c.Step(nil); observe() {
		}
		if fm != nil {
			fm.Close()
		}
		if rp != nil {
			rp.nc.Close()
			close(rp.out)
		}
		for observe(); c.Step(nil); observe() {
		}
		c.Wait()

		// oracle
		var vio []string
		mu.Lock()
		defer mu.Unlock()
		var obs []string
		for i := 0; i < sc.Downloads; i++ {
			if !started[i] {
				obs = append(obs, "-")
				continue
			}
			if returned[i] == 0 {
				vio = append(vio, fmt.Sprintf("Download call never returned (scheduler stopped, all events drained)"))
				obs = append(obs, "BLOCKED")
				continue
			}
			err := results[i]
			switch err {
			case nil:
				obs = append(obs, "ok")
			case scheduler.ErrTorrentNotFound, scheduler.ErrTorrentTimeout, scheduler.ErrTorrentRemoved, scheduler.ErrSchedulerStopped:
				obs = append(obs, err.Error())
			default:
				vio = append(vio, "Download returned an undocumented error: "+err.Error())
				obs = append(obs, "other")
			}
		}
		vio = append(vio, atReturn...)
		if p := v.Loop.DidPanic(); p != "" {
			vio = append(vio, "event loop panicked while applying "+p)
		} else if !v.Stopped() {
			// "exactly one result": the waiter channels hold one result; an event that
			// sends a second one blocks the event loop for good, so the shutdown sent
			// in the closing phase is never applied.
			vio = append(vio, "event loop blocked: the shutdown event was never applied (a second result sent to a request that already has one)")
		}
		for i := range vio {
			vio[i] = "C17|" + vio[i]
		}
		for _, f := range v.AQ.Faults {
			vio = append(vio, "C20|"+f)
		}
		sort.Strings(vio)
		return strings.Join(obs, "|"), strings.Join(dedup(vio), "; ")
	})
}

func dedup(s []string) []string {
	var o []string
	for i, x := range s {
		if i == 0 || s[i-1] != x {
			o = append(o, x)
		}
	}
	return o
}

// Filter keeps the violations tagged for property id ("C17" or "C20") and
// strips the tag.
func Filter(msg, id string) string {
	var out []string
	for _, m := range strings.Split(msg, "; ") {
		if strings.HasPrefix(m, id+"|") {
			out = append(out, strings.TrimPrefix(m, id+"|"))
		}
	}
	return strings.Join(out, "; ")
}
