//go:build go1.25

// Package e1q is engine E1q: exhaustive exploration of the orders in which a
// component that is built from real goroutines and channels handles its
// pending actions. Each execution runs inside a testing/synctest bubble
// (go1.26.8): after every released action synctest.Wait() returns when every
// goroutine of the bubble is durably blocked — parked in a harness seam (an
// enabled action) or blocked on a channel/timer (disabled) — so the set of
// parked seams IS the enabled set. Time is the bubble's virtual clock and only
// moves through explicit harness actions. The DFS over choices is vrt's.
package e1q

import (
	"fmt"
	"os"
	"sort"
	"strings"
	"sync"
	"testing"
	"testing/synctest"
	"time"

	"verif/vrt"
)

var theT *testing.T

// T returns the *testing.T of Main (for harnesses that open their own bubbles).
func T() *testing.T { return theT }

// Main runs f with a *testing.T (synctest needs one) in an ordinary binary.
// f normally ends with evid.Run.Finish(), which exits the process.
func Main(f func(t *testing.T)) {
	// testing.Main parses flags: keep our positional arguments in the environment
	// (evid.New reads VERIF_TIER / VERIF_REPLAY).
	for i, a := range os.Args[1:] {
		switch a {
		case "quick", "thorough":
			os.Setenv("VERIF_TIER", a)
		case "--replay":
			if i+2 < len(os.Args) {
				os.Setenv("VERIF_REPLAY", os.Args[i+2])
			}
		}
	}
	os.Args = os.Args[:1]
	testing.Main(func(pat, str string) (bool, error) { return true, nil },
		[]testing.InternalTest{{Name: "E1q", F: func(t *testing.T) { theT = t; f(t) }}}, nil, nil)
}

// Action is something the explorer can do next.
type Action struct {
	Label string
	Run   func() // executed on the explorer goroutine inside the bubble; may start goroutines
}

type parked struct {
	label string
	seq   int
	ch    chan struct{}
}

// Ctl is handed to the harness body for one execution.
type Ctl struct {
	mu      sync.Mutex
	pending []*parked
	seq     int
	prefix  []int
	x       *vrt.Exec
	maxStep int
	Trace   []string // labels of the actions taken
}

// Park is called from a seam on one of the system's own goroutines: it
// registers an enabled action and blocks until the explorer releases it.
func (c *Ctl) Park(label string) {
	p := &parked{label: label, ch: make(chan struct{})}
	c.mu.Lock()
	p.seq = c.seq
	c.seq++
	c.pending = append(c.pending, p)
	c.mu.Unlock()
	<-p.ch
}

// Pending returns the labels of the currently parked seams (after Wait).
func (c *Ctl) Pending() []string {
	c.mu.Lock()
	defer c.mu.Unlock()
	var l []string
	for _, p := range c.pending {
		l = append(l, p.label)
	}
	sort.Strings(l)
	return l
}

// Wait lets the bubble reach quiescence.
func (c *Ctl) Wait() { synctest.Wait() }

// Step waits for quiescence, then lets the explorer choose among the parked
// seams and the extra harness actions, and performs the chosen one. It returns
// false when nothing is enabled. Canonical order: parked seams sorted by
// (label, arrival), then extra actions in the order given.
func (c *Ctl) Step(extraFn func() []Action) bool {
	synctest.Wait()
	// the harness actions are computed AFTER quiescence: they usually depend on
	// the state the previous step produced
	var extra []Action
	if extraFn != nil {
		extra = extraFn()
	}
	c.mu.Lock()
	sort.SliceStable(c.pending, func(i, j int) bool {
		if c.pending[i].label != c.pending[j].label {
			return c.pending[i].label < c.pending[j].label
		}
		return c.pending[i].seq < c.pending[j].seq
	})
	np := len(c.pending)
	n := np + len(extra)
	if n == 0 {
		c.mu.Unlock()
		return false
	}
	if len(c.x.Points) >= c.maxStep {
		c.x.Capped = true
		c.mu.Unlock()
		return false
	}
	i := len(c.x.Points)
	choice := 0
	if i < len(c.prefix) {
		choice = c.prefix[i]
		if choice >= n {
			c.x.Diverged = fmt.Sprintf("point %d: prefix choice %d but only %d enabled", i, choice, n)
			choice = 0
		}
	}
	var label string
	var p *parked
	var run func()
	if choice < np {
		p = c.pending[choice]
		c.pending = append(c.pending[:choice], c.pending[choice+1:]...)
		label = p.label
	} else {
		a := extra[choice-np]
		label = a.Label
		run = a.Run
	}
	c.x.Points = append(c.x.Points, vrt.PointRec{NEnabled: n, Chosen: choice, RunningEnabled: true, Label: label})
	c.Trace = append(c.Trace, label)
	c.mu.Unlock()
	if p != nil {
		close(p.ch)
	} else {
		run()
	}
	return true
}

// Drain releases parked seams one at a time in canonical order (label, then
// arrival), waiting for quiescence after each, until none is parked — WITHOUT
// recording decision points. Use it when the order of the pending events is
// not the subject of the exploration (only the harness actions are).
func (c *Ctl) Drain() {
	for {
		synctest.Wait()
		c.mu.Lock()
		if len(c.pending) == 0 {
			c.mu.Unlock()
			return
		}
		sort.SliceStable(c.pending, func(i, j int) bool {
			if c.pending[i].label != c.pending[j].label {
				return c.pending[i].label < c.pending[j].label
			}
			return c.pending[i].seq < c.pending[j].seq
		})
		p := c.pending[0]
		c.pending = c.pending[1:]
		c.Trace = append(c.Trace, "("+p.label+")")
		c.mu.Unlock()
		close(p.ch)
	}
}

// Choose is an environment decision with n alternatives taken by code running
// inside the bubble (e.g. a math/rand draw redirected through vrand.Decider).
// Alternative 0 is the default; others cost one deviation. Calls must happen in
// a deterministic order (one goroutine active between two quiescent points).
func (c *Ctl) Choose(n int, label string) int {
	if n <= 1 {
		return 0
	}
	c.mu.Lock()
	defer c.mu.Unlock()
	if len(c.x.Points) >= c.maxStep {
		c.x.Capped = true
		return 0
	}
	i := len(c.x.Points)
	choice := 0
	if i < len(c.prefix) {
		choice = c.prefix[i]
		if choice >= n {
			c.x.Diverged = fmt.Sprintf("point %d: prefix choice %d but only %d alternatives (%s)", i, choice, n, label)
			choice = 0
		}
	}
	c.x.Points = append(c.x.Points, vrt.PointRec{NEnabled: n, Chosen: choice, Env: true, Label: label})
	if choice != 0 {
		c.Trace = append(c.Trace, fmt.Sprintf("%s=%d", label, choice))
	}
	return choice
}

// DrainOne releases the first parked seam in canonical order (no decision
// point recorded) and waits for quiescence. It reports whether one was parked.
func (c *Ctl) DrainOne() bool {
	synctest.Wait()
	c.mu.Lock()
	if len(c.pending) == 0 {
		c.mu.Unlock()
		return false
	}
	sort.SliceStable(c.pending, func(i, j int) bool {
		if c.pending[i].label != c.pending[j].label {
			return c.pending[i].label < c.pending[j].label
		}
		return c.pending[i].seq < c.pending[j].seq
	})
	p := c.pending[0]
	c.pending = c.pending[1:]
	c.Trace = append(c.Trace, "("+p.label+")")
	c.mu.Unlock()
	close(p.ch)
	synctest.Wait()
	return true
}

// ReleaseAll releases every parked seam (teardown).
func (c *Ctl) ReleaseAll() {
	c.mu.Lock()
	ps := c.pending
	c.pending = nil
	c.mu.Unlock()
	for _, p := range ps {
		close(p.ch)
	}
}

// Harness builds a vrt.Harness whose executions run body inside a bubble.
// body returns (observation, violation). A goroutine still blocked when body
// returns makes synctest panic; that is reported as violation
// "blocked goroutines remain: <stacks summary>" (liveness properties use it).
func Harness(name string, maxSteps int, body func(c *Ctl) (string, string)) *vrt.Harness {
	return HarnessOpt(name, maxSteps, true, body)
}

// HarnessOpt is Harness with a choice: leakIsViolation=false means goroutines
// still blocked at the end are only recorded in the observation ("LEAK"), the
// body's own oracle decides (use when the body itself checks which callers
// returned).
func HarnessOpt(name string, maxSteps int, leakIsViolation bool, body func(c *Ctl) (string, string)) *vrt.Harness {
	return &vrt.Harness{Name: name, RunOnce: func(prefix []int) (*vrt.Exec, string, string) {
		c := &Ctl{prefix: prefix, x: &vrt.Exec{}, maxStep: maxSteps}
		var obs, vio string
		func() {
			defer func() {
				if r := recover(); r != nil {
					msg := fmt.Sprint(r)
					if (strings.Contains(msg, "blocked goroutines remain") || strings.Contains(msg, "deadlock")) && !leakIsViolation {
						obs += " LEAK"
					} else if strings.Contains(msg, "blocked goroutines remain") || strings.Contains(msg, "deadlock") {
						c.x.Deadlock = true
						c.x.Blocked = []string{summarize(msg)}
						if vio == "" {
							vio = "goroutines still blocked at the end of the execution: " + summarize(msg)
						}
					} else {
						c.x.Panic = msg
					}
				}
			}()
			synctest.Test(theT, func(t *testing.T) {
				obs, vio = body(c)
				c.ReleaseAll()
			})
		}()
		c.x.Steps = len(c.x.Points)
		return c.x, obs, vio
	}}
}

func summarize(msg string) string {
	// keep the first function name of each blocked goroutine
	var out []string
	lines := strings.Split(msg, "\n")
	for i, l := range lines {
		if strings.HasPrefix(l, "goroutine ") && i+1 < len(lines) {
			f := strings.TrimSpace(lines[i+1])
			if j := strings.Index(f, "("); j > 0 {
				f = f[:j]
			}
			out = append(out, f)
		}
	}
	if len(out) == 0 {
		if len(msg) > 200 {
			msg = msg[:200]
		}
		return msg
	}
	sort.Strings(out)
	return strings.Join(out, ",")
}

// Sleep advances the bubble's virtual clock by d (an explicit harness action).
func Sleep(d time.Duration) { time.Sleep(d); synctest.Wait() }
