// Package rep turns engine results (bfs, vrt) into evidence and violations.
package rep

import (
	"fmt"
	"strings"
	"time"

	"verif/bfs"
	"verif/evid"
	"verif/vrt"
)

// BFS runs a search, adds its counts to run and reports each failing trace.
// name distinguishes several searches of one check (configuration label).
func BFS(run *evid.Run, name string, cfg bfs.Config) *bfs.Result {
	if cfg.Workers == 0 {
		cfg.Workers = evid.Workers()
	}
	res := bfs.Run(cfg)
	if res.Err != nil {
		run.Fatal(fmt.Errorf("%s: %v", name, res.Err))
	}
	run.States += int64(res.States)
	run.Transitions += int64(res.Transitions)
	run.Traces += int64(res.Transitions)
	run.Eval(res.Transitions)
	if !res.Completed {
		run.NotExhaustive(fmt.Sprintf("%s: deadline hit at depth %d", name, res.MaxDepth))
	}
	for _, s := range res.Samples {
		run.Sample(map[string]interface{}{"search": name, "history": s})
	}
	for _, f := range res.Fails {
		run.Violation(f.Fail.Fingerprint, map[string]interface{}{"search": name, "history": f.History, "msg": f.Fail.Msg})
	}
	run.Set("search:"+name, map[string]interface{}{"states": res.States, "transitions": res.Transitions, "max_depth": res.MaxDepth, "fixpoint": res.Fixpoint, "completed": res.Completed})
	return res
}

// VRT explores a harness and reports. fingerprint maps a violation to its
// failure class (default: harness name + first line of the message).
func VRT(run *evid.Run, h *vrt.Harness, bound, workers int, maxDur int, fingerprint func(v vrt.Violation) string) *vrt.Result {
	res := vrt.ExploreSharded(h, bound, workers, secs(maxDur))
	if res.Err != "" {
		run.Fatal(fmt.Errorf("%s: %s", h.Name, res.Err))
	}
	run.Eval(res.Executions)
	for k := range res.Outcomes {
		run.Distinct(h.Name + "|" + k)
	}
	if !res.Completed {
		run.NotExhaustive(fmt.Sprintf("%s: time cap hit (bound %d)", h.Name, bound))
	}
	if res.Diverged > 0 {
		run.NotExhaustive(fmt.Sprintf("%s: %d replays diverged (nondeterminism inside the code under test); their subtrees were not explored", h.Name, res.Diverged))
	}
	if res.Capped > 0 {
		run.NotExhaustive(fmt.Sprintf("%s: %d executions hit the step horizon", h.Name, res.Capped))
	}
	for _, s := range res.Samples {
		run.Sample(map[string]interface{}{"harness": h.Name, "schedule": s})
	}
	for _, v := range res.Violations {
		fp := ""
		if fingerprint != nil {
			fp = fingerprint(v)
		} else {
			fp = h.Name + ": " + strings.SplitN(v.Msg, "\n", 2)[0]
		}
		run.Violation(fp, v)
	}
	run.Set("harness:"+h.Name, map[string]interface{}{"executions": res.Executions, "preemption_bound": bound, "completed": res.Completed, "outcomes": len(res.Outcomes), "deadlocks": res.Deadlocks, "max_points": res.MaxPoints, "with_deviation": res.Preempted, "diverged": res.Diverged, "first_divergence": res.DivergedAt})
	return res
}

func secs(n int) (d time.Duration) { return time.Duration(n) * 1e9 }
