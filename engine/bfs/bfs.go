// Package bfs is the explicit-state search of engine E3: breadth-first search
// over operation histories of a REAL object, each transition executed on the
// implementation and compared with a reference model by the caller's Apply.
// Live objects cannot be cloned, so a successor is built by replaying the
// shortest history on a fresh instance and applying one more operation.
package bfs

import (
	"fmt"
	"sort"
	"strings"
	"sync"
	"time"
)

// Fail is a property violation found by Apply / Check.
type Fail struct {
	Fingerprint string // failure class (oracle clause + call-site / input kind)
	Msg         string
}

func (f *Fail) Error() string { return f.Fingerprint + ": " + f.Msg }

// Failf builds a Fail.
func Failf(fp, format string, a ...interface{}) *Fail {
	return &Fail{Fingerprint: fp, Msg: fmt.Sprintf(format, a...)}
}

// System is one instance of (implementation + reference model).
type System interface {
	// Ops lists the operations enabled in the current state (the alphabet,
	// possibly filtered by documented preconditions), simplest first.
	Ops() []string
	// Apply executes op on the implementation and on the model, compares
	// results and invariants. A *Fail is a property violation; any other
	// error is a harness error.
	Apply(op string) error
	// Key is the canonical state key (model state + everything the public
	// API can observe). States with equal keys are expanded once.
	Key() string
	Close()
}

// Config configures a search.
type Config struct {
	New      func() (System, error)
	MaxDepth int
	Workers  int
	Deadline time.Time // zero: none
	MaxFails int       // stop collecting after this many distinct fingerprints (default 20)
	// ExpandFailed: keep expanding states reached through a failing transition.
	ExpandFailed bool
}

// Trace is a failing history.
type Trace struct {
	History []string
	Fail    *Fail
}

// Result of a search.
type Result struct {
	States      int
	Transitions int
	MaxDepth    int
	Completed   bool // fixpoint or MaxDepth reached without hitting Deadline
	Fixpoint    bool // frontier became empty before MaxDepth
	Fails       []Trace
	Samples     [][]string
	OutcomeKeys int
	ReplayFails int // oracle failures seen only when a passed history was re-run
	Err         error
}

type succ struct {
	hist []string
	key  string
	fail *Fail
	err  error
	n    int
	// replayed: fail was raised while re-running hist (a prefix that passed
	// before); the successors of the history being expanded were not explored
	replayed bool
}

// Run performs the search.
func Run(cfg Config) *Result {
	res := &Result{Completed: true}
	if cfg.Workers <= 0 {
		cfg.Workers = 1
	}
	if cfg.MaxFails == 0 {
		cfg.MaxFails = 20
	}
	root, err := cfg.New()
	if err != nil {
		res.Err = err
		return res
	}
	seen := map[string]bool{root.Key(): true}
	root.Close()
	res.States = 1
	frontier := [][]string{{}}
	failSeen := map[string]bool{}
	for depth := 0; depth < cfg.MaxDepth && len(frontier) > 0; depth++ {
		if !cfg.Deadline.IsZero() && time.Now().After(cfg.Deadline) {
			res.Completed = false
			break
		}
		// expand every history of this level in parallel; merge in order
		outs := make([][]succ, len(frontier))
		var wg sync.WaitGroup
		idx := make(chan int, len(frontier))
		for i := range frontier {
			idx <- i
		}
		close(idx)
		var stopMu sync.Mutex
		stopped := false
		for w := 0; w < cfg.Workers; w++ {
			wg.Add(1)
			go func() {
				defer wg.Done()
				for i := range idx {
					if !cfg.Deadline.IsZero() && time.Now().After(cfg.Deadline) {
						stopMu.Lock()
						stopped = true
						stopMu.Unlock()
						continue
					}
					outs[i] = expand(cfg, frontier[i])
				}
			}()
		}
		wg.Wait()
		if stopped {
			res.Completed = false
		}
		var next [][]string
		for i := range frontier {
			for _, s := range outs[i] {
				if s.err != nil {
					if res.Err == nil {
						res.Err = fmt.Errorf("history %v: %v", s.hist, s.err)
					}
					continue
				}
				res.Transitions++
				if s.replayed {
					res.Completed = false
					res.ReplayFails++
				}
				if s.fail != nil {
					if !failSeen[s.fail.Fingerprint] && len(res.Fails) < cfg.MaxFails {
						failSeen[s.fail.Fingerprint] = true
						res.Fails = append(res.Fails, Trace{History: s.hist, Fail: s.fail})
					}
					if !cfg.ExpandFailed || s.replayed {
						continue
					}
				}
				if !seen[s.key] {
					seen[s.key] = true
					res.States++
					next = append(next, s.hist)
					if len(res.Samples) < 4 && len(s.hist) >= 3 {
						res.Samples = append(res.Samples, s.hist)
					}
				}
			}
		}
		if res.Err != nil {
			res.Completed = false
			return res
		}
		if len(next) > 0 {
			res.MaxDepth = depth + 1
		}
		frontier = next
	}
	if len(frontier) == 0 {
		res.Fixpoint = true
	}
	if len(res.Samples) == 0 && res.States > 1 {
		res.Samples = append(res.Samples, []string{"(histories shorter than 3 only)"})
	}
	return res
}

func build(cfg Config, hist []string) (System, error) {
	s, err := cfg.New()
	if err != nil {
		return nil, err
	}
	for i, op := range hist {
		if err := s.Apply(op); err != nil {
			if _, ok := err.(*Fail); ok && cfg.ExpandFailed {
				continue
			}
			s.Close()
			if f, ok := err.(*Fail); ok {
				// the oracle failed on the real code while re-running a history
				// that passed when it was first explored: a violation all the same
				// (the implementation's answer is not a function of the history)
				return nil, &replayFail{hist: append([]string{}, hist[:i+1]...), fail: f}
			}
			return nil, fmt.Errorf("replay of %q diverged: %v", op, err)
		}
	}
	return s, nil
}

type replayFail struct {
	hist []string
	fail *Fail
}

func (r *replayFail) Error() string { return "oracle failed on replay: " + r.fail.Error() }

func expand(cfg Config, hist []string) []succ {
	s, err := build(cfg, hist)
	if err != nil {
		if rf, ok := err.(*replayFail); ok {
			return []succ{{hist: rf.hist, fail: rf.fail, replayed: true}}
		}
		return []succ{{hist: hist, err: err}}
	}
	ops := s.Ops()
	s.Close()
	var out []succ
	for _, op := range ops {
		s, err := build(cfg, hist)
		if err != nil {
			if rf, ok := err.(*replayFail); ok {
				out = append(out, succ{hist: rf.hist, fail: rf.fail, replayed: true})
			} else {
				out = append(out, succ{hist: hist, err: err})
			}
			return out
		}
		h := append(append([]string{}, hist...), op)
		err = s.Apply(op)
		if err != nil {
			if f, ok := err.(*Fail); ok {
				out = append(out, succ{hist: h, fail: f, key: s.Key()})
			} else {
				out = append(out, succ{hist: h, err: err})
			}
			s.Close()
			continue
		}
		out = append(out, succ{hist: h, key: s.Key()})
		s.Close()
	}
	return out
}

// Replay applies a history to a fresh system and returns the first failure.
func Replay(cfg Config, hist []string) error {
	s, err := cfg.New()
	if err != nil {
		return err
	}
	defer s.Close()
	for _, op := range hist {
		if err := s.Apply(op); err != nil {
			return err
		}
	}
	return nil
}

// SortedKey renders a map deterministically (helper for Key implementations).
func SortedKey(m map[string]string) string {
	ks := make([]string, 0, len(m))
	for k := range m {
		ks = append(ks, k)
	}
	sort.Strings(ks)
	var b strings.Builder
	for _, k := range ks {
		b.WriteString(k)
		b.WriteByte('=')
		b.WriteString(m[k])
		b.WriteByte(';')
	}
	return b.String()
}
