// Package evid is the reporting side shared by all checks: evidence files,
// violation / known-finding classification, replay artefacts and exit codes.
package evid

import (
	"crypto/sha256"
	"encoding/hex"
	"encoding/json"
	"fmt"
	"os"
	"path/filepath"
	"regexp"
	"sort"
	"strconv"
	"sync"
	"time"
)

// Root is the /verif directory (overridable for tests).
var Root = func() string {
	if r := os.Getenv("VERIF_ROOT"); r != "" {
		return r
	}
	return "/verif"
}()

// Finding is one entry of known_findings.json.
type Finding struct {
	Property string `json:"property"`
	Status   string `json:"status"` // "known" or "fixed"
	Match    string `json:"match"`  // regexp over the violation fingerprint
	What     string `json:"what"`
	Commit   string `json:"commit,omitempty"`
}

// Run accumulates what one check run covered.
type Run struct {
	mu          sync.Mutex
	ID          string
	Level       string
	tier        string
	seed        int
	start       time.Time
	evaluations int64
	distinct    map[string]struct{}
	Rule        string
	samples     []interface{}
	States      int64
	Transitions int64
	Traces      int64
	Exhaustive  bool
	Extra       map[string]interface{}
	Assumptions []string
	findings    []Finding
	known       map[int]bool
	vioSeen     map[string]bool
	nViolations int
	nKnownHits  int
	replay      string // when non-empty: the check was invoked with --replay
}

// New starts a run for property id at the given evidence level
// ("exploration", "fault_enumeration", "model_checking"). Tier comes from
// argv ("quick"/"thorough" as first argument) or VERIF_TIER.
func New(id, level string) *Run {
	r := &Run{ID: id, Level: level, start: time.Now(), distinct: map[string]struct{}{}, Extra: map[string]interface{}{}, known: map[int]bool{}, vioSeen: map[string]bool{}, Exhaustive: true}
	r.tier = os.Getenv("VERIF_TIER")
	r.replay = os.Getenv("VERIF_REPLAY")
	args := os.Args[1:]
	for i := 0; i < len(args); i++ {
		switch args[i] {
		case "quick", "thorough":
			r.tier = args[i]
		case "--tier":
			if i+1 < len(args) {
				r.tier = args[i+1]
				i++
			}
		case "--replay":
			if i+1 < len(args) {
				r.replay = args[i+1]
				i++
			}
		}
	}
	if r.tier != "thorough" {
		r.tier = "quick"
	}
	r.seed, _ = strconv.Atoi(os.Getenv("VERIF_SEED"))
	kf := filepath.Join(Root, "known_findings.json")
	if f := os.Getenv("VERIF_KNOWN_FILE"); f != "" {
		kf = f // development aid: try a candidate known-findings file
	}
	b, err := os.ReadFile(kf)
	if err == nil {
		var f struct {
			Findings []Finding `json:"findings"`
		}
		if err := json.Unmarshal(b, &f); err != nil {
			r.Fatal(fmt.Errorf("known_findings.json: %v", err))
		}
		for _, x := range f.Findings {
			if x.Property == id {
				r.findings = append(r.findings, x)
			}
		}
	}
	return r
}

// Tier returns "quick" or "thorough".
func (r *Run) Tier() string { return r.tier }

// Thorough reports whether the thorough tier was requested.
func (r *Run) Thorough() bool { return r.tier == "thorough" }

// ReplayPath returns the --replay argument, if any.
func (r *Run) ReplayPath() string { return r.replay }

// Workers is the number of parallel workers to use.
func Workers() int {
	if n, err := strconv.Atoi(os.Getenv("VERIF_WORKERS")); err == nil && n > 0 {
		return n
	}
	return 16
}

// Eval counts n evaluated cases.
func (r *Run) Eval(n int) {
	r.mu.Lock()
	r.evaluations += int64(n)
	r.mu.Unlock()
}

// Distinct records a distinct non-trivial case class.
func (r *Run) Distinct(key string) {
	r.mu.Lock()
	if len(key) > 80 {
		h := sha256.Sum256([]byte(key))
		key = hex.EncodeToString(h[:12])
	}
	r.distinct[key] = struct{}{}
	r.mu.Unlock()
}

// NDistinct returns the number of distinct keys recorded so far.
func (r *Run) NDistinct() int {
	r.mu.Lock()
	defer r.mu.Unlock()
	return len(r.distinct)
}

// Sample keeps up to 6 written-out cases.
func (r *Run) Sample(v interface{}) {
	r.mu.Lock()
	if len(r.samples) < 6 {
		r.samples = append(r.samples, v)
	}
	r.mu.Unlock()
}

// Assume records an assumption / trusted-base statement.
func (r *Run) Assume(s string) {
	r.mu.Lock()
	for _, a := range r.Assumptions {
		if a == s {
			r.mu.Unlock()
			return
		}
	}
	r.Assumptions = append(r.Assumptions, s)
	r.mu.Unlock()
}

// Set stores an extra coverage key.
func (r *Run) Set(k string, v interface{}) {
	r.mu.Lock()
	r.Extra[k] = v
	r.mu.Unlock()
}

// AddInt adds to an integer extra coverage key.
func (r *Run) AddInt(k string, d int64) {
	r.mu.Lock()
	cur, _ := r.Extra[k].(int64)
	r.Extra[k] = cur + d
	r.mu.Unlock()
}

// NotExhaustive marks the run as having hit a cap.
func (r *Run) NotExhaustive(why string) {
	r.mu.Lock()
	r.Exhaustive = false
	r.Extra["cap_hit"] = why
	r.mu.Unlock()
}

// Violation reports a failing case. fingerprint identifies the failure class
// at the granularity of "which oracle clause, at which call site / for which
// kind of input"; detail is the replayable case. Violations whose fingerprint
// matches a status:"known" entry of known_findings.json print KNOWN-FINDING
// (once per entry); all others print VIOLATION and make the run exit 1.
func (r *Run) Violation(fingerprint string, detail interface{}) {
	r.mu.Lock()
	defer r.mu.Unlock()
	for i, f := range r.findings {
		if f.Status != "known" {
			continue
		}
		re, err := regexp.Compile(f.Match)
		if err != nil {
			fmt.Fprintf(os.Stderr, "known_findings.json: bad regexp %q: %v\n", f.Match, err)
			os.Exit(2)
		}
		if re.MatchString(fingerprint) {
			r.nKnownHits++
			if !r.known[i] {
				r.known[i] = true
				fmt.Printf("KNOWN-FINDING: property=%s %s [fingerprint %s]\n", r.ID, f.What, fingerprint)
			}
			return
		}
	}
	if r.vioSeen[fingerprint] {
		return
	}
	r.vioSeen[fingerprint] = true
	r.nViolations++
	h := sha256.Sum256([]byte(fingerprint))
	dir := filepath.Join(Root, "replays")
	if d := os.Getenv("VERIF_REPLAY_DIR"); d != "" {
		dir = d
	}
	os.MkdirAll(dir, 0o755)
	path := filepath.Join(dir, fmt.Sprintf("%s-%s.json", r.ID, hex.EncodeToString(h[:6])))
	b, _ := json.MarshalIndent(map[string]interface{}{"property": r.ID, "fingerprint": fingerprint, "tier": r.tier, "case": detail}, "", " ")
	os.WriteFile(path, b, 0o644)
	fmt.Printf("VIOLATION property=%s replay=%s\n", r.ID, path)
	fmt.Printf("  fingerprint: %s\n", fingerprint)
	if len(b) < 3000 {
		fmt.Printf("  case: %s\n", b)
	}
}

// NViolations returns the number of unlisted violations so far.
func (r *Run) NViolations() int {
	r.mu.Lock()
	defer r.mu.Unlock()
	return r.nViolations
}

// Fatal reports a harness error (never a violation) and exits 2.
func (r *Run) Fatal(err error) {
	fmt.Fprintf(os.Stderr, "HARNESS-ERROR property=%s: %v\n", r.ID, err)
	os.Exit(2)
}

// Finish writes the evidence file and exits 0 / 1.
func (r *Run) Finish() {
	r.mu.Lock()
	cov := map[string]interface{}{}
	for k, v := range r.Extra {
		cov[k] = v
	}
	cov["evaluations"] = r.evaluations
	cov["distinct_nontrivial"] = len(r.distinct)
	cov["rule"] = r.Rule
	if len(r.samples) == 0 {
		r.samples = append(r.samples, "none recorded")
	}
	cov["samples"] = r.samples
	cov["exhaustive"] = r.Exhaustive
	if r.Level == "model_checking" {
		cov["states"] = r.States
		cov["transitions"] = r.Transitions
		cov["traces_validated_against_impl"] = r.Traces
	}
	cov["known_finding_hits"] = r.nKnownHits
	sort.Strings(r.Assumptions)
	ev := map[string]interface{}{
		"property_id": r.ID,
		"tier":        r.tier,
		"seed":        r.seed,
		"level":       r.Level,
		"coverage":    cov,
		"assumptions": r.Assumptions,
		"wall_s":      time.Since(r.start).Seconds(),
		"violations":  r.nViolations,
	}
	nv := r.nViolations
	r.mu.Unlock()
	b, _ := json.MarshalIndent(ev, "", " ")
	edir := filepath.Join(Root, "evidence")
	if d := os.Getenv("VERIF_EVIDENCE_DIR"); d != "" {
		edir = d
	}
	os.MkdirAll(edir, 0o755)
	if err := os.WriteFile(filepath.Join(edir, r.ID+".json"), append(b, '\n'), 0o644); err != nil {
		r.Fatal(err)
	}
	if r.evaluations < 1 || len(r.distinct) < 2 {
		fmt.Fprintf(os.Stderr, "HARNESS-ERROR property=%s: vacuous run (evaluations=%d distinct=%d)\n", r.ID, r.evaluations, len(r.distinct))
		os.Exit(2)
	}
	fmt.Printf("%s %s: evaluations=%d distinct=%d states=%d transitions=%d exhaustive=%v violations=%d known_hits=%d wall=%.1fs\n",
		r.ID, r.tier, r.evaluations, len(r.distinct), r.States, r.Transitions, r.Exhaustive, nv, r.nKnownHits, time.Since(r.start).Seconds())
	if nv > 0 {
		os.Exit(1)
	}
	os.Exit(0)
}
