// Package vsyncm replaces package sync in packages explored under engine E1q
// (real goroutines inside a synctest bubble): every type is the real one except
// Map, which iterates in INSERTION order instead of sync.Map's unspecified
// order, so that Range-driven behaviour is a function of the history.
package vsyncm

import "sync"

type (
	Mutex     = sync.Mutex
	RWMutex   = sync.RWMutex
	WaitGroup = sync.WaitGroup
	Once      = sync.Once
	Cond      = sync.Cond
	Locker    = sync.Locker
	Pool      = sync.Pool
)

func NewCond(l Locker) *Cond { return sync.NewCond(l) }

// Map is a drop-in for sync.Map with deterministic Range order.
type Map struct {
	mu   sync.Mutex
	keys []interface{}
	m    map[interface{}]interface{}
}

func (m *Map) Load(k interface{}) (interface{}, bool) {
	m.mu.Lock()
	defer m.mu.Unlock()
	v, ok := m.m[k]
	return v, ok
}

func (m *Map) Store(k, v interface{}) {
	m.mu.Lock()
	defer m.mu.Unlock()
	m.store(k, v)
}

func (m *Map) store(k, v interface{}) {
	if m.m == nil {
		m.m = map[interface{}]interface{}{}
	}
	if _, ok := m.m[k]; !ok {
		m.keys = append(m.keys, k)
	}
	m.m[k] = v
}

func (m *Map) LoadOrStore(k, v interface{}) (interface{}, bool) {
	m.mu.Lock()
	defer m.mu.Unlock()
	if old, ok := m.m[k]; ok {
		return old, true
	}
	m.store(k, v)
	return v, false
}

func (m *Map) LoadAndDelete(k interface{}) (interface{}, bool) {
	m.mu.Lock()
	defer m.mu.Unlock()
	v, ok := m.m[k]
	if ok {
		m.del(k)
	}
	return v, ok
}

func (m *Map) Delete(k interface{}) {
	m.mu.Lock()
	defer m.mu.Unlock()
	m.del(k)
}

func (m *Map) del(k interface{}) {
	if _, ok := m.m[k]; !ok {
		return
	}
	delete(m.m, k)
	for i, x := range m.keys {
		if x == k {
			m.keys = append(m.keys[:i:i], m.keys[i+1:]...)
			break
		}
	}
}

func (m *Map) Swap(k, v interface{}) (interface{}, bool) {
	m.mu.Lock()
	defer m.mu.Unlock()
	old, ok := m.m[k]
	m.store(k, v)
	return old, ok
}

// Range calls f for each entry present at the start of the call, in insertion
// order, without holding the lock (like sync.Map, f may call back into m).
func (m *Map) Range(f func(k, v interface{}) bool) {
	m.mu.Lock()
	keys := append([]interface{}{}, m.keys...)
	m.mu.Unlock()
	for _, k := range keys {
		m.mu.Lock()
		v, ok := m.m[k]
		m.mu.Unlock()
		if !ok {
			continue
		}
		if !f(k, v) {
			return
		}
	}
}
