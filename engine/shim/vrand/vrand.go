// Package vrand replaces math/rand in overlay-rewritten packages: every draw is
// an environment choice of the explorer (alternative 0 = identity / zero).
// Outside a controlled execution (or when Decider is set) the harness decides.
package vrand

import (
	"math/rand"

	"verif/vrt"
)

// Decider, when non-nil, answers draws instead of vrt.Choose (used by BFS
// harnesses that enumerate rand outcomes themselves). It receives n and a
// label and returns a value in [0,n).
var Decider func(n int, label string) int

// MaxPermN bounds the n for which Perm enumerates all permutations.
var MaxPermN = 4

func choose(n int, label string) int {
	if Decider != nil {
		return Decider(n, label)
	}
	if vrt.Active() {
		return vrt.Choose(n, label)
	}
	return 0
}

func Intn(n int) int { return choose(n, "rand.Intn") }
func Int63n(n int64) int64 {
	if n > 16 {
		return int64(choose(16, "rand.Int63n")) * (n / 16)
	}
	return int64(choose(int(n), "rand.Int63n"))
}
func Int31n(n int32) int32 { return int32(choose(int(n), "rand.Int31n")) }
func Float64() float64     { return float64(choose(2, "rand.Float64")) * 0.75 }
func Int() int             { return choose(2, "rand.Int") }
func Int63() int64         { return int64(choose(2, "rand.Int63")) }
func Uint32() uint32       { return uint32(choose(2, "rand.Uint32")) }
func Seed(int64)           {}

// Perm returns a permutation chosen by a sequence of Lehmer-code draws.
func Perm(n int) []int {
	p := make([]int, n)
	for i := range p {
		p[i] = i
	}
	if n > MaxPermN && Decider == nil {
		// too many to enumerate: identity or reversal
		if choose(2, "rand.Perm.big") == 1 {
			for i, j := 0, n-1; i < j; i, j = i+1, j-1 {
				p[i], p[j] = p[j], p[i]
			}
		}
		return p
	}
	for i := 0; i < n-1; i++ {
		j := i + choose(n-i, "rand.Perm")
		p[i], p[j] = p[j], p[i]
	}
	return p
}

func Shuffle(n int, swap func(i, j int)) {
	for i := n - 1; i > 0; i-- {
		j := i - choose(i+1, "rand.Shuffle")
		swap(i, j)
	}
}

// Rand mirrors *rand.Rand for code that builds its own source.
type Rand = rand.Rand
type Source = rand.Source

func New(src rand.Source) *rand.Rand   { return rand.New(src) }
func NewSource(seed int64) rand.Source { return rand.NewSource(seed) }
