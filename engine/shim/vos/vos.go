// Package vos replaces package os in overlay-rewritten kraken packages for the
// crash-point engine (E2). Every MUTATING file-system primitive under a
// registered root is numbered; a Ctl can be told to "crash" before primitive k:
// the primitive and everything after it does not happen (process-crash model:
// completed system calls persist, nothing later happens, no torn writes).
// Paths outside every registered root (and everything when no root is
// registered) pass straight through to package os.
package vos

import (
	"errors"
	"fmt"
	"io"
	"io/fs"
	"os"
	"path/filepath"
	"sort"
	"strings"
	"sync"
	"time"
)

// ---- re-exports -----------------------------------------------------------

type (
	FileInfo  = os.FileInfo
	FileMode  = os.FileMode
	DirEntry  = os.DirEntry
	PathError = os.PathError
	LinkError = os.LinkError
	Signal    = os.Signal
)

const (
	O_RDONLY = os.O_RDONLY
	O_WRONLY = os.O_WRONLY
	O_RDWR   = os.O_RDWR
	O_APPEND = os.O_APPEND
	O_CREATE = os.O_CREATE
	O_EXCL   = os.O_EXCL
	O_SYNC   = os.O_SYNC
	O_TRUNC  = os.O_TRUNC

	ModePerm    = os.ModePerm
	ModeDir     = os.ModeDir
	ModeSymlink = os.ModeSymlink

	PathSeparator = os.PathSeparator
)

var (
	ErrExist      = os.ErrExist
	ErrNotExist   = os.ErrNotExist
	ErrPermission = os.ErrPermission
	ErrInvalid    = os.ErrInvalid
	ErrClosed     = os.ErrClosed
	Stdout        = os.Stdout
	Stderr        = os.Stderr
	Stdin         = os.Stdin
	Args          = os.Args
)

func IsNotExist(err error) bool   { return os.IsNotExist(err) }
func IsExist(err error) bool      { return os.IsExist(err) }
func IsPermission(err error) bool { return os.IsPermission(err) }
func Getenv(k string) string      { return os.Getenv(k) }
func Setenv(k, v string) error    { return os.Setenv(k, v) }
func LookupEnv(k string) (string, bool) {
	return os.LookupEnv(k)
}
func Hostname() (string, error)                     { return os.Hostname() }
func Getpid() int                                   { return os.Getpid() }
func Getwd() (string, error)                        { return os.Getwd() }
func Exit(c int)                                    { os.Exit(c) }
func TempDir() string                               { return os.TempDir() }
func Stat(p string) (FileInfo, error)               { return os.Stat(p) }
func Lstat(p string) (FileInfo, error)              { return os.Lstat(p) }
func ReadDir(p string) ([]DirEntry, error)          { return os.ReadDir(p) }
func ReadFile(p string) ([]byte, error)             { return os.ReadFile(p) }
func Readlink(p string) (string, error)             { return os.Readlink(p) }
func SameFile(a, b FileInfo) bool                   { return os.SameFile(a, b) }
func Expand(s string, f func(string) string) string { return os.Expand(s, f) }
func ExpandEnv(s string) string                     { return os.ExpandEnv(s) }

// ---- control --------------------------------------------------------------

// Crashed is the panic value raised at the crash point.
type Crashed struct{ At int }

var errDead = errors.New("vos: process crashed (no further file-system effects)")

// Ctl numbers and controls the mutating primitives under Root.
type Ctl struct {
	Root       string
	CrashAt    int  // crash before the CrashAt-th mutating primitive (1-based); 0 = never
	RemoveDesc bool // RemoveAll / directory listings for removal in descending name order
	// Fault, when set, is consulted before every primitive under Root — the
	// mutating ones and open/seek/read/close of files. A non-nil answer makes
	// that one primitive fail with it (an environment fault, not a crash: later
	// primitives work). It is called with c's lock held and must not call back.
	Fault func(desc string) error
	mu    sync.Mutex
	n     int
	dead  bool
	log   []string
}

var (
	regMu sync.RWMutex
	reg   []*Ctl
)

// Register starts controlling everything under root.
func Register(root string, crashAt int) *Ctl {
	c := &Ctl{Root: filepath.Clean(root), CrashAt: crashAt}
	regMu.Lock()
	reg = append(reg, c)
	regMu.Unlock()
	return c
}

// Unregister stops controlling c's root.
func (c *Ctl) Unregister() {
	regMu.Lock()
	for i, x := range reg {
		if x == c {
			reg = append(reg[:i], reg[i+1:]...)
			break
		}
	}
	regMu.Unlock()
}

// N returns the number of mutating primitives seen so far.
func (c *Ctl) N() int { c.mu.Lock(); defer c.mu.Unlock(); return c.n }

// Dead reports whether the crash point was reached.
func (c *Ctl) Dead() bool { c.mu.Lock(); defer c.mu.Unlock(); return c.dead }

// Log returns descriptions of the primitives (paths relative to Root).
func (c *Ctl) Log() []string { c.mu.Lock(); defer c.mu.Unlock(); return append([]string{}, c.log...) }

func find(path string) *Ctl {
	regMu.RLock()
	defer regMu.RUnlock()
	if len(reg) == 0 {
		return nil
	}
	p := filepath.Clean(path)
	for _, c := range reg {
		if p == c.Root || strings.HasPrefix(p, c.Root+"/") {
			return c
		}
	}
	return nil
}

func (c *Ctl) rel(p string) string {
	r, err := filepath.Rel(c.Root, filepath.Clean(p))
	if err != nil {
		return p
	}
	return r
}

// step is called before a mutating primitive. It returns errDead at the crash
// point and ever after.
func (c *Ctl) step(desc string) error {
	if c == nil {
		return nil
	}
	c.mu.Lock()
	if c.dead {
		c.mu.Unlock()
		return errDead
	}
	if c.Fault != nil {
		if err := c.Fault(desc); err != nil {
			c.mu.Unlock()
			return err
		}
	}
	c.n++
	c.log = append(c.log, desc)
	if c.CrashAt > 0 && c.n == c.CrashAt {
		// Crash point: this primitive and every later one does not happen. The
		// caller sees an error; whatever it does next has no file-system effect
		// (a panic here would run kraken's deferred functions under its own
		// non-reentrant locks and can deadlock).
		c.dead = true
		c.n--
		c.log = c.log[:len(c.log)-1]
		c.mu.Unlock()
		return errDead
	}
	c.mu.Unlock()
	return nil
}

// env is called before a non-mutating primitive (open, seek, read, close); only
// an installed Fault can make it fail.
func (c *Ctl) env(desc string) error {
	if c == nil || c.Fault == nil {
		return nil
	}
	c.mu.Lock()
	defer c.mu.Unlock()
	return c.Fault(desc)
}

// RunToCrash runs f and reports whether the crash point was reached. After the
// crash point every mutating primitive under Root fails without effect, so the
// directory is exactly the image a process crash would have left.
func (c *Ctl) RunToCrash(f func()) (crashed bool) {
	f()
	return c.Dead()
}

// ---- mutating functions ---------------------------------------------------

func Mkdir(p string, perm FileMode) error {
	c := find(p)
	if c != nil {
		if _, err := os.Lstat(p); err != nil {
			if err := c.step("mkdir " + c.rel(p)); err != nil {
				return err
			}
		}
	}
	return os.Mkdir(p, perm)
}

func MkdirAll(p string, perm FileMode) error {
	c := find(p)
	if c == nil {
		return os.MkdirAll(p, perm)
	}
	// create missing components one primitive at a time
	p = filepath.Clean(p)
	var missing []string
	for q := p; ; q = filepath.Dir(q) {
		fi, err := os.Stat(q)
		if err == nil {
			if !fi.IsDir() {
				return &os.PathError{Op: "mkdir", Path: q, Err: errors.New("not a directory")}
			}
			break
		}
		missing = append(missing, q)
		if q == "/" || q == "." {
			break
		}
	}
	for i := len(missing) - 1; i >= 0; i-- {
		q := missing[i]
		if cc := find(q); cc != nil {
			if err := cc.step("mkdir " + cc.rel(q)); err != nil {
				return err
			}
		}
		if err := os.Mkdir(q, perm); err != nil && !os.IsExist(err) {
			return err
		}
	}
	return nil
}

func MkdirTemp(dir, pattern string) (string, error) {
	d := dir
	if d == "" {
		d = os.TempDir()
	}
	if c := find(d); c != nil {
		if err := c.step("mkdtemp " + c.rel(d) + "/" + pattern); err != nil {
			return "", err
		}
	}
	return os.MkdirTemp(dir, pattern)
}

func Rename(a, b string) error {
	c := find(a)
	if c == nil {
		c = find(b)
	}
	if err := c.step(fmt.Sprintf("rename %s -> %s", relOf(c, a), relOf(c, b))); err != nil {
		return err
	}
	return os.Rename(a, b)
}

func relOf(c *Ctl, p string) string {
	if c == nil {
		return p
	}
	return c.rel(p)
}

func Link(a, b string) error {
	c := find(b)
	if err := c.step(fmt.Sprintf("link %s -> %s", relOf(c, a), relOf(c, b))); err != nil {
		return err
	}
	return os.Link(a, b)
}

func Symlink(a, b string) error {
	c := find(b)
	if err := c.step(fmt.Sprintf("symlink %s -> %s", relOf(c, a), relOf(c, b))); err != nil {
		return err
	}
	return os.Symlink(a, b)
}

func Remove(p string) error {
	c := find(p)
	if c != nil {
		if _, err := os.Lstat(p); err == nil {
			if err := c.step("remove " + c.rel(p)); err != nil {
				return err
			}
		}
	}
	return os.Remove(p)
}

// RemoveAll removes children one primitive at a time (name order, or
// descending when Ctl.RemoveDesc), then the directory itself.
func RemoveAll(p string) error {
	c := find(p)
	if c == nil {
		return os.RemoveAll(p)
	}
	fi, err := os.Lstat(p)
	if err != nil {
		if os.IsNotExist(err) {
			return nil
		}
		return err
	}
	if fi.IsDir() {
		ents, err := os.ReadDir(p)
		if err != nil {
			return err
		}
		names := make([]string, len(ents))
		for i, e := range ents {
			names[i] = e.Name()
		}
		sort.Strings(names)
		if c.RemoveDesc {
			for i, j := 0, len(names)-1; i < j; i, j = i+1, j-1 {
				names[i], names[j] = names[j], names[i]
			}
		}
		for _, n := range names {
			if err := RemoveAll(filepath.Join(p, n)); err != nil {
				return err
			}
		}
		if err := c.step("rmdir " + c.rel(p)); err != nil {
			return err
		}
		return os.Remove(p)
	}
	if err := c.step("unlink " + c.rel(p)); err != nil {
		return err
	}
	return os.Remove(p)
}

func Chtimes(p string, a, m time.Time) error {
	c := find(p)
	if err := c.step("chtimes " + relOf(c, p)); err != nil {
		return err
	}
	return os.Chtimes(p, a, m)
}

func Chmod(p string, m FileMode) error {
	c := find(p)
	if err := c.step("chmod " + relOf(c, p)); err != nil {
		return err
	}
	return os.Chmod(p, m)
}

func Truncate(p string, size int64) error {
	c := find(p)
	if err := c.step(fmt.Sprintf("truncate %s %d", relOf(c, p), size)); err != nil {
		return err
	}
	return os.Truncate(p, size)
}

func WriteFile(p string, data []byte, perm FileMode) error {
	f, err := OpenFile(p, O_WRONLY|O_CREATE|O_TRUNC, perm)
	if err != nil {
		return err
	}
	_, err = f.Write(data)
	if err1 := f.Close(); err1 != nil && err == nil {
		err = err1
	}
	return err
}

// ---- File -----------------------------------------------------------------

// File wraps *os.File; writes through it are numbered primitives.
type File struct {
	f *os.File
	c *Ctl
}

// Real returns the underlying *os.File.
func (f *File) Real() *os.File { return f.f }

func Open(p string) (*File, error) { return OpenFile(p, O_RDONLY, 0) }

func Create(p string) (*File, error) { return OpenFile(p, O_RDWR|O_CREATE|O_TRUNC, 0o666) }

func CreateTemp(dir, pattern string) (*File, error) {
	d := dir
	if d == "" {
		d = os.TempDir()
	}
	c := find(d)
	if err := c.step("createtemp " + relOf(c, d) + "/" + pattern); err != nil {
		return nil, err
	}
	f, err := os.CreateTemp(dir, pattern)
	if err != nil {
		return nil, err
	}
	return &File{f, c}, nil
}

func NewFile(fd uintptr, name string) *File { return &File{os.NewFile(fd, name), nil} }

func OpenFile(p string, flag int, perm FileMode) (*File, error) {
	c := find(p)
	if c != nil && flag&(O_CREATE|O_TRUNC) != 0 {
		fi, err := os.Stat(p)
		switch {
		case err != nil && flag&O_CREATE != 0:
			if err := c.step("create " + c.rel(p)); err != nil {
				return nil, err
			}
		case err == nil && flag&O_TRUNC != 0 && flag&O_EXCL == 0 && fi.Mode().IsRegular() && fi.Size() > 0:
			if err := c.step("open-trunc " + c.rel(p)); err != nil {
				return nil, err
			}
		}
	}
	if c != nil && c.Dead() && flag&(O_WRONLY|O_RDWR) != 0 {
		return nil, errDead
	}
	if err := c.env("open " + relOf(c, p)); err != nil {
		return nil, err
	}
	f, err := os.OpenFile(p, flag, perm)
	if err != nil {
		return nil, err
	}
	return &File{f, c}, nil
}

func (f *File) name() string { return relOf(f.c, f.f.Name()) }

func (f *File) Read(p []byte) (int, error) {
	if err := f.c.env("read " + f.name()); err != nil {
		return 0, err
	}
	return f.f.Read(p)
}
func (f *File) ReadAt(p []byte, off int64) (int, error) {
	if err := f.c.env("pread " + f.name()); err != nil {
		return 0, err
	}
	return f.f.ReadAt(p, off)
}
func (f *File) Seek(off int64, wh int) (int64, error) {
	if err := f.c.env("seek " + f.name()); err != nil {
		return 0, err
	}
	return f.f.Seek(off, wh)
}
func (f *File) Stat() (FileInfo, error) { return f.f.Stat() }
func (f *File) Name() string            { return f.f.Name() }
func (f *File) Fd() uintptr             { return f.f.Fd() }

// Close always closes the descriptor; an injected fault is the delayed write
// error close(2) may report.
func (f *File) Close() error {
	ferr := f.c.env("close " + f.name())
	err := f.f.Close()
	if ferr != nil {
		return ferr
	}
	return err
}
func (f *File) Sync() error                          { return f.f.Sync() }
func (f *File) Readdir(n int) ([]FileInfo, error)    { return f.f.Readdir(n) }
func (f *File) Readdirnames(n int) ([]string, error) { return f.f.Readdirnames(n) }
func (f *File) ReadDir(n int) ([]DirEntry, error)    { return f.f.ReadDir(n) }

func (f *File) Write(p []byte) (int, error) {
	if len(p) > 0 {
		if err := f.c.step(fmt.Sprintf("write %s len=%d", f.name(), len(p))); err != nil {
			return 0, err
		}
	}
	return f.f.Write(p)
}

func (f *File) WriteString(s string) (int, error) { return f.Write([]byte(s)) }

func (f *File) WriteAt(p []byte, off int64) (int, error) {
	if len(p) > 0 {
		if err := f.c.step(fmt.Sprintf("pwrite %s off=%d len=%d", f.name(), off, len(p))); err != nil {
			return 0, err
		}
	}
	return f.f.WriteAt(p, off)
}

func (f *File) Truncate(size int64) error {
	if err := f.c.step(fmt.Sprintf("ftruncate %s %d", f.name(), size)); err != nil {
		return err
	}
	return f.f.Truncate(size)
}

func (f *File) Chmod(m FileMode) error {
	if err := f.c.step("fchmod " + f.name()); err != nil {
		return err
	}
	return f.f.Chmod(m)
}

// ReadFrom keeps io.Copy(dst=*File) going through Write so every chunk is a
// numbered primitive (os.File's own ReadFrom would bypass the shim).
func (f *File) ReadFrom(r io.Reader) (int64, error) {
	buf := make([]byte, 32*1024)
	var total int64
	for {
		n, err := r.Read(buf)
		if n > 0 {
			w, werr := f.Write(buf[:n])
			total += int64(w)
			if werr != nil {
				return total, werr
			}
		}
		if err == io.EOF {
			return total, nil
		}
		if err != nil {
			return total, err
		}
	}
}

var _ fs.FileInfo = FileInfo(nil)
