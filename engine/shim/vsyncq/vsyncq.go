// Package vsyncq (GENERATED from vsync by scripts/gen_shims.sh) is a drop-in replacement for the parts of package sync that
// kraken uses. Under a controlled vrt execution every operation is a
// scheduling point and blocking is modelled as a disabled thread; outside one
// (vrt.Active()==false) it delegates to the real sync primitives so the same
// rewritten code can run free under -race.
package vsyncq

import (
	"sync"

	"verif/vrt"
)

// Locker is sync.Locker.
type Locker = sync.Locker

// Map and Pool are left as the real types: their operations are atomic steps.
type Map = sync.Map
type Pool = sync.Pool

// Points controls whether operations of this package are scheduling points
// (blocking is always modelled). UnlockPoints: whether Unlock/RUnlock are too.
var Points = true
var UnlockPoints = true

func point(l string) {
	if Points {
		vrt.Point(l)
	}
}

// Mutex mirrors sync.Mutex.
type Mutex struct {
	real   sync.Mutex
	locked bool
}

func (m *Mutex) Lock() {
	if !vrt.Active() {
		m.real.Lock()
		return
	}
	point("Lock")
	for m.locked {
		vrt.Block(m, "Lock")
	}
	m.locked = true
}

func (m *Mutex) TryLock() bool {
	if !vrt.Active() {
		return m.real.TryLock()
	}
	point("TryLock")
	if m.locked {
		return false
	}
	m.locked = true
	return true
}

func (m *Mutex) Unlock() {
	if !vrt.Active() {
		m.real.Unlock()
		return
	}
	if !m.locked {
		panic("vsync: unlock of unlocked mutex")
	}
	m.locked = false
	vrt.Wake(m)
	// The scheduling point comes AFTER the release took effect, so that what the
	// thread does next can be separated from the critical section it just left.
	if UnlockPoints {
		point("Unlock")
	}
}

// RWMutex mirrors sync.RWMutex (no writer preference: see DESIGN.md §2.2).
type RWMutex struct {
	real    sync.RWMutex
	writer  bool
	readers int
}

func (m *RWMutex) Lock() {
	if !vrt.Active() {
		m.real.Lock()
		return
	}
	point("Lock")
	for m.writer || m.readers > 0 {
		vrt.Block(m, "Lock")
	}
	m.writer = true
}

func (m *RWMutex) Unlock() {
	if !vrt.Active() {
		m.real.Unlock()
		return
	}
	if !m.writer {
		panic("vsync: Unlock of unlocked RWMutex")
	}
	m.writer = false
	vrt.Wake(m)
	if UnlockPoints {
		point("Unlock")
	}
}

func (m *RWMutex) RLock() {
	if !vrt.Active() {
		m.real.RLock()
		return
	}
	point("RLock")
	for m.writer {
		vrt.Block(m, "RLock")
	}
	m.readers++
}

func (m *RWMutex) RUnlock() {
	if !vrt.Active() {
		m.real.RUnlock()
		return
	}
	if m.readers <= 0 {
		panic("vsync: RUnlock of unlocked RWMutex")
	}
	m.readers--
	if m.readers == 0 {
		vrt.Wake(m)
	}
	if UnlockPoints {
		point("RUnlock")
	}
}

func (m *RWMutex) TryLock() bool {
	if !vrt.Active() {
		return m.real.TryLock()
	}
	point("TryLock")
	if m.writer || m.readers > 0 {
		return false
	}
	m.writer = true
	return true
}

func (m *RWMutex) TryRLock() bool {
	if !vrt.Active() {
		return m.real.TryRLock()
	}
	point("TryRLock")
	if m.writer {
		return false
	}
	m.readers++
	return true
}

type rlocker RWMutex

func (r *rlocker) Lock()   { (*RWMutex)(r).RLock() }
func (r *rlocker) Unlock() { (*RWMutex)(r).RUnlock() }

// RLocker mirrors (*sync.RWMutex).RLocker.
func (m *RWMutex) RLocker() Locker { return (*rlocker)(m) }

// WaitGroup mirrors sync.WaitGroup.
type WaitGroup struct {
	real sync.WaitGroup
	n    int
}

func (w *WaitGroup) Add(d int) {
	if !vrt.Active() {
		w.real.Add(d)
		return
	}
	w.n += d
	if w.n < 0 {
		panic("vsync: negative WaitGroup counter")
	}
	if w.n == 0 {
		vrt.Wake(w)
	}
}

func (w *WaitGroup) Done() {
	if vrt.Active() {
		point("wg.Done")
	}
	w.Add(-1)
}

func (w *WaitGroup) Wait() {
	if !vrt.Active() {
		w.real.Wait()
		return
	}
	point("wg.Wait")
	for w.n > 0 {
		vrt.Block(w, "wg.Wait")
	}
}

// Once mirrors sync.Once.
type Once struct {
	real    sync.Once
	done    bool
	running bool
}

func (o *Once) Do(f func()) {
	if !vrt.Active() {
		o.real.Do(f)
		return
	}
	point("Once.Do")
	for o.running {
		vrt.Block(o, "Once.Do")
	}
	if o.done {
		return
	}
	o.running = true
	defer func() {
		o.running = false
		o.done = true
		vrt.Wake(o)
	}()
	f()
}

// Cond mirrors sync.Cond.
type Cond struct {
	L       Locker
	real    *sync.Cond
	waiters []*condWaiter
}

type condWaiter struct{ signalled bool }

// NewCond mirrors sync.NewCond.
func NewCond(l Locker) *Cond { return &Cond{L: l, real: sync.NewCond(l)} }

func (c *Cond) Wait() {
	if !vrt.Active() {
		c.real.Wait()
		return
	}
	w := &condWaiter{}
	c.waiters = append(c.waiters, w)
	c.L.Unlock()
	for !w.signalled {
		vrt.Block(w, "Cond.Wait")
	}
	c.L.Lock()
}

func (c *Cond) Signal() {
	if !vrt.Active() {
		c.real.Signal()
		return
	}
	point("Cond.Signal")
	if len(c.waiters) > 0 {
		w := c.waiters[0]
		c.waiters = c.waiters[1:]
		w.signalled = true
		vrt.Wake(w)
	}
}

func (c *Cond) Broadcast() {
	if !vrt.Active() {
		c.real.Broadcast()
		return
	}
	point("Cond.Broadcast")
	for _, w := range c.waiters {
		w.signalled = true
		vrt.Wake(w)
	}
	c.waiters = nil
}
