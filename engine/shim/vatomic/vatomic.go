// Package vatomic replaces go.uber.org/atomic in overlay-rewritten packages:
// same constructors and methods, with a vrt scheduling point before every
// operation. The values are real uber atomics, so free-running use is safe.
package vatomic

import (
	"time"

	ua "go.uber.org/atomic"

	"verif/vrt"
)

type Int32 struct{ v ua.Int32 }

func NewInt32(i int32) *Int32        { x := &Int32{}; x.v.Store(i); return x }
func (a *Int32) Load() int32         { vrt.Point("a.Load"); return a.v.Load() }
func (a *Int32) Store(n int32)       { vrt.Point("a.Store"); a.v.Store(n) }
func (a *Int32) Add(n int32) int32   { vrt.Point("a.Add"); return a.v.Add(n) }
func (a *Int32) Sub(n int32) int32   { vrt.Point("a.Sub"); return a.v.Sub(n) }
func (a *Int32) Inc() int32          { vrt.Point("a.Inc"); return a.v.Inc() }
func (a *Int32) Dec() int32          { vrt.Point("a.Dec"); return a.v.Dec() }
func (a *Int32) CAS(o, n int32) bool { vrt.Point("a.CAS"); return a.v.CAS(o, n) }
func (a *Int32) Swap(n int32) int32  { vrt.Point("a.Swap"); return a.v.Swap(n) }

type Int64 struct{ v ua.Int64 }

func NewInt64(i int64) *Int64        { x := &Int64{}; x.v.Store(i); return x }
func (a *Int64) Load() int64         { vrt.Point("a.Load"); return a.v.Load() }
func (a *Int64) Store(n int64)       { vrt.Point("a.Store"); a.v.Store(n) }
func (a *Int64) Add(n int64) int64   { vrt.Point("a.Add"); return a.v.Add(n) }
func (a *Int64) Sub(n int64) int64   { vrt.Point("a.Sub"); return a.v.Sub(n) }
func (a *Int64) Inc() int64          { vrt.Point("a.Inc"); return a.v.Inc() }
func (a *Int64) Dec() int64          { vrt.Point("a.Dec"); return a.v.Dec() }
func (a *Int64) CAS(o, n int64) bool { vrt.Point("a.CAS"); return a.v.CAS(o, n) }
func (a *Int64) Swap(n int64) int64  { vrt.Point("a.Swap"); return a.v.Swap(n) }

type Uint32 struct{ v ua.Uint32 }

func NewUint32(i uint32) *Uint32       { x := &Uint32{}; x.v.Store(i); return x }
func (a *Uint32) Load() uint32         { vrt.Point("a.Load"); return a.v.Load() }
func (a *Uint32) Store(n uint32)       { vrt.Point("a.Store"); a.v.Store(n) }
func (a *Uint32) Inc() uint32          { vrt.Point("a.Inc"); return a.v.Inc() }
func (a *Uint32) Dec() uint32          { vrt.Point("a.Dec"); return a.v.Dec() }
func (a *Uint32) Add(n uint32) uint32  { vrt.Point("a.Add"); return a.v.Add(n) }
func (a *Uint32) CAS(o, n uint32) bool { vrt.Point("a.CAS"); return a.v.CAS(o, n) }

type Uint64 struct{ v ua.Uint64 }

func NewUint64(i uint64) *Uint64       { x := &Uint64{}; x.v.Store(i); return x }
func (a *Uint64) Load() uint64         { vrt.Point("a.Load"); return a.v.Load() }
func (a *Uint64) Store(n uint64)       { vrt.Point("a.Store"); a.v.Store(n) }
func (a *Uint64) Inc() uint64          { vrt.Point("a.Inc"); return a.v.Inc() }
func (a *Uint64) Dec() uint64          { vrt.Point("a.Dec"); return a.v.Dec() }
func (a *Uint64) Add(n uint64) uint64  { vrt.Point("a.Add"); return a.v.Add(n) }
func (a *Uint64) CAS(o, n uint64) bool { vrt.Point("a.CAS"); return a.v.CAS(o, n) }

type Bool struct{ v ua.Bool }

func NewBool(b bool) *Bool         { x := &Bool{}; x.v.Store(b); return x }
func (a *Bool) Load() bool         { vrt.Point("a.Load"); return a.v.Load() }
func (a *Bool) Store(b bool)       { vrt.Point("a.Store"); a.v.Store(b) }
func (a *Bool) CAS(o, n bool) bool { vrt.Point("a.CAS"); return a.v.CAS(o, n) }
func (a *Bool) Swap(n bool) bool   { vrt.Point("a.Swap"); return a.v.Swap(n) }
func (a *Bool) Toggle() bool       { vrt.Point("a.Toggle"); return a.v.Toggle() }

type Duration struct{ v ua.Duration }

func NewDuration(d time.Duration) *Duration { x := &Duration{}; x.v.Store(d); return x }
func (a *Duration) Load() time.Duration     { vrt.Point("a.Load"); return a.v.Load() }
func (a *Duration) Store(d time.Duration)   { vrt.Point("a.Store"); a.v.Store(d) }

type String struct{ v ua.String }

func NewString(s string) *String { x := &String{}; x.v.Store(s); return x }
func (a *String) Load() string   { vrt.Point("a.Load"); return a.v.Load() }
func (a *String) Store(s string) { vrt.Point("a.Store"); a.v.Store(s) }
