// Package quiet silences kraken's global logger (import for side effect).
package quiet

import (
	"github.com/uber/kraken/utils/log"
	"go.uber.org/zap"
)

func init() { log.SetGlobalLogger(zap.NewNop().Sugar()) }
