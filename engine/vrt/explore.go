package vrt

import (
	"encoding/json"
	"fmt"
	"os"
	"os/exec"
	"strconv"
	"strings"
	"sync"
	"syscall"
	"time"
)

// Harness describes one closed system to explore.
type Harness struct {
	Name    string
	Horizon int // max scheduler steps per execution
	// Body builds a fresh system, runs as thread 0, spawns threads with Go,
	// joins them and evaluates the oracle. It returns an observation string
	// (outcome class, used for vacuity / determinism checks) and a non-empty
	// violation message when the property is violated in this execution.
	Body func() (obs string, violation string)
	// RunOnce, when set, replaces the cooperative scheduler: it must execute
	// one complete execution that follows prefix and then takes choice 0
	// everywhere, and return its decision record (used by engine E1q, which
	// finds the enabled actions by quiescence detection instead).
	RunOnce func(prefix []int) (x *Exec, obs string, violation string)
	// TolerateDivergence: a replay whose enabled set differs from the recorded
	// one (nondeterminism the harness does not own, e.g. Go map iteration
	// inside the code under test) is counted, its subtree is not expanded and
	// the run is reported as not exhaustive, instead of a hard error. The
	// diverged execution is still a real execution and its oracle still counts.
	TolerateDivergence bool
}

// Result summarises an exploration.
type Result struct {
	Executions int
	Bound      int
	Completed  bool // the whole tree within Bound was explored
	Outcomes   map[string]int
	Capped     int
	Deadlocks  int
	MaxPoints  int
	Violations []Violation
	Samples    [][]int
	Err        string
	Preempted  int // executions with at least one deviation
	Diverged   int // tolerated replay divergences (see Harness.TolerateDivergence)
	DivergedAt string
}

// Violation is one failing execution.
type Violation struct {
	Harness  string
	Choices  []int
	Labels   []string
	Msg      string
	Obs      string
	Deadlock bool
}

type outcome struct {
	x   *Exec
	obs string
	vio string
}

func runOnce(h *Harness, prefix []int) outcome {
	if h.RunOnce != nil {
		x, obs, vio := h.RunOnce(prefix)
		return outcome{x, obs, vio}
	}
	var obs, vio string
	hz := h.Horizon
	if hz == 0 {
		hz = 100000
	}
	x := Run(prefix, hz, func() { obs, vio = h.Body() })
	return outcome{x, obs, vio}
}

// Replay runs one schedule and returns the execution, observation and violation.
func Replay(h *Harness, choices []int) (*Exec, string, string) {
	o := runOnce(h, choices)
	return o.x, o.obs, o.vio
}

type explorer struct {
	h        *Harness
	bound    int
	res      *Result
	deadline time.Time
	maxViol  int
	jobs     *[][]int // when non-nil: collect subtree roots at depth jobDepth instead of recursing
	jobDepth int
	stop     bool
}

func (e *explorer) record(o outcome, prefixLen int) {
	r := e.res
	r.Executions++
	x := o.x
	if x.Diverged != "" {
		if e.h.TolerateDivergence {
			r.Diverged++
			r.Completed = false
			if r.DivergedAt == "" {
				var l []string
				for _, p := range x.Points {
					l = append(l, p.Label)
				}
				r.DivergedAt = x.Diverged + " :: " + strings.Join(l, " | ")
			}
		} else if r.Err == "" {
			r.Err = "replay divergence: " + x.Diverged
		}
	}
	if len(x.Points) > r.MaxPoints {
		r.MaxPoints = len(x.Points)
	}
	if x.Capped {
		r.Capped++
	}
	dev := 0
	for i := range x.Points {
		dev += devCost(x.Points[i])
	}
	if dev > 0 {
		r.Preempted++
	}
	key := o.obs
	if x.Deadlock {
		r.Deadlocks++
		key = "DEADLOCK " + strings.Join(x.Blocked, ",")
	}
	if x.Panic != "" {
		key = "PANIC"
	}
	r.Outcomes[key]++
	if len(r.Samples) < 3 {
		r.Samples = append(r.Samples, x.Choices())
	}
	msg := o.vio
	if x.Panic != "" {
		msg = "panic: " + x.Panic
	} else if x.Deadlock && msg == "" {
		msg = "deadlock: " + strings.Join(x.Blocked, ",")
	}
	if msg != "" && len(r.Violations) < e.maxViol {
		labels := make([]string, len(x.Points))
		for i, p := range x.Points {
			labels[i] = p.Label
		}
		r.Violations = append(r.Violations, Violation{Harness: e.h.Name, Choices: trimZeros(x.Choices()), Labels: labels, Msg: msg, Obs: o.obs, Deadlock: x.Deadlock})
	}
}

func trimZeros(c []int) []int {
	n := len(c)
	for n > 0 && c[n-1] == 0 {
		n--
	}
	return c[:n]
}

func devCost(p PointRec) int {
	if p.Chosen == 0 {
		return 0
	}
	if p.Env || p.RunningEnabled {
		return 1
	}
	return 0 // running thread blocked/finished: switching is free
}

func (e *explorer) explore(prefix []int, depth int) {
	if e.stop {
		return
	}
	if !e.deadline.IsZero() && time.Now().After(e.deadline) {
		e.stop = true
		e.res.Completed = false
		return
	}
	o := runOnce(e.h, prefix)
	e.record(o, len(prefix))
	if e.res.Err != "" {
		e.stop = true
		return
	}
	x := o.x
	if x.Panic != "" || x.Diverged != "" {
		return // the tail after a panic / divergence is not meaningful
	}
	cost := 0
	for i := 0; i < len(x.Points); i++ {
		p := x.Points[i]
		if i >= len(prefix) {
			for alt := 1; alt < p.NEnabled; alt++ {
				c := cost
				if p.Env || p.RunningEnabled {
					c++
				}
				if c > e.bound {
					continue
				}
				np := make([]int, i+1)
				copy(np, x.Choices()[:i])
				np[i] = alt
				if e.jobs != nil && depth+1 >= e.jobDepth {
					*e.jobs = append(*e.jobs, np)
				} else {
					e.explore(np, depth+1)
				}
			}
		}
		cost += devCost(p)
	}
}

// Explore explores all executions of h with at most bound deviations, in this
// process. maxDur==0 means no time cap.
func Explore(h *Harness, bound int, maxDur time.Duration) *Result {
	e := &explorer{h: h, bound: bound, res: &Result{Bound: bound, Completed: true, Outcomes: map[string]int{}}, maxViol: 5}
	if maxDur > 0 {
		e.deadline = time.Now().Add(maxDur)
	}
	e.explore(nil, 0)
	return e.res
}

// ExploreFrom explores the subtree rooted at prefix (used by shard workers).
func ExploreFrom(h *Harness, bound int, prefix []int, maxDur time.Duration) *Result {
	e := &explorer{h: h, bound: bound, res: &Result{Bound: bound, Completed: true, Outcomes: map[string]int{}}, maxViol: 5}
	if maxDur > 0 {
		e.deadline = time.Now().Add(maxDur)
	}
	e.explore(prefix, 0)
	return e.res
}

func merge(a, b *Result) {
	a.Executions += b.Executions
	a.Capped += b.Capped
	a.Deadlocks += b.Deadlocks
	a.Preempted += b.Preempted
	a.Diverged += b.Diverged
	if a.DivergedAt == "" {
		a.DivergedAt = b.DivergedAt
	}
	if b.MaxPoints > a.MaxPoints {
		a.MaxPoints = b.MaxPoints
	}
	if !b.Completed {
		a.Completed = false
	}
	for k, v := range b.Outcomes {
		a.Outcomes[k] += v
	}
	for _, v := range b.Violations {
		if len(a.Violations) < 20 {
			a.Violations = append(a.Violations, v)
		}
	}
	if a.Err == "" {
		a.Err = b.Err
	}
	for _, sm := range b.Samples {
		if len(a.Samples) < 3 {
			a.Samples = append(a.Samples, sm)
		}
	}
}

// ExploreSharded explores like Explore but distributes subtrees over worker
// processes: the current binary is re-executed with VRT_WORKER=<harness name>
// and reads job prefixes from stdin. The binary's main must call
// WorkerMain(harnesses) first. workers<=1 falls back to in-process exploration.
func ExploreSharded(h *Harness, bound int, workers int, maxDur time.Duration) *Result {
	if workers <= 1 {
		return Explore(h, bound, maxDur)
	}
	var jobs [][]int
	e := &explorer{h: h, bound: bound, res: &Result{Bound: bound, Completed: true, Outcomes: map[string]int{}}, maxViol: 5, jobs: &jobs, jobDepth: 2}
	start := time.Now()
	if maxDur > 0 {
		e.deadline = start.Add(maxDur)
	}
	e.explore(nil, 0)
	res := e.res
	if len(jobs) == 0 || res.Err != "" {
		return res
	}
	if workers > len(jobs) {
		workers = len(jobs)
	}
	remaining := time.Duration(0)
	if maxDur > 0 {
		remaining = maxDur - time.Since(start)
		if remaining < time.Second {
			remaining = time.Second
		}
	}
	jobc := make(chan []int, len(jobs))
	for _, j := range jobs {
		jobc <- j
	}
	close(jobc)
	var mu sync.Mutex
	var wg sync.WaitGroup
	exe, _ := os.Executable()
	for w := 0; w < workers; w++ {
		wg.Add(1)
		go func() {
			defer wg.Done()
			cmd := exec.Command(exe)
			cmd.Env = append(os.Environ(), "VRT_WORKER="+h.Name, "VRT_BOUND="+strconv.Itoa(bound), "VRT_MAXDUR="+remaining.String(), "GOMAXPROCS=1")
			cmd.Stderr = os.Stderr
			in, _ := cmd.StdinPipe()
			out, _ := cmd.StdoutPipe()
			if err := cmd.Start(); err != nil {
				mu.Lock()
				res.Err = "worker start: " + err.Error()
				mu.Unlock()
				return
			}
			dec := json.NewDecoder(out)
			enc := json.NewEncoder(in)
			for j := range jobc {
				if err := enc.Encode(j); err != nil {
					mu.Lock()
					res.Err = "worker write: " + err.Error()
					mu.Unlock()
					break
				}
				var r Result
				if err := dec.Decode(&r); err != nil {
					mu.Lock()
					res.Err = fmt.Sprintf("worker died on job %v: %v", j, err)
					mu.Unlock()
					break
				}
				mu.Lock()
				merge(res, &r)
				mu.Unlock()
			}
			in.Close()
			cmd.Wait()
		}()
	}
	wg.Wait()
	return res
}

// WorkerMain turns the process into a shard worker when VRT_WORKER is set; it
// never returns in that case.
func WorkerMain(harnesses []*Harness) {
	if n, _ := strconv.Atoi(os.Getenv("VRT_FREE")); n > 0 {
		// race pass: run every scheduler-based harness body free-running n times
		// (binary built with -race by run.sh); oracles are ignored here, only the
		// race detector's log matters.
		ran := 0
		for _, h := range harnesses {
			if h.Body == nil {
				continue
			}
			for i := 0; i < n; i++ {
				RunFree(func() { h.Body() })
				ran++
			}
		}
		fmt.Fprintf(os.Stderr, "vrt: free-running race pass: %d executions of %d harnesses\n", ran, len(harnesses))
		os.Exit(0)
	}
	name := os.Getenv("VRT_WORKER")
	if name == "" {
		return
	}
	var h *Harness
	for _, c := range harnesses {
		if c.Name == name {
			h = c
		}
	}
	if h == nil {
		fmt.Fprintf(os.Stderr, "vrt worker: unknown harness %q\n", name)
		os.Exit(2)
	}
	bound, _ := strconv.Atoi(os.Getenv("VRT_BOUND"))
	maxDur, _ := time.ParseDuration(os.Getenv("VRT_MAXDUR"))
	deadline := time.Time{}
	if maxDur > 0 {
		deadline = time.Now().Add(maxDur)
	}
	dec := json.NewDecoder(os.Stdin)
	fd, err := syscall.Dup(1)
	if err != nil {
		os.Exit(2)
	}
	enc := json.NewEncoder(os.NewFile(uintptr(fd), "results"))
	os.Stdout = os.Stderr
	for {
		var prefix []int
		if err := dec.Decode(&prefix); err != nil {
			os.Exit(0)
		}
		d := time.Duration(0)
		if !deadline.IsZero() {
			d = time.Until(deadline)
			if d <= 0 {
				d = time.Millisecond
			}
		}
		r := ExploreFrom(h, bound, prefix, d)
		enc.Encode(r)
	}
}
