package vrt_test

import (
	"fmt"
	"testing"

	"verif/shim/vsync"
	"verif/vrt"
)

// lost update: two threads do load;store under separate lock acquisitions.
func TestLostUpdate(t *testing.T) {
	h := &vrt.Harness{Name: "lost", Body: func() (string, string) {
		var mu vsync.Mutex
		x := 0
		for i := 0; i < 2; i++ {
			vrt.Go(func() {
				mu.Lock()
				v := x
				mu.Unlock()
				mu.Lock()
				x = v + 1
				mu.Unlock()
			})
		}
		vrt.Join()
		if x != 2 {
			return fmt.Sprint(x), "lost update"
		}
		return fmt.Sprint(x), ""
	}}
	r0 := vrt.Explore(h, 0, 0)
	if len(r0.Violations) != 0 {
		t.Fatalf("bound 0 should not find it: %+v", r0)
	}
	r1 := vrt.Explore(h, 1, 0)
	if len(r1.Violations) == 0 {
		t.Fatalf("bound 1 should find it: %+v", r1)
	}
	t.Logf("b0 execs=%d b1 execs=%d outcomes=%v viol=%v", r0.Executions, r1.Executions, r1.Outcomes, r1.Violations[0].Choices)
	// replay determinism
	v := r1.Violations[0]
	for i := 0; i < 2; i++ {
		x, obs, vio := vrt.Replay(h, v.Choices)
		if vio == "" || obs != v.Obs || x.Diverged != "" {
			t.Fatalf("replay mismatch %v %v %v", obs, vio, x.Diverged)
		}
	}
	r3 := vrt.Explore(h, 3, 0)
	t.Logf("b3 execs=%d", r3.Executions)
}

func TestDeadlock(t *testing.T) {
	h := &vrt.Harness{Name: "dl", Body: func() (string, string) {
		var a, b vsync.Mutex
		vrt.Go(func() { a.Lock(); b.Lock(); b.Unlock(); a.Unlock() })
		vrt.Go(func() { b.Lock(); a.Lock(); a.Unlock(); b.Unlock() })
		vrt.Join()
		return "ok", ""
	}}
	r := vrt.Explore(h, 1, 0)
	if r.Deadlocks == 0 {
		t.Fatalf("no deadlock found: %+v", r)
	}
	t.Logf("execs=%d deadlocks=%d %v", r.Executions, r.Deadlocks, r.Violations[0].Msg)
}
