package vrt

import (
	"sync"
	"testing"
)

func TestGoidFastAgreesWithSlow(t *testing.T) {
	var wg sync.WaitGroup
	for i := 0; i < 64; i++ {
		wg.Add(1)
		go func() {
			defer wg.Done()
			if a, b := goid(), slowGoid(); a != b || a == 0 {
				t.Errorf("goid %d != slow %d", a, b)
			}
		}()
	}
	wg.Wait()
}

func BenchmarkGoid(b *testing.B) {
	for i := 0; i < b.N; i++ {
		goid()
	}
}

func BenchmarkSlowGoid(b *testing.B) {
	for i := 0; i < b.N; i++ {
		slowGoid()
	}
}
