//go:build !amd64 || race

package vrt

func goid() uint64 { return slowGoid() }
