// Package vrt is the cooperative scheduler and deviation-bounded DFS explorer
// (engine E1 of DESIGN.md). Exactly one registered thread runs at a time; the
// shims in verif/shim/* call Point/Block/Choose, which hand the baton back to
// the explorer. One execution at a time per process (the scheduler is global
// because overlay-rewritten kraken code reaches it through package functions).
package vrt

import (
	"bytes"
	"fmt"
	"runtime"
	"strconv"
	"sync"
)

// thread states
const (
	stRunnable = iota
	stBlocked
	stDone
)

type thread struct {
	id    int
	name  string
	wake  chan struct{}
	state int
	on    interface{} // object blocked on
	label string      // label of the point the thread is parked at
	goid  uint64
	ops   int
}

// PointRec is one scheduling / environment decision of an execution.
type PointRec struct {
	NEnabled       int    // number of alternatives
	Chosen         int    // index taken
	RunningEnabled bool   // alternative 0 is "continue the running thread"
	Env            bool   // environment choice (Choose) rather than thread choice
	Label          string // label of the chosen thread's point / the env label
}

// Exec is the record of one complete execution.
type Exec struct {
	Points    []PointRec
	Deadlock  bool
	Capped    bool     // step horizon reached
	Panic     string   // panic escaping a thread body
	Blocked   []string // on deadlock: the blocked threads and what they wait for
	Steps     int
	Diverged  string // non-empty: replay of the prefix diverged (hard error)
	ThreadOps map[string]int
}

// Choices returns the chosen indices of the execution.
func (x *Exec) Choices() []int {
	c := make([]int, len(x.Points))
	for i, p := range x.Points {
		c[i] = p.Chosen
	}
	return c
}

type sched struct {
	mu       sync.Mutex
	threads  []*thread
	cur      *thread
	yield    chan struct{} // a thread signals: I parked / finished
	prefix   []int
	exec     *Exec
	horizon  int
	active   bool
	aborting bool
	labels   []string // per prefix-position label, used for divergence detection
}

var s *sched // current execution; nil when free-running

// free-running mode (race pass): threads are plain goroutines, Join waits for
// them, Point/Choose are no-ops. Used to run the same harness bodies under the
// race detector, whose reports the cooperative scheduler would mask.
var freeWG *sync.WaitGroup

// RunFree runs body with GoNamed/Join mapped to real goroutines.
func RunFree(body func()) {
	var wg sync.WaitGroup
	freeWG = &wg
	body()
	wg.Wait()
	freeWG = nil
}

// Active reports whether a controlled execution is in progress. The shims fall
// back to real primitives when not (so the same binary can run free under -race).
func Active() bool { return s != nil && s.active }

// Uncontrolled runs f with the scheduler switched off: the shims use the real
// primitives, goroutines f starts are ordinary goroutines. It is meant for
// constructors that start background goroutines which the harness stops again
// inside f. It must be called while the caller is the only runnable thread, and
// f must not leave a goroutine behind that later calls a shim, nor a shimmed
// primitive held or counted.
func Uncontrolled(f func()) {
	sc := s
	if sc == nil || !sc.active {
		f()
		return
	}
	sc.checkCaller("Uncontrolled")
	sc.active = false
	defer func() { sc.active = true }()
	f()
}

func slowGoid() uint64 {
	var buf [64]byte
	n := runtime.Stack(buf[:], false)
	// "goroutine 123 ["
	b := buf[10:n]
	i := bytes.IndexByte(b, ' ')
	if i < 0 {
		return 0
	}
	id, _ := strconv.ParseUint(string(b[:i]), 10, 64)
	return id
}

type abortExec struct{}

func (sc *sched) checkCaller(what string) *thread {
	t := sc.cur
	if t == nil || t.goid != goid() {
		panic(fmt.Sprintf("vrt: %s called from an uncontrolled goroutine (goid %d, running thread %v)", what, goid(), t))
	}
	return t
}

// park hands the baton to the explorer and waits to be resumed.
func (sc *sched) park(t *thread) {
	sc.yield <- struct{}{}
	<-t.wake
	if sc.aborting {
		panic(abortExec{})
	}
}

// Point is a scheduling point: the calling thread stays runnable but the
// explorer may run another thread first.
func Point(label string) {
	sc := s
	if sc == nil || !sc.active {
		return
	}
	if sc.aborting {
		return
	}
	t := sc.checkCaller("Point(" + label + ")")
	t.label = label
	t.ops++
	sc.park(t)
}

// Block parks the calling thread as disabled until Wake(obj) is called.
// Callers re-check their condition in a loop.
func Block(obj interface{}, label string) {
	sc := s
	if sc == nil || !sc.active {
		panic("vrt.Block outside a controlled execution")
	}
	if sc.aborting {
		panic(abortExec{})
	}
	t := sc.checkCaller("Block(" + label + ")")
	t.state = stBlocked
	t.on = obj
	t.label = label
	sc.park(t)
}

// Wake makes every thread blocked on obj runnable again (they re-check).
func Wake(obj interface{}) {
	sc := s
	if sc == nil || !sc.active {
		return
	}
	for _, t := range sc.threads {
		if t.state == stBlocked && t.on == obj {
			t.state = stRunnable
			t.on = nil
		}
	}
}

// WakeOne wakes the lowest-id (FIFO by registration of the wait) thread blocked on obj.
func WakeOne(obj interface{}, order []int) bool {
	sc := s
	if sc == nil || !sc.active {
		return false
	}
	for _, id := range order {
		t := sc.threads[id]
		if t.state == stBlocked && t.on == obj {
			t.state = stRunnable
			t.on = nil
			return true
		}
	}
	return false
}

// CurrentID returns the id of the running thread.
func CurrentID() int {
	if s == nil || s.cur == nil {
		return -1
	}
	return s.cur.id
}

// Go registers and starts a new controlled thread. Outside a controlled
// execution it is a plain go statement.
func Go(f func()) { GoNamed("", f) }

// GoNamed is Go with a thread name for traces.
func GoNamed(name string, f func()) {
	sc := s
	if sc == nil || !sc.active {
		if wg := freeWG; wg != nil {
			wg.Add(1)
			go func() { defer wg.Done(); f() }()
			return
		}
		go f()
		return
	}
	t := &thread{id: len(sc.threads), name: name, wake: make(chan struct{}), state: stRunnable, label: "start"}
	if name == "" {
		t.name = fmt.Sprintf("t%d", t.id)
	}
	sc.threads = append(sc.threads, t)
	go func() {
		<-t.wake
		t.goid = goid()
		defer func() {
			r := recover()
			if r != nil {
				if _, ok := r.(abortExec); !ok {
					buf := make([]byte, 4096)
					n := runtime.Stack(buf, false)
					if sc.exec.Panic == "" {
						sc.exec.Panic = fmt.Sprintf("thread %s: %v\n%s", t.name, r, buf[:n])
					}
				}
			}
			t.state = stDone
			for _, o := range sc.threads {
				if o.state == stBlocked && o.on == joinObj {
					o.state = stRunnable
					o.on = nil
				}
			}
			sc.yield <- struct{}{}
		}()
		if sc.aborting {
			return
		}
		f()
	}()
}

// Choose is an environment decision with n alternatives; alternative 0 is the
// default, any other costs one deviation.
func Choose(n int, label string) int {
	sc := s
	if sc == nil || !sc.active {
		return 0
	}
	if n <= 1 {
		return 0
	}
	if sc.aborting {
		return 0
	}
	sc.checkCaller("Choose(" + label + ")")
	return sc.decide(n, false, true, label)
}

func (sc *sched) decide(n int, runningEnabled, env bool, label string) int {
	i := len(sc.exec.Points)
	c := 0
	if i < len(sc.prefix) {
		c = sc.prefix[i]
		if c >= n {
			sc.exec.Diverged = fmt.Sprintf("point %d: prefix choice %d but only %d alternatives (%s)", i, c, n, label)
			c = 0
		}
	}
	sc.exec.Points = append(sc.exec.Points, PointRec{NEnabled: n, Chosen: c, RunningEnabled: runningEnabled, Env: env, Label: label})
	return c
}

// Run executes body under the scheduler, replaying prefix and then taking
// choice 0 everywhere. body runs as thread 0 ("main"); it should spawn worker
// threads with Go and may wait for them with vsync.WaitGroup or Join.
func Run(prefix []int, horizon int, body func()) *Exec {
	sc := &sched{yield: make(chan struct{}), prefix: prefix, exec: &Exec{}, horizon: horizon, active: true}
	s = sc
	GoNamed("main", body)
	var last *thread
	for {
		// collect enabled threads in canonical order
		var enabled []*thread
		if last != nil && last.state == stRunnable {
			enabled = append(enabled, last)
		}
		for _, t := range sc.threads {
			if t.state == stRunnable && t != last {
				enabled = append(enabled, t)
			}
		}
		if len(enabled) == 0 {
			for _, t := range sc.threads {
				if t.state != stDone {
					sc.exec.Deadlock = true
					sc.exec.Blocked = append(sc.exec.Blocked, fmt.Sprintf("%s@%s", t.name, t.label))
				}
			}
			break
		}
		sc.exec.Steps++
		if sc.exec.Steps > sc.horizon {
			sc.exec.Capped = true
			break
		}
		next := enabled[0]
		if len(enabled) > 1 {
			runningEnabled := last != nil && last.state == stRunnable
			c := sc.decide(len(enabled), runningEnabled, false, "")
			next = enabled[c]
			sc.exec.Points[len(sc.exec.Points)-1].Label = next.name + "@" + next.label
		}
		sc.cur = next
		last = next
		next.wake <- struct{}{}
		<-sc.yield
		if sc.exec.Panic != "" {
			break
		}
	}
	// tear down: abort all parked threads
	sc.aborting = true
	for _, t := range sc.threads {
		if t.state != stDone {
			sc.cur = t
			t.wake <- struct{}{}
			<-sc.yield
		}
	}
	sc.exec.ThreadOps = map[string]int{}
	for _, t := range sc.threads {
		sc.exec.ThreadOps[t.name] = t.ops
	}
	sc.active = false
	s = nil
	return sc.exec
}

// Join blocks the calling thread until all other threads have finished.
func Join() {
	sc := s
	if sc == nil || !sc.active {
		if wg := freeWG; wg != nil {
			wg.Wait()
		}
		return
	}
	me := sc.checkCaller("Join")
	for {
		if sc.aborting {
			panic(abortExec{})
		}
		all := true
		for _, t := range sc.threads {
			if t != me && t.state != stDone {
				all = false
			}
		}
		if all {
			return
		}
		// stay runnable-but-yielding would spin; block on a private object
		// that thread exit wakes.
		me.state = stBlocked
		me.on = joinObj
		me.label = "join"
		sc.park(me)
	}
}

var joinObj = new(int)

func init() { _ = joinObj }
